// elkh: harness binary. Sub-commands:
//
//	elkh exec            line protocol on stdin/stdout against the real packages
//	elkh probe NAME ...  finite tables probed from the real code, JSON on stdout
//	elkh run ...         program worker (see run.go)
//	elkh list            registered domains and probes
package main

import (
	"bufio"
	"encoding/json"
	"fmt"
	"os"
	"strings"

	"elkverif/hx"
	_ "elkverif/dom"
)

func main() {
	if len(os.Args) < 2 {
		fmt.Fprintln(os.Stderr, "usage: elkh exec|probe|run|list")
		os.Exit(2)
	}
	switch os.Args[1] {
	case "exec":
		execLoop()
	case "probe":
		if len(os.Args) < 3 {
			fmt.Fprintln(os.Stderr, "usage: elkh probe NAME [args]")
			os.Exit(2)
		}
		p, ok := hx.Probe(os.Args[2])
		if !ok {
			fmt.Fprintln(os.Stderr, "unknown probe", os.Args[2])
			os.Exit(2)
		}
		doc, err := p(os.Args[3:])
		if err != nil {
			fmt.Fprintln(os.Stderr, "probe failed:", err)
			os.Exit(3)
		}
		enc := json.NewEncoder(os.Stdout)
		enc.SetEscapeHTML(false)
		if err := enc.Encode(doc); err != nil {
			fmt.Fprintln(os.Stderr, err)
			os.Exit(3)
		}
	case "list":
		ex, pr := hx.Names()
		fmt.Println("exec:", strings.Join(ex, " "))
		fmt.Println("probe:", strings.Join(pr, " "))
	default:
		if f, ok := hx.Sub(os.Args[1]); ok {
			os.Exit(f(os.Args[2:]))
		}
		fmt.Fprintln(os.Stderr, "unknown sub-command", os.Args[1])
		os.Exit(2)
	}
}

func execLoop() {
	in := bufio.NewReaderSize(os.Stdin, 1<<20)
	out := bufio.NewWriterSize(os.Stdout, 1<<16)
	defer out.Flush()
	for {
		line, err := in.ReadString('\n')
		if len(line) == 0 && err != nil {
			return
		}
		line = strings.TrimRight(line, "\r\n")
		fields := strings.Split(line, "\t")
		var ans string
		if f, ok := hx.Exec(fields[0]); ok {
			ans = hx.SafeExec(f, fields[1:])
		} else {
			ans = "bad-domain"
		}
		out.WriteString(ans)
		out.WriteByte('\n')
		out.Flush() // flush per line: a fatal error must not lose earlier answers
		if err != nil {
			return
		}
	}
}
