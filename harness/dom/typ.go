package dom

import (
	"encoding/hex"
	"fmt"
	"sort"
	"strings"

	"elkverif/hx"

	"github.com/elk-language/elk/parser"
	"github.com/elk-language/elk/parser/ast"
	"github.com/elk-language/elk/types"
	"github.com/elk-language/elk/types/checker"
	"github.com/elk-language/elk/value"
)

// domain typ (C02): static types read off the real checked AST.
//
//	typ<TAB>probe<TAB>names(,)<TAB>hex(source)
//
// parses and type checks the source in-process (parser.Parse, checker.New().CheckProgram), then
// answers, for every identifier node whose name is listed, its source line, column and the subset
// of the probe universe {nil, false, true, 1, 2, "a"} that the node's static type admits — decided
// by the real Checker.IsSubtype(literalType, nodeType), bit mask nil=1 false=2 true=4 1=8 2=16 "a"=32:
//
//	ok fails=N | line:col:name=mask/cmask;…      (`?` when the node carries no type; cmask: bit i set iff the
//	                                              type intersects class i of ClassUniverse, Checker.TypesIntersect)
//	rejected <first failure message> | …   (same list; types of a rejected program are still reported)
func init() { hx.RegisterExec("typ", execTyp) }

// ClassUniverse: std classes a run-time value of the sweep programs can have
var ClassUniverse = []string{"Nil", "False", "True", "Int", "Float", "String", "Symbol", "Char", "ArrayList", "ArrayTuple",
	"HashMap", "HashRecord", "HashSet", "Regex", "ClosedRange", "Pair", "BigFloat"}

func execTyp(f []string) string {
	if len(f) != 3 || f[0] != "probe" {
		return "bad-op"
	}
	srcBytes, err := hex.DecodeString(f[2])
	if err != nil {
		return "bad-op"
	}
	names := map[string]bool{}
	for _, n := range strings.Split(f[1], ",") {
		names[n] = true
	}
	name := "/tmp/typprobe.elk"
	prog, perr := parser.Parse(name, string(srcBytes))
	if perr != nil {
		return "rejected parse: " + oneLine(perr.Error())
	}
	c := checker.New()
	c.Filename = name
	c.CheckProgram(prog)
	diags := c.Errors.DiagnosticList
	firstFail := ""
	fails := 0
	for _, d := range diags {
		if d.Severity.String() == "FAIL" {
			fails++
			if firstFail == "" {
				firstFail = d.Message
			}
		}
	}
	env := c.Env()
	universe := []types.Type{
		types.Nil{}, types.False{}, types.True{},
		types.NewIntLiteral("1"), types.NewIntLiteral("2"), types.NewStringLiteral("a"),
	}
	exact := []types.Type{
		types.Nil{}, types.False{}, types.True{},
		types.NewExact(c.StdInt()), types.NewExact(c.StdInt()), types.NewExact(c.StdString()),
	}
	// class universe for values outside the probe universe: bit i set iff the static type intersects class i
	// (Checker.TypesIntersect) — Nil False True Int Float String Symbol Char ArrayList ArrayTuple HashMap HashRecord
	// HashSet Regex ClosedRange Pair BigFloat
	var classes []types.Type
	for _, n := range ClassUniverse {
		classes = append(classes, c.Std(value.ToSymbol(n)))
	}
	type rec struct {
		line, col int
		s         string
	}
	var out []rec
	ast.Traverse(prog, func(node, parent ast.Node) ast.TraverseOption {
		id, ok := node.(*ast.PublicIdentifierNode)
		if !ok || !names[id.Value] {
			return ast.TraverseContinue
		}
		loc := id.Location()
		line, col := 0, 0
		if loc != nil && loc.StartPos != nil {
			line, col = loc.StartPos.Line, loc.StartPos.Column
		}
		typ := id.Type(env)
		mask := "?"
		if typ != nil {
			if _, untyped := typ.(types.Untyped); !untyped {
				m := 0
				for i, u := range universe {
					// `x <<: C` narrows to the exact type %C, of which the checker does not consider the
					// literal types `1`, `"a"` subtypes: ask for the exact class of the literal as well
					if c.IsSubtype(u, typ) || c.IsSubtype(exact[i], typ) {
						m |= 1 << i
					}
				}
				mask = fmt.Sprint(m)
			}
		}
		cmask := "?"
		if mask != "?" {
			cm := 0
			for i, k := range classes {
				if c.TypesIntersect(k, typ) {
					cm |= 1 << i
				}
			}
			cmask = fmt.Sprint(cm)
		}
		out = append(out, rec{line, col, fmt.Sprintf("%d:%d:%s=%s/%s", line, col, id.Value, mask, cmask)})
		return ast.TraverseContinue
	}, nil)
	sort.SliceStable(out, func(i, j int) bool {
		if out[i].line != out[j].line {
			return out[i].line < out[j].line
		}
		return out[i].col < out[j].col
	})
	parts := make([]string, len(out))
	for i, r := range out {
		parts[i] = r.s
	}
	head := fmt.Sprintf("ok fails=%d", fails)
	if fails > 0 {
		head = "rejected " + oneLine(firstFail)
	}
	return head + " | " + strings.Join(parts, ";")
}

func oneLine(s string) string {
	s = strings.Join(strings.Fields(s), " ")
	if len(s) > 200 {
		s = s[:200]
	}
	return s
}
