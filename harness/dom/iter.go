package dom

import (
	"fmt"
	"strconv"
	"strings"
	"sync"

	"elkverif/hx"

	"github.com/elk-language/elk/bitfield"
	"github.com/elk-language/elk/types/checker"
	"github.com/elk-language/elk/value"
	"github.com/elk-language/elk/vm"
)

// domain iter (C23): see lean/Driver/Dom/Iter.lean for the grammar.
//
// The receiver is built by evaluating a small Elk expression (so it is exactly the value an Elk
// program would hold: `[1, 2]`, `^[3, 1]`, `1<..5`, `(1...5).iter`, a closed channel, a generator);
// the operation is either the native registered on Std::Iterable::FiniteBase / Base called
// directly (mode n) or a normal method call on the receiver (mode d). Closures come from a pool
// of Go native closures.
func init() { hx.RegisterExec("iter", execIter) }

var (
	iterMu    sync.Mutex
	iterCache = map[string]*vm.BytecodeFunction{}
	iterSeq   int
)

var iterTh *vm.Thread

// one VM thread is reused across lines (creating one allocates the full value and call stacks)
func iterThread() *vm.Thread {
	if iterTh == nil {
		iterTh = vm.New()
	}
	return iterTh
}

// compile (cached) and evaluate an Elk snippet; returns the value of its last expression
func iterEval(th *vm.Thread, src string) (value.Value, string) {
	iterMu.Lock()
	fn, ok := iterCache[src]
	if !ok {
		iterSeq++
		name := fmt.Sprintf("/tmp/iter%d.elk", iterSeq)
		var diags interface{ IsFailure() bool }
		f, d := checker.CheckSource(name, strings.ReplaceAll(src, "@N@", strconv.Itoa(iterSeq)), nil, bitfield.BitField16{}, nil)
		diags = d
		if d != nil && diags.IsFailure() {
			iterMu.Unlock()
			msg := ""
			for _, x := range d {
				msg += x.Message + "; "
			}
			return value.Undefined, "bad-source " + hx.PanicClass(msg)
		}
		fn = f
		iterCache[src] = fn
	}
	iterMu.Unlock()
	res, err := th.InterpretTopLevel(fn)
	if !err.IsUndefined() {
		return value.Undefined, "bad-source-run " + hx.PanicClass(err.Inspect())
	}
	return res, ""
}

func iterInts(s string) ([]int, bool) {
	if s == "" {
		return nil, true
	}
	p := strings.Split(s, ",")
	out := make([]int, len(p))
	for i, x := range p {
		v, err := strconv.Atoi(x)
		if err != nil {
			return nil, false
		}
		out[i] = v
	}
	return out, true
}

func elkInts(xs []int) string {
	p := make([]string, len(xs))
	for i, x := range xs {
		if x < 0 {
			p[i] = "(" + strconv.Itoa(x) + ")"
		} else {
			p[i] = strconv.Itoa(x)
		}
	}
	return strings.Join(p, ", ")
}

func elkInt(s string) (string, bool) {
	v, err := strconv.Atoi(s)
	if err != nil {
		return "", false
	}
	if v < 0 {
		return "(" + s + ")", true
	}
	return s, true
}

var rangeOps = map[string]string{"cr": "...", "or": "<.<", "lor": "<..", "ror": "..<", "ecr": "...", "eor": "<..", "bcr": "...", "bor": "..<"}

// Elk source of a range kind with the given bound fields
func rangeSrc(kind string, b []string) (string, bool) {
	op, ok := rangeOps[kind]
	if !ok {
		return "", false
	}
	switch kind {
	case "cr", "or", "lor", "ror":
		if len(b) != 2 {
			return "", false
		}
		lo, ok1 := elkInt(b[0])
		hi, ok2 := elkInt(b[1])
		return "(" + lo + op + hi + ")", ok1 && ok2
	case "ecr", "eor":
		if len(b) != 1 {
			return "", false
		}
		lo, ok1 := elkInt(b[0])
		return "(" + lo + op + ")", ok1
	default:
		if len(b) != 1 {
			return "", false
		}
		hi, ok1 := elkInt(b[0])
		return "(" + op + hi + ")", ok1
	}
}

// builds the receiver; skip = number of `next` calls to make first; ord = expected iteration order (sets)
func iterSource(th *vm.Thread, spec string) (self value.Value, oneShot bool, bad string) {
	f := strings.Split(spec, ":")
	kind := f[0]
	skip := 0
	var src string
	var ord []int
	checkOrd := false
	switch kind {
	case "list", "tuple", "listit", "tupleit", "chan", "gen":
		if len(f) < 2 {
			return value.Undefined, false, "bad-op"
		}
		xs, ok := iterInts(f[1])
		if !ok {
			return value.Undefined, false, "bad-op"
		}
		switch kind {
		case "list", "listit":
			// `[]` alone has no element type: build the empty list by removing the element
			src = "a := [" + elkInts(xs) + "]\na"
			if len(xs) == 0 {
				src = "a := [0]\na.remove_at(0)\na"
			}
		case "tuple", "tupleit":
			src = "a := %[" + elkInts(xs) + "]\na"
			if len(xs) == 0 {
				src = "a := [0]\na.remove_at(0)\na.to_tuple"
			}
		case "chan":
			src = fmt.Sprintf("ch := Channel::[Int](%d)\n", len(xs)+1)
			for _, x := range xs {
				src += fmt.Sprintf("ch << %s\n", elkInts([]int{x}))
			}
			src += "ch.close\nch"
		case "gen":
			// a generator yields its `yield`ed values and then its final value
			if len(xs) == 0 {
				return value.Undefined, false, "bad-op"
			}
			src = "module IterGen@N@\n  def *g: Int\n"
			for _, x := range xs[:len(xs)-1] {
				src += "    yield " + elkInts([]int{x}) + "\n"
			}
			src += "    " + elkInts(xs[len(xs)-1:]) + "\n  end\nend\nIterGen@N@.g"
		}
		if kind == "listit" || kind == "tupleit" {
			if len(f) != 3 {
				return value.Undefined, false, "bad-op"
			}
			k, err := strconv.Atoi(f[2])
			if err != nil {
				return value.Undefined, false, "bad-op"
			}
			skip = k
			src = strings.TrimSuffix(src, "\na") + "\na.iter"
			if kind == "tupleit" && len(xs) == 0 {
				src = "a := [0]\na.remove_at(0)\na.to_tuple.iter"
			}
			oneShot = true
		}
		if kind == "chan" || kind == "gen" {
			oneShot = true
		}
	case "set", "setit":
		if len(f) < 3 {
			return value.Undefined, false, "bad-op"
		}
		xs, ok := iterInts(f[1])
		o, ok2 := iterInts(f[2])
		if !ok || !ok2 {
			return value.Undefined, false, "bad-op"
		}
		ord, checkOrd = o, true
		src = "a := ^[" + elkInts(xs) + "]\na"
		if len(xs) == 0 {
			src = "a := ^[0]\na.remove(0)\na"
		}
		if kind == "setit" {
			if len(f) != 4 {
				return value.Undefined, false, "bad-op"
			}
			k, err := strconv.Atoi(f[3])
			if err != nil {
				return value.Undefined, false, "bad-op"
			}
			skip = k
			oneShot = true
		}
	default:
		isIt := strings.HasPrefix(kind, "it.")
		k := strings.TrimPrefix(kind, "it.")
		b := f[1:]
		if isIt {
			if len(b) < 1 {
				return value.Undefined, false, "bad-op"
			}
			n, err := strconv.Atoi(b[len(b)-1])
			if err != nil {
				return value.Undefined, false, "bad-op"
			}
			skip = n
			b = b[:len(b)-1]
			oneShot = true
		}
		rs, ok := rangeSrc(k, b)
		if !ok {
			return value.Undefined, false, "bad-op"
		}
		src = "r := " + rs + "\nr"
		if isIt {
			src = "r := " + rs + "\nr.iter"
		}
	}
	v, bad := iterEval(th, src)
	if bad != "" {
		return value.Undefined, false, bad
	}
	if checkOrd {
		got, _ := iterPeek(th, v, 1000)
		if fmt.Sprint(got) != fmt.Sprint(ord) && !(len(got) == 0 && len(ord) == 0) {
			return value.Undefined, false, "bad-order " + iterList(got)
		}
		if kind == "setit" {
			it, err := th.CallMethodByName(value.ToSymbol("iter"), v)
			if !err.IsUndefined() {
				return value.Undefined, false, "bad-source-iter"
			}
			v = it
		}
	}
	for i := 0; i < skip; i++ {
		th.CallMethodByName(value.ToSymbol("next"), v) // result and :stop_iteration ignored
	}
	return v, oneShot, ""
}

func iterList(xs []int) string {
	p := make([]string, len(xs))
	for i, x := range xs {
		p[i] = strconv.Itoa(x)
	}
	return strings.Join(p, ",")
}

// iterate the receiver (as a `for` loop does) and collect at most cap Int elements
func iterPeek(th *vm.Thread, self value.Value, cap int) (out []int, ended bool) {
	ended = true
	for elem, err := range vm.Iterate(th, self) {
		if !err.IsUndefined() {
			return out, true
		}
		if len(out) >= cap {
			return out, false
		}
		if !elem.IsSmallInt() {
			out = append(out, -999999)
			continue
		}
		out = append(out, int(elem.AsSmallInt()))
	}
	return out, ended
}

func intArg(v value.Value) (int, bool) {
	if v.IsSmallInt() {
		return int(v.AsSmallInt()), true
	}
	return 0, false
}

func mkInt(i int) value.Value { return value.SmallInt(i).ToValue() }

func closure1(f func(int) value.Value) value.Value {
	return value.Ref(vm.NewNativeClosure(func(_ *vm.Thread, args []value.Value) (value.Value, value.Value) {
		x, _ := intArg(args[0])
		return f(x), value.Undefined
	}, 1, nil))
}

func closure2(f func(a, b int) int) value.Value {
	return value.Ref(vm.NewNativeClosure(func(_ *vm.Thread, args []value.Value) (value.Value, value.Value) {
		a, _ := intArg(args[0])
		b, _ := intArg(args[1])
		return mkInt(f(a, b)), value.Undefined
	}, 2, nil))
}

func iterFn1(s string) (value.Value, bool) {
	switch s {
	case "mul2":
		return closure1(func(x int) value.Value { return mkInt(x * 2) }), true
	case "add1":
		return closure1(func(x int) value.Value { return mkInt(x + 1) }), true
	case "neg":
		return closure1(func(x int) value.Value { return mkInt(-x) }), true
	case "sq":
		return closure1(func(x int) value.Value { return mkInt(x * x) }), true
	case "id":
		return closure1(func(x int) value.Value { return mkInt(x) }), true
	case "const7":
		return closure1(func(x int) value.Value { return mkInt(7) }), true
	}
	return value.Undefined, false
}

func iterPred(s string) (value.Value, bool) {
	p := strings.Split(s, ":")
	b := func(f func(int) bool) value.Value {
		return closure1(func(x int) value.Value { return value.BoolVal(f(x)) })
	}
	if len(p) == 2 {
		k, err := strconv.Atoi(p[1])
		if err != nil {
			return value.Undefined, false
		}
		switch p[0] {
		case "gt":
			return b(func(x int) bool { return x > k }), true
		case "lt":
			return b(func(x int) bool { return x < k }), true
		case "eq":
			return b(func(x int) bool { return x == k }), true
		}
		return value.Undefined, false
	}
	switch s {
	case "even":
		return b(func(x int) bool { return x%2 == 0 }), true
	case "odd":
		return b(func(x int) bool { return x%2 != 0 }), true
	case "tt":
		return b(func(x int) bool { return true }), true
	case "ff":
		return b(func(x int) bool { return false }), true
	}
	return value.Undefined, false
}

func iterFn2(s string) (value.Value, bool) {
	switch s {
	case "add":
		return closure2(func(a, b int) int { return a + b }), true
	case "mul":
		return closure2(func(a, b int) int { return a * b }), true
	case "max":
		return closure2(func(a, b int) int {
			if a < b {
				return b
			}
			return a
		}), true
	case "sub":
		return closure2(func(a, b int) int { return a - b }), true
	case "fst":
		return closure2(func(a, b int) int { return a }), true
	case "snd":
		return closure2(func(a, b int) int { return b }), true
	}
	return value.Undefined, false
}

// operation arguments as Elk values
func iterArgs(op []string) ([]value.Value, bool) {
	conv := func(kind byte, s string) (value.Value, bool) {
		switch kind {
		case 'f':
			return iterFn1(s)
		case 'p':
			return iterPred(s)
		case 'g':
			return iterFn2(s)
		default:
			v, err := strconv.Atoi(s)
			return mkInt(v), err == nil
		}
	}
	sig, ok := map[string]string{
		"map": "f", "filter": "p", "reject": "p", "count": "p", "any": "p", "every": "p", "find": "p", "try_find": "p",
		"index_of": "i", "find_index": "p", "contains": "i", "is_empty": "", "first": "", "try_first": "", "last": "",
		"try_last": "", "take": "i", "drop": "i", "take_while": "p", "drop_while": "p", "reduce": "g", "fold": "ig",
		"to_list": "", "to_tuple": "", "length": "", "rcontains": "i",
	}[op[0]]
	if !ok || len(sig) != len(op)-1 {
		return nil, false
	}
	out := make([]value.Value, len(sig))
	for i := range sig {
		v, ok := conv(sig[i], op[i+1])
		if !ok {
			return nil, false
		}
		out[i] = v
	}
	return out, true
}

func iterShow(th *vm.Thread, v value.Value) string {
	if v.IsUndefined() {
		return "ok undefined"
	}
	if v.IsSmallInt() {
		return "ok " + strconv.Itoa(int(v.AsSmallInt()))
	}
	if v == value.Nil {
		return "ok nil"
	}
	if v == value.True.ToValue() {
		return "ok true"
	}
	if v == value.False.ToValue() {
		return "ok false"
	}
	if v.IsReference() {
		switch v.AsReference().(type) {
		case *value.ArrayListOfValue, *value.ArrayTupleOfValue:
			xs, _ := iterPeek(th, v, 100000)
			return "ok [" + iterList(xs) + "]"
		}
		// any other collection (specialised lists/tuples, sets): print its elements, tagged by class when unexpected
		cls := v.Class().Name
		if strings.Contains(cls, "List") || strings.Contains(cls, "Tuple") {
			xs, _ := iterPeek(th, v, 100000)
			return "ok [" + iterList(xs) + "]"
		}
		return "ok ?" + hx.PanicClass(v.Inspect())
	}
	return "ok ?" + hx.PanicClass(v.Inspect())
}

func iterErr(err value.Value) string {
	cls := err.Class()
	switch cls {
	case value.IterableNotFoundErrorClass:
		return "err NotFound"
	case value.OutOfRangeErrorClass:
		return "err OutOfRange"
	}
	if cls != nil {
		return "err " + cls.Name
	}
	return "err ?"
}

func execIter(f []string) (ans string) {
	if len(f) < 3 {
		return "bad-op"
	}
	mode, spec, op := f[0], f[1], f[2:]
	th := iterThread()
	defer func() {
		if strings.HasPrefix(ans, "panic") {
			iterTh = nil // do not reuse a thread that unwound through a Go panic
		}
	}()
	self, oneShot, bad := iterSource(th, spec)
	_ = oneShot
	if bad != "" {
		return bad
	}
	args, ok := iterArgs(op)
	if !ok {
		return "bad-op"
	}
	if op[0] == "rcontains" {
		res, err := th.CallMethodByName(value.ToSymbol("contains"), self, args[0])
		if !err.IsUndefined() {
			return iterErr(err)
		}
		return iterShow(th, res)
	}
	full := append([]value.Value{self}, args...)
	var res, err value.Value
	name := value.ToSymbol(op[0])
	if _, native := self.ToInterface().(value.NativeIterable); !native {
		if _, nativeIt := self.ToInterface().(value.NativeIterator); !nativeIt && self.DirectClass().LookupMethod(value.ToSymbol("iter")) == nil {
			return "err NoIter"
		}
	}
	if mode == "d" && self.DirectClass().LookupMethod(name) == nil {
		// declared in the headers (the line would not be generated otherwise) but absent at run time
		return "missing " + self.DirectClass().Name + "#" + op[0]
	}
	func() {
		// a missing `iter` on the receiver surfaces as a panic inside the native: classify it
		defer func() {
			if r := recover(); r != nil {
				msg := fmt.Sprint(r)
				if strings.Contains(msg, "(:iter)") {
					ans = "err NoIter"
				} else if strings.Contains(msg, "invalid method") {
					ans = "panic invalid-method " + hx.PanicClass(msg)
				} else {
					ans = "panic " + hx.PanicClass(msg)
				}
			}
		}()
		switch mode {
		case "n":
			c := value.IterableFiniteBaseMixin
			if op[0] == "length" {
				c = value.IterableBaseMixin
			}
			m := c.Methods[name]
			if m == nil {
				ans = "bad-native"
				return
			}
			res, err = m.(*vm.NativeMethod).Function(th, full)
		case "d":
			res, err = th.CallMethodByName(name, full...)
		default:
			ans = "bad-op"
		}
	}()
	if ans != "" {
		return ans
	}
	var out string
	if !err.IsUndefined() {
		out = iterErr(err)
	} else {
		out = iterShow(th, res)
	}
	after, ended := iterPeek(th, self, 5)
	mark := "+"
	if ended {
		mark = "."
	}
	return out + " | " + iterList(after) + mark
}
