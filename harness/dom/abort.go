package dom

// C33 dynamic leg: `elkh abortrun` compiles a program with AdditionalAbortChecks (as the REPL does),
// runs it on a VM with its own aborter, cancels the aborter after delay_ms and reports how the run ended
// within grace_ms after the cancellation. A program that does not stop keeps its goroutine spinning, so the
// worker exits after answering (the Python side restarts it).

import (
	"bufio"
	"bytes"
	"encoding/json"
	"fmt"
	"os"
	"runtime/debug"
	"strings"
	"time"

	"elkverif/hx"

	"github.com/elk-language/elk/bitfield"
	"github.com/elk-language/elk/types/checker"
	"github.com/elk-language/elk/value"
	"github.com/elk-language/elk/vm"
)

func init() { hx.RegisterSub("abortrun", abortWorker) }

type AbortReq struct {
	ID      string `json:"id"`
	Src     string `json:"src"`
	DelayMs int    `json:"delay_ms"` // cancel this long after the program started
	GraceMs int    `json:"grace_ms"` // default 1000
	NoFlag  bool   `json:"no_flag"`  // compile without AdditionalAbortChecks (control experiment)
}

type AbortAns struct {
	ID       string   `json:"id"`
	Outcome  string   `json:"outcome"` // aborted | finished | error | panic | hang | rejected
	ErrClass string   `json:"err_class,omitempty"`
	ErrMsg   string   `json:"err_msg,omitempty"`
	Panic    string   `json:"panic,omitempty"`
	Diags    []string `json:"diags,omitempty"`
	StopMs   int64    `json:"stop_ms"` // time from cancellation to the end of the run (-1: ended before the cancel)
	Stdout   string   `json:"stdout"`
}

func abortWorker(args []string) int {
	in := bufio.NewReaderSize(os.Stdin, 1<<22)
	out := bufio.NewWriter(os.Stdout)
	for {
		line, err := in.ReadString('\n')
		if len(strings.TrimSpace(line)) > 0 {
			var req AbortReq
			if e := json.Unmarshal([]byte(line), &req); e != nil {
				fmt.Fprintln(out, `{"outcome":"bad-request"}`)
			} else {
				ans := abortOne(&req)
				b, _ := json.Marshal(ans)
				out.Write(b)
				out.WriteByte('\n')
				out.Flush()
				if ans.Outcome == "hang" {
					return 3
				}
			}
			out.Flush()
		}
		if err != nil {
			return 0
		}
	}
}

func abortOne(req *AbortReq) *AbortAns {
	ans := &AbortAns{ID: req.ID, StopMs: -1}
	grace := time.Duration(req.GraceMs) * time.Millisecond
	if grace == 0 {
		grace = time.Second
	}
	var flags bitfield.BitField16
	if !req.NoFlag {
		flags = bitfield.BitField16FromBitFlag(checker.AdditionalAbortChecks)
	}
	var fn *vm.BytecodeFunction
	func() {
		defer func() {
			if r := recover(); r != nil {
				ans.Outcome = "panic"
				ans.Panic = "compile: " + hx.PanicClass(r)
			}
		}()
		f, diags := checker.CheckSource("/tmp/"+req.ID+".elk", req.Src, nil, flags, nil)
		if diags != nil && diags.IsFailure() {
			ans.Outcome = "rejected"
			for i, d := range diags {
				if i < 3 {
					ans.Diags = append(ans.Diags, d.Message)
				}
			}
			return
		}
		fn = f
	}()
	if fn == nil {
		if ans.Outcome == "" {
			ans.Outcome = "rejected"
		}
		return ans
	}

	aborter := value.NewCancelAborter(value.GLOBAL_ABORTER)
	var stdout bytes.Buffer
	done := make(chan struct{})
	var res AbortAns
	go func() {
		defer close(done)
		defer func() {
			if r := recover(); r != nil {
				res.Outcome = "panic"
				res.Panic = hx.PanicClass(r) + " @ " + firstFrames(debug.Stack())
			}
		}()
		v := vm.New(vm.WithStdout(&stdout), vm.WithAborter(aborter))
		_, elkErr := v.InterpretTopLevel(fn)
		if elkErr.IsUndefined() {
			res.Outcome = "finished"
			return
		}
		res.ErrClass = elkErr.Class().Name
		if elkErr == value.ExecutionAbortedError.ToValue() || elkErr.Class() == value.ExecutionAbortedErrorClass {
			res.Outcome = "aborted"
			return
		}
		res.Outcome = "error"
		res.ErrMsg = elkErr.Inspect()
		if len(res.ErrMsg) > 200 {
			res.ErrMsg = res.ErrMsg[:200]
		}
	}()

	select {
	case <-done:
		// ended before the cancellation
	case <-time.After(time.Duration(req.DelayMs) * time.Millisecond):
		cancelled := time.Now()
		aborter.Close()
		select {
		case <-done:
			res.StopMs = time.Since(cancelled).Milliseconds()
		case <-time.After(grace):
			ans.Outcome = "hang"
			ans.StopMs = grace.Milliseconds()
			s := stdout.String()
			if len(s) > 200 {
				s = s[:200]
			}
			ans.Stdout = s
			return ans
		}
	}
	ans.Outcome, ans.ErrClass, ans.ErrMsg, ans.Panic = res.Outcome, res.ErrClass, res.ErrMsg, res.Panic
	if res.StopMs >= 0 {
		ans.StopMs = res.StopMs
	}
	s := stdout.String()
	if len(s) > 200 {
		s = s[:200]
	}
	ans.Stdout = s
	return ans
}
