package dom

import (
	"fmt"
	"strconv"
	"strings"
	"sync"

	"elkverif/hx"

	"github.com/elk-language/elk/value"
	"github.com/elk-language/elk/vm"
)

// domain seq (C24): see lean/Driver/Dom/Seq.lean for the grammar.
// Every op runs against the real list implementations through the value.ArrayList /
// value.ArrayTuple interfaces (and the concrete *ArrayListOfValue for Expand/AppendAtInt);
// `v*` ops call the registered native methods of Std::ArrayList through a vm thread.
func init() {
	hx.RegisterExec("seq", execSeq)
	hx.RegisterProbe("growcap", probeGrowCap)
}

var (
	collVMOnce sync.Once
	collVM     *vm.Thread
)

func collThread() *vm.Thread {
	collVMOnce.Do(func() { collVM = vm.New() })
	return collVM
}

// ---- element encodings

func seqEnc(elem string, tok string) (value.Value, bool) {
	switch tok {
	case "u":
		return value.Undefined, true
	case "n":
		return value.Nil, true
	}
	n, err := strconv.ParseInt(tok, 10, 64)
	if err != nil {
		return value.Undefined, false
	}
	switch elem {
	case "i64":
		return value.Int64(n).ToValue(), true
	case "f":
		return value.Float(float64(n)).ToValue(), true
	case "str":
		return value.Ref(value.String(strconv.FormatInt(n, 10))), true
	case "u8":
		return value.UInt8(n).ToValue(), true
	default:
		return value.SmallInt(n).ToValue(), true
	}
}

func seqDec(v value.Value) string {
	if v.IsUndefined() {
		return "u"
	}
	if v.IsNil() {
		return "n"
	}
	switch x := v.ToInterface().(type) {
	case value.SmallInt:
		return strconv.FormatInt(int64(x), 10)
	case value.Int64:
		return strconv.FormatInt(int64(x), 10)
	case value.UInt8:
		return strconv.FormatInt(int64(x), 10)
	case value.Float:
		return strconv.FormatInt(int64(float64(x)), 10)
	case value.String:
		return string(x)
	}
	return "?" + v.Inspect()
}

func seqEncList(elem, s string) ([]value.Value, bool) {
	if s == "-" {
		return nil, true
	}
	var out []value.Value
	for _, t := range strings.Split(s, ",") {
		v, ok := seqEnc(elem, t)
		if !ok {
			return nil, false
		}
		out = append(out, v)
	}
	return out, true
}

func mkNative[T value.ValueInterface](extraCap int, xs []value.Value) value.ArrayList {
	l := value.NewNativeArrayList[T](len(xs) + extraCap)
	for _, x := range xs {
		t, ok := value.Downcast[T](x)
		if !ok {
			panic("harness: element does not fit the native element type")
		}
		l.Append(t)
	}
	return l
}

func mkNativeTuple[T value.ValueInterface](xs []value.Value) value.ArrayTuple {
	l := value.NewNativeArrayTuple[T](len(xs))
	for _, x := range xs {
		t, ok := value.Downcast[T](x)
		if !ok {
			panic("harness: element does not fit the native element type")
		}
		l.Append(t)
	}
	return l
}

// seqNew builds a list/tuple of the implementation named by impl:
// v | i64 | f | str | u8 (lists), tv | ti64 | tstr (tuples)
func seqNew(impl string, extraCap int, xs []value.Value) value.ArrayTuple {
	switch impl {
	case "v":
		return value.NewArrayListOfValueWithElements(extraCap, xs...)
	case "i64":
		return mkNative[value.Int64](extraCap, xs)
	case "f":
		return mkNative[value.Float](extraCap, xs)
	case "str":
		return mkNative[value.String](extraCap, xs)
	case "u8":
		return mkNative[value.UInt8](extraCap, xs)
	case "tv":
		return value.NewArrayTupleOfValueWithElements(extraCap, xs...)
	case "ti64":
		return mkNativeTuple[value.Int64](xs)
	case "tstr":
		return mkNativeTuple[value.String](xs)
	}
	panic("harness: unknown implementation " + impl)
}

// element encoding used by an implementation
func implElem(impl string) string {
	switch impl {
	case "tv":
		return "v"
	case "ti64":
		return "i64"
	case "tstr":
		return "str"
	}
	return impl
}

type seqObj struct {
	t    value.ArrayTuple
	impl string
}

func (o *seqObj) list() value.ArrayList {
	l, ok := o.t.(value.ArrayList)
	if !ok {
		panic("harness: list operation on a tuple")
	}
	return l
}

func (o *seqObj) capacity() int {
	if l, ok := o.t.(value.ArrayList); ok {
		return l.Capacity()
	}
	switch t := o.t.(type) {
	case *value.ArrayTupleOfValue:
		return cap(*t)
	}
	return -1
}

func seqSnap(objs []*seqObj, caps bool) []string {
	out := make([]string, len(objs))
	for i, o := range objs {
		var sb strings.Builder
		sb.WriteByte('[')
		n := o.t.Length()
		for j := 0; j < n; j++ {
			if j > 0 {
				sb.WriteByte(',')
			}
			sb.WriteString(seqDec(o.t.AtVal(j)))
		}
		sb.WriteByte(']')
		if caps {
			fmt.Fprintf(&sb, ":%d", o.capacity())
		}
		out[i] = sb.String()
	}
	return out
}

func seqErr(err value.Value) string {
	cls := err.Class()
	msg := ""
	if value.IsA(err, value.ErrorClass) {
		m := (*value.Object)(err.Pointer()).Message()
		if m.IsReference() {
			if s, ok := m.AsReference().(value.String); ok {
				msg = string(s)
			}
		}
	}
	switch {
	case cls == value.IndexErrorClass:
		return "err:OutOfRange"
	case cls == value.OutOfRangeErrorClass && strings.Contains(msg, "negative indices"):
		return "err:NegIndex"
	case cls == value.OutOfRangeErrorClass && strings.Contains(msg, "count cannot be negative"):
		return "err:NegCount"
	case cls == value.OutOfRangeErrorClass && strings.Contains(msg, "count is too large"):
		return "err:TooLarge"
	case cls == value.OutOfRangeErrorClass && strings.Contains(msg, "capacity cannot be negative"):
		return "err:NegCap"
	case cls == value.TypeErrorClass:
		return "err:Type"
	}
	if cls != nil {
		return "err:" + cls.Name
	}
	return "err:?"
}

func seqBool(v value.Value) string {
	if value.Truthy(v) {
		return "b:true"
	}
	return "b:false"
}

func execSeq(f []string) string {
	if len(f) != 3 {
		return "bad-op"
	}
	elem, flags, opsS := f[0], f[1], f[2]
	caps := strings.Contains(flags, "c")
	var objs []*seqObj
	var outs []string
	if opsS == "" {
		return "ok "
	}
	prev := []string{}
	for _, opS := range strings.Split(opsS, ";") {
		ans := seqOp(elem, &objs, strings.Split(opS, " "))
		if strings.HasPrefix(ans, "bad") {
			return "bad-op"
		}
		now := seqSnap(objs, caps)
		var ch []string
		for i, s := range now {
			if i >= len(prev) || prev[i] != s {
				ch = append(ch, strconv.Itoa(i)+"="+s)
			}
		}
		prev = now
		outs = append(outs, ans+"|"+strings.Join(ch, "&"))
	}
	return "ok " + strings.Join(outs, " ; ")
}

func seqOp(elem string, objs *[]*seqObj, p []string) (ans string) {
	defer func() {
		if r := recover(); r != nil {
			s := hx.PanicClass(r)
			if strings.HasPrefix(s, "harness:") {
				ans = "bad-" + s
			} else {
				ans = "panic"
			}
		}
	}()
	name := p[0]
	impl := elem
	if i := strings.IndexByte(name, ':'); i >= 0 {
		impl = name[i+1:]
		name = name[:i]
	}
	args := p[1:]
	atoi := func(s string) int {
		n, err := strconv.ParseInt(s, 10, 64)
		if err != nil {
			panic("harness: bad integer " + s)
		}
		return int(n)
	}
	obj := func(s string) *seqObj {
		i := atoi(s)
		if i < 0 || i >= len(*objs) {
			panic("harness: dangling object id")
		}
		return (*objs)[i]
	}
	add := func(t value.ArrayTuple, impl string) string {
		*objs = append(*objs, &seqObj{t: t, impl: impl})
		return "o:" + strconv.Itoa(len(*objs)-1)
	}
	implOf := func(v value.Value) string {
		switch v.AsReference().(type) {
		case *value.ArrayListOfValue:
			return "v"
		case *value.ArrayTupleOfValue:
			return "tv"
		case *value.NativeArrayList[value.Int64]:
			return "i64"
		case *value.NativeArrayList[value.Float]:
			return "f"
		case *value.NativeArrayList[value.String]:
			return "str"
		case *value.NativeArrayList[value.UInt8]:
			return "u8"
		case *value.NativeArrayTuple[value.Int64]:
			return "ti64"
		case *value.NativeArrayTuple[value.String]:
			return "tstr"
		}
		panic("harness: unexpected result type " + fmt.Sprintf("%T", v.AsReference()))
	}
	need := func(n int) {
		if len(args) != n {
			panic("harness: arity")
		}
	}
	switch name {
	case "new":
		need(1)
		return add(seqNew(impl, atoi(args[0]), nil), impl)
	case "lit":
		need(2)
		xs, ok := seqEncList(implElem(impl), args[1])
		if !ok {
			return "bad-val"
		}
		return add(seqNew(impl, atoi(args[0]), xs), impl)
	case "wlen":
		need(1)
		return add(value.NewArrayListOfValueWithLength(atoi(args[0])), "v")
	case "push":
		need(2)
		o := obj(args[0])
		xs, ok := seqEncList(implElem(o.impl), args[1])
		if !ok {
			return "bad-val"
		}
		if err := o.t.AppendVal(xs...); !err.IsUndefined() {
			return seqErr(err)
		}
		return "-"
	case "get":
		need(2)
		v, err := obj(args[0]).t.SubscriptInt(atoi(args[1]))
		if !err.IsUndefined() {
			return seqErr(err)
		}
		return "v:" + seqDec(v)
	case "set":
		need(3)
		o := obj(args[0])
		v, ok := seqEnc(implElem(o.impl), args[2])
		if !ok {
			return "bad-val"
		}
		var err value.Value
		if l, isList := o.t.(value.ArrayList); isList {
			err = l.SubscriptSetInt(atoi(args[1]), v)
		} else {
			err = o.t.SubscriptSet(value.SmallInt(atoi(args[1])).ToValue(), v)
		}
		if !err.IsUndefined() {
			return seqErr(err)
		}
		return "-"
	case "at":
		need(2)
		return "v:" + seqDec(obj(args[0]).t.AtVal(atoi(args[1])))
	case "rme":
		need(2)
		if err := obj(args[0]).list().RemoveAtErr(atoi(args[1])); !err.IsUndefined() {
			return seqErr(err)
		}
		return "-"
	case "rm":
		need(2)
		obj(args[0]).list().RemoveAt(atoi(args[1]))
		return "-"
	case "grow":
		need(2)
		obj(args[0]).list().Grow(atoi(args[1]))
		return "-"
	case "exp":
		need(2)
		switch l := obj(args[0]).t.(type) {
		case *value.ArrayListOfValue:
			l.Expand(atoi(args[1]))
		case *value.ArrayTupleOfValue:
			l.Expand(atoi(args[1]))
		default:
			panic("harness: exp needs an OfValue list")
		}
		return "-"
	case "apat":
		need(3)
		v, ok := seqEnc("v", args[2])
		if !ok {
			return "bad-val"
		}
		var err value.Value
		switch l := obj(args[0]).t.(type) {
		case *value.ArrayListOfValue:
			err = l.AppendAtInt(atoi(args[1]), v)
		case *value.ArrayTupleOfValue:
			err = l.AppendAtInt(atoi(args[1]), v)
		default:
			panic("harness: apat needs an OfValue list")
		}
		if !err.IsUndefined() {
			return seqErr(err)
		}
		return "-"
	case "cat":
		need(2)
		a, b := obj(args[0]), obj(args[1])
		r, err := a.t.ConcatVal(b.t.ToValue())
		if !err.IsUndefined() {
			return seqErr(err)
		}
		return add(r.AsReference().(value.ArrayTuple), implOf(r))
	case "rep":
		need(2)
		a := obj(args[0])
		var n value.Value
		if args[1] == "big" {
			n = value.Ref(value.ParseBigIntPanic("100000000000000000000000", 10))
		} else {
			n = value.SmallInt(atoi(args[1])).ToValue()
		}
		r, err := a.t.RepeatVal(n)
		if !err.IsUndefined() {
			return seqErr(err)
		}
		return add(r.AsReference().(value.ArrayTuple), implOf(r))
	case "sl":
		need(3)
		a := obj(args[0])
		var r value.ArrayTuple
		if l, isList := a.t.(value.ArrayList); isList {
			r = l.SliceArrayList(atoi(args[1]), atoi(args[2]))
		} else {
			r = a.t.SliceArrayTuple(atoi(args[1]), atoi(args[2]))
		}
		return add(r, a.impl)
	case "cp":
		need(1)
		a := obj(args[0])
		r := a.t.(value.Reference).Copy()
		return add(r.(value.ArrayTuple), a.impl)
	case "cl":
		need(2)
		a := obj(args[0])
		var r value.ArrayTuple
		if l, isList := a.t.(value.ArrayList); isList {
			r = l.CloneArrayList(atoi(args[1]))
		} else {
			r = a.t.CloneArrayTuple(atoi(args[1]))
		}
		return add(r, a.impl)
	case "vsl":
		// `[]` with a range / Tuple#slice through the registered method
		need(4)
		o := obj(args[0])
		iv := func(s string) value.Value { return value.SmallInt(atoi(s)).ToValue() }
		var rng value.Value
		switch args[1] {
		case "cc":
			rng = value.Ref(value.NewClosedRange(iv(args[2]), iv(args[3])))
		case "oc":
			rng = value.Ref(value.NewLeftOpenRange(iv(args[2]), iv(args[3])))
		case "co":
			rng = value.Ref(value.NewRightOpenRange(iv(args[2]), iv(args[3])))
		case "oo":
			rng = value.Ref(value.NewOpenRange(iv(args[2]), iv(args[3])))
		case "bo":
			rng = value.Ref(value.NewBeginlessOpenRange(iv(args[3])))
		case "bc":
			rng = value.Ref(value.NewBeginlessClosedRange(iv(args[3])))
		case "eo":
			rng = value.Ref(value.NewEndlessOpenRange(iv(args[2])))
		case "ec":
			rng = value.Ref(value.NewEndlessClosedRange(iv(args[2])))
		default:
			panic("harness: range kind")
		}
		r, err := collThread().CallMethodByName(value.ToSymbol("slice"), o.t.ToValue(), rng)
		if !err.IsUndefined() {
			return seqErr(err)
		}
		res, ok := r.SafeAsReference().(value.ArrayTuple)
		if !ok {
			return "err:NotASequence"
		}
		// the slice of a list must be a list, of a tuple a tuple
		_, srcList := o.t.(value.ArrayList)
		_, resList := res.(value.ArrayList)
		if srcList != resList {
			return "err:WrongKind"
		}
		return add(res, implOf(r))
	case "vrem":
		need(2)
		o := obj(args[0])
		v, ok := seqEnc(implElem(o.impl), args[1])
		if !ok {
			return "bad-val"
		}
		r, err := collThread().CallMethodByName(value.ToSymbol("remove"), o.list().ToValue(), v)
		if !err.IsUndefined() {
			return seqErr(err)
		}
		return seqBool(r)
	case "veq":
		need(2)
		r, err := collThread().CallMethodByName(value.ToSymbol("=="), obj(args[0]).t.ToValue(), obj(args[1]).t.ToValue())
		if !err.IsUndefined() {
			return seqErr(err)
		}
		return seqBool(r)
	case "vcon":
		need(2)
		o := obj(args[0])
		v, ok := seqEnc(implElem(o.impl), args[1])
		if !ok {
			return "bad-val"
		}
		r, err := collThread().CallMethodByName(value.ToSymbol("contains"), o.t.ToValue(), v)
		if !err.IsUndefined() {
			return seqErr(err)
		}
		return seqBool(r)
	case "iter":
		need(2)
		it := obj(args[0]).t.IterTuple()
		var vs []string
		for k := atoi(args[1]); k > 0; k-- {
			v, err := it.NextValue()
			if !err.IsUndefined() {
				break
			}
			vs = append(vs, seqDec(v))
		}
		return "[" + strings.Join(vs, ",") + "]"
	case "len":
		need(1)
		return "v:" + strconv.Itoa(obj(args[0]).t.Length())
	}
	return "bad-unknown-op"
}

// probe growcap: capacity the runtime gives `append([]T(nil), make([]T, n)...)` for n < N,
// i.e. growslice's size-class rounding for element sizes 1, 8, 16, 24.
func probeGrowCap(args []string) (any, error) {
	n := 320
	if len(args) > 0 {
		if k, err := strconv.Atoi(args[0]); err == nil {
			n = k
		}
	}
	r1 := make([]int, n)
	r8 := make([]int, n)
	r16 := make([]int, n)
	r24 := make([]int, n)
	for i := 0; i < n; i++ {
		r1[i] = cap(append([]value.UInt8(nil), make([]value.UInt8, i)...))
		r8[i] = cap(append([]value.Int64(nil), make([]value.Int64, i)...))
		r16[i] = cap(append([]value.String(nil), make([]value.String, i)...))
		r24[i] = cap(append([]value.Value(nil), make([]value.Value, i)...))
	}
	return map[string]any{"round1": r1, "round8": r8, "round16": r16, "round24": r24}, nil
}
