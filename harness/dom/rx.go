package dom

import (
	"encoding/hex"
	"fmt"
	"os"
	"strconv"
	"strings"
	"time"

	"elkverif/hx"

	"github.com/elk-language/elk/bitfield"
	"github.com/elk-language/elk/regex"
	"github.com/elk-language/elk/regex/parser"
	"github.com/elk-language/elk/regex/parser/ast"
	"github.com/elk-language/elk/value"
)

// domain rx (C21, C03): see lean/Driver/Dom/Rx.lean for the grammar.
//
//	rx<TAB>tr<TAB>flags<TAB>pathex                real regex.parser.Parse + regex.Transpile
//	     -> `ast=<dump>|perr=<n> out=<hex>|terr=<hex of messages joined by \n>|-`
//	rx<TAB>match<TAB>flags<TAB>pathex<TAB>subjhex,subjhex,…   value.CompileRegex + Regex.MatchesString
//	     -> `ok 0110…` | `cerr transpile|go`
//	rx<TAB>comp<TAB>concat<TAB>f1<TAB>p1hex<TAB>f2<TAB>p2hex<TAB>subjects   Regex#+ then matches
//	rx<TAB>comp<TAB>repeat<TAB>f1<TAB>p1hex<TAB>n<TAB>-<TAB>subjects       Regex#* then matches
//	rx<TAB>comp<TAB>interp<TAB>f1<TAB>p1hex<TAB>f2<TAB>-<TAB>subjects      ToStringWithFlags() of r1 compiled under flags f2
func init() { hx.RegisterExec("rx", execRx) }

func hx0(s string) string {
	if s == "" {
		return "-"
	}
	return hex.EncodeToString([]byte(s))
}

func b01(b bool) string {
	if b {
		return "1"
	}
	return "0"
}

func dumpRx(n ast.Node, out *[]string) {
	add := func(s ...string) { *out = append(*out, s...) }
	switch n := n.(type) {
	case *ast.ConcatenationNode:
		add("cat", strconv.Itoa(len(n.Elements)))
		for _, e := range n.Elements {
			dumpRx(e, out)
		}
	case *ast.UnionNode:
		add("or")
		dumpRx(n.Left, out)
		dumpRx(n.Right, out)
	case *ast.ZeroOrOneQuantifierNode:
		add("q?", b01(n.Alt))
		dumpRx(n.Regex, out)
	case *ast.ZeroOrMoreQuantifierNode:
		add("q*", b01(n.Alt))
		dumpRx(n.Regex, out)
	case *ast.OneOrMoreQuantifierNode:
		add("q+", b01(n.Alt))
		dumpRx(n.Regex, out)
	case *ast.NQuantifierNode:
		add("qn", b01(n.Alt), hx0(n.N))
		dumpRx(n.Regex, out)
	case *ast.NMQuantifierNode:
		add("qnm", b01(n.Alt), hx0(n.N), hx0(n.M))
		dumpRx(n.Regex, out)
	case *ast.GroupNode:
		tag := "grp"
		if n.Regex == nil {
			tag = "grp0"
		}
		add(tag, hx0(n.Name), strconv.Itoa(int(n.SetFlags.Byte())), strconv.Itoa(int(n.UnsetFlags.Byte())), b01(n.NonCapturing))
		if n.Regex != nil {
			dumpRx(n.Regex, out)
		}
	case *ast.CharClassNode:
		add("cc", b01(n.Negated), strconv.Itoa(len(n.Elements)))
		for _, e := range n.Elements {
			dumpRx(e, out)
		}
	case *ast.CharRangeNode:
		add("rng")
		dumpRx(n.Left, out)
		dumpRx(n.Right, out)
	case *ast.NamedCharClassNode:
		add("ncc", b01(n.Negated), hx0(n.Name))
	case *ast.CharNode:
		add("ch", strconv.Itoa(int(n.Value)))
	case *ast.MetaCharEscapeNode:
		add("meta", strconv.Itoa(int(n.Value)))
	case *ast.QuotedTextNode:
		add("qt", hx0(n.Value))
	case *ast.CaretEscapeNode:
		add("caret", strconv.Itoa(int(n.Value)))
	case *ast.UnicodeEscapeNode:
		add("u", hx0(n.Value))
	case *ast.HexEscapeNode:
		add("x", hx0(n.Value))
	case *ast.OctalEscapeNode:
		add("o", hx0(n.Value))
	case *ast.UnicodeCharClassNode:
		add("p", b01(n.Negated), hx0(n.Value))
	case *ast.BellEscapeNode:
		add("bell")
	case *ast.FormFeedEscapeNode:
		add("ff")
	case *ast.TabEscapeNode:
		add("tab")
	case *ast.NewlineEscapeNode:
		add("nl")
	case *ast.CarriageReturnEscapeNode:
		add("cr")
	case *ast.StartOfStringAnchorNode:
		add("^")
	case *ast.EndOfStringAnchorNode:
		add("$")
	case *ast.AbsoluteStartOfStringAnchorNode:
		add("A")
	case *ast.AbsoluteEndOfStringAnchorNode:
		add("z")
	case *ast.WordBoundaryAnchorNode:
		add("b")
	case *ast.NotWordBoundaryAnchorNode:
		add("B")
	case *ast.WordCharClassNode:
		add("w")
	case *ast.NotWordCharClassNode:
		add("W")
	case *ast.DigitCharClassNode:
		add("d")
	case *ast.NotDigitCharClassNode:
		add("D")
	case *ast.WhitespaceCharClassNode:
		add("s")
	case *ast.NotWhitespaceCharClassNode:
		add("S")
	case *ast.HorizontalWhitespaceCharClassNode:
		add("h")
	case *ast.NotHorizontalWhitespaceCharClassNode:
		add("H")
	case *ast.VerticalWhitespaceCharClassNode:
		add("v")
	case *ast.NotVerticalWhitespaceCharClassNode:
		add("V")
	case *ast.AnyCharClassNode:
		add("dot")
	case *ast.InvalidNode:
		add("invalid")
	case nil:
		add("nil")
	default:
		add(fmt.Sprintf("unknown-%T", n))
	}
}

// withBudget runs f in a goroutine under recover(); a run longer than the budget answers "timeout".
// The goroutine cannot be killed, so the worker exits at its NEXT operation (before answering it):
// the driver (vlib.run_impl) then re-runs that line in a fresh worker. A hang kills only the worker.
var lexrxHung = false

// LEXRX_BUDGET_MS overrides the per-operation budget (the check re-runs a timed-out input alone with 30 s
// before it calls it a hang: a first timeout on a loaded machine proves nothing)
var lexrxBudget = func() time.Duration {
	if n, err := strconv.Atoi(os.Getenv("LEXRX_BUDGET_MS")); err == nil && n > 0 {
		return time.Duration(n) * time.Millisecond
	}
	return 0
}()

func withBudget(d time.Duration, f func() string) string {
	if lexrxHung {
		os.Exit(3)
	}
	if lexrxBudget > 0 {
		d = lexrxBudget
	}
	ch := make(chan string, 1)
	go func() {
		defer func() {
			if r := recover(); r != nil {
				ch <- "panic " + hx.PanicClass(r)
			}
		}()
		ch <- f()
	}()
	select {
	case s := <-ch:
		return s
	case <-time.After(d):
		lexrxHung = true
		return "timeout"
	}
}

func execRx(f []string) string {
	if len(f) < 1 {
		return "bad-op"
	}
	return withBudget(2*time.Second, func() string { return execRx1(f) })
}

func parseFlags(s string) (bitfield.BitField8, bool) {
	n, err := strconv.Atoi(s)
	if err != nil || n < 0 || n > 63 {
		return bitfield.BitField8{}, false
	}
	return bitfield.BitField8FromInt(n), true
}

func matchAll(re *value.Regex, subjects string) string {
	var sb strings.Builder
	sb.WriteString("ok ")
	if subjects == "" {
		return "ok -"
	}
	for _, sh := range strings.Split(subjects, ",") {
		var s string
		if sh != "-" {
			b, err := hex.DecodeString(sh)
			if err != nil {
				return "bad-op"
			}
			s = string(b)
		}
		sb.WriteString(b01(re.MatchesString(s)))
	}
	return sb.String()
}

func execRx1(f []string) string {
	switch f[0] {
	case "tr":
		// an optional 4th field (the pattern's letters, for the Lean model) is ignored here
		if len(f) != 3 && len(f) != 4 {
			return "bad-op"
		}
		fl, ok := parseFlags(f[1])
		if !ok {
			return "bad-op"
		}
		raw, err := hex.DecodeString(strings.TrimPrefix(f[2], "-"))
		if err != nil {
			return "bad-op"
		}
		src := string(raw)
		tree, perr := parser.Parse(src)
		var a string
		if perr != nil {
			a = "perr=" + strconv.Itoa(len(perr))
		} else {
			var toks []string
			dumpRx(tree, &toks)
			a = "ast=" + strings.Join(toks, ",")
		}
		out, terr := regex.Transpile(src, fl)
		switch {
		case perr != nil && terr != nil:
			return a + " -"
		case terr != nil:
			msgs := make([]string, len(terr))
			for i, d := range terr {
				msgs[i] = d.Message
			}
			return a + " terr=" + hx0(strings.Join(msgs, "\n"))
		default:
			if perr != nil {
				return a + " out-despite-parse-error=" + hx0(out)
			}
			return a + " out=" + hx0(out)
		}
	case "match":
		if len(f) != 4 {
			return "bad-op"
		}
		fl, ok := parseFlags(f[1])
		if !ok {
			return "bad-op"
		}
		raw, err := hex.DecodeString(strings.TrimPrefix(f[2], "-"))
		if err != nil {
			return "bad-op"
		}
		src := string(raw)
		if _, terr := regex.Transpile(src, fl); terr != nil {
			return "cerr transpile"
		}
		re, cerr := value.CompileRegex(src, fl)
		if cerr != nil {
			return "cerr go"
		}
		return matchAll(re, f[3])
	case "comp":
		if len(f) != 7 {
			return "bad-op"
		}
		fl1, ok := parseFlags(f[2])
		raw1, err := hex.DecodeString(strings.TrimPrefix(f[3], "-"))
		if !ok || err != nil {
			return "bad-op"
		}
		r1, cerr := value.CompileRegex(string(raw1), fl1)
		if cerr != nil {
			return "cerr left"
		}
		var res value.Value
		var ev value.Value
		switch f[1] {
		case "concat":
			fl2, ok := parseFlags(f[4])
			raw2, err := hex.DecodeString(strings.TrimPrefix(f[5], "-"))
			if !ok || err != nil {
				return "bad-op"
			}
			r2, cerr := value.CompileRegex(string(raw2), fl2)
			if cerr != nil {
				return "cerr right"
			}
			res, ev = r1.ConcatVal(value.Ref(r2))
		case "interp":
			// what the VM does when a regex is interpolated into a regex literal: its ToStringWithFlags() text
			// becomes part of the new source, compiled with the outer literal's flags (f[4])
			fl2, ok := parseFlags(f[4])
			if !ok {
				return "bad-op"
			}
			re, cerr := value.CompileRegex(string(r1.ToStringWithFlags()), fl2)
			if cerr != nil {
				return "cerr composed"
			}
			return matchAll(re, f[6]) + " src=" + hx0(re.Source) + " fl=" + strconv.Itoa(int(re.Flags.Byte()))
		case "repeat":
			n, err := strconv.Atoi(f[4])
			if err != nil {
				return "bad-op"
			}
			res, ev = r1.RepeatVal(value.SmallInt(n).ToValue())
		default:
			return "bad-op"
		}
		if !ev.IsUndefined() {
			return "cerr composed"
		}
		re, ok := res.AsReference().(*value.Regex)
		if !ok {
			return "bad-result"
		}
		return matchAll(re, f[6]) + " src=" + hx0(re.Source) + " fl=" + strconv.Itoa(int(re.Flags.Byte()))
	}
	return "bad-op"
}
