package dom

import (
	"encoding/hex"
	"go/ast"
	"go/parser"
	"go/token"
	"os"
	"path/filepath"
	"sort"
	"strconv"
	"strings"

	"elkverif/hx"
)

// probe lexrx_seeds ROOT: seed corpus for C03/C04/C21.
// "elk":   every *.elk / *.elh / *.elk.test file under ROOT (hex),
// "lit":   string literals of the Go test tables of lexer/, parser/, types/checker/, compiler/, vm/ (hex, deduplicated),
// "regex": string literals of regex/**/*_test.go (hex, deduplicated).
// Inputs only: expected values in those tables are not used.
func init() { hx.RegisterProbe("lexrx_seeds", probeSeeds) }

func probeSeeds(args []string) (any, error) {
	root := os.Getenv("ELKROOT")
	if len(args) > 0 {
		root = args[0]
	}
	var elk []string
	lit := map[string]bool{}
	rx := map[string]bool{}
	err := filepath.Walk(root, func(p string, info os.FileInfo, err error) error {
		if err != nil {
			return nil
		}
		if info.IsDir() {
			n := info.Name()
			if n == ".git" || n == "node_modules" {
				return filepath.SkipDir
			}
			return nil
		}
		rel, _ := filepath.Rel(root, p)
		switch {
		case strings.HasSuffix(p, ".elk"), strings.HasSuffix(p, ".elh"), strings.HasSuffix(p, ".elk.test"):
			b, e := os.ReadFile(p)
			if e == nil {
				elk = append(elk, rel+":"+hex.EncodeToString(b))
			}
		case strings.HasSuffix(p, "_test.go"):
			top := strings.SplitN(filepath.ToSlash(rel), "/", 2)[0]
			var into map[string]bool
			switch top {
			case "lexer", "parser", "compiler", "vm", "types":
				into = lit
			case "regex":
				into = rx
			default:
				return nil
			}
			fset := token.NewFileSet()
			f, e := parser.ParseFile(fset, p, nil, 0)
			if e != nil {
				return nil
			}
			ast.Inspect(f, func(n ast.Node) bool {
				if bl, ok := n.(*ast.BasicLit); ok && bl.Kind == token.STRING {
					if s, e := strconv.Unquote(bl.Value); e == nil && len(s) >= 1 && len(s) <= 4096 {
						into[s] = true
					}
				}
				return true
			})
		}
		return nil
	})
	if err != nil {
		return nil, err
	}
	sort.Strings(elk)
	return map[string]any{"elk": elk, "lit": hexKeys(lit), "regex": hexKeys(rx)}, nil
}

func hexKeys(m map[string]bool) []string {
	out := make([]string, 0, len(m))
	for k := range m {
		out = append(out, k)
	}
	sort.Strings(out)
	for i, k := range out {
		out[i] = hex.EncodeToString([]byte(k))
	}
	return out
}
