package dom

import (
	"fmt"
	"sort"
	"strings"

	"elkverif/hx"

	"github.com/elk-language/elk/lexer"
	"github.com/elk-language/elk/parser"
	"github.com/elk-language/elk/parser/ast"
	"github.com/elk-language/elk/token"
)

// domain prec (C05, operator sub-language)
//
//	prec  rt  <tree>    tree in prefix notation (see lean/Driver/Dom/Prec.lean). The tree is written out
//	                    fully parenthesised, parsed by the real parser (must give exactly the tree),
//	                    printed by the real String(), reparsed.
//	                    answer: `ok <printed> => <reparsed tree>`  or  `ok <printed> => !`
//
// probe prec: printer tables (ExpressionPrecedence/ExpressionAssociativity on one node per operator),
// the parser's ladder derived from the shapes of `a o1 b o2 c` for all operator pairs, and the raw shapes.
func init() {
	hx.RegisterExec("prec", execPrec)
	hx.RegisterProbe("prec", probePrec)
}

func execPrec(f []string) string {
	if len(f) != 2 || f[0] != "rt" {
		return "bad-op"
	}
	return precRT(f[1])
}

type pTree struct {
	tag  string // atom u p b l r ro as
	op   string
	kids []*pTree
}

func pParse(toks []string, pos *int) *pTree {
	if *pos >= len(toks) {
		return nil
	}
	t := toks[*pos]
	*pos++
	i := strings.Index(t, ":")
	if i < 0 {
		return &pTree{tag: "atom", op: t}
	}
	tag, op := t[:i], t[i+1:]
	n := 0
	switch tag {
	case "u", "p", "ro", "as":
		n = 1
	case "b", "l", "r":
		n = 2
	default:
		return nil
	}
	tr := &pTree{tag: tag, op: op}
	for k := 0; k < n; k++ {
		c := pParse(toks, pos)
		if c == nil {
			return nil
		}
		tr.kids = append(tr.kids, c)
	}
	return tr
}

func (t *pTree) String() string {
	if t.tag == "atom" {
		return t.op
	}
	parts := []string{t.tag + ":" + t.op}
	for _, k := range t.kids {
		parts = append(parts, k.String())
	}
	return strings.Join(parts, " ")
}

// fully parenthesised source
func (t *pTree) source() string {
	switch t.tag {
	case "atom":
		return t.op
	case "u":
		return "(" + t.op + " " + t.kids[0].source() + ")"
	case "p":
		return "(" + t.kids[0].source() + t.op + ")"
	case "b", "l":
		return "(" + t.kids[0].source() + " " + t.op + " " + t.kids[1].source() + ")"
	case "r":
		return "(" + t.kids[0].source() + t.op + t.kids[1].source() + ")"
	case "ro":
		return "(" + t.kids[0].source() + t.op + ")"
	case "as":
		return "(" + t.kids[0].source() + " as " + t.op + ")"
	}
	return "?"
}

func tokText(t *token.Token) string {
	if t == nil {
		return "?"
	}
	return t.FetchValue()
}

// exprTree converts a real AST of the operator fragment back to the prefix notation
func exprTree(n ast.ExpressionNode) string {
	switch e := n.(type) {
	case nil:
		return "?nil"
	case *ast.PublicIdentifierNode:
		return e.Value
	case *ast.UnaryExpressionNode:
		return "u:" + tokText(e.Op) + " " + exprTree(e.Right)
	case *ast.PostfixExpressionNode:
		return "p:" + tokText(e.Op) + " " + exprTree(e.Expression)
	case *ast.BinaryExpressionNode:
		return "b:" + tokText(e.Op) + " " + exprTree(e.Left) + " " + exprTree(e.Right)
	case *ast.LogicalExpressionNode:
		return "l:" + tokText(e.Op) + " " + exprTree(e.Left) + " " + exprTree(e.Right)
	case *ast.RangeLiteralNode:
		if e.Start == nil {
			return "?beginless"
		}
		if e.End == nil {
			return "ro:" + tokText(e.Op) + " " + exprTree(e.Start)
		}
		return "r:" + tokText(e.Op) + " " + exprTree(e.Start) + " " + exprTree(e.End)
	case *ast.AsExpressionNode:
		if c, ok := e.RuntimeType.(*ast.PublicConstantNode); ok {
			return "as:" + c.Value + " " + exprTree(e.Value)
		}
		return "?as"
	}
	return "?" + fmt.Sprintf("%T", n)
}

func parseExpr(src string) (res ast.ExpressionNode, why string) {
	defer func() {
		if r := recover(); r != nil {
			res, why = nil, "parser panic: "+hx.PanicClass(r)
		}
	}()
	prog, diags := parser.Parse("<prec>", src)
	if len(diags) > 0 {
		return nil, rtOneLine(diags[0].Message, 80)
	}
	if prog == nil || len(prog.Body) != 1 {
		return nil, "not a single statement"
	}
	st, ok := prog.Body[0].(*ast.ExpressionStatementNode)
	if !ok {
		return nil, "not an expression statement"
	}
	return st.Expression, ""
}

func precRT(s string) string {
	toks := strings.Fields(s)
	pos := 0
	tr := pParse(toks, &pos)
	if tr == nil || pos != len(toks) {
		return "bad-op"
	}
	e, why := parseExpr(tr.source())
	if e == nil {
		return "bad-tree rejected: " + why
	}
	if got := exprTree(e); got != tr.String() {
		return "bad-tree parsed as " + got
	}
	printed := e.String()
	if strings.ContainsAny(printed, "\n\t") {
		return "bad-tree printed with separator"
	}
	e2, why := parseExpr(printed)
	if e2 == nil {
		_ = why
		return "ok " + printed + " => !"
	}
	return "ok " + printed + " => " + exprTree(e2)
}

// ---------------------------------------------------------------- probe

type precInfix struct {
	Op    string `json:"op"`
	Kind  string `json:"kind"` // bin | logic
	Prec  int    `json:"prec"`
	Assoc string `json:"assoc"` // left | right | none
}

type precLevel struct {
	Kind string   `json:"kind"`
	Ops  []string `json:"ops"`
}

type precProbe struct {
	Infix      []precInfix `json:"infix"`
	Unary      []string    `json:"unary"`
	UnaryPrec  int         `json:"unary_prec"`
	UnaryAssoc string      `json:"unary_assoc"`
	Postfix    []string    `json:"postfix"`
	PostPrec   int         `json:"postfix_prec"`
	Range      []string    `json:"range"`
	RangeEnd   []string    `json:"range_end"`   // prefix operators that may start the end of a range
	RangePrec  int         `json:"range_prec"`
	AsPrec     int         `json:"as_prec"`
	AtomPrec   int         `json:"atom_prec"`
	Ladder     []precLevel `json:"ladder"`      // derived from the pair shapes, loosest first ("" kind: inconsistent)
	Pow        []string    `json:"pow"`         // infix operators that bind tighter than a prefix operator
	Consistent bool        `json:"consistent"`  // the pair shapes are those of a ladder of left-associative levels (+ pow)
	Why        string      `json:"why"`
	Pairs      int         `json:"pairs"`       // number of `a o1 b o2 c` sources parsed to derive the ladder
	Shapes     [][3]string `json:"shapes"`      // (source, tree the real parser returns or !error, tokens of the real lexer)
}

func assocName(a ast.Associativity) string {
	switch a {
	case ast.LEFT_ASSOCIATIVE:
		return "left"
	case ast.RIGHT_ASSOCIATIVE:
		return "right"
	}
	return "none"
}

// modelTokens: the real lexer's tokens of src in the spelling of the Lean model
// (atom:x, const:T, op:+, lparen, rparen, as), space separated
func modelTokens(src string) string {
	var out []string
	for _, t := range lexer.Lex(src) {
		switch t.Type {
		case token.END_OF_FILE:
		case token.PUBLIC_IDENTIFIER:
			out = append(out, "atom:"+t.Value)
		case token.PUBLIC_CONSTANT:
			out = append(out, "const:"+t.Value)
		case token.LPAREN:
			out = append(out, "lparen")
		case token.RPAREN:
			out = append(out, "rparen")
		case token.AS:
			out = append(out, "as")
		default:
			out = append(out, "op:"+t.FetchValue())
		}
	}
	return strings.Join(out, " ")
}

func shapeOf(src string) string {
	e, why := parseExpr(src)
	if e == nil {
		return "!" + why
	}
	return exprTree(e)
}

func probePrec(args []string) (any, error) {
	doc := &precProbe{AtomPrec: 255, Consistent: true}
	var lexemes []string
	seen := map[string]bool{}
	for i := 0; i < token.Length(); i++ {
		name := token.Type(i).Name()
		if name == "" || seen[name] || strings.ContainsAny(name, " \n\t") {
			continue
		}
		alpha := false
		for _, c := range name {
			if c == '_' || (c >= 'a' && c <= 'z') || (c >= 'A' && c <= 'Z') || (c >= '0' && c <= '9') {
				alpha = true
			}
		}
		if alpha {
			continue
		}
		seen[name] = true
		lexemes = append(lexemes, name)
	}
	sort.Strings(lexemes)
	infixKind := map[string]string{}
	for _, lx := range lexemes {
		if e, _ := parseExpr("a " + lx + " b"); e != nil {
			switch n := e.(type) {
			case *ast.BinaryExpressionNode:
				if exprTree(n) == "b:"+lx+" a b" {
					doc.Infix = append(doc.Infix, precInfix{lx, "bin", int(ast.ExpressionPrecedence(n)), assocName(ast.ExpressionAssociativity(n))})
					infixKind[lx] = "b"
				}
			case *ast.LogicalExpressionNode:
				if exprTree(n) == "l:"+lx+" a b" {
					doc.Infix = append(doc.Infix, precInfix{lx, "logic", int(ast.ExpressionPrecedence(n)), assocName(ast.ExpressionAssociativity(n))})
					infixKind[lx] = "l"
				}
			case *ast.RangeLiteralNode:
				if exprTree(n) == "r:"+lx+" a b" {
					doc.Range = append(doc.Range, lx)
					doc.RangePrec = int(ast.ExpressionPrecedence(n))
				}
			}
		}
		if e, _ := parseExpr(lx + " a"); e != nil {
			if n, ok := e.(*ast.UnaryExpressionNode); ok && exprTree(n) == "u:"+lx+" a" {
				doc.Unary = append(doc.Unary, lx)
				doc.UnaryPrec = int(ast.ExpressionPrecedence(n))
				doc.UnaryAssoc = assocName(ast.ExpressionAssociativity(n))
			}
		}
		if e, _ := parseExpr("a" + lx); e != nil {
			if n, ok := e.(*ast.PostfixExpressionNode); ok && exprTree(n) == "p:"+lx+" a" {
				doc.Postfix = append(doc.Postfix, lx)
				doc.PostPrec = int(ast.ExpressionPrecedence(n))
			}
		}
	}
	if e, _ := parseExpr("a as T"); e != nil {
		doc.AsPrec = int(ast.ExpressionPrecedence(e))
	}
	shape := func(src string) string {
		s := shapeOf(src)
		doc.Shapes = append(doc.Shapes, [3]string{src, s, modelTokens(src)})
		return s
	}
	// pair shapes
	var ops []string
	for _, in := range doc.Infix {
		ops = append(ops, in.Op)
	}
	tag := func(o string) string { return infixKind[o] + ":" + o }
	left := func(o1, o2 string) string { return tag(o2) + " " + tag(o1) + " a b c" }
	right := func(o1, o2 string) string { return tag(o1) + " a " + tag(o2) + " b c" }
	tighter := map[[2]string]int{} // 0 same level (left loop), 1 o2 tighter, -1 o1 tighter, 2 same level right-assoc, 9 other
	for _, o1 := range ops {
		for _, o2 := range ops {
			s := shapeOf("a " + o1 + " b " + o2 + " c")
			doc.Pairs++
			switch s {
			case left(o1, o2):
				tighter[[2]string{o1, o2}] = 0
			case right(o1, o2):
				tighter[[2]string{o1, o2}] = 1
			default:
				tighter[[2]string{o1, o2}] = 9
			}
		}
	}
	// levels: o1 ~ o2 iff both orders fold to the left
	fail := func(why string) {
		if doc.Consistent {
			doc.Consistent = false
			doc.Why = why
		}
	}
	for _, o := range ops {
		if tighter[[2]string{o, o}] == 1 {
			doc.Pow = append(doc.Pow, o) // right-associative with itself
		}
	}
	isPow := map[string]bool{}
	for _, o := range doc.Pow {
		isPow[o] = true
	}
	var ladderOps []string
	for _, o := range ops {
		if !isPow[o] {
			ladderOps = append(ladderOps, o)
		}
	}
	// rank = number of ladder operators that bind strictly looser
	rank := map[string]int{}
	for _, o := range ladderOps {
		for _, q := range ladderOps {
			a, b := tighter[[2]string{q, o}], tighter[[2]string{o, q}]
			switch {
			case a == 1 && b == 0: // `a q b o c` = a q (b o c) and `a o b q c` = (a o b) q c : o tighter
				rank[o]++
			case a == 0 && b == 1, a == 0 && b == 0:
			default:
				fail(fmt.Sprintf("shapes of %s and %s are not those of a ladder", q, o))
			}
		}
	}
	sort.SliceStable(ladderOps, func(i, j int) bool { return rank[ladderOps[i]] < rank[ladderOps[j]] })
	for i := 0; i < len(ladderOps); {
		j := i
		lv := precLevel{Kind: map[string]string{"b": "bin", "l": "logic"}[infixKind[ladderOps[i]]]}
		for j < len(ladderOps) && rank[ladderOps[j]] == rank[ladderOps[i]] {
			if infixKind[ladderOps[j]] != infixKind[ladderOps[i]] {
				fail("a level mixes binary and logical operators")
			}
			lv.Ops = append(lv.Ops, ladderOps[j])
			j++
		}
		// all operators of a level must be mutually left-folding and ranks must be consistent
		for _, x := range lv.Ops {
			for _, y := range lv.Ops {
				if tighter[[2]string{x, y}] != 0 {
					fail(fmt.Sprintf("%s and %s have the same rank but do not fold left", x, y))
				}
			}
		}
		if rank[ladderOps[i]] != i {
			fail("ranks are not a total preorder")
		}
		doc.Ladder = append(doc.Ladder, lv)
		i = j
	}
	// shapes handed to the Lean model: all ordered pairs of one representative per level (and pow),
	// every other operator against the representative of its own level, and the fixed upper chain
	var reps []string
	repOf := map[string]string{}
	for _, lv := range doc.Ladder {
		reps = append(reps, lv.Ops[0])
		for _, o := range lv.Ops {
			repOf[o] = lv.Ops[0]
		}
	}
	reps = append(reps, doc.Pow...)
	for _, o1 := range reps {
		for _, o2 := range reps {
			shape("a " + o1 + " b " + o2 + " c")
		}
	}
	for _, o := range ops {
		if r, ok := repOf[o]; ok && r != o {
			shape("a " + o + " b " + r + " c")
			shape("a " + r + " b " + o + " c")
			shape("a " + o + " b " + o + " c")
		}
	}
	for _, o := range reps {
		shape("a " + o + " b...c")
		shape("a...b " + o + " c")
		shape("a " + o + " b as T")
		shape("a as T " + o + " b")
		for _, u := range doc.Unary[:1] {
			shape(u + " a " + o + " b")
			shape("a " + o + " " + u + " b")
		}
		for _, p := range doc.Postfix {
			shape("a" + p + " " + o + " b")
			shape("a " + o + " b" + p)
		}
	}
	for _, u := range doc.Unary {
		if len(doc.Range) > 0 && shape("a"+doc.Range[0]+u+" b") == "r:"+doc.Range[0]+" a u:"+u+" b" {
			doc.RangeEnd = append(doc.RangeEnd, u)
		}
		shape(u + " a + b")
		shape(u + " a ** b")
		shape("a ** " + u + " b")
		shape("a - " + u + " b")
	}
	for _, r := range doc.Range {
		shape("a + b" + r + "c * d")
		shape("a" + r + "b as T")
		shape("a as T" + r + "b")
		shape("a" + r + "b" + r + "c")
		shape("a" + r)
		shape("(a" + r + ")")
		for _, u := range doc.Unary {
			shape(u + " a" + r + "b")
			shape("a" + r + u + " b")
		}
		for _, p := range doc.Postfix {
			shape("a" + p + r + "b" + p)
		}
	}
	for _, u := range doc.Unary {
		shape(u + " a as T")
		for _, u2 := range doc.Unary {
			shape(u + " " + u2 + " a")
		}
		for _, p := range doc.Postfix {
			shape(u + " a" + p)
		}
	}
	shape("a as T as U")
	shape("(a)")
	shape("((a))")
	shape("(a + b) * c")
	shape("a * (b + c)")
	shape("a++ ++")
	return doc, nil
}
