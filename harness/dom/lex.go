package dom

import (
	"encoding/hex"
	"strconv"
	"strings"
	"time"

	"elkverif/hx"

	"github.com/elk-language/elk/lexer"
	"github.com/elk-language/elk/token"
	"github.com/fatih/color"
)

// domain lex (C04): see lean/Driver/Dom/Lex.lean for the grammar.
//
//	lex<TAB>tok<TAB>n|e<TAB>srchex
//
// answers `ok <tokens> <colorhex>` where tokens = `-` or comma separated
// `type:soff:sline:scol:eoff:eline:ecol:sgr` (sgr = SGR codes joined by `.`, `-` for none)
// and colorhex is the real Colorize / ColorizeEmbellishedText output with colour forced on.
func init() {
	color.NoColor = false
	hx.RegisterExec("lex", execLex)
}

func dumpTokens(toks []*token.Token) string {
	if len(toks) == 0 {
		return "-"
	}
	var sb strings.Builder
	for i, t := range toks {
		if i > 0 {
			sb.WriteByte(',')
		}
		sp := t.Span()
		sb.WriteString(strconv.Itoa(int(t.Type)))
		for _, v := range []int{sp.StartPos.ByteOffset, sp.StartPos.Line, sp.StartPos.Column,
			sp.EndPos.ByteOffset, sp.EndPos.Line, sp.EndPos.Column} {
			sb.WriteByte(':')
			sb.WriteString(strconv.Itoa(v))
		}
		sb.WriteByte(':')
		st := t.AnsiStyling()
		if len(st) == 0 {
			sb.WriteByte('-')
		}
		for j, a := range st {
			if j > 0 {
				sb.WriteByte('.')
			}
			sb.WriteString(strconv.Itoa(int(a)))
		}
	}
	return sb.String()
}

func execLex(f []string) string {
	// 2 s budget: a hanging lexer must answer `timeout` instead of blocking the check (see withBudget in rx.go)
	return withBudget(2*time.Second, func() string { return execLex1(f) })
}

func execLex1(f []string) string {
	if len(f) != 3 || f[0] != "tok" {
		return "bad-op"
	}
	raw, err := hex.DecodeString(f[2])
	if err != nil {
		return "bad-op"
	}
	src := string(raw)
	color.NoColor = false
	var toks []*token.Token
	var out string
	switch f[1] {
	case "n":
		toks = lexer.Lex(src)
		out = lexer.Colorize(src)
	case "e":
		toks = lexer.VerifLexEmbellished(src)
		out = lexer.ColorizeEmbellishedText(src)
	default:
		return "bad-op"
	}
	o := hex.EncodeToString([]byte(out))
	if o == "" {
		o = "-"
	}
	return "ok " + dumpTokens(toks) + " " + o
}
