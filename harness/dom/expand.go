package dom

import (
	"bufio"
	"encoding/json"
	"fmt"
	"os"
	"runtime/debug"
	"strings"

	"elkverif/hx"

	"github.com/elk-language/elk/types/checker"
)

// sub-command `expand` (C31): one JSON request {id, src} per line; answers {id, diags, rejected,
// expansion} where expansion is what `elk repl --expand` prints for the input
// (checker.New(); SetIncremental(true); CheckSource; ASTCache.GetUnsafe(name).String()).
func init() { hx.RegisterSub("expand", expandWorker) }

type ExpandAns struct {
	ID        string `json:"id"`
	Diags     []Diag `json:"diags"`
	Rejected  bool   `json:"rejected"`
	Expansion string `json:"expansion"`
	Panic     string `json:"panic,omitempty"`
}

func expandWorker(args []string) int {
	in := bufio.NewReaderSize(os.Stdin, 1<<22)
	out := bufio.NewWriter(os.Stdout)
	defer out.Flush()
	n := 0
	for {
		line, err := in.ReadString('\n')
		if len(strings.TrimSpace(line)) > 0 {
			var req RunReq
			if e := json.Unmarshal([]byte(line), &req); e != nil {
				fmt.Fprintln(out, `{"panic":"bad-request"}`)
			} else {
				n++
				ans := expandOne(&req, n)
				b, _ := json.Marshal(ans)
				out.Write(b)
				out.WriteByte('\n')
			}
			out.Flush()
		}
		if err != nil {
			return 0
		}
	}
}

func expandOne(req *RunReq, n int) (ans *ExpandAns) {
	ans = &ExpandAns{ID: req.ID, Diags: []Diag{}}
	defer func() {
		if r := recover(); r != nil {
			ans.Panic = hx.PanicClass(r) + " @ " + firstFrames(debug.Stack())
		}
	}()
	c := checker.New()
	c.SetIncremental(true)
	name := fmt.Sprintf("<repl:%d>", n)
	_, diags := c.CheckSource(name, req.Src)
	for _, d := range diags {
		dd := Diag{Sev: d.Severity.String(), Msg: d.Message}
		if d.Location != nil && d.Location.Span != nil && d.Location.StartPos != nil {
			dd.Line = d.Location.StartPos.Line
			dd.Col = d.Location.StartPos.Column
		}
		ans.Diags = append(ans.Diags, dd)
	}
	if diags != nil && diags.IsFailure() {
		ans.Rejected = true
		return ans
	}
	ast, ok := c.ASTCache.GetUnsafe(name)
	if !ok {
		ans.Panic = "no AST in cache"
		return ans
	}
	ans.Expansion = ast.String()
	return ans
}
