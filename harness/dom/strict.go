package dom

import (
	"fmt"
	"math"
	"math/big"
	"os"
	"strconv"
	"strings"
	"time"

	"elkverif/hx"

	"github.com/elk-language/elk/bitfield"
	"github.com/elk-language/elk/types/checker"
	"github.com/elk-language/elk/value"
)

// domains sint / flt and probe shiftadmitted (C07); grammar in lean/Driver/Dom/SInt.lean, Flt.lean.
func init() {
	hx.RegisterExec("sint", execSInt)
	hx.RegisterExec("flt", execFlt)
	hx.RegisterProbe("shiftadmitted", probeShiftAdmitted)
}

func sizedValue(kind string, n *big.Int) (value.Value, bool) {
	switch kind {
	case "i8":
		if n.IsInt64() && n.Int64() >= math.MinInt8 && n.Int64() <= math.MaxInt8 {
			return value.Int8(n.Int64()).ToValue(), true
		}
	case "i16":
		if n.IsInt64() && n.Int64() >= math.MinInt16 && n.Int64() <= math.MaxInt16 {
			return value.Int16(n.Int64()).ToValue(), true
		}
	case "i32":
		if n.IsInt64() && n.Int64() >= math.MinInt32 && n.Int64() <= math.MaxInt32 {
			return value.Int32(n.Int64()).ToValue(), true
		}
	case "i64":
		if n.IsInt64() {
			return value.Int64(n.Int64()).ToValue(), true
		}
	case "u8":
		if n.IsUint64() && n.Uint64() <= math.MaxUint8 {
			return value.UInt8(n.Uint64()).ToValue(), true
		}
	case "u16":
		if n.IsUint64() && n.Uint64() <= math.MaxUint16 {
			return value.UInt16(n.Uint64()).ToValue(), true
		}
	case "u32":
		if n.IsUint64() && n.Uint64() <= math.MaxUint32 {
			return value.UInt32(n.Uint64()).ToValue(), true
		}
	case "u64":
		if n.IsUint64() {
			return value.UInt64(n.Uint64()).ToValue(), true
		}
	case "u":
		if n.IsUint64() {
			return value.UInt(n.Uint64()).ToValue(), true
		}
	case "s":
		if n.IsInt64() {
			return value.SmallInt(n.Int64()).ToValue(), true
		}
	case "b":
		return value.Ref(value.ToElkBigInt(new(big.Int).Set(n))), true
	case "o":
		return value.Float(1.5).ToValue(), true
	}
	return value.Undefined, false
}

func leadingInt(s string) string {
	i := 0
	if i < len(s) && s[i] == '-' {
		i++
	}
	for i < len(s) && s[i] >= '0' && s[i] <= '9' {
		i++
	}
	return s[:i]
}

func showSized(left, res, err value.Value) string {
	if !err.IsUndefined() {
		msg := ""
		if o, ok := err.SafeAsReference().(*value.Object); ok {
			msg = o.Message().Inspect()
		}
		switch {
		case value.IsA(err, value.ZeroDivisionErrorClass):
			return "err ZeroDivision"
		case strings.Contains(msg, "bitshift operand"):
			return "err BitshiftOperand"
		case strings.Contains(msg, "cannot be coerced"):
			return "err Coerce"
		}
		return "err Other:" + err.Class().Name + ":" + msg
	}
	if res.IsUndefined() {
		return "undefined"
	}
	if res.IsBool() {
		if res.AsBool() {
			return "ok true"
		}
		return "ok false"
	}
	if res.IsSmallInt() { // <=>
		return "ok " + res.Inspect()
	}
	if res.IsReference() != left.IsReference() || (!res.IsReference() && res.ValueFlag() != left.ValueFlag()) {
		return "wrongtype:" + res.Inspect()
	}
	return "ok " + leadingInt(res.Inspect())
}

func sizedOp(op string, l, r value.Value) (res, err value.Value, ok bool) {
	ok = true
	switch op {
	case "add":
		res, err = value.AddVal(l, r)
	case "sub":
		res, err = value.SubtractVal(l, r)
	case "mul":
		res, err = value.MultiplyVal(l, r)
	case "div":
		res, err = value.DivideVal(l, r)
	case "mod":
		res, err = value.ModuloVal(l, r)
	case "pow":
		res, err = value.ExponentiateVal(l, r)
	case "and":
		res, err = value.BitwiseAndVal(l, r)
	case "or":
		res, err = value.BitwiseOrVal(l, r)
	case "xor":
		res, err = value.BitwiseXorVal(l, r)
	case "andnot":
		res, err = value.BitwiseAndNotVal(l, r)
	case "cmp":
		res, err = value.CompareVal(l, r)
	case "gt":
		res, err = value.GreaterThanVal(l, r)
	case "ge":
		res, err = value.GreaterThanEqualVal(l, r)
	case "lt":
		res, err = value.LessThanVal(l, r)
	case "le":
		res, err = value.LessThanEqualVal(l, r)
	case "eq":
		res, err = value.EqualVal(l, r), value.Undefined
	case "shl":
		res, err = value.LeftBitshiftVal(l, r)
	case "shr":
		res, err = value.RightBitshiftVal(l, r)
	case "lshl":
		res, err = value.LogicalLeftBitshiftVal(l, r)
	case "lshr":
		res, err = value.LogicalRightBitshiftVal(l, r)
	default:
		ok = false
	}
	return
}

// withTimeout runs f; an operation that does not return within the limit answers "timeout"
// (the goroutine cannot be stopped: the worker exits after flushing this answer).
func withTimeout(limit time.Duration, f func() string) string {
	ch := make(chan string, 1)
	go func() {
		defer func() {
			if r := recover(); r != nil {
				ch <- "panic"
			}
		}()
		ch <- f()
	}()
	select {
	case s := <-ch:
		return s
	case <-time.After(limit):
		go func() {
			// the exec loop flushes every answer line; leave it time to print this one
			time.Sleep(100 * time.Millisecond)
			os.Exit(3)
		}()
		return "timeout"
	}
}

func execSInt(f []string) string {
	if len(f) != 4 {
		return "bad-op"
	}
	a, ok := new(big.Int).SetString(f[2], 10)
	if !ok {
		return "bad-op"
	}
	l, ok := sizedValue(f[0], a)
	if !ok || f[0] == "s" || f[0] == "b" || f[0] == "o" {
		return "bad-op"
	}
	if f[3] == "-" {
		switch f[1] {
		case "neg":
			return showSized(l, value.NegateVal(l), value.Undefined)
		case "not":
			return showSized(l, value.BitwiseNotVal(l), value.Undefined)
		}
		return "bad-op"
	}
	kv := strings.SplitN(f[3], ":", 2)
	if len(kv) != 2 {
		return "bad-op"
	}
	rv, ok := new(big.Int).SetString(kv[1], 10)
	if !ok {
		return "bad-op"
	}
	r, ok := sizedValue(kv[0], rv)
	if !ok {
		return "bad-op"
	}
	return withTimeout(3*time.Second, func() string {
		res, err, ok := sizedOp(f[1], l, r)
		if !ok {
			return "bad-op"
		}
		return showSized(l, res, err)
	})
}

func floatValue(kind string, bits uint64) (value.Value, bool) {
	switch kind {
	case "f":
		return value.Float(math.Float64frombits(bits)).ToValue(), true
	case "f64":
		return value.Float64(math.Float64frombits(bits)).ToValue(), true
	case "f32":
		if bits > math.MaxUint32 {
			return value.Undefined, false
		}
		return value.Float32(math.Float32frombits(uint32(bits))).ToValue(), true
	}
	return value.Undefined, false
}

func showFloat(kind string, res, err value.Value) string {
	if !err.IsUndefined() {
		return "err " + err.Class().Name
	}
	switch kind {
	case "f":
		if !res.IsFloat() {
			return "wrongtype:" + res.Inspect()
		}
		x := float64(res.AsFloat())
		if math.IsNaN(x) {
			return "ok nan"
		}
		return fmt.Sprintf("ok %016x", math.Float64bits(x))
	case "f64":
		if !res.IsInlineFloat64() {
			return "wrongtype:" + res.Inspect()
		}
		x := float64(res.AsInlineFloat64())
		if math.IsNaN(x) {
			return "ok nan"
		}
		return fmt.Sprintf("ok %016x", math.Float64bits(x))
	case "f32":
		if !res.IsFloat32() {
			return "wrongtype:" + res.Inspect()
		}
		x := float32(res.AsFloat32())
		if x != x {
			return "ok nan"
		}
		return fmt.Sprintf("ok %08x", math.Float32bits(x))
	}
	return "bad-op"
}

func execFlt(f []string) string {
	if len(f) != 4 {
		return "bad-op"
	}
	abits, e := strconv.ParseUint(f[2], 16, 64)
	if e != nil {
		return "bad-op"
	}
	l, ok := floatValue(f[0], abits)
	if !ok {
		return "bad-op"
	}
	if f[3] == "-" {
		if f[1] != "neg" {
			return "bad-op"
		}
		return showFloat(f[0], value.NegateVal(l), value.Undefined)
	}
	kv := strings.SplitN(f[3], ":", 2)
	if len(kv) != 2 {
		return "bad-op"
	}
	var r value.Value
	switch kv[0] {
	case "f":
		bb, e := strconv.ParseUint(kv[1], 16, 64)
		if e != nil {
			return "bad-op"
		}
		if r, ok = floatValue(f[0], bb); !ok {
			return "bad-op"
		}
	case "s", "b":
		if f[0] != "f" {
			return "bad-op"
		}
		n, ok := new(big.Int).SetString(kv[1], 10)
		if !ok {
			return "bad-op"
		}
		if r, ok = sizedValue(kv[0], n); !ok {
			return "bad-op"
		}
	default:
		return "bad-op"
	}
	var res, err value.Value
	switch f[1] {
	case "add":
		res, err = value.AddVal(l, r)
	case "sub":
		res, err = value.SubtractVal(l, r)
	case "mul":
		res, err = value.MultiplyVal(l, r)
	case "div":
		res, err = value.DivideVal(l, r)
	case "mod":
		res, err = value.ModuloVal(l, r)
	case "pow":
		res, err = value.ExponentiateVal(l, r)
	default:
		return "bad-op"
	}
	return showFloat(f[0], res, err)
}

// probe shiftadmitted: which right-operand static types does the checker accept for each shift
// operator on each sized left type? One source with one method per (op, L, R); a failing
// diagnostic on a method's line marks the triple as rejected.
var shiftOps = []string{"<<", ">>", "<<<", ">>>"}
var shiftLeftTypes = []string{"Int8", "Int16", "Int32", "Int64", "UInt8", "UInt16", "UInt32", "UInt64", "UInt"}
var shiftRightTypes = []string{"Int", "Int64", "Int32", "Int16", "Int8", "UInt64", "UInt32", "UInt16", "UInt8", "UInt", "Float", "String"}

func probeShiftAdmitted(args []string) (any, error) {
	type triple struct{ Op, L, R string }
	var sb strings.Builder
	lineOf := map[int]triple{}
	line := 1
	sb.WriteString("module VerifShiftProbe\n")
	line++
	n := 0
	for _, op := range shiftOps {
		for _, l := range shiftLeftTypes {
			for _, r := range shiftRightTypes {
				fmt.Fprintf(&sb, "  def m%d(a: %s, b: %s); a %s b; end\n", n, l, r, op)
				lineOf[line] = triple{op, l, r}
				line++
				n++
			}
		}
	}
	sb.WriteString("end\n")
	_, diags := checker.CheckSource("/tmp/verif_shift_probe.elk", sb.String(), nil, bitfield.BitField16{}, nil)
	rejected := map[triple]bool{}
	for _, d := range diags {
		if d.Location == nil || d.Location.StartPos == nil {
			return nil, fmt.Errorf("diagnostic without a position: %s", d.Message)
		}
		t, ok := lineOf[d.Location.StartPos.Line]
		if !ok {
			return nil, fmt.Errorf("diagnostic outside the probe methods (line %d): %s", d.Location.StartPos.Line, d.Message)
		}
		rejected[t] = true
	}
	admitted := [][]string{}
	for _, op := range shiftOps {
		for _, l := range shiftLeftTypes {
			for _, r := range shiftRightTypes {
				if !rejected[triple{op, l, r}] {
					admitted = append(admitted, []string{op, l, r})
				}
			}
		}
	}
	return map[string]any{"ops": shiftOps, "left": shiftLeftTypes, "right": shiftRightTypes, "admitted": admitted}, nil
}
