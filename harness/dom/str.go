package dom

import (
	"encoding/hex"
	"fmt"
	"strconv"
	"strings"
	"unicode"
	"unicode/utf8"

	"elkverif/hx"

	"github.com/elk-language/elk/value"
	"github.com/elk-language/elk/vm"
	"github.com/rivo/uniseg"
)

// domain str (C20): every operation goes through the *native method registered for Std::String*
// (vm/string.go → value/string.go), looked up by its Elk name in the real method table.
// Grammar: see lean/Driver/Dom/Str.lean.
// domain strref: an independent reference (unicode/utf8 + uniseg's Graphemes iterator + unicode.To*)
// used by the check's oracle and to supply the segmentation / case-map parameters of the model.
func init() {
	hx.RegisterExec("str", execStr)
	hx.RegisterExec("strref", execStrRef)
}

func strMethod(name string) vm.NativeFunction {
	m := value.StringClass.LookupMethod(value.ToSymbol(name))
	if m == nil {
		panic("no such String method: " + name)
	}
	return m.(*vm.NativeMethod).Function
}

func classMethod(c *value.Class, name string) vm.NativeFunction {
	m := c.LookupMethod(value.ToSymbol(name))
	if m == nil {
		panic("no such method: " + name)
	}
	return m.(*vm.NativeMethod).Function
}

func unhex(s string) (string, bool) {
	if s == "-" {
		return "", true
	}
	b, err := hex.DecodeString(s)
	if err != nil {
		return "", false
	}
	return string(b), true
}

func hexs(s string) string {
	if s == "" {
		return "-"
	}
	return hex.EncodeToString([]byte(s))
}

func strVal(s string) value.Value { return value.Ref(value.String(s)) }

// errEnum maps an Elk error value to the protocol's enum.
func errEnum(e value.Value) string {
	c := e.Class()
	switch c {
	case value.IndexErrorClass:
		return "err Index"
	case value.OutOfRangeErrorClass:
		return "err OutOfRange"
	case value.TypeErrorClass:
		return "err Type"
	case value.FormatErrorClass:
		return "err Format"
	}
	if e.IsInlineSymbol() {
		return "err :" + e.AsInlineSymbol().String()
	}
	return "err " + c.Name
}

// intArg parses `<kind>:<decimal>` into an Elk integer value of that kind.
func strIntArg(s string) (value.Value, bool) {
	k, d, ok := strings.Cut(s, ":")
	if !ok {
		return value.Undefined, false
	}
	switch k {
	case "int":
		v, err := value.ParseInt(d, 10)
		if !err.IsUndefined() {
			return value.Undefined, false
		}
		return v, true
	case "i64", "i32", "i16", "i8":
		n, err := strconv.ParseInt(d, 10, 64)
		if err != nil {
			return value.Undefined, false
		}
		switch k {
		case "i64":
			return value.Int64(n).ToValue(), true
		case "i32":
			return value.Int32(n).ToValue(), true
		case "i16":
			return value.Int16(n).ToValue(), true
		default:
			return value.Int8(n).ToValue(), true
		}
	case "u64", "u32", "u16", "u8", "uint":
		n, err := strconv.ParseUint(d, 10, 64)
		if err != nil {
			return value.Undefined, false
		}
		switch k {
		case "u64":
			return value.UInt64(n).ToValue(), true
		case "u32":
			return value.UInt32(n).ToValue(), true
		case "u16":
			return value.UInt16(n).ToValue(), true
		case "u8":
			return value.UInt8(n).ToValue(), true
		default:
			return value.UInt(n).ToValue(), true
		}
	}
	return value.Undefined, false
}

// otherArg parses `s:<hex>` | `c:<rune>` | `o` (some other value: nil).
func otherArg(s string) (value.Value, bool) {
	if s == "o" {
		return value.Nil, true
	}
	k, d, ok := strings.Cut(s, ":")
	if !ok {
		return value.Undefined, false
	}
	switch k {
	case "s":
		b, ok := unhex(d)
		return strVal(b), ok
	case "c":
		n, err := strconv.ParseInt(d, 10, 32)
		if err != nil {
			return value.Undefined, false
		}
		return value.Char(n).ToValue(), true
	}
	return value.Undefined, false
}

func showStr(v value.Value) string {
	if v.IsReference() {
		if s, ok := v.AsReference().(value.String); ok {
			return hexs(string(s))
		}
	}
	return "?" + v.Inspect()
}

func showBool(v value.Value) string {
	if v == value.True.ToValue() {
		return "t"
	}
	if v == value.False.ToValue() {
		return "f"
	}
	return "?" + v.Inspect()
}

// drain collects the elements of an Elk iterator object by calling its native `next` until
// :stop_iteration.
func drain(it value.Value, show func(value.Value) string) string {
	next := classMethod(it.Class(), "next")
	var out []string
	for i := 0; i < 1<<22; i++ {
		v, err := next(nil, []value.Value{it})
		if !err.IsUndefined() {
			if err.IsInlineSymbol() && err.AsInlineSymbol().String() == "stop_iteration" {
				break
			}
			return "!" + errEnum(err)
		}
		out = append(out, show(v))
	}
	if len(out) == 0 {
		return "-"
	}
	return strings.Join(out, ",")
}

func execStr(f []string) string {
	if len(f) < 2 {
		return "bad-op"
	}
	switch f[0] {
	case "utf8":
		// Go's unicode/utf8 itself (ties lean/ElkVerif/Model/Utf8.lean to the Go runtime)
		return execStrRef([]string{"runes", f[1]})
	case "enc":
		n, err := strconv.ParseInt(f[1], 10, 64)
		if err != nil || n < -(1<<31) || n >= 1<<31 {
			return "bad-op"
		}
		return fmt.Sprintf("ok %s len=%d", hexs(string(utf8.AppendRune(nil, rune(n)))), utf8.RuneLen(rune(n)))
	}
	s, ok := unhex(f[1])
	if !ok {
		return "bad-op"
	}
	self := strVal(s)
	call := func(name string, args ...value.Value) (value.Value, value.Value) {
		return strMethod(name)(nil, append([]value.Value{self}, args...))
	}
	switch f[0] {
	case "counts":
		// length / byte_count / grapheme_count and the three iterators
		l, _ := call("length")
		b, _ := call("byte_count")
		g, _ := call("grapheme_count")
		ci, _ := call("iter")
		bi, _ := call("byte_iter")
		gi, _ := call("grapheme_iter")
		chars := drain(ci, func(v value.Value) string {
			if v.IsChar() {
				return strconv.Itoa(int(v.AsChar()))
			}
			return "?" + v.Inspect()
		})
		bytes := drain(bi, func(v value.Value) string {
			if v.IsUInt8() {
				return strconv.Itoa(int(v.AsUInt8()))
			}
			return "?" + v.Inspect()
		})
		gs := drain(gi, showStr)
		if !l.IsSmallInt() || !b.IsSmallInt() || !g.IsSmallInt() {
			return "ok ?non-int-count"
		}
		return fmt.Sprintf("ok len=%d bytes=%d graphemes=%d chars=%s byteiter=%s giter=%s",
			l.AsSmallInt(), b.AsSmallInt(), g.AsSmallInt(), chars, bytes, gs)
	case "char_at", "byte_at", "grapheme_at":
		if len(f) < 3 {
			return "bad-op"
		}
		idx, ok := strIntArg(f[2])
		if !ok {
			return "bad-op"
		}
		v, err := call(f[0], idx)
		if !err.IsUndefined() {
			return errEnum(err)
		}
		switch f[0] {
		case "char_at":
			if v.IsChar() {
				return "ok " + strconv.Itoa(int(v.AsChar()))
			}
		case "byte_at":
			if v.IsUInt8() {
				return "ok " + strconv.Itoa(int(v.AsUInt8()))
			}
		default:
			return "ok " + showStr(v)
		}
		return "ok ?" + v.Inspect()
	case "rjust", "ljust":
		if len(f) != 4 {
			return "bad-op"
		}
		n, ok1 := strIntArg("int:" + f[2])
		c, err := strconv.ParseInt(f[3], 10, 32)
		if !ok1 || err != nil {
			return "bad-op"
		}
		v, e := call(f[0], n, value.Char(c).ToValue())
		if !e.IsUndefined() {
			return errEnum(e)
		}
		return "ok " + showStr(v)
	case "concat", "rmsuffix":
		if len(f) != 3 {
			return "bad-op"
		}
		o, ok := otherArg(f[2])
		if !ok {
			return "bad-op"
		}
		name := "+"
		if f[0] == "rmsuffix" {
			name = "-"
		}
		v, e := call(name, o)
		if !e.IsUndefined() {
			return errEnum(e)
		}
		return "ok " + showStr(v)
	case "repeat":
		if len(f) != 3 {
			return "bad-op"
		}
		n, ok := strIntArg("int:" + f[2])
		if !ok {
			return "bad-op"
		}
		v, e := call("*", n)
		if !e.IsUndefined() {
			return errEnum(e)
		}
		return "ok " + showStr(v)
	case "cmp":
		if len(f) != 3 {
			return "bad-op"
		}
		o, ok := otherArg(f[2])
		if !ok {
			return "bad-op"
		}
		var parts []string
		for _, op := range []string{"<=>", "<", "<=", ">", ">="} {
			v, e := call(op, o)
			if !e.IsUndefined() {
				parts = append(parts, errEnum(e))
				continue
			}
			if op == "<=>" {
				if v.IsSmallInt() {
					parts = append(parts, strconv.Itoa(int(v.AsSmallInt())))
				} else {
					parts = append(parts, "?"+v.Inspect())
				}
			} else {
				parts = append(parts, showBool(v))
			}
		}
		v, _ := call("==", o)
		parts = append(parts, showBool(v))
		return "ok " + strings.Join(parts, " ")
	case "upper", "lower":
		name := "uppercase"
		if f[0] == "lower" {
			name = "lowercase"
		}
		v, e := call(name)
		if !e.IsUndefined() {
			return errEnum(e)
		}
		return "ok " + showStr(v)
	}
	return "bad-op"
}

// ---- independent reference ------------------------------------------------------------------

func execStrRef(f []string) string {
	if len(f) < 2 {
		return "bad-op"
	}
	s, ok := unhex(f[1])
	if !ok {
		return "bad-op"
	}
	switch f[0] {
	case "seg":
		// grapheme clusters through uniseg's Graphemes iterator (the implementation uses
		// GraphemeClusterCount and FirstGraphemeClusterInString)
		g := uniseg.NewGraphemes(s)
		var out []string
		for g.Next() {
			out = append(out, hexs(g.Str()))
		}
		if len(out) == 0 {
			return "ok -"
		}
		return "ok " + strings.Join(out, ",")
	case "case":
		// simple case mapping of every rune of s: `r>upper>lower` for runes that change
		seen := map[rune]bool{}
		var out []string
		for i := 0; i < len(s); {
			r, w := utf8.DecodeRuneInString(s[i:])
			i += w
			if seen[r] {
				continue
			}
			seen[r] = true
			u, l := unicode.ToUpper(r), unicode.ToLower(r)
			if u != r || l != r {
				out = append(out, fmt.Sprintf("%d>%d>%d", r, u, l))
			}
		}
		if len(out) == 0 {
			return "ok -"
		}
		return "ok " + strings.Join(out, ",")
	case "runes":
		// decoded runes and widths, straight from unicode/utf8
		var out []string
		for i := 0; i < len(s); {
			r, w := utf8.DecodeRuneInString(s[i:])
			out = append(out, fmt.Sprintf("%d:%d", r, w))
			i += w
		}
		lr, lw := utf8.DecodeLastRuneInString(s)
		return fmt.Sprintf("ok n=%d last=%d:%d valid=%v %s", utf8.RuneCountInString(s), lr, lw, utf8.ValidString(s), strings.Join(out, ","))
	}
	return "bad-op"
}
