package dom

import (
	"bufio"
	"bytes"
	"encoding/json"
	"fmt"
	"io"
	"os"
	"runtime/debug"
	"strings"
	"sync"
	"time"

	"elkverif/hx"

	"github.com/elk-language/elk/repl"
)

// sub-command `replreal` (C27): feeds a history to the REPL's OWN evaluate function
// (repl/repl.go, through hook repl/verif_eval.go) and returns what it printed per input.
// evaluate prints to os.Stdout / os.Stderr (and so does the VM it creates), so both are
// redirected into a pipe for the lifetime of the worker; answers go to the saved real stdout.
func init() { hx.RegisterSub("replreal", replRealWorker) }

type ReplRealAns struct {
	ID      string   `json:"id"`
	Texts   []string `json:"texts"` // raw text printed by evaluate for each input
	Outcome string   `json:"outcome"`
	Panic   string   `json:"panic,omitempty"`
}

type captureBuf struct {
	mu  sync.Mutex
	buf bytes.Buffer
}

func (c *captureBuf) waitFor(marker string, timeout time.Duration) (string, bool) {
	deadline := time.Now().Add(timeout)
	for {
		c.mu.Lock()
		s := c.buf.String()
		if i := strings.Index(s, marker); i >= 0 {
			c.buf.Reset()
			c.buf.WriteString(s[i+len(marker):])
			c.mu.Unlock()
			return s[:i], true
		}
		c.mu.Unlock()
		if time.Now().After(deadline) {
			return s, false
		}
		time.Sleep(200 * time.Microsecond)
	}
}

func replRealWorker(args []string) int {
	realOut := os.Stdout
	r, w, err := os.Pipe()
	if err != nil {
		fmt.Fprintln(os.Stderr, err)
		return 2
	}
	os.Stdout = w
	os.Stderr = w
	cap := &captureBuf{}
	go func() {
		tmp := make([]byte, 1<<16)
		for {
			n, e := r.Read(tmp)
			if n > 0 {
				cap.mu.Lock()
				cap.buf.Write(tmp[:n])
				cap.mu.Unlock()
			}
			if e == io.EOF || e != nil {
				return
			}
		}
	}()
	in := bufio.NewReaderSize(os.Stdin, 1<<22)
	out := bufio.NewWriter(realOut)
	defer out.Flush()
	seq := 0
	for {
		line, rerr := in.ReadString('\n')
		if len(strings.TrimSpace(line)) > 0 {
			var req ReplReq
			if e := json.Unmarshal([]byte(line), &req); e != nil {
				fmt.Fprintln(out, `{"outcome":"bad-request"}`)
			} else {
				ans := &ReplRealAns{ID: req.ID, Outcome: "ok", Texts: []string{}}
				timeout := time.Duration(req.TimeoutMs) * time.Millisecond
				if timeout == 0 {
					timeout = 30 * time.Second
				}
				sess := repl.NewVerifSession()
				dead := false
				for _, src := range req.Inputs {
					seq++
					marker := fmt.Sprintf("\x00<<C27-END-%d>>\x00", seq)
					done := make(chan string, 1)
					go func() {
						p := ""
						defer func() {
							if rec := recover(); rec != nil {
								p = hx.PanicClass(rec) + " @ " + firstFrames(debug.Stack())
							}
							fmt.Fprint(os.Stdout, marker)
							done <- p
						}()
						sess.Evaluate(src)
					}()
					select {
					case p := <-done:
						txt, _ := cap.waitFor(marker, 5*time.Second)
						ans.Texts = append(ans.Texts, txt)
						if p != "" {
							ans.Outcome = "panic"
							ans.Panic = p
							dead = true
						}
					case <-time.After(timeout):
						ans.Outcome = "timeout"
						dead = true
					}
					if dead {
						break
					}
				}
				b, _ := json.Marshal(ans)
				out.Write(b)
				out.WriteByte('\n')
				out.Flush()
				if ans.Outcome == "timeout" {
					return 3
				}
			}
		}
		if rerr != nil {
			return 0
		}
	}
}
