package dom

import (
	"fmt"
	"strconv"
	"strings"
	"sync"

	"elkverif/hx"

	"github.com/elk-language/elk/types/checker"
)

// domain hyg (C31): see lean/Driver/Dom/Hygiene.lean for the grammar. Drives the local
// environment stack of a REAL checker.Checker through types/checker/verif_local.go.
func init() { hx.RegisterExec("hyg", execHygiene) }

var (
	hygOnce sync.Once
	hygEnv  *checker.VerifLocalEnvs
)

func execHygiene(f []string) string {
	if len(f) != 2 || f[0] != "run" {
		return "bad-op"
	}
	hygOnce.Do(func() { hygEnv = checker.NewVerifLocalEnvs() })
	v := hygEnv
	v.Reset()
	var ans []string
	if f[1] != "" {
		for _, e := range strings.Split(f[1], ";") {
			p := strings.Split(e, " ")
			switch {
			case p[0] == "n" && len(p) == 2:
				if v.Depth() == 0 {
					return "panic"
				}
				switch p[1] {
				case "d":
					v.PushNested(0)
				case "m":
					v.PushNested(1)
				case "c":
					v.PushNested(2)
				default:
					return "bad-op"
				}
			case p[0] == "i" && len(p) == 1:
				v.PushIsolated()
			case p[0] == "p" && len(p) == 1:
				if v.Depth() == 0 {
					return "panic"
				}
				v.Pop()
			case p[0] == "a" && len(p) == 3:
				id, err := strconv.Atoi(p[2])
				if err != nil {
					return "bad-op"
				}
				if v.Depth() == 0 {
					return "panic"
				}
				v.Add("v"+p[1], id)
			case p[0] == "r" && len(p) == 3:
				if v.Depth() == 0 {
					return "panic"
				}
				id, idx, nested, found, failed := v.Resolve("v"+p[1], p[2] == "1")
				if found == failed {
					// resolveLocal must report `undefined local` exactly when nothing is found
					ans = append(ans, fmt.Sprintf("inconsistent-failure(found=%v,failed=%v)", found, failed))
				} else if !found {
					ans = append(ans, "none")
				} else {
					n := 0
					if nested {
						n = 1
					}
					ans = append(ans, fmt.Sprintf("%d@%d:%d", id, idx, n))
				}
			case p[0] == "g" && len(p) == 2:
				if v.Depth() == 0 {
					return "panic"
				}
				id, found := v.GetLocal("v" + p[1])
				if !found {
					ans = append(ans, "none")
				} else {
					ans = append(ans, strconv.Itoa(id))
				}
			default:
				return "bad-op"
			}
		}
	}
	return fmt.Sprintf("ok %d | %s", v.Depth(), strings.Join(ans, ","))
}
