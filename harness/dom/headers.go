package dom

// C28 harness.
//
//	elkh probe headers     both method tables read in-process:
//	                         declared: every method the global type environment (types/headers.go, generated
//	                         from headers/*.elh) makes visible on every Std namespace (own, inherited, mixed in),
//	                         with its parameter shape;
//	                         runtime: what the real LookupMethod of the runtime class / singleton class of the
//	                         same name finds (kind, parameter count, optional count).

import (
	"encoding/hex"
	"io"
	"os"
	"sort"
	"strings"
	"time"

	"elkverif/hx"

	"github.com/elk-language/elk"
	"github.com/elk-language/elk/bitfield"
	"github.com/elk-language/elk/types"
	"github.com/elk-language/elk/types/checker"
	"github.com/elk-language/elk/value"
	"github.com/elk-language/elk/vm"
)

func init() {
	_ = elk.InitGlobalEnvironment
	hx.RegisterProbe("headers", probeHeaders)
	hx.RegisterExec("hd", execHd)
}

// ---------------------------------------------------------------- call sweep
//
// hd call <hex receiver source> <hex method name> <hex arg sources, ';'-separated> <class>
//   ok <result class> sub=<true|false|skip> decl=<declared return type>
//   err <error class> thr=<true|false|skip> decl=<declared throw type>
//   missing | nosrc <why> | panic <class>
var (
	hdChecker  *checker.Checker
	hdValCache = map[string]*value.Value{}
)

func hdEval(src string) (value.Value, bool) {
	if v, ok := hdValCache[src]; ok {
		if v == nil {
			return value.Undefined, false
		}
		return *v, true
	}
	fn, diags := checker.CheckSource("/tmp/hd.elk", src+"\n", nil, bitfield.BitField16{}, nil)
	if (diags != nil && diags.IsFailure()) || fn == nil {
		hdValCache[src] = nil
		return value.Undefined, false
	}
	v := vm.New(vm.WithStdout(io.Discard))
	res, err := v.InterpretTopLevel(fn)
	if !err.IsUndefined() {
		hdValCache[src] = nil
		return value.Undefined, false
	}
	hdValCache[src] = &res
	return res, true
}

// static type standing for the run-time class of a value
func hdTypeOf(env *types.GlobalEnvironment, v value.Value) (types.Type, bool) {
	switch {
	case v.IsNil():
		return types.Nil{}, true
	case v.IsTrue():
		return types.True{}, true
	case v.IsFalse():
		return types.False{}, true
	case v.IsUndefined():
		return nil, false
	case v.IsInlineSymbol():
		// a thrown / returned symbol is judged as its literal type (`! :stop_iteration`)
		return types.NewSymbolLiteral(v.AsInlineSymbol().String()), true
	}
	name := v.Class().Name
	t, ok := types.NameToTypeOk(name, env)
	return t, ok
}

// hdErase replaces type parameters by `any` and generic instantiations by their namespace: the
// run-time class of a result carries no type arguments, so only the erased declaration can be judged.
// ok=false: the declaration mentions something that cannot be erased (self types etc.).
func hdErase(t types.Type) (types.Type, bool) {
	switch n := t.(type) {
	case *types.TypeParameter:
		return types.Any{}, true
	case *types.Generic:
		return n.Namespace, true
	case *types.Nilable:
		e, ok := hdErase(n.Type)
		return types.NewNilable(e), ok
	case *types.Union:
		els := make([]types.Type, len(n.Elements))
		for i, el := range n.Elements {
			e, ok := hdErase(el)
			if !ok {
				return nil, false
			}
			els[i] = e
		}
		return types.NewUnion(els...), true
	case types.Self, *types.Intersection, *types.Not, *types.Callable:
		return nil, false
	}
	if strings.Contains(types.Inspect(t), "self") {
		return nil, false
	}
	return t, true
}

func execHd(f []string) string {
	if len(f) != 5 || f[0] != "call" {
		return "bad-op"
	}
	rb, e1 := hex.DecodeString(f[1])
	mb, e2 := hex.DecodeString(f[2])
	if e1 != nil || e2 != nil {
		return "bad-op"
	}
	if hdChecker == nil {
		hdChecker = checker.New()
	}
	env := hdChecker.Env()
	recv, ok := hdEval(string(rb))
	if !ok {
		return "nosrc receiver"
	}
	args := []value.Value{recv}
	if f[3] != "" {
		for _, h := range strings.Split(f[3], ";") {
			ab, e := hex.DecodeString(h)
			if e != nil {
				return "bad-op"
			}
			a, ok := hdEval(string(ab))
			if !ok {
				return "nosrc arg"
			}
			args = append(args, a.Copy())
		}
	}
	recv = recv.Copy() // receivers are mutated by some methods: never share the cached value
	args[0] = recv
	name := value.ToSymbol(string(mb))
	method := recv.DirectClass().LookupMethod(name)
	if method == nil {
		return "missing"
	}
	var decl *types.Method
	if rt, ok := hdTypeOf(env, recv); ok {
		if ns, ok := rt.(types.Namespace); ok {
			for n, m := range types.AllMethods(ns) {
				if n == name {
					decl = m
					break
				}
			}
		}
	}
	type outT struct {
		res, err value.Value
	}
	done := make(chan outT, 1)
	pan := make(chan string, 1)
	go func() {
		defer func() {
			if r := recover(); r != nil {
				pan <- hx.PanicClass(r)
			}
		}()
		v := vm.New(vm.WithStdout(io.Discard))
		res, err := v.CallMethod(method, args...)
		done <- outT{res, err}
	}()
	select {
	case p := <-pan:
		return "panic " + p
	case <-time.After(3 * time.Second):
		os.Exit(7) // a hanging native cannot be stopped: the Python side records the line as fatal timeout
		return "fatal timeout"
	case o := <-done:
		if !o.err.IsUndefined() {
			cls := o.err.Class().Name
			thr := "skip"
			declS := ""
			if decl != nil && decl.ThrowType != nil {
				declS = types.Inspect(decl.ThrowType)
				er, eok := hdErase(decl.ThrowType)
				if et, ok := hdTypeOf(env, o.err); ok && eok {
					if hdChecker.IsSubtype(et, er) {
						thr = "true"
					} else {
						thr = "false"
					}
				}
			}
			return "err " + cls + " thr=" + thr + " decl=" + strings.ReplaceAll(declS, " ", "")
		}
		cls := "undefined"
		sub := "skip"
		declS := ""
		if !o.res.IsUndefined() {
			cls = o.res.Class().Name
		}
		if decl != nil && decl.ReturnType != nil {
			declS = types.Inspect(decl.ReturnType)
			er, eok := hdErase(decl.ReturnType)
			if rt, ok := hdTypeOf(env, o.res); ok && eok {
				if hdChecker.IsSubtype(rt, er) {
					sub = "true"
				} else {
					sub = "false"
				}
			}
		}
		return "ok " + cls + " sub=" + sub + " decl=" + strings.ReplaceAll(declS, " ", "")
	}
}

type hdrRow struct {
	Ns       string `json:"ns"`       // namespace the method is visible on
	NsKind   string `json:"nskind"`   // class | abstract-class | mixin | module | interface
	Side     string `json:"side"`     // i = instance method, s = singleton (class / module level)
	Name     string `json:"name"`     // method name as the runtime would look it up
	Declared string `json:"declared"` // namespace that declares it
	Abstract bool   `json:"abstract"`
	Native   bool   `json:"native"`
	Req      int    `json:"req"`      // required positional parameters (incl. post-rest)
	Opt      int    `json:"opt"`      // parameters with a default value
	Rest     bool   `json:"rest"`     // positional rest parameter
	NRest    bool   `json:"nrest"`    // named rest parameter
	Slots    int    `json:"slots"`    // parameter slots the compiler fills at most (req + opt + rest + nrest)
	PTypes   []string `json:"ptypes"` // declared parameter types (inspect), one per slot
	Ret      string `json:"ret"`      // declared return type (inspect)
	Throw    string `json:"throw"`    // declared throw type (inspect)
	RtNs     bool   `json:"rtns"`     // a runtime namespace of that name exists
	Found    bool   `json:"found"`    // the runtime lookup finds a method
	RtKind   string `json:"rtkind"`   // native | bytecode | getter | setter | other | ""
	RtParams int    `json:"rtparams"` // ParameterCount of what was found
	RtOpt    int    `json:"rtopt"`    // OptionalParameterCount of what was found
}

func nsKind(n types.Namespace) string {
	switch t := n.(type) {
	case *types.Class:
		if t.IsAbstract() {
			return "abstract-class"
		}
		return "class"
	case *types.Mixin:
		return "mixin"
	case *types.Module:
		return "module"
	case *types.Interface:
		return "interface"
	}
	return ""
}

// runtime container for a namespace name: (instance lookup class, singleton lookup class)
func runtimeOf(name string) (inst *value.Class, single *value.Class, ok bool) {
	v := value.GetConstant(value.ToSymbol(name))
	if v.IsUndefined() {
		return nil, nil, false
	}
	switch r := v.SafeAsReference().(type) {
	case *value.Class:
		return r, r.SingletonClass(), true
	case *value.Module:
		return nil, r.SingletonClass(), true
	case *value.Interface:
		return nil, nil, true
	}
	return nil, nil, false
}

func describe(m value.Method) (kind string, params, opt int) {
	switch r := m.(type) {
	case *vm.NativeMethod:
		return "native", r.ParameterCount(), r.OptionalParameterCount()
	case *vm.BytecodeFunction:
		return "bytecode", r.ParameterCount(), r.OptionalParameterCount()
	case *vm.GetterMethod:
		return "getter", 0, 0
	case *vm.SetterMethod:
		return "setter", 1, 0
	case nil:
		return "", 0, 0
	}
	return "other", m.ParameterCount(), 0
}

func probeHeaders(args []string) (any, error) {
	env := types.NewGlobalEnvironment()
	rows := []hdrRow{}
	seenNs := map[string]bool{}
	var walk func(ns types.Namespace)
	addRows := func(ns types.Namespace, kind string, side string, methods func(func(value.Symbol, *types.Method) bool), look *value.Class, rtns bool) {
		methods(func(name value.Symbol, m *types.Method) bool {
			if m.IsMacro() || m.IsPlaceholder() {
				return true
			}
			r := hdrRow{Ns: ns.Name(), NsKind: kind, Side: side, Name: name.String(), Abstract: m.IsAbstract(), Native: m.IsNative(),
				Opt: m.OptionalParamCount, Rest: m.HasPositionalRestParam(), NRest: m.HasNamedRestParam(), RtNs: rtns}
			if m.DefinedUnder != nil {
				r.Declared = m.DefinedUnder.Name()
			}
			r.Req = m.RequiredParamCount()
			r.Slots = len(m.Params)
			r.PTypes = []string{}
			for _, p := range m.Params {
				r.PTypes = append(r.PTypes, types.Inspect(p.Type))
			}
			if m.ReturnType != nil {
				r.Ret = types.Inspect(m.ReturnType)
			}
			if m.ThrowType != nil {
				r.Throw = types.Inspect(m.ThrowType)
			}
			if look != nil {
				found := look.LookupMethod(name)
				if found != nil {
					r.Found = true
					r.RtKind, r.RtParams, r.RtOpt = describe(found)
				}
			}
			rows = append(rows, r)
			return true
		})
	}
	walk = func(ns types.Namespace) {
		if seenNs[ns.Name()] {
			return
		}
		seenNs[ns.Name()] = true
		kind := nsKind(ns)
		if kind != "" && (ns.Name() == "Std" || strings.HasPrefix(ns.Name(), "Std::")) {
			inst, single, ok := runtimeOf(ns.Name())
			switch kind {
			case "class", "abstract-class", "mixin":
				addRows(ns, kind, "i", types.SortedMethods(ns), inst, ok)
				if s := ns.Singleton(); s != nil {
					addRows(ns, kind, "s", types.SortedOwnMethods(s), single, ok)
				}
			case "module":
				addRows(ns, kind, "s", types.SortedOwnMethods(ns), single, ok)
			case "interface":
				addRows(ns, kind, "i", types.SortedOwnMethods(ns), nil, ok)
			}
		}
		for _, c := range types.SortedSubtypes(ns) {
			if sub, ok := c.Type.(types.Namespace); ok {
				switch sub.(type) {
				case *types.Class, *types.Mixin, *types.Module, *types.Interface:
					walk(sub)
				}
			}
		}
	}
	walk(env.Root)
	sort.SliceStable(rows, func(i, j int) bool {
		if rows[i].Ns != rows[j].Ns {
			return rows[i].Ns < rows[j].Ns
		}
		if rows[i].Side != rows[j].Side {
			return rows[i].Side < rows[j].Side
		}
		return rows[i].Name < rows[j].Name
	})
	return map[string]any{"rows": rows, "namespaces": len(seenNs)}, nil
}
