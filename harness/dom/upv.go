package dom

import (
	"fmt"
	"strconv"
	"strings"

	"elkverif/hx"

	"github.com/elk-language/elk/value"
	"github.com/elk-language/elk/vm"
)

// domain upv (C13, C10 machine level): drives a real *vm.Thread through the verif-tagged
// wrappers of vm/verif_upvalue.go. Grammar and answer format: lean/Driver/Dom/Upvalue.lean.
//
// Every access the VM would perform is checked here first (the VM itself checks nothing), so
// that a wrong pointer produced by a mutated VM is reported (`w`, `err dangling`) instead of
// being dereferenced. The checks are functions of the address-free state only.
func init() { hx.RegisterExec("upv", execUpv) }

const upvVS = int(value.ValueSize)

type upvM struct {
	t      *vm.Thread
	ids    map[*vm.Upvalue]int
	uvs    []*vm.Upvalue // by creation order
	hs     []*vm.Upvalue // handles
	reads  []string
	maxLen int
}

func (m *upvM) id(u *vm.Upvalue) int {
	if i, ok := m.ids[u]; ok {
		return i
	}
	i := len(m.uvs)
	m.ids[u] = i
	m.uvs = append(m.uvs, u)
	return i
}

func (m *upvM) sp() int { return m.t.VerifSpBytes() / upvVS }
func (m *upvM) fp() int { return m.t.VerifFpBytes() / upvVS }

// slot index if the byte offset is a slot boundary inside the live part, else -1
func (m *upvM) live(bytes int) int {
	if bytes < 0 || bytes%upvVS != 0 || bytes >= m.t.VerifSpBytes() {
		return -1
	}
	return bytes / upvVS
}

func showVal(v value.Value) string {
	if v.IsSmallInt() {
		return strconv.FormatInt(int64(v.AsSmallInt()), 10)
	}
	if v.IsUndefined() {
		return "U"
	}
	return "?" + v.Inspect()
}

func mkVal(n int64) value.Value { return value.SmallInt(n).ToValue() }

// may `u` be dereferenced?
func (m *upvM) derefOK(u *vm.Upvalue) bool {
	if u.IsClosed() {
		return true
	}
	return m.live(m.t.VerifUpvalueSlotBytes(u)) >= 0
}

// the dereferences `opCloseUpvalues(last)` will make; "" if all are legal
func (m *upvM) closeCheck(lastBytes int) string {
	for _, u := range m.t.VerifOpenUpvalues() {
		if u.IsClosed() {
			return "corrupt"
		}
		if m.t.VerifUpvalueSlotBytes(u) < lastBytes {
			break
		}
		if !m.derefOK(u) {
			return "dangling"
		}
	}
	return ""
}

// the comparisons `captureUpvalue` will make read `slot` of list nodes: closed nodes are corrupt
func (m *upvM) walkCheck(slotBytes int) string {
	for _, u := range m.t.VerifOpenUpvalues() {
		if u.IsClosed() {
			return "corrupt"
		}
		if m.t.VerifUpvalueSlotBytes(u) <= slotBytes {
			break
		}
	}
	return ""
}

func (m *upvM) lookup(ks string) ([]*vm.Upvalue, bool) {
	var out []*vm.Upvalue
	if ks == "" {
		return out, true
	}
	for _, k := range strings.Split(ks, ".") {
		i, err := strconv.Atoi(k)
		if err != nil || i < 0 || i >= len(m.hs) {
			return nil, false
		}
		out = append(out, m.hs[i])
	}
	return out, true
}

func (m *upvM) growCheck() string {
	if 2*m.t.VerifStackLen() >= m.maxLen {
		return "max"
	}
	return ""
}

// one operation; returns "" or the error enum
func (m *upvM) op(p []string) string {
	t := m.t
	n := make([]int, 0, 2)
	for _, s := range p[1:] {
		if p[0] == "cc" && len(n) == 1 {
			break
		}
		v, err := strconv.Atoi(s)
		if err != nil {
			return "bad-op"
		}
		n = append(n, v)
	}
	switch {
	case p[0] == "p" && len(n) == 1:
		if t.VerifSpBytes() < 0 || t.VerifSpBytes()%upvVS != 0 {
			return "dangling"
		}
		if m.sp()+1 >= t.VerifStackLen() {
			return "full"
		}
		t.VerifPush(mkVal(int64(n[0])))
	case p[0] == "o" && len(n) == 0:
		if m.live(t.VerifSpBytes()-upvVS) < 0 {
			return "oob"
		}
		t.VerifPop()
	case p[0] == "gl" && len(n) == 1:
		if m.live(t.VerifFpBytes()+upvVS*n[0]) < 0 {
			return "oob"
		}
		m.reads = append(m.reads, showVal(t.VerifGetLocal(n[0])))
	case p[0] == "sl" && len(n) == 2:
		if m.live(t.VerifFpBytes()+upvVS*n[0]) < 0 {
			return "oob"
		}
		t.VerifSetLocal(n[0], mkVal(int64(n[1])))
	case p[0] == "cap" && len(n) == 1:
		if m.live(t.VerifFpBytes()+upvVS*n[0]) < 0 {
			return "oob"
		}
		if e := m.walkCheck(t.VerifFpBytes() + upvVS*n[0]); e != "" {
			return e
		}
		u := t.VerifCaptureUpvalue(n[0])
		m.id(u)
		m.hs = append(m.hs, u)
	case p[0] == "cl" && len(n) == 1:
		if e := m.closeCheck(t.VerifFpBytes() + upvVS*n[0]); e != "" {
			return e
		}
		t.VerifCloseUpvalues(n[0])
	case (p[0] == "ug" && len(n) == 1) || (p[0] == "us" && len(n) == 2):
		if n[0] < 0 || n[0] >= len(m.hs) {
			return "badHandle"
		}
		u := m.hs[n[0]]
		if !m.derefOK(u) {
			return "dangling"
		}
		if p[0] == "ug" {
			m.reads = append(m.reads, showVal(u.Get()))
		} else {
			u.Set(mkVal(int64(n[1])))
		}
	case (p[0] == "fg" && len(n) == 1) || (p[0] == "fs" && len(n) == 2):
		cur := t.VerifCurrentUpvalues()
		if n[0] < 0 || n[0] >= len(cur) {
			return "badHandle"
		}
		if !m.derefOK(cur[n[0]]) {
			return "dangling"
		}
		if p[0] == "fg" {
			m.reads = append(m.reads, showVal(t.VerifGetFrameUpvalue(n[0])))
		} else {
			t.VerifSetFrameUpvalue(n[0], mkVal(int64(n[1])))
		}
	case p[0] == "cc" && len(n) == 1 && len(p) <= 3:
		if m.live(t.VerifSpBytes()-upvVS*(n[0]+1)) < 0 {
			return "oob"
		}
		ks := ""
		if len(p) == 3 {
			ks = p[2]
		}
		ups, ok := m.lookup(ks)
		if !ok {
			return "badHandle"
		}
		t.VerifCallClosure(ups, n[0])
	case p[0] == "cm" && len(n) == 1:
		if m.live(t.VerifSpBytes()-upvVS*(n[0]+1)) < 0 {
			return "oob"
		}
		// the growth test is the VM's; only its size limit is checked here (it panics)
		if float64(m.sp()) > 0.7*float64(t.VerifStackLen()) {
			if e := m.growCheck(); e != "" {
				return e
			}
		}
		t.VerifCallFunction(n[0])
	case p[0] == "tc" && len(n) == 1:
		fpi, src := m.live(t.VerifFpBytes()), m.live(t.VerifSpBytes()-upvVS*(n[0]+1))
		if fpi < 0 || src < 0 || fpi > src {
			return "oob"
		}
		if e := m.closeCheck(t.VerifFpBytes()); e != "" {
			return e
		}
		t.VerifTailCallFunction(n[0])
	case p[0] == "ret" && len(n) == 0:
		if t.VerifCallDepth() == 0 {
			return "noframe"
		}
		if m.live(t.VerifSpBytes()-upvVS) < 0 || m.live(t.VerifFpBytes()) < 0 {
			return "oob"
		}
		if e := m.closeCheck(t.VerifFpBytes()); e != "" {
			return e
		}
		t.VerifReturn()
	case p[0] == "grow" && len(n) == 0:
		if e := m.growCheck(); e != "" {
			return e
		}
		t.VerifGrowValueStack()
	default:
		return "bad-op"
	}
	return ""
}

func (m *upvM) addr(bytes int) string {
	if bytes < 0 || bytes%upvVS != 0 || bytes >= upvVS*m.t.VerifStackLen() {
		return "w"
	}
	return strconv.Itoa(bytes / upvVS)
}

func (m *upvM) idList(us []*vm.Upvalue, sep string) string {
	s := make([]string, len(us))
	for i, u := range us {
		s[i] = strconv.Itoa(m.id(u))
	}
	return strings.Join(s, sep)
}

func (m *upvM) state() string {
	t := m.t
	var st []string
	if sp := t.VerifSpBytes(); sp >= 0 && sp <= upvVS*t.VerifStackLen() {
		for i := 0; i < sp/upvVS; i++ {
			st = append(st, showVal(t.VerifStackAt(i)))
		}
	}
	var fr []string
	for _, f := range t.VerifFrames() {
		fr = append(fr, m.addr(f.FpOffset)+":"+m.idList(f.Upvalues, "."))
	}
	up := m.idList(t.VerifCurrentUpvalues(), ".")
	ol := m.idList(t.VerifOpenUpvalues(), ",")
	hs := m.idList(m.hs, ",")
	// every upvalue reachable from handles, frames and the open list is in the table by now
	uv := make([]string, len(m.uvs))
	for i, u := range m.uvs {
		if u.IsClosed() {
			uv[i] = "c" + showVal(u.VerifClosedValue())
		} else {
			uv[i] = "o" + m.addr(t.VerifUpvalueSlotBytes(u))
		}
	}
	return fmt.Sprintf("cap=%d sp=%s fp=%s st=%s fr=%s up=%s uv=%s ol=%s hs=%s",
		t.VerifStackLen(), m.addr(t.VerifSpBytes()), m.addr(t.VerifFpBytes()), strings.Join(st, ","),
		strings.Join(fr, "/"), up, strings.Join(uv, ","), ol, hs)
}

func execUpv(f []string) string {
	if len(f) != 4 || f[0] != "run" {
		return "bad-op"
	}
	size, err1 := strconv.Atoi(f[1])
	mx, err2 := strconv.Atoi(f[2])
	if err1 != nil || err2 != nil || size < 1 {
		return "bad-op"
	}
	oldInit, oldMax := vm.INIT_VALUE_STACK_SIZE, vm.MAX_VALUE_STACK_SIZE
	defer func() { vm.INIT_VALUE_STACK_SIZE, vm.MAX_VALUE_STACK_SIZE = oldInit, oldMax }()
	vm.INIT_VALUE_STACK_SIZE, vm.MAX_VALUE_STACK_SIZE = size, mx
	m := &upvM{t: vm.New(), ids: map[*vm.Upvalue]int{}, maxLen: mx}
	if f[3] != "" {
		for i, o := range strings.Split(f[3], ";") {
			e := m.op(strings.Split(o, " "))
			if e == "bad-op" {
				return "bad-op"
			}
			if e != "" {
				return fmt.Sprintf("err %s@%d | %s", e, i, strings.Join(m.reads, ","))
			}
		}
	}
	return "ok | " + strings.Join(m.reads, ",") + " | " + m.state()
}
