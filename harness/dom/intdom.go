package dom

import (
	"encoding/binary"
	"encoding/hex"
	"fmt"
	"math/big"

	"elkverif/hx"

	"github.com/cespare/xxhash/v2"
	"github.com/elk-language/elk/value"
)

// domain int: see lean/Driver/Dom/Int.lean for the grammar.
// The operands are re-read after the call (a receiver mutated in place shows up in A'/B').
func init() { hx.RegisterExec("int", execInt) }

type intOperand struct {
	v   value.Value
	big *value.BigInt // non-nil for the `b` representation: the very pointer handed to the operation
	sm  value.SmallInt
}

func parseIntOperand(s string) (*intOperand, bool) {
	if len(s) < 2 {
		return nil, false
	}
	n, ok := new(big.Int).SetString(s[1:], 10)
	if !ok {
		return nil, false
	}
	switch s[0] {
	case 's':
		if !n.IsInt64() {
			return nil, false
		}
		sm := value.SmallInt(n.Int64())
		return &intOperand{v: sm.ToValue(), sm: sm}, true
	case 'b':
		b := value.ToElkBigInt(n)
		return &intOperand{v: value.Ref(b), big: b}, true
	}
	return nil, false
}

func (o *intOperand) reread() string {
	if o == nil {
		return "-"
	}
	if o.big != nil {
		return "b" + o.big.ToGoBigInt().String()
	}
	// a SmallInt is passed by value; re-read the boxed Value all the same
	return "s" + o.v.AsSmallInt().Inspect()
}

// showIntValue prints an Elk Int result as <rep><inspect> hk=<hex>. The hash key is the byte
// string the harness expects value.Hash to feed to xxhash for that representation; it is only
// printed when xxhash of it equals the hash the implementation really returns.
func showIntValue(v value.Value) string {
	var rep, insp string
	var key []byte
	switch {
	case v.IsUndefined():
		return "undefined"
	case v.IsSmallInt():
		rep = "s"
		insp = v.Inspect()
		key = make([]byte, 8)
		binary.LittleEndian.PutUint64(key, uint64(v.AsSmallInt()))
	case v.IsReference():
		b, ok := v.AsReference().(*value.BigInt)
		if !ok {
			return "other:" + v.Inspect()
		}
		rep = "b"
		insp = v.Inspect()
		key = b.ToGoBigInt().Bytes()
	default:
		return "other:" + v.Inspect()
	}
	h, err := value.Hash(v)
	hk := hex.EncodeToString(key)
	if !err.IsUndefined() {
		hk = "ERR"
	} else if uint64(h) != xxhash.Sum64(key) {
		hk = fmt.Sprintf("MISMATCH:%016x", uint64(h))
	}
	return rep + insp + " hk=" + hk
}

func showIntResult(res, err value.Value) string {
	if !err.IsUndefined() {
		if value.IsA(err, value.ZeroDivisionErrorClass) {
			return "err ZeroDivision"
		}
		return "err Other:" + err.Class().Name
	}
	if res.IsBool() {
		if res.AsBool() {
			return "ok true"
		}
		return "ok false"
	}
	return "ok " + showIntValue(res)
}

func boolRes(b bool) (value.Value, value.Value) { return value.BoolVal(b), value.Undefined }
func noErr(v value.Value) (value.Value, value.Value) { return v, value.Undefined }

func intBinVal(op string, l, r value.Value) (value.Value, value.Value, bool) {
	var res, err value.Value
	switch op {
	case "add":
		res, err = value.AddVal(l, r)
	case "sub":
		res, err = value.SubtractVal(l, r)
	case "mul":
		res, err = value.MultiplyVal(l, r)
	case "div":
		res, err = value.DivideVal(l, r)
	case "mod":
		res, err = value.ModuloVal(l, r)
	case "pow":
		res, err = value.ExponentiateVal(l, r)
	case "shl":
		res, err = value.LeftBitshiftVal(l, r)
	case "shr":
		res, err = value.RightBitshiftVal(l, r)
	case "and":
		res, err = value.BitwiseAndVal(l, r)
	case "or":
		res, err = value.BitwiseOrVal(l, r)
	case "xor":
		res, err = value.BitwiseXorVal(l, r)
	case "andnot":
		res, err = value.BitwiseAndNotVal(l, r)
	case "cmp":
		res, err = value.CompareVal(l, r)
	case "gt":
		res, err = value.GreaterThanVal(l, r)
	case "ge":
		res, err = value.GreaterThanEqualVal(l, r)
	case "lt":
		res, err = value.LessThanVal(l, r)
	case "le":
		res, err = value.LessThanEqualVal(l, r)
	case "eq":
		res, err = noErr(value.EqualVal(l, r))
	default:
		return res, err, false
	}
	return res, err, true
}

func intBinInts(op string, l, r value.Value) (value.Value, value.Value, bool) {
	var res, err value.Value
	switch op {
	case "add":
		res, err = noErr(value.AddInts(l, r))
	case "sub":
		res, err = noErr(value.SubtractInts(l, r))
	case "mul":
		res, err = noErr(value.MultiplyInts(l, r))
	case "div":
		res, err = value.DivideInts(l, r)
	case "mod":
		res, err = value.ModuloInts(l, r)
	case "pow":
		res, err = noErr(value.ExponentiateInts(l, r))
	case "shl":
		res, err = noErr(value.LeftBitshiftInts(l, r))
	case "shr":
		res, err = noErr(value.RightBitshiftInts(l, r))
	case "and":
		res, err = noErr(value.BitwiseAndInts(l, r))
	case "or":
		res, err = noErr(value.BitwiseOrInts(l, r))
	case "xor":
		res, err = noErr(value.BitwiseXorInts(l, r))
	case "andnot":
		res, err = noErr(value.BitwiseAndNotInts(l, r))
	case "cmp":
		res, err = noErr(value.CompareInts(l, r).ToValue())
	case "gt":
		res, err = boolRes(value.GreaterThanInts(l, r))
	case "ge":
		res, err = boolRes(value.GreaterThanEqualInts(l, r))
	case "lt":
		res, err = boolRes(value.LessThanInts(l, r))
	case "le":
		res, err = boolRes(value.LessThanEqualInts(l, r))
	case "eq":
		res, err = boolRes(value.EqualInts(l, r))
	default:
		return res, err, false
	}
	return res, err, true
}

func intUn(fam, op string, a *intOperand) (value.Value, value.Value, bool) {
	l := a.v
	switch op {
	case "even":
		if a.big != nil {
			return value.BoolVal(a.big.IsEven()), value.Undefined, true
		}
		return value.BoolVal(a.sm.IsEven()), value.Undefined, true
	case "odd":
		if a.big != nil {
			return value.BoolVal(a.big.IsOdd()), value.Undefined, true
		}
		return value.BoolVal(a.sm.IsOdd()), value.Undefined, true
	}
	if fam == "val" {
		switch op {
		case "neg":
			return value.NegateVal(l), value.Undefined, true
		case "not":
			return value.BitwiseNotVal(l), value.Undefined, true
		case "inc":
			return value.IncrementVal(l), value.Undefined, true
		case "dec":
			return value.DecrementVal(l), value.Undefined, true
		}
	} else {
		switch op {
		case "neg":
			return value.NegateInt(l), value.Undefined, true
		case "not":
			return value.BitwiseNotVal(l), value.Undefined, true
		case "inc":
			return value.IncrementInt(l), value.Undefined, true
		case "dec":
			return value.DecrementInt(l), value.Undefined, true
		}
	}
	return value.Undefined, value.Undefined, false
}

func execInt(f []string) (out string) {
	if len(f) != 4 || (f[0] != "val" && f[0] != "ints") {
		return "bad-op"
	}
	a, ok := parseIntOperand(f[2])
	if !ok {
		return "bad-op"
	}
	var b *intOperand
	if f[3] != "-" {
		if b, ok = parseIntOperand(f[3]); !ok {
			return "bad-op"
		}
	}
	tail := func() string { return " | " + a.reread() + " " + b.reread() }
	defer func() {
		if r := recover(); r != nil {
			out = "panic" + tail()
		}
	}()
	var res, err value.Value
	if b == nil {
		res, err, ok = intUn(f[0], f[1], a)
	} else if f[0] == "val" {
		res, err, ok = intBinVal(f[1], a.v, b.v)
	} else {
		res, err, ok = intBinInts(f[1], a.v, b.v)
	}
	if !ok {
		return "bad-op"
	}
	return showIntResult(res, err) + tail()
}
