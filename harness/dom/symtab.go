package dom

import (
	"bufio"
	"encoding/hex"
	"fmt"
	"math/rand"
	"os"
	"strconv"
	"strings"
	"sync"

	"elkverif/hx"

	"github.com/elk-language/elk/value"
)

// domain sym (C26): see lean/Driver/Dom/Symtab.lean for the grammar.
// sub-command symstress: concurrent interning on one fresh table, prints the recorded history.
func init() {
	hx.RegisterExec("sym", execSym)
	hx.RegisterSub("symstress", symStress)
}

func symDo(t *value.SymbolTableStruct, k, arg string) (string, bool) {
	switch k {
	case "a":
		b, err := hex.DecodeString(arg)
		if err != nil {
			return "", false
		}
		return "i" + strconv.Itoa(int(t.Add(string(b)))), true
	case "g":
		b, err := hex.DecodeString(arg)
		if err != nil {
			return "", false
		}
		s, ok := t.Get(string(b))
		if !ok {
			return "-", true
		}
		return "i" + strconv.Itoa(int(s)), true
	case "n":
		n, err := strconv.ParseInt(arg, 10, 64)
		if err != nil {
			return "", false
		}
		name, ok := t.GetName(value.Symbol(n))
		if !ok {
			return "-", true
		}
		return "s" + hex.EncodeToString([]byte(name)), true
	case "e":
		n, err := strconv.ParseInt(arg, 10, 64)
		if err != nil {
			return "", false
		}
		if t.ExistsId(value.Symbol(n)) {
			return "t", true
		}
		return "f", true
	}
	return "", false
}

func execSym(f []string) string {
	if len(f) != 2 || f[0] != "run" {
		return "bad-op"
	}
	t := value.NewSymbolTable()
	var outs []string
	if f[1] != "" {
		for _, o := range strings.Split(f[1], ";") {
			p := strings.SplitN(o, " ", 2)
			arg := ""
			if len(p) == 2 {
				arg = p[1]
			}
			r, ok := symDo(t, p[0], arg)
			if !ok {
				return "bad-op"
			}
			outs = append(outs, r)
		}
	}
	return "ok " + strings.Join(outs, ";")
}

// symstress G N NAMES SEED: G goroutines, N operations each, on a fresh table, names drawn from a pool
// of NAMES overlapping names; 60% Add, 15% Get, 15% GetName, 10% ExistsId (ids: ones the goroutine has
// seen, or small random ones). Each goroutine records (op, arg, result) in program order; the history is
// printed goroutine by goroutine as `actor op arg res` lines. All goroutines start together.
func symStress(args []string) int {
	if len(args) != 4 && len(args) != 5 {
		fmt.Fprintln(os.Stderr, "usage: elkh symstress G N NAMES SEED [lockstep]")
		return 2
	}
	// lockstep: every goroutine interns the same sequence of fresh names in the same order, so that all
	// of them race on each name's first Add (a check-then-act race in Add shows as two ids for one name)
	lockstep := len(args) == 5 && args[4] == "lockstep"
	g, _ := strconv.Atoi(args[0])
	n, _ := strconv.Atoi(args[1])
	names, _ := strconv.Atoi(args[2])
	seed, _ := strconv.ParseInt(args[3], 10, 64)
	pool := make([]string, names)
	for i := range pool {
		switch {
		case i == 0:
			pool[i] = ""
		case i%7 == 3:
			pool[i] = strings.Repeat("n", i) // long names
		case i%5 == 1:
			pool[i] = "sym\xff" + strconv.Itoa(i) // not valid UTF-8
		default:
			pool[i] = "name_" + strconv.Itoa(i)
		}
	}
	t := value.NewSymbolTable()
	logs := make([][]string, g)
	var start, done sync.WaitGroup
	start.Add(1)
	for a := 0; a < g; a++ {
		done.Add(1)
		go func(a int) {
			defer done.Done()
			rng := rand.New(rand.NewSource(seed*1000 + int64(a)))
			var seen []int
			log := make([]string, 0, n)
			start.Wait()
			for k := 0; k < n; k++ {
				x := rng.Intn(100)
				var op, arg string
				switch {
				case lockstep && x < 70:
					op, arg = "a", hex.EncodeToString([]byte("fresh_"+strconv.Itoa(k+rng.Intn(2))))
				case x < 60:
					op, arg = "a", hex.EncodeToString([]byte(pool[rng.Intn(names)]))
				case x < 75:
					op, arg = "g", hex.EncodeToString([]byte(pool[rng.Intn(names)]))
				default:
					id := rng.Intn(names+2) - 1
					if len(seen) > 0 && rng.Intn(2) == 0 {
						id = seen[rng.Intn(len(seen))]
					}
					arg = strconv.Itoa(id)
					if x < 90 {
						op = "n"
					} else {
						op = "e"
					}
				}
				r, _ := symDo(t, op, arg)
				if (op == "a" || op == "g") && strings.HasPrefix(r, "i") {
					id, _ := strconv.Atoi(r[1:])
					seen = append(seen, id)
				}
				if arg == "" {
					arg = "~" // the empty name, so that every event has four fields
				}
				if r == "s" {
					r = "s~"
				}
				log = append(log, fmt.Sprintf("%d %s %s %s", a, op, arg, r))
			}
			logs[a] = log
		}(a)
	}
	start.Done()
	done.Wait()
	out := bufio.NewWriter(os.Stdout)
	defer out.Flush()
	for _, l := range logs {
		for _, e := range l {
			fmt.Fprintln(out, e)
		}
	}
	return 0
}
