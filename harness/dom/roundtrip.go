package dom

import (
	"bufio"
	"encoding/hex"
	"fmt"
	"go/ast"
	goparser "go/parser"
	gotoken "go/token"
	"os"
	"path/filepath"
	"reflect"
	"regexp"
	"runtime/debug"
	"sort"
	"strconv"
	"strings"
	"unicode/utf8"

	"elkverif/hx"

	elkast "github.com/elk-language/elk/parser/ast"

	"github.com/elk-language/elk/parser"
	"github.com/elk-language/elk/position"
	"github.com/elk-language/elk/token"
)

// domain rt (C05): print/reparse round trip on the real parser and the real String() printers.
//
//	rt  src  <hex source>    parse -> String() -> parse -> location-insensitive comparison
//	    answers: `skip <why>` (the source does not parse cleanly: not an input of the property)
//	             `ok same`
//	             `ok fail class=<kind:node:detail> | min=<hex> | printed=<hex>`
//	                 kind diff (trees differ) | reparse (printed text has syntax errors) | panic (String() panicked);
//	                 min = the smallest source slice of a sub-expression/statement that still fails (with its class)
//	rt  src1 <hex source>    the same without minimisation
//
// sub-command `harvest <elk repo>`: every Elk source file and every string literal of the Go test
// tables, one hex line each (inputs only).
func init() {
	hx.RegisterExec("rt", execRoundTrip)
	hx.RegisterSub("rtharvest", rtHarvest)
}

var locType = reflect.TypeOf((*position.Location)(nil))
var spanType = reflect.TypeOf((*position.Span)(nil))
var posType = reflect.TypeOf((*position.Position)(nil))
var tokenType = reflect.TypeOf(token.Token{})

// astDiff returns "" when a and b are structurally identical ignoring source locations,
// otherwise the path and the two differing things.
func astDiff(a, b reflect.Value, path string, depth int) string {
	if depth > 4000 {
		return path + ": too deep"
	}
	if a.IsValid() != b.IsValid() {
		return fmt.Sprintf("%s: %s != %s", path, rtDescribe(a), rtDescribe(b))
	}
	if !a.IsValid() {
		return ""
	}
	if a.Type() != b.Type() {
		return fmt.Sprintf("%s: %s != %s", path, rtDescribe(a), rtDescribe(b))
	}
	t := a.Type()
	if t == locType || t == spanType || t == posType {
		return ""
	}
	switch a.Kind() {
	case reflect.Ptr, reflect.Interface:
		if a.IsNil() || b.IsNil() {
			if a.IsNil() != b.IsNil() {
				return fmt.Sprintf("%s: %s != %s", path, rtDescribe(a), rtDescribe(b))
			}
			return ""
		}
		ae, be := a.Elem(), b.Elem()
		if ae.Type() != be.Type() {
			return fmt.Sprintf("%s: %s != %s", path, rtDescribe(a), rtDescribe(b))
		}
		p := path
		if a.Kind() == reflect.Interface {
			return astDiff(ae, be, p, depth+1)
		}
		if ae.Kind() == reflect.Struct {
			p = path + "<" + ae.Type().Name() + ">"
		}
		return astDiff(ae, be, p, depth+1)
	case reflect.Struct:
		if t == tokenType {
			ta, tb := a.FieldByName("Type").Uint(), b.FieldByName("Type").Uint()
			va, vb := a.FieldByName("Value").String(), b.FieldByName("Value").String()
			if ta != tb || va != vb {
				return fmt.Sprintf("%s: token %s %q != %s %q", path, token.Type(ta).Name(), va, token.Type(tb).Name(), vb)
			}
			return ""
		}
		for i := 0; i < a.NumField(); i++ {
			f := t.Field(i)
			if f.Name == "static" || f.Name == "typ" || f.Name == "loc" {
				continue
			}
			p := path
			if !f.Anonymous {
				p = path + "." + f.Name
			}
			if d := astDiff(a.Field(i), b.Field(i), p, depth+1); d != "" {
				return d
			}
		}
		return ""
	case reflect.Slice, reflect.Array:
		if a.Len() != b.Len() {
			return fmt.Sprintf("%s: length %d != %d", path, a.Len(), b.Len())
		}
		for i := 0; i < a.Len(); i++ {
			if d := astDiff(a.Index(i), b.Index(i), fmt.Sprintf("%s[%d]", path, i), depth+1); d != "" {
				return d
			}
		}
		return ""
	case reflect.String:
		if a.String() != b.String() {
			return fmt.Sprintf("%s: %q != %q", path, a.String(), b.String())
		}
	case reflect.Bool:
		if a.Bool() != b.Bool() {
			return fmt.Sprintf("%s: %v != %v", path, a.Bool(), b.Bool())
		}
	case reflect.Int, reflect.Int8, reflect.Int16, reflect.Int32, reflect.Int64:
		if a.Int() != b.Int() {
			return fmt.Sprintf("%s: %d != %d", path, a.Int(), b.Int())
		}
	case reflect.Uint, reflect.Uint8, reflect.Uint16, reflect.Uint32, reflect.Uint64, reflect.Uintptr:
		if a.Uint() != b.Uint() {
			return fmt.Sprintf("%s: %d != %d", path, a.Uint(), b.Uint())
		}
	case reflect.Float32, reflect.Float64:
		if a.Float() != b.Float() && !(a.Float() != a.Float() && b.Float() != b.Float()) {
			return fmt.Sprintf("%s: %v != %v", path, a.Float(), b.Float())
		}
	case reflect.Map:
		if a.Len() != b.Len() {
			return fmt.Sprintf("%s: map length %d != %d", path, a.Len(), b.Len())
		}
	case reflect.Func, reflect.Chan, reflect.UnsafePointer:
		return ""
	}
	return ""
}

func rtDescribe(v reflect.Value) string {
	if !v.IsValid() {
		return "nothing"
	}
	switch v.Kind() {
	case reflect.Ptr, reflect.Interface:
		if v.IsNil() {
			return "nil"
		}
		return rtDescribe(v.Elem())
	case reflect.Struct:
		return v.Type().Name()
	}
	return v.Type().String()
}

func rtOneLine(s string, n int) string {
	s = strings.NewReplacer("\n", "\\n", "\t", "\\t", "\r", "\\r").Replace(s)
	if len(s) > n {
		s = s[:n] + "…"
	}
	return s
}

// rtOutcome: what printing and reparsing one cleanly parsing source gives
type rtOutcome struct {
	kind    string // skip | same | diff | reparse | panic
	detail  string
	printed string
	prog    *elkast.ProgramNode
}

func roundTripOnce(src string) (out rtOutcome) {
	stage := "parse"
	defer func() {
		if r := recover(); r != nil {
			if stage == "parse" {
				// a parser panic on the input is not this property's business (C03)
				out = rtOutcome{kind: "skip", detail: "parser-panic"}
				return
			}
			out.kind = "panic"
			out.detail = stage + ": " + hx.PanicClass(r) + " @ " + panicSite(debug.Stack())
		}
	}()
	prog, diags := parser.Parse("<rt>", src)
	if len(diags) > 0 {
		return rtOutcome{kind: "skip", detail: "parse-error"}
	}
	if prog == nil {
		return rtOutcome{kind: "skip", detail: "no-program"}
	}
	out.prog = prog
	stage = "String()"
	printed := prog.String()
	out.printed = printed
	stage = "reparse"
	prog2, diags2 := parser.Parse("<rt>", printed)
	if len(diags2) > 0 {
		out.kind = "reparse"
		out.detail = rtOneLine(diags2[0].Message, 100)
		return
	}
	if d := astDiff(reflect.ValueOf(prog), reflect.ValueOf(prog2), "", 0); d != "" {
		out.kind = "diff"
		out.detail = rtOneLine(d, 200)
		return
	}
	out.kind = "same"
	return
}

// the first elk function below the panic
func panicSite(stack []byte) string {
	seenPanic := false
	for _, l := range strings.Split(string(stack), "\n") {
		if strings.HasPrefix(l, "panic(") {
			seenPanic = true
			continue
		}
		if seenPanic && strings.HasPrefix(l, "github.com/elk-language/elk/") {
			l = strings.TrimPrefix(l, "github.com/elk-language/elk/")
			if i := strings.LastIndex(l, "("); i > 0 {
				l = l[:i]
			}
			return l
		}
	}
	return "?"
}

// exprAndStmtNodes collects the expression/statement nodes below v (not v itself), nearest first
func exprAndStmtNodes(v reflect.Value, out *[]elkast.Node, depth int) {
	if depth > 60 || !v.IsValid() {
		return
	}
	switch v.Kind() {
	case reflect.Interface, reflect.Ptr:
		if v.IsNil() {
			return
		}
		if v.CanInterface() {
			if n, ok := v.Interface().(elkast.Node); ok && v.Kind() == reflect.Ptr {
				switch n.(type) {
				case elkast.ExpressionNode, elkast.StatementNode:
					*out = append(*out, n)
				}
			}
		}
		exprAndStmtNodes(v.Elem(), out, depth+1)
	case reflect.Struct:
		if v.Type() == tokenType {
			return
		}
		for i := 0; i < v.NumField(); i++ {
			f := v.Type().Field(i)
			if f.PkgPath != "" && !f.Anonymous { // unexported
				continue
			}
			exprAndStmtNodes(v.Field(i), out, depth+1)
		}
	case reflect.Slice:
		for i := 0; i < v.Len(); i++ {
			exprAndStmtNodes(v.Index(i), out, depth+1)
		}
	}
}

func sliceOf(src string, n elkast.Node) string {
	loc := n.Location()
	if loc == nil || loc.Span == nil || loc.StartPos == nil || loc.EndPos == nil {
		return ""
	}
	a, b := loc.StartPos.ByteOffset, loc.EndPos.ByteOffset
	if a < 0 || b < a || b >= len(src) {
		return ""
	}
	// EndPos is the offset of the last character: take the whole rune
	e := b + 1
	for e < len(src) && !utf8.RuneStart(src[e]) {
		e++
	}
	return src[a:e]
}

// minimiseSource: the smallest source slice of a sub-expression/statement that still fails to round-trip
func minimiseSource(src string, out rtOutcome, budget *int) (string, rtOutcome) {
	for *budget > 0 && out.prog != nil {
		var nodes []elkast.Node
		exprAndStmtNodes(reflect.ValueOf(out.prog), &nodes, 0)
		found := false
		seen := map[string]bool{}
		for _, n := range nodes {
			s := sliceOf(src, n)
			if s == "" || len(s) >= len(src) || seen[s] {
				continue
			}
			seen[s] = true
			*budget--
			if *budget <= 0 {
				break
			}
			o := roundTripOnce(s)
			if o.kind == "diff" || o.kind == "reparse" || o.kind == "panic" {
				src, out, found = s, o, true
				break
			}
		}
		if !found {
			break
		}
	}
	return src, out
}

var reQuoted = regexp.MustCompile("\"(?:[^\"\\\\]|\\\\.)*\"…?|`[^`]*`")
var reIndex = regexp.MustCompile(`\[\d+\]`)
var reLength = regexp.MustCompile(`length \d+ != \d+`)
var reNum = regexp.MustCompile(`\b\d+\b`)

// classOf: a key for the root cause: outcome kind, node type of the minimal failing source, normalised detail
func classOf(out rtOutcome) string {
	root := "ProgramNode"
	if out.prog != nil && len(out.prog.Body) == 1 {
		root = strings.TrimPrefix(fmt.Sprintf("%T", out.prog.Body[0]), "*ast.")
		if es, ok := out.prog.Body[0].(*elkast.ExpressionStatementNode); ok && es.Expression != nil {
			root = strings.TrimPrefix(fmt.Sprintf("%T", es.Expression), "*ast.")
		}
	}
	d := out.detail
	switch out.kind {
	case "diff":
		d = reIndex.ReplaceAllString(d, "[]")
		d = reQuoted.ReplaceAllString(d, "S")
		if i := strings.Index(d, "\""); i >= 0 { // a string cut short by the length limit
			d = d[:i] + "S != S"
		}
		d = reLength.ReplaceAllString(d, "length differs")
		// keep the last two components of the path
		if i := strings.Index(d, ": "); i > 0 {
			path, rest := d[:i], d[i+2:]
			comps := strings.Split(path, ".")
			if len(comps) > 2 {
				comps = comps[len(comps)-2:]
			}
			d = strings.Join(comps, ".") + ": " + rest
		}
	case "reparse":
		d = reQuoted.ReplaceAllString(d, "S")
		d = reNum.ReplaceAllString(d, "N")
	case "panic":
		d = reNum.ReplaceAllString(d, "N")
	}
	if len(d) > 110 {
		d = d[:110]
	}
	return out.kind + ":" + root + ":" + d
}

// RoundTrip is the model-free oracle of C05 on one source text.
func RoundTrip(src string, minimise bool) string {
	out := roundTripOnce(src)
	switch out.kind {
	case "skip":
		return "skip " + out.detail
	case "same":
		return "ok same"
	}
	min := src
	if minimise {
		budget := 400
		min, out = minimiseSource(src, out, &budget)
	}
	return fmt.Sprintf("ok fail class=%s | min=%s | printed=%s", classOf(out), hex.EncodeToString([]byte(min)),
		hex.EncodeToString([]byte(out.printed)))
}

func execRoundTrip(f []string) string {
	if len(f) < 2 {
		return "bad-op"
	}
	switch f[0] {
	case "src", "src1":
		b, err := hex.DecodeString(f[1])
		if err != nil {
			return "bad-op"
		}
		return RoundTrip(string(b), f[0] == "src")
	}
	return "bad-op"
}

// ---- harvesting Elk sources from the elk tree

func rtHarvest(args []string) int {
	if len(args) < 1 {
		fmt.Fprintln(os.Stderr, "usage: elkh harvest <elk repo>")
		return 2
	}
	root := args[0]
	seen := map[string]bool{}
	out := bufio.NewWriterSize(os.Stdout, 1<<20)
	defer out.Flush()
	emit := func(kind, s string) {
		if len(s) == 0 || len(s) > 200000 || seen[s] {
			return
		}
		seen[s] = true
		fmt.Fprintf(out, "%s\t%s\n", kind, hex.EncodeToString([]byte(s)))
	}
	var goTests []string
	filepath.Walk(root, func(p string, info os.FileInfo, err error) error {
		if err != nil {
			return nil
		}
		if info.IsDir() {
			n := info.Name()
			if n == ".git" || n == "node_modules" {
				return filepath.SkipDir
			}
			return nil
		}
		switch {
		case strings.HasSuffix(p, ".elk"), strings.HasSuffix(p, ".elk.test"), strings.HasSuffix(p, ".elh"):
			if b, err := os.ReadFile(p); err == nil {
				emit("file", string(b))
			}
		case strings.HasSuffix(p, "_test.go"):
			goTests = append(goTests, p)
		}
		return nil
	})
	sort.Strings(goTests)
	fset := gotoken.NewFileSet()
	for _, p := range goTests {
		rel, _ := filepath.Rel(root, p)
		top := strings.Split(rel, string(filepath.Separator))[0]
		switch top {
		case "parser", "lexer", "vm", "compiler", "types", "repl":
		default:
			continue
		}
		f, err := goparser.ParseFile(fset, p, nil, 0)
		if err != nil {
			continue
		}
		ast.Inspect(f, func(n ast.Node) bool {
			if bl, ok := n.(*ast.BasicLit); ok && bl.Kind == gotoken.STRING {
				if s, err := strconv.Unquote(bl.Value); err == nil {
					emit("lit", s)
				}
			}
			return true
		})
	}
	return 0
}

var _ = elkast.NewProgramNode
