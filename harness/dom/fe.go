package dom

import (
	"encoding/hex"
	"fmt"
	"os"
	"runtime/debug"
	"strconv"
	"strings"
	"time"

	"elkverif/hx"

	"github.com/elk-language/elk/bitfield"
	"github.com/elk-language/elk/lexer"
	"github.com/elk-language/elk/parser"
	"github.com/elk-language/elk/token"
	"github.com/elk-language/elk/types/checker"
)

// domain fe (C03): the Elk front end under recover() and a 2 s budget per input.
//
//	fe<TAB>run<TAB>stages<TAB>srchex     stages ⊆ "lpci": l = lexer.Lex, p = parser.Parse (+ IsIncomplete),
//	                                      c = checker.CheckSource (parses again, expands macros, type checks, compiles)
//	  -> `ok lex=<ntokens> parse=<ndiags> inc=<0|1> check=<ndiags>` (absent stages print `-`)
//	   | `panic <stage> <message> @ <first elk frames>` | `timeout <stage>`
//	fe<TAB>seq<TAB>stages<TAB>hex,hex,…      the inputs one after the other in this process; the answer of the last one
//	fe<TAB>tokens                          probe-like: `ok id:name:typename,…` for every token type (names hex)
func init() {
	hx.RegisterExec("fe", execFe)
}

var feStage string

// The source is given a name inside a fresh EMPTY directory: an `import "./**/*.elk"` in a generated input must not
// walk whatever happens to lie under /tmp (that is slow file system globbing, not a front end hang).
var feDir string

func feSourceName() string {
	if feDir == "" {
		d, err := os.MkdirTemp("", "elkverif-fe-")
		if err != nil {
			d = os.TempDir()
		}
		feDir = d
	}
	return feDir + "/fe.elk"
}

func execFe(f []string) string {
	if len(f) == 1 && f[0] == "tokens" {
		var sb strings.Builder
		sb.WriteString("ok ")
		for i, tn := range token.Types() {
			if i > 0 {
				sb.WriteByte(',')
			}
			fmt.Fprintf(&sb, "%d:%s:%s", i, hx0(token.Type(i).Name()), tn)
		}
		return sb.String()
	}
	if len(f) == 3 && f[0] == "seq" {
		// a sequence of inputs through ONE process (the checker keeps process-global state): the answer of the last one
		ans := "ok -"
		for _, h := range strings.Split(f[2], ",") {
			ans = execFe([]string{"run", f[1], h})
			if strings.HasPrefix(ans, "timeout") {
				break
			}
		}
		return ans
	}
	if len(f) != 3 || f[0] != "run" {
		return "bad-op"
	}
	raw, err := hex.DecodeString(strings.TrimPrefix(f[2], "-"))
	if err != nil {
		return "bad-op"
	}
	src := string(raw)
	stages := f[1]
	feStage = "start"
	ans := withBudgetStack(2*time.Second, func() string {
		lex, prs, inc, chk := "-", "-", "-", "-"
		if strings.Contains(stages, "l") {
			feStage = "lex"
			lex = strconv.Itoa(len(lexer.Lex(src)))
		}
		if strings.Contains(stages, "p") {
			feStage = "parse"
			p := parser.New("<main>", src)
			_, diags := p.Parse()
			prs = strconv.Itoa(len(diags))
			inc = b01(p.IsIncomplete())
		}
		if strings.Contains(stages, "c") {
			feStage = "check"
			_, diags := checker.CheckSource(feSourceName(), src, nil, bitfield.BitField16{}, nil)
			chk = strconv.Itoa(len(diags))
		}
		return "ok lex=" + lex + " parse=" + prs + " inc=" + inc + " check=" + chk
	})
	if ans == "timeout" {
		return "timeout " + feStage
	}
	if strings.HasPrefix(ans, "panic ") {
		return "panic " + feStage + " " + ans[6:]
	}
	return ans
}

// like withBudget, with the first elk stack frames appended to a panic answer (classification of the crash site)
func withBudgetStack(d time.Duration, f func() string) string {
	return withBudget(d, func() (out string) {
		defer func() {
			if r := recover(); r != nil {
				out = "panic " + hx.PanicClass(r) + " @ " + lexrxFrames(debug.Stack())
			}
		}()
		return f()
	})
}

// first three elk frames below the panic, with receiver and method name kept
func lexrxFrames(stack []byte) string {
	var keep []string
	for _, l := range strings.Split(string(stack), "\n") {
		if !strings.HasPrefix(l, "github.com/elk-language/elk/") {
			continue
		}
		l = strings.TrimPrefix(l, "github.com/elk-language/elk/")
		if i := strings.LastIndex(l, "("); i > 0 {
			l = l[:i]
		}
		l = strings.NewReplacer("(*", "", ")", "", "[...]", "").Replace(l)
		keep = append(keep, l)
		if len(keep) == lexrxFrameCount {
			break
		}
	}
	return strings.Join(keep, " < ")
}

var lexrxFrameCount = func() int {
	if n, err := strconv.Atoi(os.Getenv("LEXRX_FRAMES")); err == nil && n > 0 {
		return n
	}
	return 3
}()
