package dom

import (
	"bufio"
	"bytes"
	"encoding/json"
	"fmt"
	"os"
	"runtime/debug"
	"sort"
	"strconv"
	"strings"
	"sync"
	"sync/atomic"
	"time"

	"elkverif/hx"

	"github.com/elk-language/elk/bitfield"
	"github.com/elk-language/elk/concurrent"
	"github.com/elk-language/elk/types/checker"
	"github.com/elk-language/elk/vm"
)

// C11.
//
// exec domain `fe`: `fe<TAB>run<TAB>N<TAB>LIMIT<TAB>SEED` runs the REAL concurrent.Foreach over
// 0..N-1 with hook H1 seeded by SEED and answers `ok N once|count-violation bounded|over-limit:K`.
//
// sub-command `sched`: program worker like `run`, with a concurrency limit for method-body
// checking (checker.MethodCheckConcurrencyLimit) and a schedule seed for hook H1 per request.
func init() {
	hx.RegisterExec("fore", execForeach)
	hx.RegisterSub("sched", schedWorker)
}

func execForeach(f []string) string {
	if len(f) != 4 || f[0] != "run" {
		return "bad-op"
	}
	n, e1 := strconv.Atoi(f[1])
	limit, e2 := strconv.Atoi(f[2])
	seed, e3 := strconv.ParseInt(f[3], 10, 64)
	if e1 != nil || e2 != nil || e3 != nil || n < 0 || limit < 1 || n > 5000 {
		return "bad-op"
	}
	coll := make([]int, n)
	for i := range coll {
		coll[i] = i
	}
	counts := make([]int32, n)
	var cur, max int32
	var after int32
	concurrent.VerifSetSchedule(seed)
	defer concurrent.VerifSetSchedule(0)
	concurrent.Foreach(limit, coll, func(e int) {
		c := atomic.AddInt32(&cur, 1)
		for {
			m := atomic.LoadInt32(&max)
			if c <= m || atomic.CompareAndSwapInt32(&max, m, c) {
				break
			}
		}
		if e%3 == 0 {
			time.Sleep(50 * time.Microsecond)
		}
		atomic.AddInt32(&counts[e], 1)
		atomic.AddInt32(&cur, -1)
	})
	// Foreach must return only after every body finished
	after = atomic.LoadInt32(&cur)
	once := "once"
	for _, c := range counts {
		if atomic.LoadInt32(&c) != 1 {
			once = "count-violation"
		}
	}
	if after != 0 {
		once = "returned-early"
	}
	bound := "bounded"
	if int(max) > limit {
		bound = "over-limit:" + strconv.Itoa(int(max))
	}
	return fmt.Sprintf("ok %d %s %s", n, once, bound)
}

type SchedReq struct {
	ID        string `json:"id"`
	Src       string `json:"src"`
	Limit     int    `json:"limit"`      // MethodCheckConcurrencyLimit (default 100)
	Seed      int64  `json:"seed"`       // schedule seed for hook H1 (0 = unperturbed)
	TimeoutMs int    `json:"timeout_ms"` // default 10000
	NoRun     bool   `json:"norun"`
}

type SchedAns struct {
	ID       string   `json:"id"`
	Diags    []string `json:"diags"` // sorted multiset: "SEV line:col message"
	Rejected bool     `json:"rejected"`
	Outcome  string   `json:"outcome"`
	Stdout   string   `json:"stdout"`
	ErrClass string   `json:"err_class,omitempty"`
	Panic    string   `json:"panic,omitempty"`
	Stage    string   `json:"stage,omitempty"`
	Ms       int64    `json:"ms"`
}

var schedMu sync.Mutex

func schedWorker(args []string) int {
	in := bufio.NewReaderSize(os.Stdin, 1<<22)
	out := bufio.NewWriter(os.Stdout)
	defer out.Flush()
	for {
		line, err := in.ReadString('\n')
		if len(strings.TrimSpace(line)) > 0 {
			var req SchedReq
			if e := json.Unmarshal([]byte(line), &req); e != nil {
				fmt.Fprintln(out, `{"outcome":"bad-request"}`)
			} else {
				ans, exit := schedOne(&req)
				b, _ := json.Marshal(ans)
				out.Write(b)
				out.WriteByte('\n')
				out.Flush()
				if exit {
					return 3
				}
			}
			out.Flush()
		}
		if err != nil {
			return 0
		}
	}
}

func schedOne(req *SchedReq) (ans *SchedAns, mustExit bool) {
	ans = &SchedAns{ID: req.ID, Diags: []string{}}
	timeout := time.Duration(req.TimeoutMs) * time.Millisecond
	if timeout == 0 {
		timeout = 10 * time.Second
	}
	limit := req.Limit
	if limit <= 0 {
		limit = 100
	}
	start := time.Now()
	done := make(chan struct{})
	var stdout bytes.Buffer
	res := &SchedAns{ID: req.ID, Diags: []string{}}
	go func() {
		defer close(done)
		stage := "check"
		defer func() {
			if r := recover(); r != nil {
				res.Outcome = "panic"
				res.Stage = stage
				res.Panic = hx.PanicClass(r) + " @ " + firstFrames(debug.Stack())
			}
		}()
		checker.MethodCheckConcurrencyLimit = limit
		concurrent.VerifSetSchedule(req.Seed)
		fn, diags := checker.CheckSource("/tmp/"+req.ID+".elk", req.Src, nil, bitfield.BitField16{}, nil)
		concurrent.VerifSetSchedule(0)
		for _, d := range diags {
			line, col := 0, 0
			if d.Location != nil && d.Location.Span != nil && d.Location.StartPos != nil {
				line, col = d.Location.StartPos.Line, d.Location.StartPos.Column
			}
			res.Diags = append(res.Diags, fmt.Sprintf("%s %d:%d %s", d.Severity.String(), line, col, d.Message))
		}
		sort.Strings(res.Diags)
		if diags != nil && diags.IsFailure() {
			res.Rejected = true
			res.Outcome = "rejected"
			return
		}
		if req.NoRun {
			res.Outcome = "checked"
			return
		}
		stage = "run"
		v := vm.New(vm.WithStdout(&stdout))
		val, elkErr := v.InterpretTopLevel(fn)
		if !elkErr.IsUndefined() {
			res.Outcome = "error"
			res.ErrClass = elkErr.Class().Name
			return
		}
		res.Outcome = "value " + val.Inspect()
	}()
	select {
	case <-done:
		ans = res
	case <-time.After(timeout):
		ans = &SchedAns{ID: req.ID, Diags: []string{}, Outcome: "timeout"}
		mustExit = true
	}
	ans.Stdout = stdout.String()
	ans.Ms = time.Since(start).Milliseconds()
	return
}
