package dom

import (
	"encoding/hex"
	"fmt"
	"reflect"
	"strconv"
	"strings"
	"time"

	"elkverif/hx"

	"github.com/elk-language/elk/value"
)

// domain date (C22): see lean/Driver/Dom/Date.lean for the grammar.
// All integers decimal; strings travel as hex. The harness runs with TZ=UTC (vlib.go_env).
func init() { hx.RegisterExec("date", execDate) }

func dInts(f []string) ([]int, bool) {
	out := make([]int, len(f))
	for i, s := range f {
		v, err := strconv.ParseInt(s, 10, 64)
		if err != nil {
			return nil, false
		}
		out[i] = int(v)
	}
	return out, true
}

func dHex(s string) (string, bool) {
	if s == "-" {
		return "", true
	}
	b, err := hex.DecodeString(s)
	if err != nil {
		return "", false
	}
	return string(b), true
}

func dHexOut(s string) string {
	if s == "" {
		return "-"
	}
	return hex.EncodeToString([]byte(s))
}

// Elk error -> short enum
func dErr(err value.Value) string {
	cls := err.Class()
	switch cls {
	case value.DateInvalidYearErrorClass:
		return "err Year"
	case value.DateInvalidMonthErrorClass:
		return "err Month"
	case value.DateInvalidDayErrorClass:
		return "err Day"
	case value.FormatErrorClass:
		return "err Format"
	case value.ZeroDivisionErrorClass:
		return "err ZeroDivision"
	case value.OutOfRangeErrorClass:
		return "err OutOfRange"
	}
	if cls != nil {
		// Date::Error subclasses and anything else: by name
		n := cls.Name
		if i := strings.LastIndex(n, "::"); i >= 0 {
			n = n[i+2:]
		}
		return "err " + n
	}
	return "err ?"
}

func dDate(d value.Date) string {
	return fmt.Sprintf("%d %d %d", d.Year(), d.Month(), d.Day())
}

func dSpan(s value.DateSpan) string {
	// raw fields: months = Years*12 + Months (both truncated the same way), days
	return fmt.Sprintf("%d %d", s.Years()*12+s.Months(), s.Days())
}

func dDT(t *value.DateTime) string {
	n := t.ToGoTime().UTC()
	return fmt.Sprintf("%d %d %d %d %d %d %d", n.Year(), int(n.Month()), n.Day(), n.Hour(), n.Minute(), n.Second(), n.Nanosecond())
}

func dMkDT(n []int) *value.DateTime {
	// y m d H M S ns, zone nil = time.Local (= UTC under the harness environment)
	return value.NewDateTime(n[0], n[1], n[2], n[3], n[4], n[5], 0, 0, n[6], nil)
}

func dDTS(s *value.DateTimeSpan) string {
	return fmt.Sprintf("%s %d", dSpan(s.DateSpan), int64(s.TimeSpan))
}

func execDate(f []string) string {
	if len(f) == 0 {
		return "bad-op"
	}
	if time.Local.String() != "UTC" {
		return "bad-env TZ"
	}
	op, a := f[0], f[1:]
	switch op {
	case "mk": // Y M D -> MakeValidatedDate
		n, ok := dInts(a)
		if !ok || len(n) != 3 {
			return "bad-op"
		}
		d, err := value.MakeValidatedDate(n[0], n[1], n[2])
		if !err.IsUndefined() {
			return dErr(err)
		}
		return "ok " + dDate(d)
	case "add", "sub": // Y M D months days
		n, ok := dInts(a)
		if !ok || len(n) != 5 {
			return "bad-op"
		}
		d := value.MakeDate(n[0], n[1], n[2])
		s := value.MakeDateSpan(0, n[3], n[4])
		r, err := dateAddSub(op == "add", d, s)
		if !err.IsUndefined() {
			return dErr(err)
		}
		return "ok " + dDate(r)
	case "diff": // Y1 M1 D1 Y2 M2 D2 -> (d1 - d2) as months days
		n, ok := dInts(a)
		if !ok || len(n) != 6 {
			return "bad-op"
		}
		d1 := value.MakeDate(n[0], n[1], n[2])
		d2 := value.MakeDate(n[3], n[4], n[5])
		return "ok " + dSpan(d1.DiffDate(d2))
	case "diffadd": // Y1 M1 D1 Y2 M2 D2 -> d2 + (d1 - d2), should be d1
		n, ok := dInts(a)
		if !ok || len(n) != 6 {
			return "bad-op"
		}
		d1 := value.MakeDate(n[0], n[1], n[2])
		d2 := value.MakeDate(n[3], n[4], n[5])
		s := d1.DiffDate(d2)
		r, err := dateAddSub(true, d2, s)
		if !err.IsUndefined() {
			return dErr(err)
		}
		return "ok " + dSpan(s) + " | " + dDate(r)
	case "fmt": // Y M D hexfmt
		if len(a) != 4 {
			return "bad-op"
		}
		n, ok := dInts(a[:3])
		fs, ok2 := dHex(a[3])
		if !ok || !ok2 {
			return "bad-op"
		}
		s, err := value.MakeDate(n[0], n[1], n[2]).Format(fs)
		if !err.IsUndefined() {
			return dErr(err)
		}
		return "ok " + dHexOut(s)
	case "parse": // hexfmt hexinput
		if len(a) != 2 {
			return "bad-op"
		}
		fs, ok := dHex(a[0])
		in, ok2 := dHex(a[1])
		if !ok || !ok2 {
			return "bad-op"
		}
		d, err := value.ParseDate(fs, in)
		if !err.IsUndefined() {
			return dErr(err)
		}
		return "ok " + dDate(d)
	case "rt": // Y M D hexfmt : format, then parse the output with the same format
		if len(a) != 4 {
			return "bad-op"
		}
		n, ok := dInts(a[:3])
		fs, ok2 := dHex(a[3])
		if !ok || !ok2 {
			return "bad-op"
		}
		s, err := value.MakeDate(n[0], n[1], n[2]).Format(fs)
		if !err.IsUndefined() {
			return dErr(err)
		}
		d, err := value.ParseDate(fs, s)
		if !err.IsUndefined() {
			return "ok " + dHexOut(s) + " | " + dErr(err)
		}
		return "ok " + dHexOut(s) + " | " + dDate(d)
	case "str": // Y M D : Date#to_string then Date.parse with the default format
		n, ok := dInts(a)
		if !ok || len(n) != 3 {
			return "bad-op"
		}
		s := value.MakeDate(n[0], n[1], n[2]).String()
		d, err := value.ParseDate(value.DefaultDateFormat, s)
		if !err.IsUndefined() {
			return "ok " + dHexOut(s) + " | " + dErr(err)
		}
		return "ok " + dHexOut(s) + " | " + dDate(d)
	case "unit": // name n : Int#days etc. -> span fields
		if len(a) != 2 {
			return "bad-op"
		}
		v, err := strconv.ParseInt(a[1], 10, 64)
		if err != nil {
			return "bad-op"
		}
		i := value.SmallInt(v)
		switch a[0] {
		case "days":
			return "ok " + dSpan(i.Days())
		case "weeks":
			return "ok " + dSpan(i.Weeks())
		case "months":
			return "ok " + dSpan(i.Months())
		case "years":
			return "ok " + dSpan(i.Years())
		case "centuries":
			return "ok " + dSpan(i.Centuries())
		case "millenia":
			return "ok " + dSpan(i.Millenia())
		case "hours":
			return fmt.Sprintf("ok %d", int64(i.Hours()))
		case "minutes":
			return fmt.Sprintf("ok %d", int64(i.Minutes()))
		case "seconds":
			return fmt.Sprintf("ok %d", int64(i.Seconds()))
		case "milliseconds":
			return fmt.Sprintf("ok %d", int64(i.Milliseconds()))
		case "microseconds":
			return fmt.Sprintf("ok %d", int64(i.Microseconds()))
		case "nanoseconds":
			return fmt.Sprintf("ok %d", int64(i.Nanoseconds()))
		}
		return "bad-op"
	case "ds": // date span: str months days | parse hex | rt months days
		if len(a) < 2 {
			return "bad-op"
		}
		switch a[0] {
		case "str", "rt":
			n, ok := dInts(a[1:])
			if !ok || len(n) != 2 {
				return "bad-op"
			}
			s := value.MakeDateSpan(0, n[0], n[1]).String()
			if a[0] == "str" {
				return "ok " + dHexOut(s)
			}
			p, err := value.ParseDateSpan(s)
			if !err.IsUndefined() {
				return "ok " + dHexOut(s) + " | " + dErr(err)
			}
			return "ok " + dHexOut(s) + " | " + dSpan(p)
		case "parse":
			in, ok := dHex(a[1])
			if !ok {
				return "bad-op"
			}
			p, err := value.ParseDateSpan(in)
			if !err.IsUndefined() {
				return dErr(err)
			}
			return "ok " + dSpan(p)
		}
		return "bad-op"
	case "ts": // time span: str ns | parse hex | rt ns
		if len(a) != 2 {
			return "bad-op"
		}
		switch a[0] {
		case "str", "rt":
			v, err := strconv.ParseInt(a[1], 10, 64)
			if err != nil {
				return "bad-op"
			}
			s := value.TimeSpan(v).String()
			if a[0] == "str" {
				return "ok " + dHexOut(s)
			}
			p, e := value.ParseTimeSpan(s)
			if !e.IsUndefined() {
				return "ok " + dHexOut(s) + " | " + dErr(e)
			}
			return fmt.Sprintf("ok %s | %d", dHexOut(s), int64(p))
		case "parse":
			in, ok := dHex(a[1])
			if !ok {
				return "bad-op"
			}
			p, e := value.ParseTimeSpan(in)
			if !e.IsUndefined() {
				return dErr(e)
			}
			return fmt.Sprintf("ok %d", int64(p))
		}
		return "bad-op"
	case "dts": // datetime span: new months days ns | str months days ns | rt months days ns | parse hex
		if len(a) < 2 {
			return "bad-op"
		}
		switch a[0] {
		case "new", "str", "rt":
			n, ok := dInts(a[1:])
			if !ok || len(n) != 3 {
				return "bad-op"
			}
			s := value.NewDateTimeSpan(value.MakeDateSpan(0, n[0], n[1]), value.TimeSpan(n[2]))
			if a[0] == "new" {
				return "ok " + dDTS(s)
			}
			str := s.String()
			if a[0] == "str" {
				return "ok " + dHexOut(str)
			}
			p, e := value.ParseDateTimeSpan(str)
			if !e.IsUndefined() {
				return "ok " + dDTS(s) + " | " + dHexOut(str) + " | " + dErr(e)
			}
			return "ok " + dDTS(s) + " | " + dHexOut(str) + " | " + dDTS(p)
		case "parse":
			in, ok := dHex(a[1])
			if !ok {
				return "bad-op"
			}
			p, e := value.ParseDateTimeSpan(in)
			if !e.IsUndefined() {
				return dErr(e)
			}
			return "ok " + dDTS(p)
		}
		return "bad-op"
	case "zoff": // colon(0|1) offsetSeconds: `%z` / `%:z` of a datetime in a fixed-offset zone, parsed back with the same format
		n, ok := dInts(a)
		if !ok || len(n) != 2 {
			return "bad-op"
		}
		zone, zerr := value.NewTimezoneFromOffsetErr(value.TimeSpan(n[1]) * value.Second)
		if !zerr.IsUndefined() {
			return "ok zone-" + dErr(zerr)
		}
		f := "%z"
		if n[0] == 1 {
			f = "%:z"
		}
		t := value.NewDateTime(2000, 1, 1, 12, 0, 0, 0, 0, 0, zone)
		s, err := t.Format(f)
		if !err.IsUndefined() {
			return dErr(err)
		}
		p, err := value.ParseDateTime(f, s)
		if !err.IsUndefined() {
			return "ok " + dHexOut(s) + " | err"
		}
		_, o2 := p.ToGoTime().Zone()
		return fmt.Sprintf("ok %s | %d", dHexOut(s), o2)
	case "dtz": // Y M D h m s ns offsetSeconds hexfmt: wall clock in a fixed-offset zone -> format -> parse with the same format
		if len(a) != 9 {
			return "bad-op"
		}
		n7, ok7 := dInts(a[0:8])
		f, okf := dHex(a[8])
		if !ok7 || !okf {
			return "bad-op"
		}
		zone, zerr := value.NewTimezoneFromOffsetErr(value.TimeSpan(n7[7]) * value.Second)
		if !zerr.IsUndefined() {
			return "ok zone-" + dErr(zerr)
		}
		t := value.NewDateTime(n7[0], n7[1], n7[2], n7[3], n7[4], n7[5], 0, 0, n7[6], zone)
		s, err := t.Format(f)
		if !err.IsUndefined() {
			return dErr(err)
		}
		_, o1 := t.ToGoTime().Zone()
		p, err := value.ParseDateTime(f, s)
		if !err.IsUndefined() {
			return fmt.Sprintf("ok %s | %s %d | %s", dHexOut(s), dDT(t), o1, dErr(err))
		}
		_, o2 := p.ToGoTime().Zone()
		return fmt.Sprintf("ok %s | %s %d | %s %d", dHexOut(s), dDT(t), o1, dDT(p), o2)
	case "dt": // datetime ops; a datetime is Y M D h m s ns (7 ints), UTC
		if len(a) < 1 {
			return "bad-op"
		}
		n, ok := dInts(a[1:])
		if !ok {
			return "bad-op"
		}
		switch a[0] {
		case "mk":
			if len(n) != 7 {
				return "bad-op"
			}
			return "ok " + dDT(dMkDT(n))
		case "addts", "subts": // dt ns
			if len(n) != 8 {
				return "bad-op"
			}
			t := dMkDT(n)
			if a[0] == "addts" {
				return "ok " + dDT(t.AddTimeSpan(value.TimeSpan(n[7])))
			}
			return "ok " + dDT(t.SubtractTimeSpan(value.TimeSpan(n[7])))
		case "addds", "subds": // dt months days
			if len(n) != 9 {
				return "bad-op"
			}
			t := dMkDT(n)
			s := value.MakeDateSpan(0, n[7], n[8])
			r, err := dtAddSub(a[0] == "addds", t, s)
			if !err.IsUndefined() {
				return dErr(err)
			}
			return "ok " + dDT(r)
		case "diff": // dt1 dt2 -> dt1 - dt2
			if len(n) != 14 {
				return "bad-op"
			}
			return "ok " + dDTS(dMkDT(n[:7]).DiffDateTime(dMkDT(n[7:])))
		case "diffadd": // dt1 dt2 -> dt2 + (dt1 - dt2)
			if len(n) != 14 {
				return "bad-op"
			}
			t1, t2 := dMkDT(n[:7]), dMkDT(n[7:])
			s := t1.DiffDateTime(t2)
			r, err := dtAddSpan(t2, s)
			if !err.IsUndefined() {
				return dErr(err)
			}
			return "ok " + dDTS(s) + " | " + dDT(r)
		case "str": // dt -> to_string, then DateTime.parse with the default format
			if len(n) != 7 {
				return "bad-op"
			}
			t := dMkDT(n)
			s, err := t.Format(value.DefaultDateTimeFormat)
			if !err.IsUndefined() {
				return dErr(err)
			}
			p, err := value.ParseDateTime(value.DefaultDateTimeFormat, s)
			if !err.IsUndefined() {
				return "ok " + dHexOut(s) + " | " + dErr(err)
			}
			return "ok " + dHexOut(s) + " | " + dDT(p)
		case "date": // dt -> Date (packing)
			if len(n) != 7 {
				return "bad-op"
			}
			r, err := dtToDate(dMkDT(n))
			if !err.IsUndefined() {
				return dErr(err)
			}
			return "ok " + dDate(r)
		}
		return "bad-op"
	}
	return "bad-op"
}

// The date arithmetic entry points are called through reflection so that the harness builds
// against both shapes of the API: today's `AddDateSpan(span) Date` and a range-checked
// `AddDateSpan(span) (Date, Value)`.
func dCall(recv any, name string, args ...any) (reflect.Value, value.Value) {
	m := reflect.ValueOf(recv).MethodByName(name)
	if !m.IsValid() {
		panic("harness: no method " + name)
	}
	in := make([]reflect.Value, len(args))
	for i, a := range args {
		in[i] = reflect.ValueOf(a)
	}
	out := m.Call(in)
	if len(out) == 2 {
		if e, ok := out[1].Interface().(value.Value); ok {
			return out[0], e
		}
	}
	return out[0], value.Undefined
}

func dateAddSub(add bool, d value.Date, s value.DateSpan) (value.Date, value.Value) {
	name := "SubtractDateSpan"
	if add {
		name = "AddDateSpan"
	}
	r, err := dCall(d, name, s)
	if !err.IsUndefined() {
		return value.Date{}, err
	}
	return r.Interface().(value.Date), value.Undefined
}

func dtAddSub(add bool, t *value.DateTime, s value.DateSpan) (*value.DateTime, value.Value) {
	name := "SubtractDateSpan"
	if add {
		name = "AddDateSpan"
	}
	r, err := dCall(t, name, s)
	if !err.IsUndefined() {
		return nil, err
	}
	return r.Interface().(*value.DateTime), value.Undefined
}

func dtAddSpan(t *value.DateTime, s *value.DateTimeSpan) (*value.DateTime, value.Value) {
	r, err := dCall(t, "AddDateTimeSpan", s)
	if !err.IsUndefined() {
		return nil, err
	}
	return r.Interface().(*value.DateTime), value.Undefined
}

func dtToDate(t *value.DateTime) (value.Date, value.Value) {
	name := "Date"
	if reflect.ValueOf(t).MethodByName("CheckedDate").IsValid() {
		name = "CheckedDate"
	}
	r, err := dCall(t, name)
	if !err.IsUndefined() {
		return value.Date{}, err
	}
	return r.Interface().(value.Date), value.Undefined
}
