package dom

import (
	"bufio"
	"bytes"
	"encoding/json"
	"fmt"
	"os"
	"reflect"
	"runtime/debug"
	"sort"
	"strconv"
	"strings"
	"time"

	"elkverif/hx"

	"github.com/elk-language/elk/parser"
	"github.com/elk-language/elk/types/checker"
	"github.com/elk-language/elk/value"
	"github.com/elk-language/elk/vm"
)

// sub-command `repl` (C27): drives a REAL incremental checker + InterpretREPL session the way
// repl/repl.go `evaluate` does, one JSON request {id, inputs:[src…], fingerprint:bool} per line.
//
// "A rejected input leaves no trace" is checked differentially: next to the session checker A a
// SHADOW checker B (same process, never executed) is fed the same inputs, except that every input
// A rejects is replaced by the canonical rejected input `1 + nil` (which introduces nothing).
// After every rejected input the worker compares a reflective deep fingerprint of A and B (all
// fields of *checker.Checker, following pointers; see fpSkipFields/fpOnlyFields for the reviewed
// skip-list). Both checkers went through the same snapshot/restore cycles, so representation
// artefacts of the deep copy cancel out and what remains is what the CONTENT of the rejected
// input left behind.
func init() { hx.RegisterSub("repl", replWorker) }

type ReplReq struct {
	ID          string   `json:"id"`
	Inputs      []string `json:"inputs"`
	Fingerprint bool     `json:"fingerprint"`
	TimeoutMs   int      `json:"timeout_ms"`
}

type ReplStep struct {
	Accepted bool     `json:"accepted"`
	Diags    []Diag   `json:"diags"`
	Stdout   string   `json:"stdout"`
	Result   string   `json:"result,omitempty"`
	ErrClass string   `json:"err_class,omitempty"`
	ErrMsg   string   `json:"err_msg,omitempty"`
	FpDiff   []string `json:"fp_diff,omitempty"` // buckets in which session checker and shadow checker differ after a REJECTED input
	Shadow   string   `json:"shadow,omitempty"`  // set when the shadow checker's verdict on an accepted input differs
	FpNodes  int      `json:"fp_nodes,omitempty"`
	Panic    string   `json:"panic,omitempty"`
	Stage    string   `json:"stage,omitempty"`
}

type ReplAns struct {
	ID      string     `json:"id"`
	Steps   []ReplStep `json:"steps"`
	Outcome string     `json:"outcome"` // ok | panic | timeout
	Ms      int64      `json:"ms"`
}

func replWorker(args []string) int {
	in := bufio.NewReaderSize(os.Stdin, 1<<22)
	out := bufio.NewWriter(os.Stdout)
	defer out.Flush()
	for {
		line, err := in.ReadString('\n')
		if len(strings.TrimSpace(line)) > 0 {
			var req ReplReq
			if e := json.Unmarshal([]byte(line), &req); e != nil {
				fmt.Fprintln(out, `{"outcome":"bad-request"}`)
			} else {
				ans, exit := replOne(&req)
				b, _ := json.Marshal(ans)
				out.Write(b)
				out.WriteByte('\n')
				out.Flush()
				if exit {
					return 3
				}
			}
			out.Flush()
		}
		if err != nil {
			return 0
		}
	}
}

const canonicalReject = "1 + nil"
const canonicalSyntaxError = "("

func replOne(req *ReplReq) (ans *ReplAns, mustExit bool) {
	ans = &ReplAns{ID: req.ID, Outcome: "ok"}
	timeout := time.Duration(req.TimeoutMs) * time.Millisecond
	if timeout == 0 {
		timeout = 20 * time.Second
	}
	start := time.Now()
	done := make(chan struct{})
	steps := make([]ReplStep, 0, len(req.Inputs))
	go func() {
		defer close(done)
		// as in repl.evaluate
		c := checker.New()
		c.SetAdditionalAbortChecks(true)
		c.SetIncremental(true)
		var stdout bytes.Buffer
		v := vm.New(vm.WithStdout(&stdout), vm.WithStderr(&bytes.Buffer{}))
		var shadow *checker.Checker
		if req.Fingerprint {
			shadow = checker.New()
			shadow.SetAdditionalAbortChecks(true)
			shadow.SetIncremental(true)
		}
		feedShadow := func(name, src string) bool {
			_, dl := shadow.CheckSourceBytecode(name, src)
			failure := dl != nil && dl.IsFailure()
			if dl != nil {
				shadow.ClearErrors()
			}
			return failure
		}
		for i, src := range req.Inputs {
			st := ReplStep{Diags: []Diag{}}
			func() {
				defer func() {
					if r := recover(); r != nil {
						st.Panic = hx.PanicClass(r) + " @ " + firstFrames(debug.Stack())
					}
				}()
				st.Stage = "check"
				name := fmt.Sprintf("<repl:%s:%d>", req.ID, i)
				fn, dl := c.CheckSourceBytecode(name, src)
				failure := false
				if dl != nil {
					for _, d := range dl {
						dd := Diag{Sev: d.Severity.String(), Msg: d.Message}
						if d.Location != nil && d.Location.Span != nil && d.Location.StartPos != nil {
							dd.Line = d.Location.StartPos.Line
							dd.Col = d.Location.StartPos.Column
						}
						st.Diags = append(st.Diags, dd)
					}
					failure = dl.IsFailure()
					c.ClearErrors()
				}
				if failure {
					if req.Fingerprint {
						st.Stage = "shadow"
						// an input rejected by the PARSER never reaches snapshot/restore: its canonical
						// counterpart is a syntax error too
						canon := canonicalReject
						if _, perr := parser.Parse(name, src); perr != nil && perr.IsFailure() {
							canon = canonicalSyntaxError
						}
						if !feedShadow(name, canon) {
							st.Shadow = "canonical rejected input was accepted"
						}
						a, n := fingerprint(c)
						b, _ := fingerprint(shadow)
						st.FpNodes = n
						st.FpDiff = fpDiff(b, a)
						st.Stage = "check"
					}
					return
				}
				if req.Fingerprint {
					st.Stage = "shadow"
					if feedShadow(name, src) {
						st.Shadow = "shadow checker (rejected inputs replaced by `1 + nil`) rejects this input"
					}
				}
				st.Accepted = true
				st.Stage = "run"
				stdout.Reset()
				val, runtimeErr := v.InterpretREPL(fn)
				st.Stdout = stdout.String()
				if !runtimeErr.IsUndefined() {
					st.ErrClass = runtimeErr.Class().Name
					if value.IsA(runtimeErr, value.ErrorClass) {
						errObj := (*value.Object)(runtimeErr.Pointer())
						m := errObj.Message()
						if m.IsReference() {
							if s, ok := m.AsReference().(value.String); ok {
								st.ErrMsg = string(s)
							}
						}
					} else {
						st.ErrMsg = runtimeErr.Inspect()
					}
					v.ResetError()
					return
				}
				st.Result = val.Inspect()
				st.Stage = ""
			}()
			steps = append(steps, st)
			if st.Panic != "" {
				// a Go panic leaves checker and VM in an undefined state: stop the session here
				break
			}
		}
	}()
	select {
	case <-done:
		ans.Steps = steps
		for _, s := range steps {
			if s.Panic != "" {
				ans.Outcome = "panic"
			}
		}
	case <-time.After(timeout):
		ans.Outcome = "timeout"
		ans.Steps = append([]ReplStep{}, steps...)
		mustExit = true
	}
	ans.Ms = time.Since(start).Milliseconds()
	return
}

// ---------------------------------------------------------------- reflective fingerprint

// fpSkip: REVIEWED skip-list (field paths relative to the Checker, or type names).
// Everything else reachable from the Checker is part of the fingerprint.
var fpSkipFields = map[string]string{
	"Checker.Filename":                "name of the last source; set at the start of every CheckSource",
	"Checker.Errors":                  "diagnostics of the last input; the REPL clears them (ClearErrors)",
	"Checker.ASTCache":                "cache of parsed sources keyed by source name; names are unique per input",
	"Checker.methodBodyChecks":        "work list; reset at the start of every CheckSource",
	"Checker.macroChecks":             "work list; reset at the start of every CheckSource",
	"Checker.signatureChecks":         "work list; reset at the start of every CheckSource",
	"Checker.constantScopesCopyCache": "cache; reset at the start of every CheckSource",
	"Checker.methodScopesCopyCache":   "cache; reset at the start of every CheckSource",
	"Checker.threadPool":              "process-wide worker pool",
	"Checker.output":                  "io.Writer",
	"Checker.macroCompiler":           "recreated by initMacroCompiler at the start of every CheckProgram",
}

// fpOnlyFields: for these struct types only the listed fields are state that survives into the
// next input. compiler.BytecodeCompiler: the next input's main compiler is created by
// CreateMainCompiler(previous), which reads exactly scopes, lastLocalIndex and maxLocalIndex;
// everything else (bytecode under construction, name, diagnostics, back-pointer to the checker)
// belongs to the input that created it.
var fpOnlyFields = map[string]map[string]bool{
	"compiler.BytecodeCompiler": {"scopes": true, "lastLocalIndex": true, "maxLocalIndex": true},
	"compiler.GoCompiler":       {"scopes": true, "lastLocalIndex": true, "maxLocalIndex": true},
}

// fpSkipStructFields: fields excluded inside the named struct types (reviewed).
var fpSkipStructFields = map[string]map[string]string{
	"types.GlobalEnvironment": {
		"anonymousMixinCopies": "memo table of DeepCopyEnv (original anonymous mixin -> its copy); a cache, not checker state",
	},
	"types.Method": {
		"OverloadId": "not restored faithfully and not deterministically: after GlobalEnvironment.DeepCopyEnv some registered " +
			"overloads carry OverloadId 0, which ones depends on map iteration order — two checkers with IDENTICAL " +
			"histories differ here (reported as a finding in docs/C27.md; only IsRegisteredOverload reads it)",
	},
}

var fpSkipTypes = map[string]string{
	"sync.Mutex":     "lock",
	"sync.RWMutex":   "lock",
	"sync.Once":      "lock",
	"sync.WaitGroup": "lock",
	"atomic.Int32":   "lock word",
	"atomic.Int64":   "lock word",
}

type fpWalker struct {
	seen    map[uintptr]uint64
	buckets map[string]uint64
	nodes   int
	// named namespaces (classes, modules, mixins, interfaces, singleton classes) are identified
	// by kind + fully qualified name + ordinal among distinct objects carrying that name, and
	// walked once under NS[…]; a reference to one is the leaf "@kind:name#ordinal". In a
	// consistent state every ordinal is 0: a stale copy of a namespace shows up as #1.
	nsPtrs  map[string][]uintptr
	nsQueue []nsItem
	tag     string
}

type nsItem struct {
	v   reflect.Value
	ref string
	tag string
}

func nsName(v reflect.Value) (string, bool) {
	t := v.Type()
	if t.Kind() != reflect.Ptr || t.Elem().Kind() != reflect.Struct || t.Elem().PkgPath() != "github.com/elk-language/elk/types" {
		return "", false
	}
	switch t.Elem().Name() {
	case "Class", "Module", "Mixin", "Interface", "SingletonClass":
	case "TypeParameter":
		// identified by owner + name (the deep copy aliases/duplicates them depending on map order)
		e := v.Elem()
		owner := ""
		if ns := e.FieldByName("Namespace"); ns.Kind() == reflect.Interface && !ns.IsNil() {
			if k, ok := nsName(ns.Elem()); ok {
				owner = k
			}
		}
		if owner == "" {
			// owned by an anonymous mixin or a method: no stable name, identified by path
			return "", false
		}
		return "TypeParameter:" + owner + ":" + value.Symbol(e.FieldByName("Name").Int()).String(), true
	default:
		return "", false
	}
	nb := v.Elem().FieldByName("NamespaceBase")
	name := nb.FieldByName("name").String()
	if name == "" || name == "&" {
		// anonymous (`extend where`) mixins and their singleton classes: identified by path
		return "", false
	}
	return t.Elem().Name() + ":" + name, true
}

func (w *fpWalker) nsRef(v reflect.Value, key string) string {
	// Namespaces are identified BY NAME within one global environment (tag R = runtime
	// environment, M = macro environment): the first object reached under a name is walked under
	// NS[tag kind:name]; further distinct objects with the same name (copies held by generic
	// instantiations, proxies, …) are only counted in ALIAS[…].
	p := v.Pointer()
	ref := w.tag + key
	lst := w.nsPtrs[ref]
	known := false
	for _, q := range lst {
		if q == p {
			known = true
			break
		}
	}
	if !known {
		w.nsPtrs[ref] = append(lst, p)
		if len(lst) == 0 {
			w.nsQueue = append(w.nsQueue, nsItem{v, ref, w.tag})
		}
	}
	return ref
}

var fpBucketDepth = func() int {
	if n, err := strconv.Atoi(os.Getenv("ELKH_FP_DEPTH")); err == nil && n > 0 {
		return n
	}
	return 7
}()

// fpPath: the readable prefix (first fpBucketDepth components) names the bucket a leaf is
// accounted to; the rolling hash identifies the full path.
type fpPath struct {
	s     string
	comps int
	h     uint64
}

func mix(h uint64, s string) uint64 {
	for i := 0; i < len(s); i++ {
		h ^= uint64(s[i])
		h *= 1099511628211
	}
	h ^= 0xff
	h *= 1099511628211
	return h
}

func (p fpPath) child(name string) fpPath {
	q := fpPath{s: p.s, comps: p.comps + 1, h: mix(p.h, name)}
	if p.comps < fpBucketDepth {
		q.s = p.s + name
	}
	return q
}

var fpDump = os.Getenv("ELKH_FP_DUMP")

func (w *fpWalker) emit(p fpPath, leaf string) {
	if fpDump != "" && strings.Contains(p.s, fpDump) {
		fmt.Fprintf(os.Stderr, "FP %s = %s\n", p.s, leaf)
	}
	w.nodes++
	// order-independent combination inside a bucket: sum of leaf hashes
	w.buckets[p.s] += mix(p.h, leaf)
}

func (w *fpWalker) emitU(p fpPath, leaf uint64) {
	if fpDump != "" && strings.Contains(p.s, fpDump) {
		fmt.Fprintf(os.Stderr, "FP %s = #%d\n", p.s, leaf)
	}
	w.nodes++
	w.buckets[p.s] += (p.h ^ leaf) * 1099511628211
}

func fingerprint(c *checker.Checker) (map[string]uint64, int) {
	w := &fpWalker{seen: map[uintptr]uint64{}, buckets: map[string]uint64{}, nsPtrs: map[string][]uintptr{}, tag: "R "}
	root := fpPath{s: "Checker", comps: 0, h: mix(14695981039346656037, "Checker")}
	w.seen[reflect.ValueOf(c).Pointer()] = root.h
	w.walk(reflect.ValueOf(c).Elem(), root, 0)
	for len(w.nsQueue) > 0 {
		it := w.nsQueue[0]
		w.nsQueue = w.nsQueue[1:]
		name := "NS[" + it.ref + "]"
		w.tag = it.tag
		w.walk(it.v.Elem(), fpPath{s: name, comps: 0, h: mix(14695981039346656037, name)}, 1)
	}
	if os.Getenv("ELKH_FP_ALIASES") != "" {
		for k, l := range w.nsPtrs {
			if len(l) > 1 {
				w.emitU(fpPath{s: "ALIAS[" + k + "]", h: mix(1, k)}, uint64(len(l)))
			}
		}
	}
	return w.buckets, w.nodes
}

func fpDiff(a, b map[string]uint64) []string {
	var out []string
	for k, v := range a {
		if bv, ok := b[k]; !ok {
			out = append(out, "-"+k)
		} else if bv != v {
			out = append(out, "~"+k)
		}
	}
	for k := range b {
		if _, ok := a[k]; !ok {
			out = append(out, "+"+k)
		}
	}
	// changed buckets first, then removed, then added
	rank := map[byte]int{'~': 0, '-': 1, '+': 2}
	sort.Slice(out, func(i, j int) bool {
		if rank[out[i][0]] != rank[out[j][0]] {
			return rank[out[i][0]] < rank[out[j][0]]
		}
		return out[i] < out[j]
	})
	if len(out) > 40 {
		out = append(out[:40], fmt.Sprintf("… %d more", len(out)-40))
	}
	return out
}

func (w *fpWalker) walk(v reflect.Value, path fpPath, depth int) {
	if depth > 400 {
		w.emit(path, "too-deep")
		return
	}
	if !v.IsValid() {
		w.emit(path, "invalid")
		return
	}
	t := v.Type()
	switch v.Kind() {
	case reflect.Bool:
		if v.Bool() {
			w.emitU(path, 1)
		} else {
			w.emitU(path, 0)
		}
	case reflect.Int, reflect.Int8, reflect.Int16, reflect.Int32, reflect.Int64:
		if t.String() == "value.Symbol" {
			w.emit(path, value.Symbol(v.Int()).String())
		} else {
			w.emitU(path, uint64(v.Int()))
		}
	case reflect.Uint, reflect.Uint8, reflect.Uint16, reflect.Uint32, reflect.Uint64, reflect.Uintptr:
		w.emitU(path, v.Uint())
	case reflect.Float32, reflect.Float64:
		w.emit(path, strconv.FormatFloat(v.Float(), 'g', -1, 64))
	case reflect.Complex64, reflect.Complex128:
		w.emit(path, fmt.Sprint(v.Complex()))
	case reflect.String:
		w.emit(path, v.String())
	case reflect.Func, reflect.Chan, reflect.UnsafePointer:
		// function values, channels: excluded (reviewed: not comparable, carry no checker state)
		if v.IsNil() {
			w.emit(path, "nil")
		} else {
			w.emit(path, "non-nil")
		}
	case reflect.Interface:
		if v.IsNil() {
			w.emit(path, "nil-iface")
			return
		}
		e := v.Elem()
		w.walk(e, path.child("("+e.Type().String()+")"), depth+1)
	case reflect.Ptr:
		if v.IsNil() {
			w.emit(path, "nil")
			return
		}
		if key, ok := nsName(v); ok {
			w.emit(path, "@"+w.nsRef(v, key))
			return
		}
		p := v.Pointer()
		if first, ok := w.seen[p]; ok {
			w.emitU(path, first^0x9e3779b97f4a7c15)
			return
		}
		w.seen[p] = path.h
		w.walk(v.Elem(), path, depth+1)
	case reflect.Struct:
		ts := t.String()
		if _, skip := fpSkipTypes[ts]; skip {
			return
		}
		allow, restricted := fpOnlyFields[ts]
		skipF := fpSkipStructFields[ts]
		for i := 0; i < v.NumField(); i++ {
			f := t.Field(i)
			if restricted && !allow[f.Name] {
				continue
			}
			if _, sk := skipF[f.Name]; sk {
				continue
			}
			if depth == 0 {
				if _, skip := fpSkipFields["Checker."+f.Name]; skip {
					continue
				}
				if f.Name == "macroEnv" {
					w.tag = "M "
				} else {
					w.tag = "R "
				}
			}
			w.walk(v.Field(i), path.child("."+f.Name), depth+1)
		}
	case reflect.Slice:
		if v.IsNil() {
			w.emit(path, "nil-slice")
			return
		}
		fallthrough
	case reflect.Array:
		w.emitU(path.child(".len"), uint64(v.Len()))
		if t.Elem().Kind() == reflect.Uint8 {
			// byte slices (bytecode): hash as one leaf
			var h uint64 = 14695981039346656037
			for i := 0; i < v.Len(); i++ {
				h ^= v.Index(i).Uint()
				h *= 1099511628211
			}
			w.emitU(path.child(".bytes"), h)
			return
		}
		for i := 0; i < v.Len(); i++ {
			w.walk(v.Index(i), path.child("["+strconv.Itoa(i)+"]"), depth+1)
		}
	case reflect.Map:
		if v.IsNil() {
			w.emit(path, "nil-map")
			return
		}
		w.emitU(path.child(".len"), uint64(v.Len()))
		type kv struct {
			k string
			v reflect.Value
		}
		kvs := make([]kv, 0, v.Len())
		it := v.MapRange()
		for it.Next() {
			kvs = append(kvs, kv{w.keyString(it.Key()), it.Value()})
		}
		sort.Slice(kvs, func(i, j int) bool { return kvs[i].k < kvs[j].k })
		for _, e := range kvs {
			w.walk(e.v, path.child("["+e.k+"]"), depth+1)
		}
	default:
		w.emit(path, "kind:"+v.Kind().String())
	}
}

// keyString: canonical, address-free rendering of a map key.
func (w *fpWalker) keyString(k reflect.Value) string {
	switch k.Kind() {
	case reflect.String:
		return k.String()
	case reflect.Int, reflect.Int8, reflect.Int16, reflect.Int32, reflect.Int64:
		if k.Type().String() == "value.Symbol" {
			return "sym:" + value.Symbol(k.Int()).String()
		}
		return strconv.FormatInt(k.Int(), 10)
	case reflect.Uint, reflect.Uint8, reflect.Uint16, reflect.Uint32, reflect.Uint64:
		return strconv.FormatUint(k.Uint(), 10)
	case reflect.Bool:
		return fmt.Sprint(k.Bool())
	case reflect.Interface:
		if k.IsNil() {
			return "nil"
		}
		return k.Elem().Type().String() + ":" + w.keyString(k.Elem())
	case reflect.Ptr:
		if k.IsNil() {
			return "nil"
		}
		if key, ok := nsName(k); ok {
			return "@" + w.nsRef(k, key)
		}
		if first, ok := w.seen[k.Pointer()]; ok {
			return "->" + strconv.FormatUint(first, 16)
		}
		// a key object not reached yet through a value path: identify it by its type and,
		// for named types, by a shallow rendering of its string fields
		return "ptr:" + k.Type().String() + ":" + shallow(k.Elem())
	case reflect.Struct:
		return k.Type().String() + ":" + shallow(k)
	}
	return k.Kind().String()
}

func shallow(v reflect.Value) string {
	if v.Kind() != reflect.Struct {
		return ""
	}
	var parts []string
	for i := 0; i < v.NumField(); i++ {
		f := v.Field(i)
		switch f.Kind() {
		case reflect.String:
			parts = append(parts, f.String())
		case reflect.Int, reflect.Int8, reflect.Int16, reflect.Int32, reflect.Int64:
			parts = append(parts, strconv.FormatInt(f.Int(), 10))
		}
	}
	return strings.Join(parts, ",")
}
