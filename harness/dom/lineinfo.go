package dom

import (
	"fmt"
	"strconv"
	"strings"

	"elkverif/hx"

	"github.com/elk-language/elk/bytecode"
)

// domain li: see lean/Driver/Dom/LineInfo.lean for the grammar.
func init() { hx.RegisterExec("li", execLineInfo) }

func execLineInfo(f []string) string {
	if len(f) != 3 || f[0] != "run" {
		return "bad-op"
	}
	var l bytecode.LineInfoList
	if f[1] != "" {
		for _, e := range strings.Split(f[1], ";") {
			p := strings.Split(e, " ")
			n := make([]int, len(p)-1)
			for i, s := range p[1:] {
				v, err := strconv.Atoi(s)
				if err != nil {
					return "bad-op"
				}
				n[i] = v
			}
			switch {
			case p[0] == "a" && len(n) == 2:
				l.AddLineNumber(n[0], n[1])
			case p[0] == "l" && len(n) == 1:
				if l.Last() == nil {
					return "panic"
				}
				l.AddBytesToLastLine(n[0])
			case p[0] == "r" && len(n) == 0:
				if l.Last() == nil {
					return "panic"
				}
				l.RemoveByte()
			case p[0] == "R" && len(n) == 1:
				if panics(func() { l.RemoveBytes(n[0]) }) {
					return "panic"
				}
			case p[0] == "p" && len(n) == 1:
				// compiler.prepLocals: the first entry, if any, grows
				if first := l.First(); first != nil {
					first.InstructionCount += n[0]
				}
			case p[0] == "x" && len(n) == 2:
				// compiler.removeBytes(offset,count)
				li := l.GetLineInfo(n[0])
				if li == nil {
					return "panic"
				}
				li.InstructionCount -= n[1]
			default:
				return "bad-op"
			}
		}
	}
	var sb strings.Builder
	sb.WriteString("ok ")
	for i, e := range l {
		if i > 0 {
			sb.WriteByte(',')
		}
		fmt.Fprintf(&sb, "%d:%d", e.LineNumber, e.InstructionCount)
	}
	sb.WriteString(" | ")
	if f[2] != "" {
		for i, q := range strings.Split(f[2], ";") {
			v, err := strconv.Atoi(q)
			if err != nil {
				return "bad-op"
			}
			if i > 0 {
				sb.WriteByte(',')
			}
			fmt.Fprintf(&sb, "%d", l.GetLineNumber(v))
		}
	}
	return sb.String()
}

func panics(f func()) (p bool) {
	defer func() {
		if recover() != nil {
			p = true
		}
	}()
	f()
	return false
}
