package dom

import (
	"bytes"
	"encoding/hex"
	"fmt"
	"io"
	"math"
	"regexp"
	"strings"

	"elkverif/hx"

	"github.com/elk-language/elk/bitfield"
	"github.com/elk-language/elk/types/checker"
	"github.com/elk-language/elk/value"
	"github.com/elk-language/elk/vm"
)

// domain path (C08): see lean/Driver/Dom/Paths.lean for the grammar.
//
//	path<TAB>run<TAB>OP<TAB>TA<TAB>A<TAB>hex(LA)<TAB>TB<TAB>B<TAB>hex(LB)
//
// OP an Elk binary operator, TA/TB static types, LA/LB Elk literal sources whose values must encode to A/B
// (operand syntax of domain num). Five program variants are compiled and run in-process:
//
//	lit    (LA) OP (LB)                                   constant folding (compiler/resolve.go)
//	typed  var a: TA = LA; var b: TB = LB; a OP b         typed opcode chosen from the static type
//	union  var a: TA | <other> = LA; …; a OP b            generic opcode + runtime dispatch
//	call   var a: TA = LA; …; a.OP(b)                     statically bound method call
//	ucall  var a: TA | <other> = LA; …; a.OP(b)           dynamically dispatched method call
//
// answer: `ok lit=<opcodes>;<result> typed=… union=… call=… ucall=…` where <opcodes> are the mnemonics emitted
// for the operator line (`+` joined; `CONST` when the expression was folded to a constant load) and <result> the
// encoded value, `err:<class>`, `panic`, `rejected` (checker) .
//
// probes:
//
//	opselect   the opcode selection table: for every (static type of the left operand, operator) the mnemonics
//	handlers   for every typed Float/Int opcode which accessor the handler reads its left operand with,
//	           decided by running it on a known operand and matching the result against the candidates
func init() {
	hx.RegisterExec("path", execPath)
	hx.RegisterProbe("opselect", probeOpSelect)
	hx.RegisterProbe("handlers", probeHandlers)
}

var disLine = regexp.MustCompile(`^(\d{4})\s+(\d+|\|)\s+((?:[0-9A-F]{2} )+)\s*([A-Z][A-Z_0-9]*)`)

type progOut struct {
	ops      string
	res      string
	rejected bool
}

var pathCounter int
var litCache = map[string]string{}

// runVariant compiles src, returns the mnemonics of the last source line (without the final RETURN and without
// the operand loads) and the result of running it.
func runVariant(src string) (out progOut) {
	pathCounter++
	name := fmt.Sprintf("/tmp/path%d.elk", pathCounter)
	defer func() {
		if r := recover(); r != nil {
			out.res = "panic"
		}
	}()
	fn, diags := checker.CheckSource(name, src, nil, bitfield.BitField16{}, nil)
	if diags != nil && diags.IsFailure() {
		return progOut{rejected: true, res: "rejected", ops: "-"}
	}
	var b bytes.Buffer
	fn.Disassemble(&b)
	out.ops = opLineMnemonics(b.String(), strings.Count(src, "\n")+1)
	th := vm.New(vm.WithStdout(io.Discard), vm.WithStderr(io.Discard))
	res, err := th.InterpretTopLevel(fn)
	if !err.IsUndefined() {
		out.res = "err:" + err.Class().Name
		return
	}
	enc, ok := encodeVal(res)
	if !ok {
		enc = "unencodable"
	}
	out.res = strings.ReplaceAll(enc, " ", "_")
	return
}

func opLineMnemonics(dis string, lastLine int) string {
	var ms []string
	cur := 0
	first := true
	prelude := true // LOAD_VALUE <file method>; EXEC; POP at the start of every top-level function
	for _, l := range strings.Split(dis, "\n") {
		if strings.HasPrefix(l, "== Disassembly") {
			if !first {
				break // only the top-level function
			}
			first = false
			continue
		}
		m := disLine.FindStringSubmatch(l)
		if m == nil {
			continue
		}
		if m[2] != "|" {
			fmt.Sscanf(m[2], "%d", &cur)
		}
		mn := m[4]
		if prelude {
			if mn == "POP" {
				prelude = false
			}
			continue
		}
		if cur != lastLine {
			continue
		}
		switch {
		case mn == "RETURN", strings.HasPrefix(mn, "GET_LOCAL"), strings.HasPrefix(mn, "PREP_LOCALS"),
			mn == "EXEC", mn == "POP" && len(ms) == 0:
			continue
		case strings.HasPrefix(mn, "LOAD_VALUE"), strings.HasPrefix(mn, "INT_"), strings.HasPrefix(mn, "FLOAT_"),
			mn == "TRUE", mn == "FALSE", mn == "NIL", strings.HasPrefix(mn, "LOAD_INT"), strings.HasPrefix(mn, "LOAD_CHAR"),
			strings.HasPrefix(mn, "LOAD_UINT"), strings.HasPrefix(mn, "LOAD_FLOAT"):
			mn = "CONST"
		}
		ms = append(ms, mn)
	}
	if len(ms) == 0 {
		return "-"
	}
	return strings.Join(ms, "+")
}

// a second static type that keeps the operator generic but is never the runtime kind
func unionWith(t string) string {
	switch t {
	case "Int":
		return "Int | Float"
	case "Float":
		return "Float | Int"
	case "String":
		return "String | Char"
	case "Char":
		return "Char | String"
	}
	return t + " | Int"
}

// grid: many operand pairs per program. `path<TAB>grid<TAB>OP<TAB>TA<TAB>TB<TAB>hex(LA);…<TAB>hex(LB);…`
// (unary: OP = u-, u+, u~ and the LB list is ignored). Two programs: the literal expressions, and one program with
// typed and union-typed variables evaluating typed, union, call and ucall segments (unary: typed, union).
// answer: `ok n=<pairs> lit=<list|outcome> rest=<list|outcome>`
func execGrid(f []string) string {
	if len(f) != 6 {
		return "bad-op"
	}
	op, ta, tb := f[1], f[2], f[3]
	dec := func(s string) ([]string, bool) {
		var out []string
		for _, h := range strings.Split(s, ";") {
			b, err := hex.DecodeString(h)
			if err != nil {
				return nil, false
			}
			out = append(out, string(b))
		}
		return out, true
	}
	las, ok1 := dec(f[4])
	lbs, ok2 := dec(f[5])
	if !ok1 || !ok2 {
		return "bad-op"
	}
	unary := strings.HasPrefix(op, "u") && len(op) == 2
	if unary {
		lbs = []string{"0"}
	}
	var lit, decl, typed, union, call, ucall, mixr, mixl []string
	for i, la := range las {
		decl = append(decl, fmt.Sprintf("var a%d: %s = %s", i, ta, la), fmt.Sprintf("var u%d: %s = %s", i, unionWith(ta), la))
	}
	if !unary {
		for j, lb := range lbs {
			decl = append(decl, fmt.Sprintf("var b%d: %s = %s", j, tb, lb))
		}
	}
	for i, la := range las {
		for j, lb := range lbs {
			if unary {
				u := op[1:]
				lit = append(lit, fmt.Sprintf("%s(%s)", u, la))
				typed = append(typed, fmt.Sprintf("%sa%d", u, i))
				union = append(union, fmt.Sprintf("%su%d", u, i))
				continue
			}
			lit = append(lit, fmt.Sprintf("(%s) %s (%s)", la, op, lb))
			typed = append(typed, fmt.Sprintf("a%d %s b%d", i, op, j))
			union = append(union, fmt.Sprintf("u%d %s b%d", i, op, j))
			call = append(call, fmt.Sprintf("a%d.%s(b%d)", i, op, j))
			ucall = append(ucall, fmt.Sprintf("u%d.%s(b%d)", i, op, j))
			// one operand a typed variable, the other a literal (the compiler sees a static operand next to a local)
			mixr = append(mixr, fmt.Sprintf("a%d %s (%s)", i, op, lb))
			mixl = append(mixl, fmt.Sprintf("(%s) %s b%d", la, op, j))
		}
	}
	l := runVariant("[" + strings.Join(lit, ", ") + "]")
	// the checker may reject a segment (no bit operators on `Int | Float`, `!=` is not a method name): drop segments
	// until the program is accepted
	type seg struct {
		name  string
		exprs []string
	}
	tries := [][]seg{
		{{"typed", typed}, {"union", union}, {"call", call}, {"ucall", ucall}, {"mixr", mixr}, {"mixl", mixl}},
		{{"typed", typed}, {"union", union}, {"mixr", mixr}, {"mixl", mixl}},
		{{"typed", typed}, {"call", call}, {"mixr", mixr}, {"mixl", mixl}},
		{{"typed", typed}, {"mixr", mixr}, {"mixl", mixl}},
		{{"typed", typed}},
	}
	if unary {
		tries = [][]seg{{{"typed", typed}, {"union", union}}, {{"typed", typed}}}
	}
	for _, t := range tries {
		var all, names []string
		for _, sg := range t {
			all = append(all, sg.exprs...)
			names = append(names, sg.name)
		}
		r := runVariant(strings.Join(decl, "\n") + "\n[" + strings.Join(all, ", ") + "]")
		if !r.rejected {
			return fmt.Sprintf("ok n=%d segs=%s lit=%s rest=%s", len(lit), strings.Join(names, ","), l.res, r.res)
		}
	}
	return fmt.Sprintf("ok n=%d segs=- lit=%s rest=rejected", len(lit), l.res)
}

func execPath(f []string) string {
	if len(f) >= 1 && f[0] == "grid" {
		return execGrid(f)
	}
	if len(f) != 8 || f[0] != "run" {
		return "bad-op"
	}
	op, ta, a, tb, b := f[1], f[2], f[3], f[5], f[6]
	laB, err1 := hex.DecodeString(f[4])
	lbB, err2 := hex.DecodeString(f[7])
	if err1 != nil || err2 != nil {
		return "bad-op"
	}
	la, lb := string(laB), string(lbB)
	for _, p := range [][2]string{{la, a}, {lb, b}} {
		enc, ok := litCache[p[0]]
		if !ok {
			v, ok := evalElk(p[0])
			if !ok {
				return "bad-operand"
			}
			enc, ok = encodeVal(v)
			if !ok {
				return "bad-operand"
			}
			litCache[p[0]] = enc
		}
		if enc != p[1] {
			return "bad-operand"
		}
	}
	decl := func(t1 string) string {
		return fmt.Sprintf("var a: %s = %s\nvar b: %s = %s\n", t1, la, tb, lb)
	}
	if strings.HasPrefix(op, "u") && len(op) == 2 {
		// unary operator on the left operand (the right operand is ignored): NEGATE_INT/NEGATE_FLOAT vs NEGATE vs folding
		u := op[1:]
		uv := []struct{ name, src string }{
			{"lit", fmt.Sprintf("%s(%s)", u, la)},
			{"typed", fmt.Sprintf("var a: %s = %s\n%sa", ta, la, u)},
			{"union", fmt.Sprintf("var a: %s = %s\n%sa", unionWith(ta), la, u)},
		}
		var sb strings.Builder
		sb.WriteString("ok")
		for _, v := range uv {
			o := runVariant(v.src)
			fmt.Fprintf(&sb, " %s=%s;%s", v.name, o.ops, o.res)
		}
		sb.WriteString(" call=-;rejected ucall=-;rejected")
		return sb.String()
	}
	variants := []struct{ name, src string }{
		{"lit", fmt.Sprintf("(%s) %s (%s)", la, op, lb)},
		{"typed", decl(ta) + "a " + op + " b"},
		{"union", decl(unionWith(ta)) + "a " + op + " b"},
		{"call", decl(ta) + "a." + op + "(b)"},
		{"ucall", decl(unionWith(ta)) + "a." + op + "(b)"},
		{"mixr", decl(ta) + "a " + op + " (" + lb + ")"},
		{"mixl", decl(ta) + "(" + la + ") " + op + " b"},
	}
	var sb strings.Builder
	sb.WriteString("ok")
	for _, v := range variants {
		o := runVariant(v.src)
		fmt.Fprintf(&sb, " %s=%s;%s", v.name, o.ops, o.res)
	}
	return sb.String()
}

var selTypes = []struct{ name, lit string }{
	{"Int", "3"}, {"Float", "2.5"}, {"BigFloat", "2.5bf"}, {"Float64", "2.5f64"}, {"Float32", "2.5f32"},
	{"Int64", "3i64"}, {"Int32", "3i32"}, {"Int16", "3i16"}, {"Int8", "3i8"},
	{"UInt64", "3u64"}, {"UInt32", "3u32"}, {"UInt16", "3u16"}, {"UInt8", "3u8"}, {"UInt", "3u"},
	{"String", `"a"`}, {"Char", "`a`"}, {"Int | Float", "3"}, {"Float | Int", "2.5"}, {"Int | BigFloat", "3"},
}

var selOps = []string{"+", "-", "*", "/", "**", "%", "<<", ">>", "<<<", ">>>", "&", "&~", "|", "^",
	"=~", "!~", "==", "!=", "===", "!==", ">", ">=", "<", "<=", "<=>"}

func probeOpSelect(args []string) (any, error) {
	type row struct {
		Type string   `json:"type"`
		Ops  []string `json:"ops"`
	}
	var rows []row
	all := append([]struct{ name, lit string }{}, selTypes...)
	for _, t := range selTypes {
		// union rows for the types whose typed/generic split matters (the others are generic already)
		if t.name == "Int" || t.name == "Float" || t.name == "String" || t.name == "Char" {
			all = append(all, struct{ name, lit string }{unionWith(t.name), t.lit})
		}
	}
	seen := map[string]bool{}
	for _, t := range all {
		if seen[t.name] {
			continue
		}
		seen[t.name] = true
		r := row{Type: t.name}
		for _, op := range selOps {
			got := "rejected"
			// the right operand: same type first, then Int, then Float (the checker decides what is admissible)
			for _, rt := range []struct{ name, lit string }{{t.name, t.lit}, {"Int", "3"}, {"Float", "2.5"}, {"UInt8", "3u8"}} {
				src := fmt.Sprintf("var a: %s = %s\nvar b: %s = %s\na %s b", t.name, t.lit, rt.name, rt.lit, op)
				pathCounter++
				fn, failed := compileOnly(fmt.Sprintf("/tmp/sel%d.elk", pathCounter), src)
				if fn == nil || failed {
					continue
				}
				var b bytes.Buffer
				fn.Disassemble(&b)
				got = opLineMnemonics(b.String(), 3)
				break
			}
			r.Ops = append(r.Ops, got)
		}
		rows = append(rows, r)
	}
	return map[string]any{"ops": selOps, "rows": rows}, nil
}

// probeHandlers: which accessor does the handler of a typed opcode read its left operand with?
// The typed program `var a: T = x; var b: T = y; a OP b` is run and its result compared with the receiver
// methods applied to (i) the Float x, (ii) the SmallInt whose word is the float's bit pattern.
func probeHandlers(args []string) (any, error) {
	type ent struct {
		Opcode   string `json:"opcode"`
		Op       string `json:"op"`
		Type     string `json:"type"`
		Accessor string `json:"accessor"`
	}
	var out []ent
	th := vm.New(vm.WithStdout(io.Discard), vm.WithStderr(io.Discard))
	for _, t := range []struct{ name, la, lb string }{{"Float", "-3.5", "-1.25"}, {"Int", "-7", "3"}} {
		for _, op := range selOps {
			src := fmt.Sprintf("var a: %s = %s\nvar b: %s = %s\na %s b", t.name, t.la, t.name, t.lb, op)
			pathCounter++
			fn, failed := compileOnly(fmt.Sprintf("/tmp/hnd%d.elk", pathCounter), src)
			if fn == nil || failed {
				continue
			}
			var db bytes.Buffer
			fn.Disassemble(&db)
			ops := opLineMnemonics(db.String(), 3)
			isInt := strings.HasSuffix(ops, "_INT") || strings.HasSuffix(ops, "_I")
			isFloat := strings.HasSuffix(ops, "_FLOAT") || strings.HasSuffix(ops, "_F")
			if !isInt && !isFloat {
				continue // generic opcode or method call
			}
			if (t.name == "Float") != isFloat {
				// a handler for the other type was selected: running it reinterprets the operand (and can crash
				// the process), so it is only recorded
				out = append(out, ent{Opcode: ops, Op: op, Type: t.name, Accessor: "handler-of-other-type"})
				continue
			}
			o := runVariant(src)
			a, _ := evalElk(t.la)
			b, _ := evalElk(t.lb)
			acc := "unknown"
			cands := []struct {
				name string
				v    value.Value
			}{{"self", a}}
			if t.name == "Float" {
				cands = append(cands, struct {
					name string
					v    value.Value
				}{"AsSmallInt", value.SmallInt(int64(math.Float64bits(float64(a.AsFloat())))).ToValue()})
			}
			for _, c := range cands {
				res, err := binaryByMethod(th, op, c.v, b)
				if err.IsUndefined() {
					if enc, ok := encodeVal(res); ok && strings.ReplaceAll(enc, " ", "_") == o.res {
						acc = c.name
						break
					}
				}
			}
			if acc == "self" {
				acc = map[string]string{"Float": "AsFloat", "Int": "IsSmallInt?AsSmallInt:BigInt"}[t.name]
			}
			out = append(out, ent{Opcode: o.ops, Op: op, Type: t.name, Accessor: acc})
		}
	}
	return map[string]any{"handlers": out}, nil
}

// binaryByMethod: the receiver's own method for the operator (what a dynamically dispatched call runs)
func binaryByMethod(th *vm.Thread, op string, l, r value.Value) (res, err value.Value) {
	defer func() {
		if rec := recover(); rec != nil {
			res, err = value.Undefined, value.Nil
		}
	}()
	name := op
	neg := false
	switch op {
	case "!=":
		name, neg = "==", true
	case "!~":
		name, neg = "=~", true
	case "!==":
		name, neg = "===", true
	}
	m := l.DirectClass().LookupMethod(value.ToSymbol(name))
	if m == nil {
		return value.Undefined, value.Nil
	}
	res, err = th.CallMethod(m, l, r)
	if neg && err.IsUndefined() {
		res = value.ToNotBool(res).ToValue()
	}
	return
}

func compileOnly(name, src string) (fn *vm.BytecodeFunction, failed bool) {
	defer func() {
		if r := recover(); r != nil {
			fn, failed = nil, true
		}
	}()
	f, diags := checker.CheckSource(name, src, nil, bitfield.BitField16{}, nil)
	if diags != nil && diags.IsFailure() {
		return nil, true
	}
	return f, false
}
