package dom

import (
	"bufio"
	"bytes"
	"encoding/json"
	"fmt"
	"os"
	"runtime/debug"
	"strings"
	"sync"
	"time"

	"elkverif/hx"

	"github.com/elk-language/elk"
	"github.com/elk-language/elk/bitfield"
	"github.com/elk-language/elk/types/checker"
	"github.com/elk-language/elk/value"
	"github.com/elk-language/elk/vm"
)

// sub-command `run`: program worker. One JSON request per line on stdin, one JSON answer
// per line on stdout. A Go panic inside the pipeline is an *outcome* ("panic"), a Go fatal
// error kills the worker (the Python side re-runs the line alone and records "fatal").
func init() {
	_ = elk.InitGlobalEnvironment // package elk's import wires ext/std etc.
	hx.RegisterSub("run", runWorker)
}

type RunReq struct {
	ID        string `json:"id"`
	Src       string `json:"src"`
	Mode      string `json:"mode"`       // "run" (default) | "check" | "dis"
	TimeoutMs int    `json:"timeout_ms"` // default 5000
	Pool      int    `json:"pool"`       // thread-pool size for async tasks (default 4)
	Queue     int    `json:"queue"`      // task-queue capacity (default 256)
	Name      string `json:"name"`       // source name, default /tmp/<id>.elk
}

type Diag struct {
	Sev  string `json:"sev"`
	Msg  string `json:"msg"`
	Line int    `json:"line"`
	Col  int    `json:"col"`
}

type Frame struct {
	Fn   string `json:"fn"`
	File string `json:"file"`
	Line int    `json:"line"`
	TCO  int    `json:"tco"`
}

type RunAns struct {
	ID       string  `json:"id"`
	Diags    []Diag  `json:"diags"`
	Rejected bool    `json:"rejected"`
	Outcome  string  `json:"outcome"` // rejected | value | error | panic | timeout | checked
	Stage    string  `json:"stage"`   // where a panic happened: check | run
	Stdout   string  `json:"stdout"`
	Result   string  `json:"result,omitempty"`
	ErrClass string  `json:"err_class,omitempty"`
	ErrMsg   string  `json:"err_msg,omitempty"`
	Trace    []Frame `json:"trace,omitempty"`
	Panic    string  `json:"panic,omitempty"`
	Dis      string  `json:"dis,omitempty"`
	Ms       int64   `json:"ms"`
}

// lockedBuffer: pool threads and the main thread of one program share the captured stdout
type lockedBuffer struct {
	mu sync.Mutex
	b  bytes.Buffer
}

func (l *lockedBuffer) Write(p []byte) (int, error) {
	l.mu.Lock()
	defer l.mu.Unlock()
	return l.b.Write(p)
}

func (l *lockedBuffer) String() string {
	l.mu.Lock()
	defer l.mu.Unlock()
	return l.b.String()
}

func runWorker(args []string) int {
	in := bufio.NewReaderSize(os.Stdin, 1<<22)
	out := bufio.NewWriter(os.Stdout)
	// anything the runtime prints on its own (default-pool threads, debug output) must not
	// corrupt the answer stream
	os.Stdout = os.Stderr
	for {
		line, err := in.ReadString('\n')
		if len(strings.TrimSpace(line)) > 0 {
			var req RunReq
			if e := json.Unmarshal([]byte(line), &req); e != nil {
				fmt.Fprintln(out, `{"outcome":"bad-request"}`)
			} else {
				ans, exit := runOne(&req)
				b, _ := json.Marshal(ans)
				out.Write(b)
				out.WriteByte('\n')
				out.Flush()
				if exit {
					// a timed-out program still occupies a goroutine: recycle the process
					return 3
				}
			}
			out.Flush()
		}
		if err != nil {
			return 0
		}
	}
}

func runOne(req *RunReq) (ans *RunAns, mustExit bool) {
	ans = &RunAns{ID: req.ID, Diags: []Diag{}}
	timeout := time.Duration(req.TimeoutMs) * time.Millisecond
	if timeout == 0 {
		timeout = 5 * time.Second
	}
	name := req.Name
	if name == "" {
		name = "/tmp/" + req.ID + ".elk"
	}
	start := time.Now()
	done := make(chan struct{})
	var stdout lockedBuffer
	go func() {
		defer close(done)
		stage := "check"
		defer func() {
			if r := recover(); r != nil {
				ans.Outcome = "panic"
				ans.Stage = stage
				ans.Panic = hx.PanicClass(r) + " @ " + firstFrames(debug.Stack())
			}
		}()
		fn, diags := checker.CheckSource(name, req.Src, nil, bitfield.BitField16{}, nil)
		for _, d := range diags {
			dd := Diag{Sev: d.Severity.String(), Msg: d.Message}
			if d.Location != nil && d.Location.Span != nil && d.Location.StartPos != nil {
				dd.Line = d.Location.StartPos.Line
				dd.Col = d.Location.StartPos.Column
			}
			ans.Diags = append(ans.Diags, dd)
		}
		if diags != nil && diags.IsFailure() {
			ans.Rejected = true
			ans.Outcome = "rejected"
			return
		}
		if req.Mode == "check" {
			ans.Outcome = "checked"
			return
		}
		if req.Mode == "dis" {
			var b bytes.Buffer
			fn.Disassemble(&b)
			ans.Dis = b.String()
			ans.Outcome = "checked"
			return
		}
		stage = "run"
		// a thread pool per program so that output printed by pool threads is captured; sizes default
		// to the configured ones (ELK_DEFAULT_THREAD_POOL_SIZE / _QUEUE_SIZE, read in package init).
		// The queue is never closed: tasks that were started but not awaited may still settle.
		pool, queue := req.Pool, req.Queue
		if pool <= 0 {
			pool = vm.DefaultThreadPool.ThreadCount()
		}
		if queue <= 0 {
			queue = vm.DefaultThreadPool.TaskQueueSize()
		}
		tp := vm.NewThreadPool(pool, queue, vm.WithStdout(&stdout))
		v := vm.New(vm.WithStdout(&stdout), vm.WithThreadPool(tp))
		res, elkErr := v.InterpretTopLevel(fn)
		if !elkErr.IsUndefined() {
			ans.Outcome = "error"
			ans.ErrClass = elkErr.Class().Name
			if value.IsA(elkErr, value.ErrorClass) {
				errObj := (*value.Object)(elkErr.Pointer())
				m := errObj.Message()
				if m.IsReference() {
					if s, ok := m.AsReference().(value.String); ok {
						ans.ErrMsg = string(s)
					}
				}
			} else {
				ans.ErrMsg = elkErr.Inspect()
			}
			if st := v.ErrStackTrace(); st != nil {
				for _, f := range *st {
					ans.Trace = append(ans.Trace, Frame{Fn: f.FuncName, File: f.FileName, Line: f.LineNumber, TCO: f.TailCallCounter})
				}
			}
			return
		}
		ans.Outcome = "value"
		ans.Result = res.Inspect()
	}()
	select {
	case <-done:
	case <-time.After(timeout):
		ans = &RunAns{ID: req.ID, Diags: []Diag{}, Outcome: "timeout"}
		mustExit = true
	}
	ans.Stdout = stdout.String()
	ans.Ms = time.Since(start).Milliseconds()
	return
}

func firstFrames(stack []byte) string {
	// keep the first two elk frames below the panic for classification
	var keep []string
	for _, l := range strings.Split(string(stack), "\n") {
		if strings.HasPrefix(l, "github.com/elk-language/elk/") {
			l = strings.TrimPrefix(l, "github.com/elk-language/elk/")
			if i := strings.LastIndex(l, "("); i > 0 {
				l = l[:i]
			}
			keep = append(keep, l)
			if len(keep) == 5 {
				break
			}
		}
	}
	return strings.Join(keep, " < ")
}
