package dom

import (
	"fmt"
	"math"
	"math/big"
	"sort"
	"strconv"
	"strings"

	"elkverif/hx"

	"github.com/elk-language/elk/value"
	"github.com/elk-language/elk/vm"
)

// domain hm (C17): see lean/Driver/Dom/HashMap.lean for the grammar.
// domain hmq: queries used by the generator (real hashes and equality classes of key specs).
func init() {
	hx.RegisterExec("hm", execHM)
	hx.RegisterExec("hmq", execHMQ)
	// symbol keys hash by their id: intern the pool's names in a fixed order so that the ids (and
	// hashes) do not depend on the order in which a line mentions them
	for _, n := range []string{"a", "b", "foo", "elk_sym_1", "elk_sym_2"} {
		value.ToSymbol("hmkey_" + n)
	}
}

// ---- key specs: i<int> SmallInt, l<int> Int64, u<int> UInt8, f<hex bits> Float, s<text> String,
// y<name> Symbol, c<codepoint> Char, b<decimal> BigInt, n nil, t true, F false
func hmKey(spec string) (value.Value, bool) {
	if spec == "" {
		return value.Undefined, false
	}
	arg := spec[1:]
	switch spec[0] {
	case 'i':
		n, err := strconv.ParseInt(arg, 10, 64)
		return value.SmallInt(n).ToValue(), err == nil
	case 'l':
		n, err := strconv.ParseInt(arg, 10, 64)
		return value.Int64(n).ToValue(), err == nil
	case 'u':
		n, err := strconv.ParseUint(arg, 10, 8)
		return value.UInt8(n).ToValue(), err == nil
	case 'f':
		n, err := strconv.ParseUint(arg, 16, 64)
		return value.Float(math.Float64frombits(n)).ToValue(), err == nil
	case 's':
		return value.Ref(value.String(arg)), true
	case 'y':
		return value.ToSymbol("hmkey_" + arg).ToValue(), true
	case 'c':
		n, err := strconv.ParseInt(arg, 10, 32)
		return value.Char(rune(n)).ToValue(), err == nil
	case 'b':
		z, ok := new(big.Int).SetString(arg, 10)
		if !ok {
			return value.Undefined, false
		}
		return value.Ref(value.ToElkBigInt(z)), true
	case 'n':
		return value.Nil, true
	case 't':
		return value.True.ToValue(), true
	case 'F':
		return value.False.ToValue(), true
	}
	return value.Undefined, false
}

func execHMQ(f []string) string {
	// hmq classes spec spec …  ->  ok hash:class …   (class = index of the first spec it is == to)
	if len(f) < 1 || f[0] != "classes" {
		return "bad-op"
	}
	th := collThread()
	var vals []value.Value
	var out []string
	for i, spec := range f[1:] {
		v, ok := hmKey(spec)
		if !ok {
			return "bad-key " + spec
		}
		h, err := vm.Hash(th, v)
		if !err.IsUndefined() {
			return "bad-hash " + spec
		}
		cls := i
		for j, w := range vals {
			eq, err := vm.Equal(th, w, v)
			if err.IsUndefined() && value.Truthy(eq) {
				cls = j
				break
			}
		}
		vals = append(vals, v)
		out = append(out, fmt.Sprintf("%d:%d", uint64(h), cls))
	}
	return "ok " + strings.Join(out, " ")
}

type hmObj struct {
	impl string
	ref  value.Reference
}

type hmCtx struct {
	objs   []*hmObj
	ids    map[string]int // canonical key text -> model id
	layout bool
}

func hmCanon(v value.Value) string {
	return fmt.Sprintf("%T|%s", v.ToInterface(), v.Inspect())
}

func (c *hmCtx) key(tok string) value.Value {
	p := strings.SplitN(tok, "/", 3)
	if len(p) != 3 {
		panic("harness: bad key token " + tok)
	}
	id, err := strconv.Atoi(p[0])
	if err != nil {
		panic("harness: bad key id " + tok)
	}
	v, ok := hmKey(p[2])
	if !ok {
		panic("harness: bad key spec " + tok)
	}
	h, herr := vm.Hash(collThread(), v)
	if !herr.IsUndefined() || strconv.FormatUint(uint64(h), 10) != p[1] {
		panic("harness: stale hash in " + tok + " (real " + strconv.FormatUint(uint64(h), 10) + ")")
	}
	c.ids[hmCanon(v)] = id
	return v
}

func (c *hmCtx) keyName(v value.Value) string {
	if id, ok := c.ids[hmCanon(v)]; ok {
		return "k" + strconv.Itoa(id)
	}
	return "k?" + v.Inspect()
}

func hmValStr(v value.Value) string {
	if v.IsUndefined() {
		return "undef"
	}
	switch x := v.ToInterface().(type) {
	case value.SmallInt:
		return strconv.FormatInt(int64(x), 10)
	}
	return v.Inspect()
}

func (c *hmCtx) dump(o *hmObj) string {
	var sb strings.Builder
	if c.layout {
		switch t := o.ref.(type) {
		case *vm.HashMapOfValue:
			return c.dumpPairs(t.Table, t.Elements, t.OccupiedSlots)
		case *vm.HashRecordOfValue:
			m := (*vm.HashMapOfValue)(t)
			return c.dumpPairs(m.Table, m.Elements, m.OccupiedSlots)
		case *vm.HashSetOfValue:
			sb.WriteByte('{')
			for i, e := range vm.VerifHashSetTable(t) {
				if i > 0 {
					sb.WriteByte(',')
				}
				switch {
				case e.IsUndefined():
					sb.WriteByte('_')
				case e == vm.DeletedHashSetValue:
					sb.WriteByte('x')
				default:
					sb.WriteString(c.keyName(e) + "=0")
				}
			}
			occ, el := vm.VerifHashSetCounters(t)
			fmt.Fprintf(&sb, "}E%dO%d", el, occ)
			return sb.String()
		}
	}
	// abstract view: sorted contents and length
	type kv struct {
		id int
		s  string
	}
	var es []kv
	add := func(k, v value.Value, isSet bool) {
		name := c.keyName(k)
		id, _ := strconv.Atoi(strings.TrimPrefix(name, "k"))
		val := "0"
		if !isSet {
			val = hmValStr(v)
		}
		es = append(es, kv{id, name + "=" + val})
	}
	n := 0
	switch t := o.ref.(type) {
	case vm.HashSet:
		for e := range t.All() {
			add(e, value.Undefined, true)
		}
		n = t.Length()
	case vm.HashRecord:
		for p := range t.All() {
			add(p.Key(), p.Value(), false)
		}
		n = t.Length()
	default:
		panic("harness: unknown object")
	}
	sort.SliceStable(es, func(i, j int) bool { return es[i].id < es[j].id })
	sb.WriteByte('{')
	for i, e := range es {
		if i > 0 {
			sb.WriteByte(',')
		}
		sb.WriteString(e.s)
	}
	fmt.Fprintf(&sb, "}E%d", n)
	return sb.String()
}

func (c *hmCtx) dumpPairs(tab []value.PairOfValue, elements, occupied int) string {
	var sb strings.Builder
	sb.WriteByte('{')
	for i, e := range tab {
		if i > 0 {
			sb.WriteByte(',')
		}
		switch {
		case e.Key().IsUndefined() && e.Value().IsUndefined():
			sb.WriteByte('_')
		case e.Key().IsUndefined():
			sb.WriteByte('x')
		default:
			sb.WriteString(c.keyName(e.Key()) + "=" + hmValStr(e.Value()))
		}
	}
	fmt.Fprintf(&sb, "}E%dO%d", elements, occupied)
	return sb.String()
}

func execHM(f []string) string {
	if len(f) != 2 {
		return "bad-op"
	}
	c := &hmCtx{ids: map[string]int{}, layout: strings.Contains(f[0], "l")}
	if f[1] == "" {
		return "ok "
	}
	var outs []string
	prev := []string{}
	for _, opS := range strings.Split(f[1], ";") {
		ans := c.op(strings.Split(opS, " "))
		if strings.HasPrefix(ans, "bad") {
			return ans
		}
		var ch []string
		now := make([]string, len(c.objs))
		for i, o := range c.objs {
			now[i] = c.dump(o)
			if i >= len(prev) || prev[i] != now[i] {
				ch = append(ch, strconv.Itoa(i)+"="+now[i])
			}
		}
		prev = now
		outs = append(outs, ans+"|"+strings.Join(ch, "&"))
	}
	return "ok " + strings.Join(outs, " ; ")
}

// sort `k<id>=<val>` items by numeric id
func hmSortByID(vs []string) {
	id := func(s string) int {
		s = strings.TrimPrefix(s, "k")
		if i := strings.IndexByte(s, '='); i >= 0 {
			s = s[:i]
		}
		n, _ := strconv.Atoi(s)
		return n
	}
	sort.SliceStable(vs, func(i, j int) bool { return id(vs[i]) < id(vs[j]) })
}

func hmBool(b bool) string {
	if b {
		return "b:true"
	}
	return "b:false"
}

func hmNew(impl string, capacity int) value.Reference {
	switch impl {
	case "m":
		return vm.NewHashMapOfValue(capacity)
	case "r":
		return vm.NewHashRecordOfValue(capacity)
	case "s":
		return vm.NewHashSetOfValue(capacity)
	case "nm":
		return vm.NewNativeHashMap[value.String, value.SmallInt](capacity)
	case "nk":
		return vm.NewNativeKeyHashMap[value.String](capacity)
	case "ns":
		return vm.NewNativeHashSet[value.String](capacity)
	case "nr":
		r := make(vm.NativeHashRecord[value.String, value.SmallInt], capacity)
		return &r
	}
	panic("harness: unknown implementation " + impl)
}

func hmImplOf(r value.Reference) string {
	switch r.(type) {
	case *vm.HashMapOfValue:
		return "m"
	case *vm.HashRecordOfValue:
		return "r"
	case *vm.HashSetOfValue:
		return "s"
	case *vm.NativeHashMap[value.String, value.SmallInt]:
		return "nm"
	case *vm.NativeKeyHashMap[value.String]:
		return "nk"
	case *vm.NativeHashSet[value.String]:
		return "ns"
	case *vm.NativeHashRecord[value.String, value.SmallInt]:
		return "nr"
	}
	panic(fmt.Sprintf("harness: unexpected result type %T", r))
}

func (c *hmCtx) op(p []string) (ans string) {
	defer func() {
		if r := recover(); r != nil {
			s := hx.PanicClass(r)
			if strings.HasPrefix(s, "harness:") {
				ans = "bad-" + s
			} else {
				ans = "panic"
			}
		}
	}()
	th := collThread()
	name := p[0]
	impl := "m"
	if i := strings.IndexByte(name, ':'); i >= 0 {
		impl = name[i+1:]
		name = name[:i]
	}
	a := p[1:]
	atoi := func(s string) int {
		n, err := strconv.Atoi(s)
		if err != nil {
			panic("harness: bad integer " + s)
		}
		return n
	}
	obj := func(s string) *hmObj {
		i := atoi(s)
		if i < 0 || i >= len(c.objs) {
			panic("harness: dangling object id")
		}
		return c.objs[i]
	}
	add := func(r value.Reference) string {
		c.objs = append(c.objs, &hmObj{impl: hmImplOf(r), ref: r})
		return "o:" + strconv.Itoa(len(c.objs)-1)
	}
	need := func(n int) {
		if len(a) != n {
			panic("harness: arity")
		}
	}
	errStr := func(err value.Value) string {
		if cls := err.Class(); cls != nil {
			return "err:" + cls.Name
		}
		return "err:?"
	}
	rec := func(o *hmObj) vm.HashRecord {
		r, ok := o.ref.(vm.HashRecord)
		if !ok {
			panic("harness: map operation on a set")
		}
		return r
	}
	set := func(o *hmObj) vm.HashSet {
		r, ok := o.ref.(vm.HashSet)
		if !ok {
			panic("harness: set operation on a map")
		}
		return r
	}
	ofValue := func(o *hmObj) *vm.HashMapOfValue {
		switch t := o.ref.(type) {
		case *vm.HashMapOfValue:
			return t
		case *vm.HashRecordOfValue:
			return (*vm.HashMapOfValue)(t)
		}
		panic("harness: needs a HashMapOfValue/HashRecordOfValue")
	}
	switch name {
	case "new":
		need(1)
		r := hmNew(impl, atoi(a[0]))
		c.objs = append(c.objs, &hmObj{impl: impl, ref: r})
		return "o:" + strconv.Itoa(len(c.objs)-1)
	case "set":
		need(3)
		o := obj(a[0])
		k := c.key(a[1])
		if err := rec(o).SetVal(th, k, value.SmallInt(atoi(a[2])).ToValue()); !err.IsUndefined() {
			return errStr(err)
		}
		return "-"
	case "get":
		need(2)
		v, err := rec(obj(a[0])).GetValUndefined(th, c.key(a[1]))
		if !err.IsUndefined() {
			return errStr(err)
		}
		if v.IsUndefined() {
			return "absent"
		}
		return "v:" + hmValStr(v)
	case "has":
		need(2)
		b, err := rec(obj(a[0])).ContainsKey(th, c.key(a[1]))
		if !err.IsUndefined() {
			return errStr(err)
		}
		return hmBool(b)
	case "del":
		need(2)
		b, err := vm.HashMapOfValueDelete(th, ofValue(obj(a[0])), c.key(a[1]))
		if !err.IsUndefined() {
			return errStr(err)
		}
		return hmBool(b)
	case "len":
		need(1)
		switch t := obj(a[0]).ref.(type) {
		case vm.HashSet:
			return "v:" + strconv.Itoa(t.Length())
		case vm.HashRecord:
			return "v:" + strconv.Itoa(t.Length())
		}
		panic("harness: len")
	case "setcap":
		need(2)
		switch t := obj(a[0]).ref.(type) {
		case *vm.HashSetOfValue:
			vm.HashSetOfValueSetCapacity(th, t, atoi(a[1]))
		default:
			vm.HashMapOfValueSetCapacity(th, ofValue(obj(a[0])), atoi(a[1]))
		}
		return "-"
	case "grow":
		need(2)
		switch t := obj(a[0]).ref.(type) {
		case *vm.HashSetOfValue:
			vm.HashSetOfValueGrow(th, t, atoi(a[1]))
		default:
			vm.HashMapOfValueGrow(th, ofValue(obj(a[0])), atoi(a[1]))
		}
		return "-"
	case "clone":
		need(1)
		return add(obj(a[0]).ref.Copy())
	case "clonecap":
		need(2)
		switch t := obj(a[0]).ref.(type) {
		case vm.HashSet:
			r, err := t.CloneHashSet(th, atoi(a[1]))
			if !err.IsUndefined() {
				return errStr(err)
			}
			return add(r.(value.Reference))
		case vm.HashMap:
			r, err := t.CloneHashMap(th, atoi(a[1]))
			if !err.IsUndefined() {
				return errStr(err)
			}
			return add(r.(value.Reference))
		case vm.HashRecord:
			r, err := t.CloneHashRecord(th, atoi(a[1]))
			if !err.IsUndefined() {
				return errStr(err)
			}
			return add(r.(value.Reference))
		}
		panic("harness: clonecap")
	case "cat":
		need(2)
		r, err := rec(obj(a[0])).ConcatVal(th, value.Ref(obj(a[1]).ref))
		if !err.IsUndefined() {
			return errStr(err)
		}
		return add(r.AsReference())
	case "copy":
		need(2)
		switch t := obj(a[0]).ref.(type) {
		case *vm.HashSetOfValue:
			s, ok := obj(a[1]).ref.(*vm.HashSetOfValue)
			if !ok {
				panic("harness: copy source")
			}
			if err := vm.HashSetOfValueCopy(th, t, s); !err.IsUndefined() {
				return errStr(err)
			}
		default:
			if err := vm.HashMapOfValueCopy(th, ofValue(obj(a[0])), ofValue(obj(a[1]))); !err.IsUndefined() {
				return errStr(err)
			}
		}
		return "-"
	case "eq":
		need(2)
		b, err := rec(obj(a[0])).Equal(th, value.Ref(obj(a[1]).ref))
		if !err.IsUndefined() {
			return errStr(err)
		}
		return hmBool(b)
	case "items":
		need(1)
		var vs []string
		switch t := obj(a[0]).ref.(type) {
		case vm.HashSet:
			for e := range t.All() {
				vs = append(vs, c.keyName(e)+"=0")
			}
		case vm.HashRecord:
			for p := range t.All() {
				vs = append(vs, c.keyName(p.Key())+"="+hmValStr(p.Value()))
			}
		}
		if !c.layout {
			hmSortByID(vs)
		}
		return "[" + strings.Join(vs, ",") + "]"
	case "iter":
		// the same contents through the NativeResettableIterator (`for … in`, `iter.next`)
		need(1)
		var vs []string
		var it value.NativeResettableIterator
		isSet := false
		switch t := obj(a[0]).ref.(type) {
		case vm.HashSet:
			it, isSet = t.IterSet(), true
		case vm.HashMap:
			it = t.IterMap()
		case vm.HashRecord:
			it = t.IterRecord()
		}
		for guard := 0; guard < 100000; guard++ {
			v, err := it.NextValue()
			if !err.IsUndefined() {
				break
			}
			if isSet {
				if v == vm.DeletedHashSetValue {
					vs = append(vs, "<tombstone>")
				} else {
					vs = append(vs, c.keyName(v)+"=0")
				}
			} else {
				p, ok := v.SafeAsReference().(value.Pair)
				if !ok {
					vs = append(vs, "?"+v.Inspect())
				} else {
					vs = append(vs, c.keyName(p.Key())+"="+hmValStr(p.Value()))
				}
			}
		}
		if !c.layout {
			hmSortByID(vs)
		}
		return "[" + strings.Join(vs, ",") + "]"
	case "add":
		need(2)
		b, err := set(obj(a[0])).AppendVal(th, c.key(a[1]))
		if !err.IsUndefined() {
			return errStr(err)
		}
		return hmBool(b)
	case "rem":
		need(2)
		b, err := set(obj(a[0])).RemoveVal(th, c.key(a[1]))
		if !err.IsUndefined() {
			return errStr(err)
		}
		return hmBool(b)
	case "con":
		need(2)
		b, err := set(obj(a[0])).Contains(th, c.key(a[1]))
		if !err.IsUndefined() {
			return errStr(err)
		}
		return hmBool(b)
	case "union":
		need(2)
		r, err := set(obj(a[0])).UnionVal(th, value.Ref(obj(a[1]).ref))
		if !err.IsUndefined() {
			return errStr(err)
		}
		return add(r.AsReference())
	case "inter":
		need(2)
		r, err := set(obj(a[0])).IntersectionVal(th, value.Ref(obj(a[1]).ref))
		if !err.IsUndefined() {
			return errStr(err)
		}
		return add(r.AsReference())
	case "seq":
		need(2)
		b, err := set(obj(a[0])).Equal(th, value.Ref(obj(a[1]).ref))
		if !err.IsUndefined() {
			return errStr(err)
		}
		return hmBool(b)
	}
	return "bad-unknown-op " + name
}
