package dom

import (
	"encoding/hex"
	"fmt"
	"hash/fnv"
	"io"
	"math"
	"strconv"
	"strings"
	"unicode"
	"unicode/utf8"

	"elkverif/hx"

	"github.com/elk-language/elk/bitfield"
	"github.com/elk-language/elk/types"
	"github.com/elk-language/elk/types/checker"
	"github.com/elk-language/elk/value"
	"github.com/elk-language/elk/vm"
)

// domain insp (C19): `inspect` of a real value, then the REAL pipeline (lexer → parser → checker →
// compiler → VM, in-process) evaluates the inspect output; the answer carries the inspect output
// and the re-evaluated value, both as bytes/numbers, never as Elk `==`.
// Grammar: see lean/Driver/Dom/Insp.lean.
// probe unicode: range tables of unicode.IsGraphic/IsLetter/IsDigit/IsNumber/IsUpper/IsLower over
// all code points (→ lean/ElkVerif/Gen/Unicode.lean).
func init() {
	hx.RegisterExec("insp", execInsp)
	hx.RegisterProbe("unicode", probeUnicode)
}

var inspEnv *types.GlobalEnvironment

// evalSource runs one Elk source through the real front end and VM and returns its value.
func evalSource(src string) (res value.Value, why string) {
	defer func() {
		if r := recover(); r != nil {
			res, why = value.Undefined, "!panic:"+hx.PanicClass(r)
		}
	}()
	if inspEnv == nil {
		// one global environment for all literal evaluations (what the REPL does); the evaluated
		// sources are single literals and define nothing
		inspEnv = checker.NewGlobalEnvironment()
	}
	fn, diags := checker.CheckSource("/tmp/insp.elk", src, inspEnv, bitfield.BitField16{}, nil)
	if diags != nil && diags.IsFailure() {
		msg := ""
		for _, d := range diags {
			msg = d.Message
			break
		}
		return value.Undefined, "!rejected:" + clean(msg)
	}
	v := vm.New(vm.WithStdout(io.Discard))
	r, e := v.InterpretTopLevel(fn)
	if !e.IsUndefined() {
		return value.Undefined, "!error:" + clean(e.Inspect())
	}
	return r, ""
}

func clean(s string) string {
	if len(s) > 100 {
		s = s[:100]
	}
	b := []byte(s)
	for i, c := range b {
		if c < 0x20 || c > 0x7e {
			b[i] = '?'
		} else if c == ' ' {
			b[i] = '_'
		}
	}
	return string(b)
}

func hexb(s string) string {
	if s == "" {
		return "-"
	}
	return hex.EncodeToString([]byte(s))
}

// showBack renders a re-evaluated value in the canonical form of the kind that was inspected.
func showBack(kind string, v value.Value) string {
	switch kind {
	case "str":
		if v.IsReference() {
			if s, ok := v.AsReference().(value.String); ok {
				return hexb(string(s))
			}
		}
	case "chr":
		if v.IsChar() {
			return strconv.Itoa(int(v.AsChar()))
		}
	case "sym":
		if v.IsInlineSymbol() {
			return hexb(v.AsInlineSymbol().String())
		}
	case "int":
		if v.IsSmallInt() {
			return strconv.Itoa(int(v.AsSmallInt()))
		}
		if v.IsReference() {
			if b, ok := v.AsReference().(*value.BigInt); ok {
				return b.ToGoBigInt().String()
			}
		}
	case "f":
		if v.IsFloat() {
			return fmt.Sprintf("%016x", math.Float64bits(float64(v.AsFloat())))
		}
	case "f64":
		if v.Class() == value.Float64Class {
			return fmt.Sprintf("%016x", math.Float64bits(float64(v.AsFloat64())))
		}
	case "f32":
		if v.IsFloat32() {
			return fmt.Sprintf("%08x", math.Float32bits(float32(v.AsFloat32())))
		}
	}
	return "!kind:" + clean(v.Class().Name)
}

func inspectOf(kind string, arg string) (string, bool) {
	switch kind {
	case "str":
		s, ok := unhex(arg)
		return value.String(s).Inspect(), ok
	case "chr":
		n, err := strconv.ParseInt(arg, 10, 32)
		return value.Char(n).Inspect(), err == nil
	case "sym":
		s, ok := unhex(arg)
		if !ok {
			return "", false
		}
		return value.ToSymbol(s).Inspect(), true
	case "int":
		v, err := value.ParseInt(arg, 10)
		if !err.IsUndefined() {
			return "", false
		}
		return v.Inspect(), true
	case "f":
		b, err := strconv.ParseUint(arg, 16, 64)
		return value.Float(math.Float64frombits(b)).Inspect(), err == nil
	case "f64":
		b, err := strconv.ParseUint(arg, 16, 64)
		return value.Float64(math.Float64frombits(b)).Inspect(), err == nil
	case "f32":
		b, err := strconv.ParseUint(arg, 16, 32)
		return value.Float32(math.Float32frombits(uint32(b))).Inspect(), err == nil
	}
	return "", false
}

func execInsp(f []string) string {
	if len(f) < 2 {
		return "bad-op"
	}
	switch f[0] {
	case "str", "chr", "sym", "int", "f", "f64", "f32":
		ins, ok := inspectOf(f[0], f[1])
		if !ok {
			return "bad-op"
		}
		v, why := evalSource(ins)
		if why != "" {
			// canonical: the reason (rejected / error / panic) is not part of the answer
			if strings.HasPrefix(why, "!panic") {
				return "ok " + hexb(ins) + " !panic"
			}
			return "ok " + hexb(ins) + " !none"
		}
		back := showBack(f[0], v)
		if strings.HasPrefix(back, "!") {
			back = "!none"
		}
		return "ok " + hexb(ins) + " " + back
	case "lit":
		// an integer literal source (any base, `_` separators) through the real pipeline
		src, ok := unhex(f[1])
		if !ok {
			return "bad-op"
		}
		v, why := evalSource(src)
		if why != "" {
			return "err"
		}
		s := showBack("int", v)
		if strings.HasPrefix(s, "!") {
			return "err"
		}
		return "ok " + s
	case "toint":
		// String#to_int(base) through the native method
		if len(f) != 3 {
			return "bad-op"
		}
		s, ok := unhex(f[1])
		base, err := strconv.Atoi(f[2])
		if !ok || err != nil {
			return "bad-op"
		}
		v, e := strMethod("to_int")(nil, []value.Value{strVal(s), value.SmallInt(base).ToValue()})
		if !e.IsUndefined() {
			return errEnum(e)
		}
		return "ok " + showBack("int", v)
	case "batch":
		// insp batch <kind> <item,item,…>: all inspect outputs evaluated in ONE program `%[a, b, …]`
		// (falls back to one program per item when the batch is rejected); answer `ok ins:back,…`
		if len(f) != 3 {
			return "bad-op"
		}
		return batch(f[1], strings.Split(f[2], ","))
	case "sweep":
		// insp sweep <kind> <lo> <hi>: every code point in [lo,hi) (surrogates skipped)
		if len(f) != 4 {
			return "bad-op"
		}
		lo, e1 := strconv.Atoi(f[2])
		hi, e2 := strconv.Atoi(f[3])
		if e1 != nil || e2 != nil || lo > hi {
			return "bad-op"
		}
		return sweep(f[1], lo, hi)
	}
	return "bad-op"
}

func batch(kind string, items []string) string {
	isLit := kind == "lit"
	srcs := make([]string, len(items))
	for i, a := range items {
		if isLit {
			b, ok := unhex(a)
			if !ok {
				return "bad-op"
			}
			srcs[i] = b
		} else {
			ins, ok := inspectOf(kind, a)
			if !ok {
				return "bad-op"
			}
			srcs[i] = ins
		}
	}
	k := kind
	if isLit {
		k = "int"
	}
	backs := make([]string, len(items))
	v, why := evalSource("%[" + strings.Join(srcs, ",\n") + "]")
	done := false
	if why == "" {
		if t, ok := v.SafeAsReference().(value.ArrayTuple); ok && t.Length() == len(items) {
			for i := range items {
				backs[i] = showBack(k, t.AtVal(i))
			}
			done = true
		}
	}
	if !done {
		for i, src := range srcs {
			r, w := evalSource(src)
			if w != "" {
				backs[i] = "!none"
				if strings.HasPrefix(w, "!panic") {
					backs[i] = "!panic"
				}
			} else {
				backs[i] = showBack(k, r)
			}
		}
	}
	out := make([]string, len(items))
	for i := range items {
		b := backs[i]
		if strings.HasPrefix(b, "!") && b != "!panic" {
			b = "!none"
		}
		if isLit {
			out[i] = b
		} else {
			out[i] = hexb(srcs[i]) + ":" + b
		}
	}
	return "ok " + strings.Join(out, ",")
}

// sweep inspects every value of the range, evaluates all inspect outputs in ONE program
// (`%[a, b, …]`) through the real pipeline and compares element-wise.
// Answer: `ok n=<count> h=<fnv64a of the inspect outputs, each followed by \n> bad=<first failing input|->`.
func sweep(kind string, lo, hi int) string {
	var args []string
	for c := lo; c < hi; c++ {
		switch kind {
		case "str", "sym":
			if c >= 0xD800 && c <= 0xDFFF {
				continue
			}
			args = append(args, hexb(string(rune(c))))
		case "chr":
			if c >= 0xD800 && c <= 0xDFFF {
				continue // not a scalar value: no such Char can be written as a literal
			}
			args = append(args, strconv.Itoa(c))
		case "byte", "symbyte":
			// all one-byte strings (lo..hi ≤ 256), or two-byte strings lo..hi ≤ 65536
			if hi <= 256 {
				args = append(args, hexb(string([]byte{byte(c)})))
			} else {
				args = append(args, hexb(string([]byte{byte(c >> 8), byte(c)})))
			}
		default:
			return "bad-op"
		}
	}
	k := kind
	if kind == "byte" {
		k = "str"
	} else if kind == "symbyte" {
		k = "sym"
	}
	h := fnv.New64a()
	var src strings.Builder
	src.WriteString("%[")
	for i, a := range args {
		ins, _ := inspectOf(k, a)
		h.Write([]byte(ins))
		h.Write([]byte{'\n'})
		if i > 0 {
			src.WriteString(",\n")
		}
		src.WriteString(ins)
	}
	src.WriteString("]")
	bad := "-"
	if len(args) > 0 {
		v, why := evalSource(src.String())
		var elems []value.Value
		if why == "" {
			if t, ok := v.SafeAsReference().(value.ArrayTuple); ok {
				for i := 0; i < t.Length(); i++ {
					elems = append(elems, t.AtVal(i))
				}
			} else {
				why = "!kind:" + clean(v.Class().Name)
			}
		}
		if why != "" || len(elems) != len(args) {
			// locate the culprit one by one
			for _, a := range args {
				ins, _ := inspectOf(k, a)
				r, w := evalSource(ins)
				if w != "" || showBack(k, r) != a {
					bad = a
					break
				}
			}
			if bad == "-" {
				bad = "batch" + why
			}
		} else {
			for i, a := range args {
				if showBack(k, elems[i]) != a {
					bad = a
					break
				}
			}
		}
	}
	return fmt.Sprintf("ok n=%d h=%016x bad=%s", len(args), h.Sum64(), bad)
}

// ---- probe: Unicode class tables ----------------------------------------------------------

func ranges(pred func(rune) bool) [][2]int {
	var out [][2]int
	start := -1
	for c := 0; c <= unicode.MaxRune+1; c++ {
		in := c <= unicode.MaxRune && pred(rune(c))
		if in && start < 0 {
			start = c
		}
		if !in && start >= 0 {
			out = append(out, [2]int{start, c - 1})
			start = -1
		}
	}
	return out
}

func probeUnicode(args []string) (any, error) {
	_ = utf8.RuneError
	return map[string]any{
		"version": unicode.Version,
		"graphic": ranges(unicode.IsGraphic),
		"letter":  ranges(unicode.IsLetter),
		"digit":   ranges(unicode.IsDigit),
		"number":  ranges(unicode.IsNumber),
		"upper":   ranges(unicode.IsUpper),
		"lower":   ranges(unicode.IsLower),
	}, nil
}
