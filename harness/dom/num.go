package dom

import (
	"encoding/binary"
	"encoding/hex"
	"fmt"
	"io"
	"iter"
	"math"
	"math/big"
	"os"
	"runtime/debug"
	"sort"
	"strconv"
	"strings"
	"sync"

	"elkverif/hx"

	"github.com/cespare/xxhash/v2"
	"github.com/elk-language/elk/bitfield"
	"github.com/elk-language/elk/types/checker"
	"github.com/elk-language/elk/value"
	"github.com/elk-language/elk/value/symbol"
	"github.com/elk-language/elk/vm"
)

// domain num (C18): see lean/Driver/Dom/Num.lean for the grammar.
//
//	num<TAB>rel<TAB>V1[<TAB>V2[<TAB>V3]]   every relation on every ordered pair + hash-equality pattern
//	num<TAB>hashis<TAB>V<TAB>HEX           xxhash64(HEX bytes) == Hash(V) ?
//
// operands (ASCII):
//
//	si:<dec> SmallInt   bi:<dec> BigInt (exactly as given, not normalised)
//	f:<16hex> Float  f64:<16hex> Float64  f32:<8hex> Float32
//	i64: i32: i16: i8: u64: u32: u16: u8: ui:  <dec>
//	bf:nan | bf:+inf | bf:-inf | bf:<prec>:<+|->:<mant dec>:<exp dec>    value = ±mant·2^exp, bitlen(mant) ≤ prec
//	s:<hex bytes> String   c:<dec code point> Char   y:<hex bytes> Symbol   nil   true   false
//	x:<hex elk expression>|<structure>    compound value obtained by evaluating the expression in-process;
//	                                       the harness re-encodes the value and rejects the line (bad-operand) when
//	                                       it differs from <structure> (see encodeVal)
func init() {
	hx.RegisterExec("num", execNum)
}

var (
	numThreadOnce sync.Once
	numThread     *vm.Thread
)

func thread() *vm.Thread {
	numThreadOnce.Do(func() { numThread = vm.New(vm.WithStdout(io.Discard), vm.WithStderr(io.Discard)) })
	return numThread
}

func parseOperand(s string) (value.Value, bool) {
	switch s {
	case "nil":
		return value.Nil, true
	case "true":
		return value.True.ToValue(), true
	case "false":
		return value.False.ToValue(), true
	}
	i := strings.IndexByte(s, ':')
	if i < 0 {
		return value.Undefined, false
	}
	k, body := s[:i], s[i+1:]
	switch k {
	case "si":
		v, err := strconv.ParseInt(body, 10, 64)
		if err != nil {
			return value.Undefined, false
		}
		return value.SmallInt(v).ToValue(), true
	case "bi":
		b, ok := new(big.Int).SetString(body, 10)
		if !ok {
			return value.Undefined, false
		}
		return value.Ref(value.ToElkBigInt(b)), true
	case "f", "f64":
		u, err := strconv.ParseUint(body, 16, 64)
		if err != nil || len(body) != 16 {
			return value.Undefined, false
		}
		if k == "f" {
			return value.Float(math.Float64frombits(u)).ToValue(), true
		}
		return value.Float64(math.Float64frombits(u)).ToValue(), true
	case "f32":
		u, err := strconv.ParseUint(body, 16, 32)
		if err != nil || len(body) != 8 {
			return value.Undefined, false
		}
		return value.Float32(math.Float32frombits(uint32(u))).ToValue(), true
	case "i64", "i32", "i16", "i8":
		bits, _ := strconv.Atoi(k[1:])
		v, err := strconv.ParseInt(body, 10, bits)
		if err != nil {
			return value.Undefined, false
		}
		switch bits {
		case 64:
			return value.Int64(v).ToValue(), true
		case 32:
			return value.Int32(v).ToValue(), true
		case 16:
			return value.Int16(v).ToValue(), true
		default:
			return value.Int8(v).ToValue(), true
		}
	case "u64", "u32", "u16", "u8", "ui":
		bits := 64
		if k != "ui" {
			bits, _ = strconv.Atoi(k[1:])
		}
		v, err := strconv.ParseUint(body, 10, bits)
		if err != nil {
			return value.Undefined, false
		}
		switch k {
		case "ui":
			return value.UInt(v).ToValue(), true
		case "u64":
			return value.UInt64(v).ToValue(), true
		case "u32":
			return value.UInt32(v).ToValue(), true
		case "u16":
			return value.UInt16(v).ToValue(), true
		default:
			return value.UInt8(v).ToValue(), true
		}
	case "bf":
		switch body {
		case "nan":
			return value.Ref(value.BigFloatNaN()), true
		case "+inf":
			return value.Ref(value.BigFloatInf()), true
		case "-inf":
			return value.Ref(value.BigFloatNegInf()), true
		}
		p := strings.Split(body, ":")
		if len(p) != 4 || (p[1] != "+" && p[1] != "-") {
			return value.Undefined, false
		}
		prec, err := strconv.ParseUint(p[0], 10, 31)
		mant, ok := new(big.Int).SetString(p[2], 10)
		exp, err2 := strconv.ParseInt(p[3], 10, 31)
		if err != nil || !ok || err2 != nil || mant.Sign() < 0 || prec == 0 || uint64(mant.BitLen()) > prec {
			return value.Undefined, false
		}
		z := new(big.Float).SetPrec(uint(prec))
		z.SetInt(mant)
		z.SetMantExp(z, int(exp))
		if p[1] == "-" {
			z.Neg(z)
		}
		return value.Ref(value.ToElkBigFloat(z)), true
	case "s":
		b, err := hex.DecodeString(body)
		if err != nil {
			return value.Undefined, false
		}
		return value.Ref(value.String(b)), true
	case "y":
		b, err := hex.DecodeString(body)
		if err != nil {
			return value.Undefined, false
		}
		return value.ToSymbol(string(b)).ToValue(), true
	case "c":
		v, err := strconv.ParseInt(body, 10, 32)
		if err != nil {
			return value.Undefined, false
		}
		return value.Char(v).ToValue(), true
	case "x":
		j := strings.IndexByte(body, '|')
		if j < 0 {
			return value.Undefined, false
		}
		src, err := hex.DecodeString(body[:j])
		if err != nil {
			return value.Undefined, false
		}
		v, ok := evalElk(string(src))
		if !ok {
			return value.Undefined, false
		}
		if enc, ok := encodeVal(v); !ok || enc != body[j+1:] {
			return value.Undefined, false
		}
		return v, true
	}
	return value.Undefined, false
}

var evalCounter int

// evalElk evaluates an Elk expression in-process (fresh compile, shared thread).
func evalElk(src string) (v value.Value, ok bool) {
	defer func() {
		if r := recover(); r != nil {
			ok = false
		}
	}()
	evalCounter++
	fn, diags := checker.CheckSource(fmt.Sprintf("/tmp/num%d.elk", evalCounter), src, nil, bitfield.BitField16{}, nil)
	if diags != nil && diags.IsFailure() {
		return value.Undefined, false
	}
	th := vm.New(vm.WithStdout(io.Discard), vm.WithStderr(io.Discard))
	res, err := th.InterpretTopLevel(fn)
	if !err.IsUndefined() {
		return value.Undefined, false
	}
	return res, true
}

// encodeVal re-encodes a value in the operand syntax; compound values in the prefix token form
// used by the model: `list n e1 … en`, `tuple n …`, `pair k v`, `crange a b`, `orange a b`,
// `lorange a b`, `rorange a b`, `ecrange a`, `eorange a`, `bcrange b`, `borange b`, `date y m d`,
// `map n k1 v1 …` / `rec n …` / `set n e1 …` (in iteration order; the check sorts where it matters).
func encodeVal(v value.Value) (string, bool) {
	if v.IsReference() {
		switch r := v.AsReference().(type) {
		case *value.BigInt:
			return "bi:" + r.ToGoBigInt().String(), true
		case *value.BigFloat:
			if r.IsNaN() {
				return "bf:nan", true
			}
			g := r.AsGoBigFloat()
			if g.IsInf() {
				if g.Signbit() {
					return "bf:-inf", true
				}
				return "bf:+inf", true
			}
			sign := "+"
			if g.Signbit() {
				sign = "-"
			}
			if g.Sign() == 0 {
				return fmt.Sprintf("bf:%d:%s:0:0", g.Prec(), sign), true
			}
			// value = 0.mant × 2^exp with mant normalised; make it integer mantissa × 2^e, odd mantissa
			m := new(big.Float)
			e := g.MantExp(m)
			m.SetMantExp(m, int(m.MinPrec()))
			mi, acc := m.Int(nil)
			if acc != big.Exact {
				return "", false
			}
			mi.Abs(mi)
			return fmt.Sprintf("bf:%d:%s:%s:%d", g.Prec(), sign, mi.String(), e-int(m.MinPrec())), true
		case value.String:
			return "s:" + hex.EncodeToString([]byte(r)), true
		case *value.PairOfValue:
			k, ok1 := encodeVal(r.Key())
			w, ok2 := encodeVal(r.Value())
			return "pair " + k + " " + w, ok1 && ok2
		case *value.ClosedRange:
			return enc2("crange", r.Start, r.End)
		case *value.OpenRange:
			return enc2("orange", r.Start, r.End)
		case *value.LeftOpenRange:
			return enc2("lorange", r.Start, r.End)
		case *value.RightOpenRange:
			return enc2("rorange", r.Start, r.End)
		case *value.EndlessClosedRange:
			return enc1("ecrange", r.Start)
		case *value.EndlessOpenRange:
			return enc1("eorange", r.Start)
		case *value.BeginlessClosedRange:
			return enc1("bcrange", r.End)
		case *value.BeginlessOpenRange:
			return enc1("borange", r.End)
		case vm.HashMap:
			return encPairs("map", r.Length(), r.All())
		case vm.HashRecord:
			return encPairs("rec", r.Length(), r.All())
		case vm.HashSet:
			var items []string
			for e := range r.All() {
				x, ok := encodeVal(e)
				if !ok {
					return "", false
				}
				items = append(items, x)
			}
			sort.Strings(items) // iteration order is layout dependent: canonical = sorted
			return fmt.Sprintf("set %d", r.Length()) + joinSp(items), true
		case value.ArrayList:
			return encSeq("list", r)
		case value.ArrayTuple:
			return encSeq("tuple", r)
		}
		return "", false
	}
	switch v.ValueFlag() {
	case value.NIL_FLAG:
		return "nil", true
	case value.BOOL_FLAG:
		if v.IsTrue() {
			return "true", true
		}
		return "false", true
	case value.SMALL_INT_FLAG:
		return "si:" + strconv.FormatInt(int64(v.AsSmallInt()), 10), true
	case value.FLOAT_FLAG:
		return fmt.Sprintf("f:%016x", math.Float64bits(float64(v.AsFloat()))), true
	case value.FLOAT64_FLAG:
		return fmt.Sprintf("f64:%016x", math.Float64bits(float64(v.AsInlineFloat64()))), true
	case value.FLOAT32_FLAG:
		return fmt.Sprintf("f32:%08x", math.Float32bits(float32(v.AsFloat32()))), true
	case value.INT64_FLAG:
		return "i64:" + strconv.FormatInt(int64(v.AsInlineInt64()), 10), true
	case value.INT32_FLAG:
		return "i32:" + strconv.FormatInt(int64(v.AsInt32()), 10), true
	case value.INT16_FLAG:
		return "i16:" + strconv.FormatInt(int64(v.AsInt16()), 10), true
	case value.INT8_FLAG:
		return "i8:" + strconv.FormatInt(int64(v.AsInt8()), 10), true
	case value.UINT_FLAG:
		return "ui:" + strconv.FormatUint(uint64(v.AsUInt()), 10), true
	case value.UINT64_FLAG:
		return "u64:" + strconv.FormatUint(uint64(v.AsInlineUInt64()), 10), true
	case value.UINT32_FLAG:
		return "u32:" + strconv.FormatUint(uint64(v.AsUInt32()), 10), true
	case value.UINT16_FLAG:
		return "u16:" + strconv.FormatUint(uint64(v.AsUInt16()), 10), true
	case value.UINT8_FLAG:
		return "u8:" + strconv.FormatUint(uint64(v.AsUInt8()), 10), true
	case value.CHAR_FLAG:
		return "c:" + strconv.FormatInt(int64(v.AsChar()), 10), true
	case value.SYMBOL_FLAG:
		name, _ := value.SymbolTable.GetName(v.AsInlineSymbol())
		return "y:" + hex.EncodeToString([]byte(name)), true
	case value.DATE_FLAG:
		d := v.AsDate()
		return fmt.Sprintf("date %d %d %d", d.Year(), d.Month(), d.Day()), true
	}
	return "", false
}

func encPairs(tag string, n int, all iter.Seq[value.PairOfValue]) (string, bool) {
	var items []string
	for p := range all {
		k, ok1 := encodeVal(p.Key())
		w, ok2 := encodeVal(p.Value())
		if !ok1 || !ok2 {
			return "", false
		}
		items = append(items, k+" "+w)
	}
	sort.Strings(items) // iteration order is layout dependent: canonical = sorted
	return fmt.Sprintf("%s %d", tag, n) + joinSp(items), true
}

func joinSp(items []string) string {
	var sb strings.Builder
	for _, x := range items {
		sb.WriteString(" " + x)
	}
	return sb.String()
}

func enc1(tag string, a value.Value) (string, bool) {
	x, ok := encodeVal(a)
	return tag + " " + x, ok
}

func enc2(tag string, a, b value.Value) (string, bool) {
	x, ok1 := encodeVal(a)
	y, ok2 := encodeVal(b)
	return tag + " " + x + " " + y, ok1 && ok2
}

func encSeq(tag string, t value.ArrayTuple) (string, bool) {
	var sb strings.Builder
	fmt.Fprintf(&sb, "%s %d", tag, t.Length())
	for i := 0; i < t.Length(); i++ {
		e, ok := encodeVal(t.AtVal(i))
		if !ok {
			return "", false
		}
		sb.WriteString(" " + e)
	}
	return sb.String(), true
}

func errCode(err value.Value) byte {
	if err.IsReference() {
		if o, ok := err.AsReference().(*value.Object); ok {
			switch o.Class() {
			case value.TypeErrorClass:
				return 'E'
			case value.NoMethodErrorClass:
				return 'M'
			}
		}
	}
	return 'X'
}

func safe2(f func() (value.Value, value.Value)) (res, err value.Value, panicked bool) {
	defer func() {
		if r := recover(); r != nil {
			panicked = true
			if os.Getenv("NUM_DEBUG") != "" {
				fmt.Fprintf(os.Stderr, "panic: %v\n%s\n", r, debug.Stack())
			}
		}
	}()
	res, err = f()
	return
}

func boolCode(f func() (value.Value, value.Value)) byte {
	res, err, p := safe2(f)
	switch {
	case p:
		return 'P'
	case !err.IsUndefined():
		return errCode(err)
	case res.IsTrue():
		return 't'
	case res.IsFalse():
		return 'f'
	}
	return '?'
}

func callMethod(th *vm.Thread, name value.Symbol, l, r value.Value) (value.Value, value.Value) {
	m := l.DirectClass().LookupMethod(name)
	if m == nil {
		return value.Undefined, value.Ref(value.NewNoMethodError(name.String(), l))
	}
	return th.CallMethod(m, l, r)
}

// relCodes: the eight relations on the ordered pair (l, r) as the VM evaluates the operators
// (builtin fast path, then method dispatch): <=> < <= > >= =~ == ===
func relCodes(th *vm.Thread, l, r value.Value) string {
	var b [8]byte
	if !orderedPair(l, r) {
		// only == and === are modelled outside {numbers}² ∪ {String, Char}²
		for i := 0; i < 6; i++ {
			b[i] = '-'
		}
		b[6] = boolCode(func() (value.Value, value.Value) {
			res, err := vm.Equal(nil, l, r)
			if res.IsUndefined() && err.IsNil() {
				return callMethod(th, symbol.OpEqual, l, r)
			}
			return res, err
		})
		b[7] = boolCode(func() (value.Value, value.Value) { return value.StrictEqualVal(l, r), value.Undefined })
		return string(b[:])
	}
	res, err, p := safe2(func() (value.Value, value.Value) {
		res, err := value.CompareVal(l, r)
		if err.IsUndefined() && res.IsUndefined() {
			return callMethod(th, symbol.OpSpaceship, l, r)
		}
		return res, err
	})
	switch {
	case p:
		b[0] = 'P'
	case !err.IsUndefined():
		b[0] = errCode(err)
	case res.IsNil():
		b[0] = 'n'
	case res.IsSmallInt() && res.AsSmallInt() == -1:
		b[0] = '<'
	case res.IsSmallInt() && res.AsSmallInt() == 0:
		b[0] = '='
	case res.IsSmallInt() && res.AsSmallInt() == 1:
		b[0] = '>'
	default:
		b[0] = '?'
	}
	wrap := func(f func(*vm.Thread, value.Value, value.Value) (value.Value, value.Value), name value.Symbol) func() (value.Value, value.Value) {
		return func() (value.Value, value.Value) {
			res, err := f(nil, l, r)
			// with a nil thread the vm helpers return (Undefined, Nil) where they would dispatch a method
			if res.IsUndefined() && err.IsNil() {
				return callMethod(th, name, l, r)
			}
			return res, err
		}
	}
	b[1] = boolCode(wrap(vm.LessThan, symbol.OpLessThan))
	b[2] = boolCode(wrap(vm.LessThanEqual, symbol.OpLessThanEqual))
	b[3] = boolCode(wrap(vm.GreaterThan, symbol.OpGreaterThan))
	b[4] = boolCode(wrap(vm.GreaterThanEqual, symbol.OpGreaterThanEqual))
	b[5] = boolCode(wrap(vm.LaxEqual, symbol.OpLaxEqual))
	b[6] = boolCode(wrap(vm.Equal, symbol.OpEqual))
	b[7] = boolCode(func() (value.Value, value.Value) { return value.StrictEqualVal(l, r), value.Undefined })
	return string(b[:])
}

// orderClass: 1 numbers, 2 String/Char, 0 everything else
func orderClass(v value.Value) int {
	if v.IsReference() {
		switch v.AsReference().(type) {
		case *value.BigInt, *value.BigFloat:
			return 1
		case value.String:
			return 2
		}
		return 0
	}
	switch v.ValueFlag() {
	case value.SMALL_INT_FLAG, value.FLOAT_FLAG, value.FLOAT64_FLAG, value.FLOAT32_FLAG, value.INT64_FLAG,
		value.INT32_FLAG, value.INT16_FLAG, value.INT8_FLAG, value.UINT_FLAG, value.UINT64_FLAG, value.UINT32_FLAG,
		value.UINT16_FLAG, value.UINT8_FLAG:
		return 1
	case value.CHAR_FLAG:
		return 2
	}
	return 0
}

func orderedPair(l, r value.Value) bool {
	c := orderClass(l)
	return c != 0 && c == orderClass(r)
}

func hashOf(th *vm.Thread, v value.Value) (h uint64, code byte) {
	defer func() {
		if r := recover(); r != nil {
			code = 'P'
		}
	}()
	res, err := vm.Hash(th, v)
	if !err.IsUndefined() {
		return 0, errCode(err)
	}
	return uint64(res), 'h'
}

func execNum(f []string) string {
	if len(f) < 2 {
		return "bad-op"
	}
	th := thread()
	switch f[0] {
	case "rel":
		if len(f) > 4 {
			return "bad-op"
		}
		vals := make([]value.Value, len(f)-1)
		for i, s := range f[1:] {
			v, ok := parseOperand(s)
			if !ok {
				return "bad-operand"
			}
			vals[i] = v
		}
		var sb strings.Builder
		sb.WriteString("ok")
		for i := range vals {
			for j := range vals {
				sb.WriteByte(' ')
				sb.WriteString(relCodes(th, vals[i], vals[j]))
			}
		}
		sb.WriteString(" |")
		hs := make([]uint64, len(vals))
		hc := make([]byte, len(vals))
		for i, v := range vals {
			hs[i], hc[i] = hashOf(th, v)
		}
		sb.WriteByte(' ')
		sb.Write(hc)
		for i := range vals {
			for j := i + 1; j < len(vals); j++ {
				// symbol ids are process dependent: a symbol never counts as hashing like a non-symbol
				if hc[i] == 'h' && hc[j] == 'h' && hs[i] == hs[j] && vals[i].IsInlineSymbol() == vals[j].IsInlineSymbol() {
					sb.WriteString(" y")
				} else {
					sb.WriteString(" n")
				}
			}
		}
		// operands after: a relation must not mutate its operands
		sb.WriteString(" |")
		for i, v := range vals {
			enc, ok := encodeVal(v)
			want := f[1+i]
			if k := strings.IndexByte(want, '|'); strings.HasPrefix(want, "x:") && k >= 0 {
				want = want[k+1:]
			}
			if ok && enc == want {
				sb.WriteString(" same")
			} else {
				sb.WriteString(" mutated:" + enc)
			}
		}
		return sb.String()
	case "describe":
		src, err := hex.DecodeString(f[1])
		if err != nil {
			return "bad-op"
		}
		v, ok := evalElk(string(src))
		if !ok {
			return "err eval"
		}
		enc, ok := encodeVal(v)
		if !ok {
			return "err encode"
		}
		return "ok " + enc
	case "hashis":
		if len(f) != 3 {
			return "bad-op"
		}
		v, ok := parseOperand(f[1])
		if !ok {
			return "bad-operand"
		}
		b, err := hex.DecodeString(f[2])
		if err != nil {
			return "bad-op"
		}
		h, code := hashOf(th, v)
		if code != 'h' {
			return "ok " + string(code)
		}
		if xxhash.Sum64(b) == h {
			return "ok t"
		}
		return "ok f"
	}
	return "bad-op"
}

var _ = binary.LittleEndian
