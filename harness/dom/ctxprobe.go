package dom

import (
	"elkverif/hx"

	"github.com/elk-language/elk/types/checker"
)

// probe `ctxprobe` (C12): which Checker fields differ after a closure literal has been checked
// inside a method context (types/checker/verif_ctx.go). Expected: none, for every closure shape.
func init() { hx.RegisterProbe("ctxprobe", probeCtx) }

var ctxProbeClosures = []string{
	"|x: Int|: Int -> x + 1",
	"-> 1",
	"|x: Int| -> x",
	"|x: Int|: Int ! Int ->\n  throw x if x > 3\n  x\nend",
	"||: Int ->\n  defer println(\"d\")\n  return 2\nend",
	"|a: Int|: Int ->\n  g := |b: Int|: Int -> a + b\n  g(1)\nend",
	"|a: Int|: Int ->\n  do\n    a // 1\n  catch ZeroDivisionError()\n    0\n  finally\n    println(\"f\")\n  end\nend",
	"|a: Int| ->\n  while a > 0\n    a = a - 1\n  end\n  a\nend",
	"|a: Int|: Int -> \"ill typed\"",
}

type ctxCase struct {
	Src     string   `json:"src"`
	Variant int      `json:"variant"` // 0 method context, 1 init context
	Leaked  []string `json:"leaked"`
	Diags   []string `json:"diags"`
	Err     string   `json:"err,omitempty"`
}

func probeCtx(args []string) (any, error) {
	var out []ctxCase
	for i := 0; i < 2*len(ctxProbeClosures); i++ {
		src, variant := ctxProbeClosures[i/2], i%2
		leaked, diags, err := checker.VerifClosureContextDiff(src, variant)
		c := ctxCase{Src: src, Variant: variant, Leaked: leaked, Diags: diags}
		if c.Leaked == nil {
			c.Leaked = []string{}
		}
		if c.Diags == nil {
			c.Diags = []string{}
		}
		if err != nil {
			c.Err = err.Error()
		}
		out = append(out, c)
	}
	return map[string]any{"cases": out}, nil
}
