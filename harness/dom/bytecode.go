package dom

// C29 / C33 harness: opcode probe, bytecode dump of compiled programs, decoder correspondence.
//
//	elkh probe opcodes      operand layout of every opcode byte, read off the real DisassembleInstruction / OpCode.String
//	elkh bcdump             worker: JSON request per line {id, src, abort, name} -> JSON answer with every
//	                        *vm.BytecodeFunction reachable through the constant pools, flattened
//	elkh harvest DIR...     string literals of the Go test tables (go/ast) as JSON lines {file, line, src}
//	exec domain `bc`        bc<TAB>decode<TAB>hexcode<TAB>nvalues -> boundaries as the real disassembler sees them

import (
	"bufio"
	"bytes"
	"encoding/hex"
	"encoding/json"
	"fmt"
	"go/ast"
	"go/parser"
	"go/token"
	"io"
	"os"
	"path/filepath"
	"reflect"
	"runtime/debug"
	"sort"
	"strconv"
	"strings"
	"time"

	"elkverif/hx"

	"github.com/elk-language/elk/position/diagnostic"

	"github.com/elk-language/elk/bitfield"
	"github.com/elk-language/elk/bytecode"
	"github.com/elk-language/elk/types/checker"
	"github.com/elk-language/elk/value"
	"github.com/elk-language/elk/vm"
)

func init() {
	hx.RegisterProbe("opcodes", probeOpcodes)
	hx.RegisterSub("bcdump", bcdumpWorker)
	hx.RegisterSub("harvest", harvest)
	hx.RegisterExec("bc", execBc)
}

// ---------------------------------------------------------------- probe

type opRow struct {
	Byte     int    `json:"byte"`
	Name     string `json:"name"`     // OpCode.String(); "" when String panics
	Known    bool   `json:"known"`    // DisassembleInstruction has a case for it
	Width    int    `json:"width"`    // next offset with zero filler (0 when unknown / panic)
	WidthFF  int    `json:"width_ff"` // next offset with 0xff filler (differs from Width for variable-length forms)
	MinBytes int    `json:"min"`      // smallest instruction length that is not "not enough bytes"
	Panic    string `json:"panic,omitempty"`
}

func dummyValues(n int) []value.Value {
	vs := make([]value.Value, n)
	for i := range vs {
		vs[i] = value.Nil
	}
	return vs
}

func disasmOne(code []byte, nvalues int) (next int, err error, pan string) {
	defer func() {
		if r := recover(); r != nil {
			pan = hx.PanicClass(r)
		}
	}()
	f := vm.NewBytecodeFunctionNoParams(value.ToSymbol("probe"), code, nil, nil, dummyValues(nvalues))
	next, err = f.DisassembleInstruction(io.Discard, 0)
	return
}

func opName(b int) (name string) {
	defer func() {
		if r := recover(); r != nil {
			name = ""
		}
	}()
	return bytecode.OpCode(b).String()
}

func probeOpcodes(args []string) (any, error) {
	rows := []opRow{}
	for b := 0; b < 256; b++ {
		r := opRow{Byte: b, Name: opName(b)}
		filler := func(x byte) []byte {
			c := make([]byte, 12)
			c[0] = byte(b)
			for i := 1; i < len(c); i++ {
				c[i] = x
			}
			return c
		}
		n0, e0, p0 := disasmOne(filler(0), 1)
		nf, ef, pf := disasmOne(filler(0xff), 1)
		unknown := func(e error) bool { return e != nil && strings.HasPrefix(e.Error(), "unknown operation") }
		switch {
		case p0 != "" && pf != "":
			r.Panic = p0
		case p0 == "" && unknown(e0):
			r.Known = false
		default:
			r.Known = true
			if p0 == "" {
				r.Width = n0
			} else {
				r.Panic = p0 // only the zero-filler form panics (e.g. an unterminated closure descriptor list)
			}
			if pf == "" && !unknown(ef) {
				r.WidthFF = nf
			}
			for l := 1; l <= 12; l++ {
				c := filler(0xff)[:l]
				_, e, p := disasmOne(c, 1)
				if p == "" && (e == nil || e.Error() != "not enough bytes") {
					r.MinBytes = l
					break
				}
			}
		}
		rows = append(rows, r)
	}
	// closure descriptor entries: [op, flags, ff, ff, ...] -> 1 + entry + 1 (terminator)
	entry := map[string]int{}
	for _, r := range rows {
		if r.Known && r.Width != r.WidthFF && r.WidthFF == 2 {
			for fl := 0; fl < 4; fl++ {
				c := []byte{byte(r.Byte), byte(fl), 0xff, 0xff, 0xff, 0xff, 0xff, 0xff}
				n, e, p := disasmOne(c, 1)
				if p == "" && e == nil {
					entry[fmt.Sprintf("%s.%d", r.Name, fl)] = n - 2
				}
			}
		}
	}
	return map[string]any{
		"closure_entry":         entry,
		"rows":                  rows,
		"closure_terminator":    int(vm.ClosureTerminatorFlag),
		"upvalue_long_flag":     int(vm.UpvalueLongIndexFlag),
		"upvalue_local_flag":    int(vm.UpvalueLocalFlag),
		"max_instruction_bytes": bytecode.MaxInstructionByteCount,
	}, nil
}

// ---------------------------------------------------------------- exec domain bc

// bc decode <hex> <nvalues>: walk the real DisassembleInstruction from offset 0 as Disassemble does.
// answer: ok o0,o1,...,end   |   err <offset> <class>     (class: unknown | short | value | namespace | panic)
func execBc(f []string) string {
	if len(f) != 3 || f[0] != "decode" {
		return "bad-op"
	}
	code, err := hex.DecodeString(f[1])
	if err != nil {
		return "bad-op"
	}
	nv, err := strconv.Atoi(f[2])
	if err != nil || nv < 0 || nv > 1<<20 {
		return "bad-op"
	}
	fn := vm.NewBytecodeFunctionNoParams(value.ToSymbol("decode"), code, nil, nil, dummyValues(nv))
	offs, cls, at := realBoundaries(fn)
	if cls == "panic" && at < len(code) && isClosureOp(code[at]) {
		// disassembleClosure indexes past the end of a cut-off descriptor: same class as "not enough bytes"
		cls = "short"
	}
	if cls != "" {
		return fmt.Sprintf("err %d %s", at, cls)
	}
	if n := len(offs); n >= 2 && isClosureOp(code[offs[n-2]]) && !closureTerminated(code, offs[n-2]) {
		// disassembleClosure stops silently at the end of the code when the descriptor list has no
		// terminator; the VM would read on. Reported as the "short" class.
		return fmt.Sprintf("err %d short", offs[n-2])
	}
	parts := make([]string, len(offs))
	for i, o := range offs {
		parts[i] = strconv.Itoa(o)
	}
	return "ok " + strings.Join(parts, ",")
}

// realBoundaries mirrors the loop of BytecodeFunction.Disassemble over DisassembleInstruction.
// Returns the instruction start offsets followed by the end offset.
func realBoundaries(fn *vm.BytecodeFunction) (offs []int, errClass string, at int) {
	if len(fn.Instructions) == 0 {
		return []int{0}, "", 0
	}
	offset := 0
	for {
		var next int
		var err error
		pan := ""
		func() {
			defer func() {
				if r := recover(); r != nil {
					pan = hx.PanicClass(r)
				}
			}()
			next, err = fn.DisassembleInstruction(io.Discard, offset)
		}()
		if pan != "" {
			return offs, "panic", offset
		}
		if err != nil {
			return offs, errClassOf(err), offset
		}
		offs = append(offs, offset)
		if next <= offset {
			return offs, "stuck", offset
		}
		offset = next
		if offset >= len(fn.Instructions) {
			break
		}
	}
	offs = append(offs, offset)
	return offs, "", 0
}

// closureTerminated walks the descriptor list the way opClosure does and reports whether a terminator
// byte is reached inside the code.
func closureTerminated(code []byte, off int) bool {
	pos := off + 1
	for pos < len(code) {
		fl := code[pos]
		if fl == vm.ClosureTerminatorFlag {
			return true
		}
		if fl&byte(vm.UpvalueLongIndexFlag) != 0 {
			pos += 3
		} else {
			pos += 2
		}
	}
	return false
}

func isClosureOp(b byte) bool {
	return bytecode.OpCode(b) == bytecode.CLOSURE || bytecode.OpCode(b) == bytecode.CLOSED_CLOSURE
}

func errClassOf(err error) string {
	m := err.Error()
	switch {
	case strings.HasPrefix(m, "unknown operation"):
		return "unknown"
	case m == "not enough bytes":
		return "short"
	case strings.HasPrefix(m, "invalid value index"):
		return "value"
	case strings.HasPrefix(m, "invalid namespace byte"):
		return "namespace"
	}
	return "other"
}

// ---------------------------------------------------------------- bcdump

type DumpReq struct {
	ID        string `json:"id"`
	Src       string `json:"src"`
	Name      string `json:"name"`
	Abort     bool   `json:"abort"`      // compile with AdditionalAbortChecks (as the REPL does)
	Session   bool   `json:"session"`    // compile as a LATER input of an incremental checker session (REPL), after the input `nil`
	TimeoutMs int    `json:"timeout_ms"` // default 20000
}

type DumpFunc struct {
	Name     string   `json:"name"`
	File     string   `json:"file"`
	Line     int      `json:"line"`
	Code     string   `json:"code"` // hex
	Consts   []string `json:"consts"`
	Catches  [][4]int `json:"catches"` // from, to, jump, finally(0/1)
	Upvalues int      `json:"upvalues"`
	Params   int      `json:"params"`
	OptPar   int      `json:"optparams"`
	Bounds   []int    `json:"bounds"`          // the real disassembler's instruction starts + end
	DisErr   string   `json:"diserr"`          // its error class ("" = disassembles)
	DisAt    int      `json:"disat"`           // offset of the error
	Lib      bool     `json:"lib"`             // defined outside the request's source (lib/, std)
	Lines    []int    `json:"lines,omitempty"` // line table flattened as line,count,...
}

type DumpAns struct {
	ID       string     `json:"id"`
	Rejected bool       `json:"rejected"`
	Outcome  string     `json:"outcome"` // ok | rejected | panic | timeout
	Panic    string     `json:"panic,omitempty"`
	Diags    []string   `json:"diags,omitempty"`
	Funcs    []DumpFunc `json:"funcs"`
	Ms       int64      `json:"ms"`
}

func bcdumpWorker(args []string) int {
	in := bufio.NewReaderSize(os.Stdin, 1<<22)
	out := bufio.NewWriter(os.Stdout)
	for {
		line, err := in.ReadString('\n')
		if len(strings.TrimSpace(line)) > 0 {
			var req DumpReq
			if e := json.Unmarshal([]byte(line), &req); e != nil {
				fmt.Fprintln(out, `{"outcome":"bad-request"}`)
			} else {
				ans, exit := dumpOne(&req)
				b, _ := json.Marshal(ans)
				out.Write(b)
				out.WriteByte('\n')
				out.Flush()
				if exit {
					return 3
				}
			}
			out.Flush()
		}
		if err != nil {
			return 0
		}
	}
}

func dumpOne(req *DumpReq) (ans *DumpAns, mustExit bool) {
	ans = &DumpAns{ID: req.ID, Funcs: []DumpFunc{}}
	timeout := time.Duration(req.TimeoutMs) * time.Millisecond
	if timeout == 0 {
		timeout = 20 * time.Second
	}
	name := req.Name
	if name == "" {
		name = "/tmp/" + req.ID + ".elk"
	}
	start := time.Now()
	done := make(chan struct{})
	go func() {
		defer close(done)
		defer func() {
			if r := recover(); r != nil {
				ans.Outcome = "panic"
				ans.Panic = hx.PanicClass(r) + " @ " + firstFrames(debug.Stack())
			}
		}()
		var flags bitfield.BitField16
		if req.Abort {
			flags = bitfield.BitField16FromBitFlag(checker.AdditionalAbortChecks)
		}
		var fn *vm.BytecodeFunction
		var diags diagnostic.DiagnosticList
		if req.Session {
			c := checker.New()
			c.SetAdditionalAbortChecks(req.Abort)
			c.SetIncremental(true)
			c.CheckSourceBytecode(name+".first", "nil")
			c.ClearErrors()
			fn, diags = c.CheckSourceBytecode(name, req.Src)
		} else {
			fn, diags = checker.CheckSource(name, req.Src, nil, flags, nil)
		}
		if diags != nil && diags.IsFailure() {
			ans.Rejected = true
			ans.Outcome = "rejected"
			for i, d := range diags {
				if i < 3 {
					ans.Diags = append(ans.Diags, d.Message)
				}
			}
			return
		}
		if fn == nil {
			ans.Rejected = true
			ans.Outcome = "rejected"
			return
		}
		ans.Funcs = FlattenFunctions(fn, name)
		ans.Outcome = "ok"
	}()
	select {
	case <-done:
	case <-time.After(timeout):
		ans = &DumpAns{ID: req.ID, Outcome: "timeout", Funcs: []DumpFunc{}}
		mustExit = true
	}
	ans.Ms = time.Since(start).Milliseconds()
	return
}

// FlattenFunctions walks the constant pools (and the methods that call-site constants point to)
// and returns every bytecode function once, the root first. Constants are rendered as kind tokens:
//
//	f<k> function k | c<argc>~<name> CallSiteInfo | b<argc>.<tail>.<k> BytecodeCallSiteInfo | n<argc>.<params> NativeCallSiteInfo
//	s inline symbol | i<n> SmallInt | u undefined | t true | F false | z nil | S<pops> *vm.Select | o anything else
func FlattenFunctions(root *vm.BytecodeFunction, srcName string) []DumpFunc {
	index := map[*vm.BytecodeFunction]int{}
	order := []*vm.BytecodeFunction{}
	var visit func(f *vm.BytecodeFunction) int
	visit = func(f *vm.BytecodeFunction) int {
		if k, ok := index[f]; ok {
			return k
		}
		k := len(order)
		index[f] = k
		order = append(order, f)
		return k
	}
	visit(root)
	out := []DumpFunc{}
	for k := 0; k < len(order); k++ {
		f := order[k]
		d := DumpFunc{
			Name:     sanitize(f.Name().String()),
			Code:     hex.EncodeToString(f.Instructions),
			Upvalues: f.UpvalueCount,
			Params:   f.ParameterCount(),
			OptPar:   f.OptionalParameterCount(),
			Consts:   []string{},
			Catches:  [][4]int{},
		}
		if f.Location != nil {
			d.File = f.Location.FilePath
			if f.Location.StartPos != nil {
				d.Line = f.Location.StartPos.Line
			}
		}
		d.Lib = d.File != srcName
		for _, li := range f.LineInfoList {
			d.Lines = append(d.Lines, li.LineNumber, li.InstructionCount)
		}
		for _, c := range f.Values {
			d.Consts = append(d.Consts, constToken(c, visit))
		}
		for _, ce := range f.CatchEntries {
			fin := 0
			if ce.Finally {
				fin = 1
			}
			d.Catches = append(d.Catches, [4]int{ce.From, ce.To, ce.JumpAddress, fin})
		}
		offs, cls, at := realBoundaries(f)
		d.Bounds, d.DisErr, d.DisAt = offs, cls, at
		if d.Bounds == nil {
			d.Bounds = []int{}
		}
		out = append(out, d)
	}
	return out
}

func constToken(c value.Value, visit func(*vm.BytecodeFunction) int) string {
	switch {
	case c.IsUndefined():
		return "u"
	case c.IsInlineSymbol():
		return "s"
	case c.IsSmallInt():
		return "i" + strconv.FormatInt(int64(c.AsSmallInt()), 10)
	case c.IsNil():
		return "z"
	case c.IsTrue():
		return "t"
	case c.IsFalse():
		return "F"
	}
	switch r := c.SafeAsReference().(type) {
	case *vm.BytecodeFunction:
		return "f" + strconv.Itoa(visit(r))
	case *vm.CallSiteInfo:
		return "c" + strconv.Itoa(r.ArgumentCount) + "~" + sanitize(r.Name.String())
	case *vm.BytecodeCallSiteInfo:
		t := 0
		if r.TailCall {
			t = 1
		}
		k := -1
		if r.Method != nil {
			k = visit(r.Method)
		}
		return fmt.Sprintf("b%d.%d.%d", r.ArgumentCount, t, k)
	case *vm.Select:
		pops := 0
		for _, sc := range r.Cases {
			switch sc.Direction {
			case reflect.SelectRecv:
				pops++
			case reflect.SelectSend:
				pops += 2
			}
		}
		return fmt.Sprintf("S%d.%d", pops, len(r.Cases))
	case *vm.NativeCallSiteInfo:
		p := -1
		if r.Method != nil {
			p = r.Method.ParameterCount()
		}
		return fmt.Sprintf("n%d.%d", r.ArgumentCount, p)
	}
	return "o"
}

func sanitize(s string) string {
	b := []byte(s)
	for i, c := range b {
		if c < 0x21 || c > 0x7e || c == ';' || c == '|' || c == ',' {
			b[i] = '_'
		}
	}
	if len(b) > 60 {
		b = b[:60]
	}
	return string(b)
}

// ---------------------------------------------------------------- harvest

type harvested struct {
	File string `json:"file"`
	Line int    `json:"line"`
	Src  string `json:"src"`
}

// harvest DIR...: every string literal with at least one space or newline found in *_test.go below the
// directories; inputs only (their expected values are not used). Output: JSON lines, deterministic order.
func harvest(args []string) int {
	out := bufio.NewWriter(os.Stdout)
	defer out.Flush()
	seen := map[string]bool{}
	var files []string
	for _, dir := range args {
		filepath.Walk(dir, func(p string, info os.FileInfo, err error) error {
			if err == nil && !info.IsDir() && strings.HasSuffix(p, "_test.go") {
				files = append(files, p)
			}
			return nil
		})
	}
	sort.Strings(files)
	enc := json.NewEncoder(out)
	enc.SetEscapeHTML(false)
	for _, p := range files {
		fset := token.NewFileSet()
		af, err := parser.ParseFile(fset, p, nil, parser.SkipObjectResolution)
		if err != nil {
			continue
		}
		ast.Inspect(af, func(n ast.Node) bool {
			lit, ok := n.(*ast.BasicLit)
			if !ok || lit.Kind != token.STRING {
				return true
			}
			s, err := strconv.Unquote(lit.Value)
			if err != nil || len(s) < 4 || len(s) > 20000 {
				return true
			}
			if !strings.ContainsAny(s, " \n") || bytes.IndexByte([]byte(s), 0) >= 0 {
				return true
			}
			if seen[s] {
				return true
			}
			seen[s] = true
			enc.Encode(harvested{File: p, Line: fset.Position(lit.Pos()).Line, Src: s})
			return true
		})
	}
	return 0
}
