package dom

import (
	"bytes"
	"context"
	"fmt"
	"os"
	"os/exec"
	"path/filepath"
	"regexp"
	"sort"
	"strconv"
	"strings"
	"time"

	"elkverif/hx"

	"github.com/elk-language/elk/bitfield"
	"github.com/elk-language/elk/ext"
	"github.com/elk-language/elk/ext/std/test"
	"github.com/elk-language/elk/types/checker"
	"github.com/elk-language/elk/value"
	"github.com/elk-language/elk/vm"
)

// domain flt (C34): see lean/Driver/Dom/Filter.lean for the grammar.
//
//	flt  run  <tree>  <filters>   in-process: real checker+VM run the rendered test files, real
//	                              describe/test/… register under test.Filters, real test.RunWith runs
//	flt  cli  <tree>  <filters>   the `elk` binary ($VERIF_ELK_BIN) runs `elk test --main …` as a process
//	flt  files <tree> <filters>   debugging: prints the rendered files
func init() { hx.RegisterExec("tfl", execFilter) }

type fItem struct {
	typ      byte // 'S' suite, 'C' case, 'H' hook
	kind     string
	id       int
	name     string
	file     string
	first    int
	last     int
	outcome  string
	children []*fItem
}

type fFilter struct {
	grep    bool
	pattern string
	line    int
}

func fDecodeName(s string) (string, bool) {
	if !strings.HasPrefix(s, "=") {
		return "", false
	}
	return strings.ReplaceAll(s[1:], "_", " "), true
}

func fEncodeName(s string) string { return "=" + strings.ReplaceAll(s, " ", "_") }

type fParser struct {
	toks []string
	pos  int
	err  bool
}

func (p *fParser) next() string {
	if p.pos >= len(p.toks) {
		p.err = true
		return ""
	}
	t := p.toks[p.pos]
	p.pos++
	return t
}

func (p *fParser) num() int {
	v, err := strconv.Atoi(p.next())
	if err != nil {
		p.err = true
	}
	return v
}

func (p *fParser) name() string {
	s, ok := fDecodeName(p.next())
	if !ok {
		p.err = true
	}
	return s
}

func (p *fParser) items(nested bool) []*fItem {
	var out []*fItem
	for !p.err {
		if p.pos >= len(p.toks) {
			if nested {
				p.err = true
			}
			return out
		}
		switch t := p.next(); t {
		case "E":
			if !nested {
				p.err = true
			}
			return out
		case "S":
			it := &fItem{typ: 'S', kind: p.next(), name: p.name(), file: p.next(), first: p.num(), last: p.num()}
			it.children = p.items(true)
			out = append(out, it)
		case "C":
			it := &fItem{typ: 'C', kind: p.next(), id: p.num(), name: p.name(), file: p.next(), first: p.num(), last: p.num(), outcome: p.next()}
			out = append(out, it)
		case "H":
			it := &fItem{typ: 'H', kind: p.next(), id: p.num(), outcome: p.next(), file: p.next(), first: p.num()}
			it.last = it.first
			out = append(out, it)
		default:
			p.err = true
		}
	}
	return out
}

func fParseFilters(s string) ([]fFilter, bool) {
	var out []fFilter
	if s == "" {
		return out, true
	}
	for _, f := range strings.Split(s, ";") {
		p := strings.Split(f, ":")
		switch {
		case p[0] == "g" && len(p) == 3:
			out = append(out, fFilter{grep: true, pattern: p[1]})
		case p[0] == "p" && len(p) == 4:
			l, err := strconv.Atoi(p[2])
			if err != nil {
				return nil, false
			}
			out = append(out, fFilter{pattern: p[1], line: l})
		default:
			return nil, false
		}
	}
	return out, true
}

// ---- rendering: every opener is placed on its `first` line and every `end` on its `last` line

type fFile struct {
	buf      bytes.Buffer
	cur      int
	nonEmpty bool
}

type fRender struct {
	mod    string
	files  map[string]*fFile
	order  []string
	caseAt map[string]int // "file:byteoffset of the case closure" -> id
	bad    string
}

func (r *fRender) file(name string) *fFile {
	f, ok := r.files[name]
	if !ok {
		f = &fFile{cur: 1}
		r.files[name] = f
		r.order = append(r.order, name)
		if name == "main.elk.test" {
			f.emit(r, `import "std/test"`, 1)
			f.emit(r, "using Std::Test::Assertions::*", 2)
			f.emit(r, "using Std::Test::*", 3)
			f.emit(r, "module "+r.mod+"; const RAN: ArrayList[String] = ArrayList::[String](); end", 4)
			f.emit(r, `import "./**/*.elk.test"`, 5)
		} else {
			f.emit(r, "using Std::Test::Assertions::*", 1)
			f.emit(r, "using Std::Test::*", 2)
		}
	}
	return f
}

// emit places text on the given line; returns the byte offset at which text starts
func (f *fFile) emit(r *fRender, text string, line int) int {
	if line < f.cur {
		if r.bad == "" {
			r.bad = fmt.Sprintf("line %d requested at line %d", line, f.cur)
		}
		line = f.cur
	}
	if line > f.cur {
		f.buf.WriteString(strings.Repeat("\n", line-f.cur))
		f.cur = line
		f.nonEmpty = false
	}
	if f.nonEmpty {
		f.buf.WriteString("; ")
	}
	off := f.buf.Len()
	f.buf.WriteString(text)
	f.nonEmpty = true
	return off
}

func (r *fRender) mark(m string) string { return r.mod + `::RAN << "` + m + `"` }

func fOutcomeStmt(o string) string {
	switch o {
	case "f":
		return "assert!(1 == 2)"
	case "e":
		return `throw unchecked Error("boom")`
	}
	return ""
}

func (r *fRender) item(f *fFile, fname string, it *fItem) {
	if it.file != fname && r.bad == "" {
		r.bad = "nested item in another file"
	}
	switch it.typ {
	case 'S':
		kw := "describe"
		if it.kind == "c" {
			kw = "context"
		}
		f.emit(r, fmt.Sprintf("%s %q, ->", kw, it.name), it.first)
		if len(it.children) == 0 {
			f.emit(r, "nil", it.first)
		}
		for _, ch := range it.children {
			r.item(f, fname, ch)
		}
		f.emit(r, "end", it.last)
	case 'C':
		kw := map[string]string{"t": "test", "i": "it", "s": "should"}[it.kind]
		if kw == "" {
			r.bad = "case kind"
			kw = "test"
		}
		text := fmt.Sprintf("%s %q, ", kw, it.name)
		off := f.emit(r, text+"->", it.first)
		r.caseAt[fmt.Sprintf("%s:%d", fname, off+len(text))] = it.id
		bodyLine := it.first
		if it.last > it.first {
			bodyLine = it.first + 1
		}
		f.emit(r, r.mark(fmt.Sprintf("b%d", it.id)), bodyLine)
		if s := fOutcomeStmt(it.outcome); s != "" {
			f.emit(r, s, bodyLine)
		}
		f.emit(r, "end", it.last)
	case 'H':
		fn := map[string]string{"ba": "before_all", "aa": "after_all", "be": "before_each", "ae": "after_each"}[it.kind]
		if fn == "" {
			r.bad = "hook kind"
			fn = "before_all"
		}
		f.emit(r, fn+"(|| ->", it.first)
		f.emit(r, r.mark(fmt.Sprintf("%s%d", it.kind, it.id)), it.first)
		if s := fOutcomeStmt(it.outcome); s != "" {
			f.emit(r, s, it.first)
		}
		f.buf.WriteString("; end)")
	}
}

func fRenderTree(mod string, items []*fItem) *fRender {
	r := &fRender{mod: mod, files: map[string]*fFile{}, caseAt: map[string]int{}}
	r.file("main.elk.test")
	for _, it := range items {
		r.item(r.file(it.file), it.file, it)
	}
	return r
}

func (r *fRender) write(dir string) error {
	for _, name := range r.order {
		p := filepath.Join(dir, name)
		if err := os.MkdirAll(filepath.Dir(p), 0o755); err != nil {
			return err
		}
		if err := os.WriteFile(p, append(r.files[name].buf.Bytes(), '\n'), 0o644); err != nil {
			return err
		}
	}
	return nil
}

var fCounter int

type fSilentReporter struct{}

func (fSilentReporter) Report(events chan *test.ReportEvent, shutdown context.CancelFunc) {
	for range events {
	}
}

var fStatusNames = map[test.TestStatus]string{
	test.TEST_PENDING: "pending", test.TEST_FAILED: "failed", test.TEST_ERROR: "error",
	test.TEST_SKIPPED: "skipped", test.TEST_RUNNING: "running", test.TEST_SUCCESS: "success",
}

var fRanRe = regexp.MustCompile(`"([a-z]+[0-9]+)"`)

func fSortedMarkers(inspect string) string {
	var ms []string
	for _, m := range fRanRe.FindAllStringSubmatch(inspect, -1) {
		ms = append(ms, m[1])
	}
	sort.Strings(ms)
	return strings.Join(ms, ",")
}

func execFilter(f []string) string {
	if len(f) != 3 {
		return "bad-op"
	}
	p := &fParser{toks: strings.Fields(f[1])}
	items := p.items(false)
	filters, ok := fParseFilters(f[2])
	if p.err || !ok {
		return "bad-op"
	}
	fCounter++
	mod := fmt.Sprintf("Verif%d", fCounter)
	r := fRenderTree(mod, items)
	if r.bad != "" {
		return "bad-layout " + r.bad
	}
	if f[0] == "files" {
		var sb strings.Builder
		for _, n := range r.order {
			fmt.Fprintf(&sb, "== %s ==|%s|", n, strings.ReplaceAll(r.files[n].buf.String(), "\n", "|"))
		}
		return "ok " + sb.String()
	}
	base := os.Getenv("VERIF_SCRATCH")
	dir, err := os.MkdirTemp(base, "flt")
	if err != nil {
		return "bad-scratch " + err.Error()
	}
	defer os.RemoveAll(dir)
	if err := r.write(dir); err != nil {
		return "bad-scratch " + err.Error()
	}
	switch f[0] {
	case "run":
		return fRunInProcess(dir, mod, r, items, filters)
	case "cli":
		return fRunCLI(dir, r, filters)
	}
	return "bad-op"
}

func fPathArg(fl fFilter) string {
	if fl.line == -1 {
		return fl.pattern
	}
	return fmt.Sprintf("%s:%d", fl.pattern, fl.line)
}

// fRunInProcess mirrors cmd/elk/main.go runTest/runTestFile up to the exit status.
func fRunInProcess(dir, mod string, r *fRender, items []*fItem, filters []fFilter) string {
	old, _ := os.Getwd()
	if err := os.Chdir(dir); err != nil {
		return "bad-scratch " + err.Error()
	}
	defer os.Chdir(old)

	test.Filters = nil
	test.RootSuite = test.NewSuite("", nil, nil)
	test.CurrentSuite = test.RootSuite
	for _, fl := range filters {
		if fl.grep {
			rf, err := test.NewRegexFilter(fl.pattern)
			if err != nil {
				return "bad-filter " + hx.PanicClass(err)
			}
			test.RegisterFilter(rf)
		} else {
			pf, err := test.NewPathFilter(fPathArg(fl))
			if err != nil {
				return "bad-filter " + hx.PanicClass(err)
			}
			test.RegisterFilter(pf)
		}
	}
	bc, diags := checker.CheckFile("main.elk.test", nil, bitfield.BitField16{}, nil)
	if diags != nil && diags.IsFailure() {
		msg := ""
		for _, d := range diags {
			msg = d.Message
			break
		}
		return "bad-layout rejected: " + hx.PanicClass(msg)
	}
	var out bytes.Buffer
	v := vm.New(vm.WithStdout(&out))
	if _, e := v.InterpretTopLevel(bc); !e.IsUndefined() {
		return "bad-layout registration failed: " + hx.PanicClass(e.Inspect())
	}
	if te := ext.Map["std/test"]; te != nil && !te.Initialised {
		te.RuntimeInit()
	}
	// layout check: every registered suite/case sits where the line says
	want := map[string]bool{}
	caseLoc := map[int]string{}
	var collect func(its []*fItem)
	collect = func(its []*fItem) {
		for _, it := range its {
			switch it.typ {
			case 'S':
				want[fmt.Sprintf("%s:%d-%d", it.file, it.first, it.last)] = true
				collect(it.children)
			case 'C':
				caseLoc[it.id] = fmt.Sprintf("%s:%d-%d", it.file, it.first, it.last)
			}
		}
	}
	collect(items)
	caseID := func(c *test.Case) (int, string) {
		loc := c.Location()
		if loc == nil || loc.Span == nil {
			return -1, "case without location"
		}
		id, ok := r.caseAt[fmt.Sprintf("%s:%d", loc.FilePath, loc.StartPos.ByteOffset)]
		if !ok {
			return -1, fmt.Sprintf("unknown case at %s:%d (offset %d)", loc.FilePath, loc.StartPos.Line, loc.StartPos.ByteOffset)
		}
		if got := fmt.Sprintf("%s:%d-%d", loc.FilePath, loc.StartPos.Line, loc.EndPos.Line); got != caseLoc[id] {
			return -1, fmt.Sprintf("case %d at %s, line says %s", id, got, caseLoc[id])
		}
		return id, ""
	}
	bad := ""
	var registered []string
	var walk func(s *test.Suite)
	walk = func(s *test.Suite) {
		if s.Location != nil {
			got := fmt.Sprintf("%s:%d-%d", s.Location.FilePath, s.Location.StartPos.Line, s.Location.EndPos.Line)
			if !want[got] && bad == "" {
				bad = "suite at " + got + " not in the line"
			}
		}
		for _, c := range s.Cases {
			id, why := caseID(c)
			if why != "" && bad == "" {
				bad = why
			}
			registered = append(registered, strconv.Itoa(id))
		}
		for _, sub := range s.SubSuites {
			walk(sub)
		}
	}
	walk(test.RootSuite)
	if bad != "" {
		return "bad-layout " + bad
	}

	done := make(chan *test.SuiteReport, 1)
	go func() {
		defer func() {
			if rec := recover(); rec != nil {
				done <- nil
			}
		}()
		done <- test.RunWith(vm.New(vm.WithStdout(&out)), fSilentReporter{}, make(chan *test.ReportEvent, 50), uint64(fCounter))
	}()
	var report *test.SuiteReport
	select {
	case report = <-done:
	case <-time.After(20 * time.Second):
		return "err timeout"
	}
	if report == nil {
		return "err no-report"
	}
	var reps []string
	var rwalk func(sr *test.SuiteReport)
	rwalk = func(sr *test.SuiteReport) {
		for _, cr := range sr.CaseReports {
			id, _ := caseID(cr.Case)
			reps = append(reps, fmt.Sprintf("%d:%s:%s", id, fStatusNames[cr.Status()], fEncodeName(cr.FullNameWithSeparator())))
		}
		for _, sub := range sr.SubSuiteReports {
			rwalk(sub)
		}
	}
	rwalk(report)
	sort.Strings(reps)
	sort.Strings(registered)
	ran := ""
	if m := value.RootModule.Constants.GetString(mod); !m.IsUndefined() {
		if mm, ok := m.AsReference().(*value.Module); ok {
			if l := mm.Constants.GetString("RAN"); !l.IsUndefined() {
				ran = fSortedMarkers(l.Inspect())
			}
		}
	}
	return fmt.Sprintf("ok status=%s registered=%s reports=%s events=%s", fStatusNames[report.Status()],
		strings.Join(registered, ","), strings.Join(reps, ","), ran)
}

var fSummaryRe = regexp.MustCompile(`Summary: (\d+) cases, (\d+) passed, (\d+) skipped, (\d+) failed, (\d+) errors`)

// fRunCLI: `elk test --main main.elk.test --grep … --path …` in the rendered directory.
// The executed closures are printed by a trailing root after_all hook added to main.elk.test.
func fRunCLI(dir string, r *fRender, filters []fFilter) string {
	bin := os.Getenv("VERIF_ELK_BIN")
	if bin == "" {
		return "bad-env VERIF_ELK_BIN"
	}
	mainPath := filepath.Join(dir, "main.elk.test")
	fh, err := os.OpenFile(mainPath, os.O_APPEND|os.O_WRONLY, 0o644)
	if err != nil {
		return "bad-scratch " + err.Error()
	}
	fmt.Fprintf(fh, "after_all(|| -> println(\"RAN:\" + %s::RAN.inspect))\n", r.mod)
	fh.Close()
	args := []string{"test", "--main", "main.elk.test"}
	for _, fl := range filters {
		if fl.grep {
			args = append(args, "--grep", fl.pattern)
		}
	}
	for _, fl := range filters {
		if !fl.grep {
			args = append(args, "--path", fPathArg(fl))
		}
	}
	ctx, cancel := context.WithTimeout(context.Background(), 60*time.Second)
	defer cancel()
	cmd := exec.CommandContext(ctx, bin, args...)
	cmd.Dir = dir
	cmd.Env = append(os.Environ(), "NO_COLOR=1")
	outb, err := cmd.CombinedOutput()
	exit := 0
	if err != nil {
		if ee, ok := err.(*exec.ExitError); ok {
			exit = ee.ExitCode()
		} else {
			return "err " + hx.PanicClass(err)
		}
	}
	out := string(outb)
	sm := fSummaryRe.FindStringSubmatch(out)
	if sm == nil {
		return fmt.Sprintf("err exit=%d no-summary %s", exit, hx.PanicClass(out))
	}
	ran := ""
	// a long list is inspected over several lines
	if i := strings.LastIndex(out, "RAN:["); i >= 0 {
		if j := strings.Index(out[i:], "]"); j >= 0 {
			ran = fSortedMarkers(out[i : i+j])
		}
	}
	return fmt.Sprintf("ok exit=%d events=%s", exit, ran)
}
