package dom

import (
	"bufio"
	"bytes"
	"encoding/json"
	"fmt"
	"go/format"
	"os"
	"strings"

	"elkverif/hx"

	"github.com/elk-language/elk/bitfield"
	"github.com/elk-language/elk/types/checker"
)

// sub-command `native`: one JSON request {id, src} per line → {id, ok, go, diags, panic}.
// Runs the real Go backend (checker.CheckSourceNative + Flush + gofmt) in-process.
func init() { hx.RegisterSub("native", nativeWorker) }

type nativeAns struct {
	ID    string   `json:"id"`
	OK    bool     `json:"ok"`
	Go    string   `json:"go,omitempty"`
	Diags []string `json:"diags,omitempty"`
	Panic string   `json:"panic,omitempty"`
	Fmt   string   `json:"fmt_error,omitempty"`
}

func nativeWorker(args []string) int {
	in := bufio.NewReaderSize(os.Stdin, 1<<22)
	out := bufio.NewWriter(os.Stdout)
	os.Stdout = os.Stderr
	for {
		line, err := in.ReadString('\n')
		if len(strings.TrimSpace(line)) > 0 {
			var req RunReq
			if e := json.Unmarshal([]byte(line), &req); e != nil {
				fmt.Fprintln(out, `{"ok":false,"panic":"bad-request"}`)
			} else {
				ans := nativeOne(&req)
				b, _ := json.Marshal(ans)
				out.Write(b)
				out.WriteByte('\n')
			}
			out.Flush()
		}
		if err != nil {
			return 0
		}
	}
}

func nativeOne(req *RunReq) (ans *nativeAns) {
	ans = &nativeAns{ID: req.ID}
	defer func() {
		if r := recover(); r != nil {
			ans.OK = false
			ans.Panic = hx.PanicClass(r)
		}
	}()
	name := req.Name
	if name == "" {
		name = "/tmp/" + req.ID + ".elk"
	}
	var buf bytes.Buffer
	gc, diags := checker.CheckSourceNative(name, req.Src, nil, bitfield.BitField16{}, &buf, nil)
	for _, d := range diags {
		ans.Diags = append(ans.Diags, d.Severity.String()+": "+d.Message)
	}
	if diags != nil && diags.IsFailure() {
		return
	}
	gc.Flush()
	res, err := format.Source(buf.Bytes())
	if err != nil {
		ans.Fmt = err.Error()
		ans.Go = buf.String()
		return
	}
	ans.OK = true
	ans.Go = string(res)
	return
}
