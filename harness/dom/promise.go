package dom

import (
	"bufio"
	"encoding/json"
	"fmt"
	"os"
	"strings"
	"time"

	"elkverif/hx"

	"github.com/elk-language/elk/vm"
)

// sub-command `prun` (C16/C15): program worker that records the H2 protocol events
// (vm/verif_events_on.go) of every program and returns them with the outcome.
//
// request  {"id","src","timeout_ms","seed"}          one JSON object per line
// answer   {"id","outcome","stdout",...,"pool","queue","hang","events"}
//
// "events" is the log in sequence order, `;`-separated, already in the vocabulary of
// lean/ElkVerif/Model/Promise.lean (`add a c`, `enq a c`, `deq a t`, `aw a p`, ... ), with
// goroutine ids renamed to actor numbers: goroutines that ever dequeue a task are the pool
// workers 0..N-1 (in order of first appearance), every other goroutine gets N, N+1, ...
// A program that does not finish within its budget answers outcome "timeout"; "hang" is
// true when the event log did not grow during a grace period after the deadline (a slow
// run keeps logging). The worker then exits with status 3 (its pool is occupied).
func init() {
	hx.RegisterSub("prun", promiseWorker)
}

type PRunReq struct {
	RunReq
	Seed uint64 `json:"seed"`
}

type PRunAns struct {
	*RunAns
	Pool   int    `json:"pool"`
	Queue  int    `json:"queue"`
	Hang   bool   `json:"hang"`
	Quiet  bool   `json:"quiet"`
	Events string `json:"events"`
	NEv    int    `json:"nev"`
}

func promiseWorker(args []string) int {
	in := bufio.NewReaderSize(os.Stdin, 1<<22)
	out := bufio.NewWriter(os.Stdout)
	for {
		line, err := in.ReadString('\n')
		if len(strings.TrimSpace(line)) > 0 {
			var req PRunReq
			if e := json.Unmarshal([]byte(line), &req); e != nil {
				fmt.Fprintln(out, `{"outcome":"bad-request"}`)
				out.Flush()
			} else {
				ans, exit := promiseRunOne(&req)
				b, _ := json.Marshal(ans)
				out.Write(b)
				out.WriteByte('\n')
				out.Flush()
				if exit {
					return 3
				}
			}
		}
		if err != nil {
			return 0
		}
	}
}

func promiseRunOne(req *PRunReq) (*PRunAns, bool) {
	pool := vm.DefaultThreadPool.ThreadCount()
	res := &PRunAns{Pool: pool, Queue: vm.DefaultThreadPool.TaskQueueSize()}
	vm.VerifStart(req.Seed)
	ans, mustExit := runOne(&req.RunReq)
	res.RunAns = ans
	var log []vm.VerifEvent
	if mustExit {
		// deadline passed: hang or merely slow?
		a := len(vm.VerifSnapshot())
		time.Sleep(300 * time.Millisecond)
		log = vm.VerifStop()
		// an empty log means the program was still being checked/compiled (loaded machine): slow, not hung
		res.Hang = len(log) == a && len(log) > 0
	} else {
		// let tasks nobody waited for run to completion
		deadline := time.Now().Add(600 * time.Millisecond)
		for {
			log = vm.VerifSnapshot()
			if promiseQuiet(log) {
				res.Quiet = true
				break
			}
			if time.Now().After(deadline) {
				break
			}
			time.Sleep(time.Millisecond)
		}
		log = vm.VerifStop()
	}
	res.Events = renderEvents(log, pool)
	res.NEv = len(log)
	return res, mustExit
}

func promiseQuiet(log []vm.VerifEvent) bool {
	// quiet = every task that was started and every external promise has been settled and its
	// settler has left Resolve/Reject, and every dequeue is closed by the worker's `unl`/`resu`
	open := map[uint64]int{}
	pending := map[uint64]bool{}
	for _, e := range log {
		switch e.Kind {
		case "add":
			pending[e.Task] = true
		case "newx":
			pending[e.Promise] = true
		case "deq":
			open[e.G]++
		case "unl":
			open[e.G]--
		case "resu":
			delete(pending, e.Promise)
			if open[e.G] > 0 {
				open[e.G]--
			}
		}
	}
	if len(pending) != 0 {
		return false
	}
	for _, n := range open {
		if n != 0 {
			return false
		}
	}
	return true
}

func renderEvents(log []vm.VerifEvent, pool int) string {
	actor := map[uint64]int{}
	nw := 0
	for _, e := range log {
		if e.Kind == "deq" {
			if _, ok := actor[e.G]; !ok {
				actor[e.G] = nw
				nw++
			}
		}
	}
	next := pool
	if nw > pool {
		next = nw // more dequeuing goroutines than pool threads: the model will reject
	}
	var sb strings.Builder
	for i, e := range log {
		a, ok := actor[e.G]
		if !ok {
			a = next
			actor[e.G] = a
			next++
		}
		if i > 0 {
			sb.WriteByte(';')
		}
		// model ids are 0-based
		p, t := int64(e.Promise)-1, int64(e.Task)-1
		switch e.Kind {
		case "add", "enq", "deq":
			fmt.Fprintf(&sb, "%s %d %d", e.Kind, a, t)
		case "aw", "awl", "aws", "awr", "reg", "unl", "resl", "pub", "resu", "newx", "syw", "sywd":
			fmt.Fprintf(&sb, "%s %d %d", e.Kind, a, p)
		case "res-ok", "res-rr":
			fmt.Fprintf(&sb, "res %d %d ok", a, p)
		case "res-err":
			fmt.Fprintf(&sb, "res %d %d err", a, p)
		case "enqc":
			fmt.Fprintf(&sb, "enqc %d %d %d", a, p, t)
		default:
			fmt.Fprintf(&sb, "unknown-%s %d %d %d", e.Kind, a, p, t)
		}
	}
	return sb.String()
}
