package dom

import (
	"fmt"
	"math"
	"strconv"
	"strings"

	"elkverif/hx"

	"github.com/elk-language/elk/value"
)

// domain inspx (C19, implementation only — no Lean model): inspect → real pipeline → compare for
// fixed-width integers, suffixed integer literals and flat collections of literal-expressible values.
func init() { hx.RegisterExec("inspx", execInspX) }

func fixedValue(kind string, d string) (value.Value, bool) {
	switch kind {
	case "i8", "i16", "i32", "i64":
		n, err := strconv.ParseInt(d, 10, 64)
		if err != nil {
			return value.Undefined, false
		}
		switch kind {
		case "i8":
			return value.Int8(n).ToValue(), true
		case "i16":
			return value.Int16(n).ToValue(), true
		case "i32":
			return value.Int32(n).ToValue(), true
		}
		return value.Int64(n).ToValue(), true
	case "u8", "u16", "u32", "u64", "uint":
		n, err := strconv.ParseUint(d, 10, 64)
		if err != nil {
			return value.Undefined, false
		}
		switch kind {
		case "u8":
			return value.UInt8(n).ToValue(), true
		case "u16":
			return value.UInt16(n).ToValue(), true
		case "u32":
			return value.UInt32(n).ToValue(), true
		case "u64":
			return value.UInt64(n).ToValue(), true
		}
		return value.UInt(n).ToValue(), true
	}
	return value.Undefined, false
}

// anyInt renders any Elk integer as `<kind>:<decimal>`.
func anyInt(v value.Value) (string, bool) {
	if v.IsSmallInt() {
		return "int:" + strconv.Itoa(int(v.AsSmallInt())), true
	}
	if v.IsReference() {
		switch r := v.AsReference().(type) {
		case *value.BigInt:
			return "int:" + r.ToGoBigInt().String(), true
		case value.Int64:
			return fmt.Sprintf("i64:%d", int64(r)), true
		case value.UInt64:
			return fmt.Sprintf("u64:%d", uint64(r)), true
		}
		return "", false
	}
	switch v.ValueFlag() {
	case value.INT8_FLAG:
		return fmt.Sprintf("i8:%d", v.AsInt8()), true
	case value.INT16_FLAG:
		return fmt.Sprintf("i16:%d", v.AsInt16()), true
	case value.INT32_FLAG:
		return fmt.Sprintf("i32:%d", v.AsInt32()), true
	case value.INT64_FLAG:
		return fmt.Sprintf("i64:%d", v.AsInlineInt64()), true
	case value.UINT8_FLAG:
		return fmt.Sprintf("u8:%d", v.AsUInt8()), true
	case value.UINT16_FLAG:
		return fmt.Sprintf("u16:%d", v.AsUInt16()), true
	case value.UINT32_FLAG:
		return fmt.Sprintf("u32:%d", v.AsUInt32()), true
	case value.UINT64_FLAG:
		return fmt.Sprintf("u64:%d", v.AsInlineUInt64()), true
	case value.UINT_FLAG:
		return fmt.Sprintf("uint:%d", v.AsUInt()), true
	}
	return "", false
}

// elem parses one element spec: s:<hex> c:<rune> y:<hex> i:<dec> f:<bits> n t b <kind>:<dec>
func elemValue(spec string) (value.Value, bool) {
	switch spec {
	case "n":
		return value.Nil, true
	case "t":
		return value.True.ToValue(), true
	case "b":
		return value.False.ToValue(), true
	}
	k, d, ok := strings.Cut(spec, ":")
	if !ok {
		return value.Undefined, false
	}
	switch k {
	case "s":
		s, ok := unhex(d)
		return strVal(s), ok
	case "y":
		s, ok := unhex(d)
		if !ok {
			return value.Undefined, false
		}
		return value.ToSymbol(s).ToValue(), true
	case "c":
		n, err := strconv.ParseInt(d, 10, 32)
		return value.Char(n).ToValue(), err == nil
	case "i":
		v, err := value.ParseInt(d, 10)
		return v, err.IsUndefined()
	case "f":
		b, err := strconv.ParseUint(d, 16, 64)
		return value.Float(math.Float64frombits(b)).ToValue(), err == nil
	}
	return fixedValue(k, d)
}

func elemShow(v value.Value) string {
	if v == value.Nil {
		return "n"
	}
	if v == value.True.ToValue() {
		return "t"
	}
	if v == value.False.ToValue() {
		return "b"
	}
	if v.IsChar() {
		return "c:" + strconv.Itoa(int(v.AsChar()))
	}
	if v.IsInlineSymbol() {
		return "y:" + hexb(v.AsInlineSymbol().String())
	}
	if v.IsFloat() {
		return fmt.Sprintf("f:%016x", math.Float64bits(float64(v.AsFloat())))
	}
	if v.IsReference() {
		if s, ok := v.AsReference().(value.String); ok {
			return "s:" + hexb(string(s))
		}
	}
	if s, ok := anyInt(v); ok {
		if strings.HasPrefix(s, "int:") {
			return "i:" + s[4:]
		}
		return s
	}
	return "?" + clean(v.Class().Name)
}

func execInspX(f []string) string {
	if len(f) < 2 {
		return "bad-op"
	}
	switch f[0] {
	case "fix":
		// inspx fix <kind> <dec>
		if len(f) != 3 {
			return "bad-op"
		}
		v, ok := fixedValue(f[1], f[2])
		if !ok {
			return "bad-op"
		}
		ins := v.Inspect()
		r, why := evalSource(ins)
		if why != "" {
			return "ok " + hexb(ins) + " !none"
		}
		s, ok := anyInt(r)
		if !ok {
			return "ok " + hexb(ins) + " !none"
		}
		return "ok " + hexb(ins) + " " + s
	case "litx":
		// inspx litx <hex source>: an integer literal with or without a size suffix
		src, ok := unhex(f[1])
		if !ok {
			return "bad-op"
		}
		r, why := evalSource(src)
		if why != "" {
			return "err"
		}
		s, ok := anyInt(r)
		if !ok {
			return "err"
		}
		return "ok " + s
	case "coll":
		// inspx coll list|tuple <elem;elem;…>
		if len(f) != 3 {
			return "bad-op"
		}
		var elems []value.Value
		if f[2] != "-" {
			for _, e := range strings.Split(f[2], ";") {
				v, ok := elemValue(e)
				if !ok {
					return "bad-op"
				}
				elems = append(elems, v)
			}
		}
		var coll value.Value
		switch f[1] {
		case "list":
			coll = value.Ref(value.NewArrayListOfValueWithElements(len(elems), elems...))
		case "tuple":
			coll = value.Ref(value.NewArrayTupleOfValueWithElements(len(elems), elems...))
		default:
			return "bad-op"
		}
		ins := coll.Inspect()
		r, why := evalSource(ins)
		if why != "" {
			return "ok " + hexb(ins) + " !none"
		}
		var n int
		var at func(int) value.Value
		kind := "?"
		switch c := r.SafeAsReference().(type) {
		case value.ArrayList:
			kind, n, at = "list", c.Length(), c.AtVal
		case value.ArrayTuple:
			kind, n, at = "tuple", c.Length(), c.AtVal
		default:
			return "ok " + hexb(ins) + " !none"
		}
		out := make([]string, n)
		for i := 0; i < n; i++ {
			out[i] = elemShow(at(i))
		}
		body := "-"
		if n > 0 {
			body = strings.Join(out, ";")
		}
		return "ok " + hexb(ins) + " " + kind + " " + body
	}
	return "bad-op"
}
