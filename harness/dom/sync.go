package dom

import (
	"fmt"
	"math/rand"
	"runtime"
	"strconv"
	"strings"
	"sync"
	"sync/atomic"
	"time"

	"elkverif/hx"

	"github.com/elk-language/elk/value"
)

// domain `sy` (C25): sequential scripts over the real wrappers
//
//	sy<TAB>run<TAB>op;op;...
//
// ops (ids are small integers naming objects created earlier in the same script):
//
//	cn id cap    value.NewChannelOfValue(cap)        nn id cap   value.MakeNativeChannel[value.SmallInt](cap)
//	cp id v      Push(v)      cg id   Pop()          cc id  Close()      cl id  Length()
//	mn id  value.NewMutex()      ml id  Lock()       mu id  Unlock()
//	rn id  value.NewRWMutex()    rl id  Lock()  rr id  ReadLock()  ru id  Unlock()  rv id  ReadUnlock()
//	wn id  &value.WaitGroup{}    wa id k  Add(k)     wr id k  Remove(k)  ww id  Wait()
//	on id  value.NewOnce()       oc id    Native().Do(body) — answers how often the body ran so far
//
// answer: `ok o1,o2,...` one outcome per executed op: ok | v<N> | ClosedPush | ClosedPop |
// ClosedClose | Unlocked | err:<class> | panic | block. A call that has not returned 60 ms after its goroutine started (longer on a loaded machine)
// answers `block` and ends the script (no model is consulted to decide that); a Go panic out of
// the wrapper answers `panic` and ends the script; a Go fatal error kills the worker process (the
// python side reruns the line alone and records `fatal`).
func init() {
	hx.RegisterExec("sy", execSync)
	hx.RegisterSub("systress", syncStress)
}

type syWorld struct {
	ch map[int]value.Channel
	wv map[int]value.WriteChannel
	rv map[int]value.ReadChannel
	mu map[int]*value.Mutex
	rw map[int]*value.RWMutex
	wg map[int]*value.WaitGroup
	on map[int]*value.Once
	oc map[int]*int
}

func errName(err value.Value) string {
	if err.IsUndefined() {
		return "ok"
	}
	if err.IsReference() {
		switch err.AsReference() {
		case value.Reference(value.ChannelClosedPushError):
			return "ClosedPush"
		case value.Reference(value.ChannelClosedPopError):
			return "ClosedPop"
		case value.Reference(value.ChannelClosedCloseError):
			return "ClosedClose"
		}
	}
	cls := err.Class()
	if cls == value.MutexUnlockedErrorClass || cls == value.RWMutexUnlockedErrorClass {
		return "Unlocked"
	}
	return "err:" + cls.Name
}

// callTimed runs f in its own goroutine; "block" when it has not returned 60 ms after the goroutine
// was seen running. On a loaded machine (a canary goroutine takes more than 2 ms to get scheduled)
// the call is given up to a further second before it is declared blocked.
func callTimed(f func() string) string {
	done := make(chan string, 1)
	started := make(chan struct{})
	go func() {
		defer func() {
			if r := recover(); r != nil {
				done <- "panic"
			}
		}()
		close(started)
		done <- f()
	}()
	select {
	case <-started:
	case <-time.After(5 * time.Second):
	}
	select {
	case s := <-done:
		return s
	case <-time.After(60 * time.Millisecond):
	}
	t0 := time.Now()
	canary := make(chan struct{})
	go func() { close(canary) }()
	<-canary
	if time.Since(t0) > 2*time.Millisecond {
		select {
		case s := <-done:
			return s
		case <-time.After(time.Second):
		}
	}
	select {
	case s := <-done:
		return s
	default:
		return "block"
	}
}

func execSync(f []string) string {
	if len(f) != 2 || f[0] != "run" {
		return "bad-op"
	}
	w := &syWorld{ch: map[int]value.Channel{}, wv: map[int]value.WriteChannel{}, rv: map[int]value.ReadChannel{}, mu: map[int]*value.Mutex{}, rw: map[int]*value.RWMutex{},
		wg: map[int]*value.WaitGroup{}, on: map[int]*value.Once{}, oc: map[int]*int{}}
	var outs []string
	if f[1] != "" {
		for _, e := range strings.Split(f[1], ";") {
			p := strings.Split(e, " ")
			n := make([]int, len(p)-1)
			for i, s := range p[1:] {
				v, err := strconv.Atoi(s)
				if err != nil {
					return "bad-op"
				}
				n[i] = v
			}
			o, ok := w.exec(p[0], n)
			if !ok {
				return "bad-op"
			}
			outs = append(outs, o)
			if o == "block" || o == "panic" {
				break
			}
		}
	}
	return "ok " + strings.Join(outs, ",")
}

func (w *syWorld) exec(op string, n []int) (string, bool) {
	need := func(k int) bool { return len(n) == k }
	switch op {
	case "cn":
		if !need(2) {
			return "", false
		}
		w.ch[n[0]] = value.NewChannelOfValue(n[1])
		return "ok", true
	case "nn":
		if !need(2) {
			return "", false
		}
		w.ch[n[0]] = value.MakeNativeChannel[value.SmallInt](n[1])
		return "ok", true
	case "vp", "vc", "vl", "vg":
		// the same operations through the write-only / read-only view of the channel (created once per channel)
		if len(n) < 1 {
			return "", false
		}
		ch, ok := w.ch[n[0]]
		if !ok {
			return "", false
		}
		if op == "vg" {
			rv, ok := w.rv[n[0]]
			if !ok {
				rv = ch.ToReadChannel()
				w.rv[n[0]] = rv
			}
			return callTimed(func() string {
				v, err := rv.Pop()
				if !err.IsUndefined() {
					return errName(err)
				}
				if !v.IsSmallInt() {
					return "err:not-an-int " + v.Inspect()
				}
				return fmt.Sprintf("v%d", int(v.AsSmallInt()))
			}), true
		}
		wv, ok := w.wv[n[0]]
		if !ok {
			wv = ch.ToWriteChannel()
			w.wv[n[0]] = wv
		}
		switch op {
		case "vp":
			if !need(2) {
				return "", false
			}
			v := value.SmallInt(n[1]).ToValue()
			return callTimed(func() string { return errName(wv.Push(v)) }), true
		case "vc":
			return callTimed(func() string { return errName(wv.Close()) }), true
		default:
			return fmt.Sprintf("v%d", wv.Length()), true
		}
	case "cp", "cg", "cc", "cl":
		if len(n) < 1 {
			return "", false
		}
		ch, ok := w.ch[n[0]]
		if !ok {
			return "", false
		}
		switch op {
		case "cp":
			if !need(2) {
				return "", false
			}
			v := value.SmallInt(n[1]).ToValue()
			return callTimed(func() string { return errName(ch.Push(v)) }), true
		case "cg":
			return callTimed(func() string {
				v, err := ch.Pop()
				if !err.IsUndefined() {
					return errName(err)
				}
				if !v.IsSmallInt() {
					return "err:not-an-int " + v.Inspect()
				}
				return fmt.Sprintf("v%d", int(v.AsSmallInt()))
			}), true
		case "cc":
			return callTimed(func() string { return errName(ch.Close()) }), true
		default:
			return fmt.Sprintf("v%d", ch.Length()), true
		}
	case "mn":
		w.mu[n[0]] = value.NewMutex()
		return "ok", true
	case "ml", "mu":
		m, ok := w.mu[n[0]]
		if !ok {
			return "", false
		}
		if op == "ml" {
			return callTimed(func() string { m.Lock(); return "ok" }), true
		}
		return callTimed(func() string { return errName(m.Unlock()) }), true
	case "rn":
		w.rw[n[0]] = value.NewRWMutex()
		return "ok", true
	case "rl", "rr", "ru", "rv":
		m, ok := w.rw[n[0]]
		if !ok {
			return "", false
		}
		switch op {
		case "rl":
			return callTimed(func() string { m.Lock(); return "ok" }), true
		case "rr":
			return callTimed(func() string { m.ReadLock(); return "ok" }), true
		case "ru":
			return callTimed(func() string { return errName(m.Unlock()) }), true
		default:
			return callTimed(func() string { return errName(m.ReadUnlock()) }), true
		}
	case "wn":
		w.wg[n[0]] = &value.WaitGroup{}
		return "ok", true
	case "wa", "wr", "ww":
		g, ok := w.wg[n[0]]
		if !ok {
			return "", false
		}
		switch op {
		case "wa":
			return callTimed(func() string { g.Add(n[1]); return "ok" }), true
		case "wr":
			return callTimed(func() string { g.Remove(n[1]); return "ok" }), true
		default:
			return callTimed(func() string { g.Wait(); return "ok" }), true
		}
	case "on":
		w.on[n[0]] = value.NewOnce()
		w.oc[n[0]] = new(int)
		return "ok", true
	case "oc":
		o, ok := w.on[n[0]]
		if !ok {
			return "", false
		}
		cnt := w.oc[n[0]]
		return callTimed(func() string {
			o.Native().Do(func() { *cnt++ })
			return fmt.Sprintf("v%d", *cnt)
		}), true
	}
	return "", false
}

// ---------------------------------------------------------------------------------------------
// sub-command `systress SEED ROUNDS [noearlyclose]`: concurrent runs on the real wrappers, recording histories
// of unique tokens. One history per line on stdout:
//
//	H <scenario> <params> | rec;rec;...
//
// records (a = thread number; the placement is what makes the checks sound, see docs/C25.md):
//
//	pb a ch v     before Push(v)            pe a ch v ok|ClosedPush    after Push returned
//	ge a ch v     after Pop returned v      gx a ch                    after Pop returned ClosedPop
//	cb a ch       before Close()            ce a ch ok|ClosedClose     after Close returned
//	en a m        after Lock() returned     lv a m                     before Unlock()
//	ren a m / rlv a m   the same for ReadLock/ReadUnlock
//	ob a o        body of the Once ran      or a o                     Once call returned
//	wd a w        before End()              wb a w / wr a w            before / after Wait()
//	wa a w k      after Add(k) returned
type histLog struct {
	mu   sync.Mutex
	recs []string
}

func (h *histLog) add(format string, args ...any) {
	s := fmt.Sprintf(format, args...)
	h.mu.Lock()
	h.recs = append(h.recs, s)
	h.mu.Unlock()
}

func jitter(r *rand.Rand) {
	switch r.Intn(8) {
	case 0, 1:
		runtime.Gosched()
	case 2:
		time.Sleep(time.Duration(r.Intn(80)) * time.Microsecond)
	}
}

func syncStress(args []string) int {
	seed, rounds := int64(1), 20
	if len(args) > 0 {
		if v, err := strconv.ParseInt(args[0], 10, 64); err == nil {
			seed = v
		}
	}
	if len(args) > 1 {
		if v, err := strconv.Atoi(args[1]); err == nil {
			rounds = v
		}
	}
	// third argument "noearlyclose": producers never close while others still push. Used under the Go
	// race detector, which reports a send racing with a close by design — the wrappers support exactly
	// that (push on a closed channel is an Elk error), so it is not a finding.
	earlyClose := !(len(args) > 2 && args[2] == "noearlyclose")
	rng := rand.New(rand.NewSource(seed))
	for r := 0; r < rounds; r++ {
		stressChannel(rng, r%2 == 1, earlyClose)
		stressMutex(rng)
		stressRW(rng)
		stressOnceWG(rng)
	}
	return 0
}

func stressChannel(rng *rand.Rand, native bool, earlyClose bool) {
	capacity := []int{0, 0, 1, 2, 5}[rng.Intn(5)]
	producers := 1 + rng.Intn(3)
	consumers := 1 + rng.Intn(3)
	per := 1 + rng.Intn(12)
	var ch value.Channel
	if native {
		ch = value.MakeNativeChannel[value.SmallInt](capacity)
	} else {
		ch = value.NewChannelOfValue(capacity)
	}
	h := &histLog{}
	var pwg, cwg sync.WaitGroup
	var closers atomic.Int32
	for p := 0; p < producers; p++ {
		pwg.Add(1)
		r := rand.New(rand.NewSource(rng.Int63()))
		go func(a int) {
			defer pwg.Done()
			for i := 0; i < per; i++ {
				tok := a*1000 + i
				jitter(r)
				h.add("pb %d 0 %d", a, tok)
				err := ch.Push(value.SmallInt(tok).ToValue())
				h.add("pe %d 0 %d %s", a, tok, errName(err))
			}
			// sometimes a producer closes early or twice
			if earlyClose && r.Intn(6) == 0 {
				closers.Add(1)
				h.add("cb %d 0", a)
				err := ch.Close()
				h.add("ce %d 0 %s", a, errName(err))
			}
		}(p)
	}
	for c := 0; c < consumers; c++ {
		cwg.Add(1)
		r := rand.New(rand.NewSource(rng.Int63()))
		go func(a int) {
			defer cwg.Done()
			for {
				jitter(r)
				v, err := ch.Pop()
				if !err.IsUndefined() {
					h.add("gx %d 0 %s", a, errName(err))
					return
				}
				h.add("ge %d 0 %d", a, int(v.AsSmallInt()))
			}
		}(100 + c)
	}
	pwg.Wait()
	h.add("cb 99 0")
	err := ch.Close()
	h.add("ce 99 0 %s", errName(err))
	// a push after the close has completed must fail
	h.add("pb 99 0 99999")
	err = ch.Push(value.SmallInt(99999).ToValue())
	h.add("pe 99 0 99999 %s", errName(err))
	cwg.Wait()
	kind := "value"
	if native {
		kind = "native"
	}
	fmt.Printf("H chan %s cap=%d p=%d c=%d n=%d | %s\n", kind, capacity, producers, consumers, per, strings.Join(h.recs, ";"))
}

func stressMutex(rng *rand.Rand) {
	threads := 2 + rng.Intn(4)
	per := 1 + rng.Intn(20)
	m := value.NewMutex()
	h := &histLog{}
	counter := 0
	var wg sync.WaitGroup
	for t := 0; t < threads; t++ {
		wg.Add(1)
		r := rand.New(rand.NewSource(rng.Int63()))
		go func(a int) {
			defer wg.Done()
			for i := 0; i < per; i++ {
				jitter(r)
				m.Lock()
				h.add("en %d 0", a)
				c := counter
				jitter(r)
				counter = c + 1
				h.add("lv %d 0", a)
				if err := m.Unlock(); !err.IsUndefined() {
					h.add("ue %d 0 %s", a, errName(err))
				}
			}
		}(t)
	}
	wg.Wait()
	fmt.Printf("H mutex t=%d n=%d counter=%d | %s\n", threads, per, counter, strings.Join(h.recs, ";"))
}

func stressRW(rng *rand.Rand) {
	writers := 1 + rng.Intn(2)
	readers := 1 + rng.Intn(3)
	per := 1 + rng.Intn(12)
	m := value.NewRWMutex()
	h := &histLog{}
	var wg sync.WaitGroup
	for t := 0; t < writers; t++ {
		wg.Add(1)
		r := rand.New(rand.NewSource(rng.Int63()))
		go func(a int) {
			defer wg.Done()
			for i := 0; i < per; i++ {
				jitter(r)
				m.Lock()
				h.add("en %d 0", a)
				jitter(r)
				h.add("lv %d 0", a)
				m.Unlock()
			}
		}(t)
	}
	for t := 0; t < readers; t++ {
		wg.Add(1)
		r := rand.New(rand.NewSource(rng.Int63()))
		go func(a int) {
			defer wg.Done()
			for i := 0; i < per; i++ {
				jitter(r)
				m.ReadLock()
				h.add("ren %d 0", a)
				jitter(r)
				h.add("rlv %d 0", a)
				m.ReadUnlock()
			}
		}(100 + t)
	}
	wg.Wait()
	fmt.Printf("H rwmutex w=%d r=%d n=%d | %s\n", writers, readers, per, strings.Join(h.recs, ";"))
}

func stressOnceWG(rng *rand.Rand) {
	threads := 2 + rng.Intn(5)
	o := value.NewOnce()
	w := &value.WaitGroup{}
	h := &histLog{}
	w.Add(threads)
	h.add("wa 99 0 %d", threads)
	var done sync.WaitGroup
	for t := 0; t < threads; t++ {
		done.Add(1)
		r := rand.New(rand.NewSource(rng.Int63()))
		go func(a int) {
			defer done.Done()
			jitter(r)
			o.Native().Do(func() {
				jitter(r)
				h.add("ob %d 0", a)
			})
			h.add("or %d 0", a)
			jitter(r)
			h.add("wd %d 0", a)
			w.End()
		}(t)
	}
	h.add("wb 99 0")
	w.Wait()
	h.add("wr 99 0")
	done.Wait()
	fmt.Printf("H oncewg t=%d | %s\n", threads, strings.Join(h.recs, ";"))
}
