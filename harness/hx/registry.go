// Package hx: registry shared by the harness sub-commands.
// exec domains answer one line per operation line; probes print JSON.
package hx

import (
	"fmt"
	"sort"
)

// ExecFunc handles the fields after the domain tag and returns the answer line.
type ExecFunc func(fields []string) string

var execDomains = map[string]ExecFunc{}

func RegisterExec(tag string, f ExecFunc) {
	if _, ok := execDomains[tag]; ok {
		panic("duplicate exec domain " + tag)
	}
	execDomains[tag] = f
}

func Exec(tag string) (ExecFunc, bool) { f, ok := execDomains[tag]; return f, ok }

// ProbeFunc writes a JSON document describing a finite table of the real code.
type ProbeFunc func(args []string) (any, error)

var probes = map[string]ProbeFunc{}

func RegisterProbe(name string, f ProbeFunc) {
	if _, ok := probes[name]; ok {
		panic("duplicate probe " + name)
	}
	probes[name] = f
}

func Probe(name string) (ProbeFunc, bool) { f, ok := probes[name]; return f, ok }

func Names() (ex []string, pr []string) {
	for k := range execDomains {
		ex = append(ex, k)
	}
	for k := range probes {
		pr = append(pr, k)
	}
	sort.Strings(ex)
	sort.Strings(pr)
	return
}

// SafeExec runs f and maps a Go panic to the answer "panic <class>".
func SafeExec(f ExecFunc, fields []string) (out string) {
	defer func() {
		if r := recover(); r != nil {
			out = "panic " + PanicClass(r)
		}
	}()
	return f(fields)
}

func PanicClass(r any) string {
	s := fmt.Sprint(r)
	if len(s) > 120 {
		s = s[:120]
	}
	b := []byte(s)
	for i, c := range b {
		if c == '\n' || c == '\t' || c == '\r' {
			b[i] = ' '
		}
	}
	return string(b)
}

// SubFunc is an extra sub-command (program worker, stress driver, …); returns the exit code.
type SubFunc func(args []string) int

var subs = map[string]SubFunc{}

func RegisterSub(name string, f SubFunc) {
	if _, ok := subs[name]; ok {
		panic("duplicate sub-command " + name)
	}
	subs[name] = f
}
func Sub(name string) (SubFunc, bool)   { f, ok := subs[name]; return f, ok }
