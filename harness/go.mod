module elkverif

go 1.25.0

require github.com/elk-language/elk v0.0.0

replace github.com/elk-language/elk => /repo
