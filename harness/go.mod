module elkverif

go 1.25.0

require (
	github.com/cespare/xxhash/v2 v2.2.0
	github.com/elk-language/elk v0.0.0
	github.com/fatih/color v1.15.0
	github.com/rivo/uniseg v0.4.7
)

require (
	github.com/ALTree/bigfloat v0.2.0 // indirect
	github.com/aymanbagabas/go-osc52/v2 v2.0.1 // indirect
	github.com/bmatcuk/doublestar/v4 v4.8.0 // indirect
	github.com/charmbracelet/bubbles v0.21.0 // indirect
	github.com/charmbracelet/bubbletea v1.3.6 // indirect
	github.com/charmbracelet/colorprofile v0.2.3-0.20250311203215-f60798e515dc // indirect
	github.com/charmbracelet/harmonica v0.2.0 // indirect
	github.com/charmbracelet/lipgloss v1.1.0 // indirect
	github.com/charmbracelet/x/ansi v0.9.3 // indirect
	github.com/charmbracelet/x/cellbuf v0.0.13-0.20250311204145-2c3ea96c31dd // indirect
	github.com/charmbracelet/x/term v0.2.1 // indirect
	github.com/elk-language/go-prompt v1.3.1 // indirect
	github.com/google/go-cmp v0.6.0 // indirect
	github.com/k0kubun/pp/v3 v3.3.0 // indirect
	github.com/lucasb-eyer/go-colorful v1.2.0 // indirect
	github.com/mattn/go-colorable v0.1.14 // indirect
	github.com/mattn/go-isatty v0.0.20 // indirect
	github.com/mattn/go-runewidth v0.0.16 // indirect
	github.com/muesli/ansi v0.0.0-20230316100256-276c6243b2f6 // indirect
	github.com/muesli/cancelreader v0.2.2 // indirect
	github.com/muesli/termenv v0.16.0 // indirect
	github.com/pkg/term v1.2.0-beta.2 // indirect
	github.com/xo/terminfo v0.0.0-20220910002029-abceb7e1c41e // indirect
	golang.org/x/exp v0.0.0-20250305212735-054e65f0b394 // indirect
	golang.org/x/mod v0.34.0 // indirect
	golang.org/x/sync v0.20.0 // indirect
	golang.org/x/sys v0.42.0 // indirect
	golang.org/x/text v0.8.0 // indirect
	golang.org/x/tools v0.43.0 // indirect
)

replace github.com/elk-language/elk => /repo
