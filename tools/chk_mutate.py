#!/usr/bin/env python3
"""Mutation self-test runner for the chk builder (C31, C27, C11, C12).
usage: tools/chk_mutate.py C31 [names…]     (ELK_REPO must point at the elk worktree)
Applies one textual mutation at a time to the elk worktree, checks `go build ./...`, runs `./check <prop>` and
records whether a VIOLATION with a concrete input was printed; restores the file afterwards."""
import os
import subprocess
import sys
import time

REPO = os.environ["ELK_REPO"]
ROOT = os.path.dirname(os.path.dirname(os.path.abspath(__file__)))

M = {
 "C31": [
  ("boundary-check-inverted", "types/checker/local.go",
   "\t\t\tif !unhygienic {\n\t\t\t\treturn nil, nil\n\t\t\t}", "\t\t\tif unhygienic {\n\t\t\t\treturn nil, nil\n\t\t\t}"),
  ("boundary-env-pushed-as-default", "types/checker/local.go",
   "return c.pushLocalEnv(newLocalEnvironment(c.currentLocalEnv(), macroBoundaryLocalEnvType))",
   "return c.pushLocalEnv(newLocalEnvironment(c.currentLocalEnv(), defaultLocalEnvType))"),
  ("unhygienic-flag-not-restored", "types/checker/checker.go",
   "\tnode.Node = c.checkExpression(node.Node.(ast.ExpressionNode))\n\n\tc.setUnhygienic(prevUnhygienic)",
   "\tnode.Node = c.checkExpression(node.Node.(ast.ExpressionNode))\n\n\tc.setUnhygienic(prevUnhygienic || true)"),
  ("expansion-checked-in-plain-nested-env", "types/checker/checker.go",
   "\tc.pushMacroBoundaryLocalEnv()\n\tresultType, _ := c.checkStatements(node.Body, false)",
   "\tc.pushNestedLocalEnv(defaultLocalEnvType)\n\tresultType, _ := c.checkStatements(node.Body, false)"),
  ("conditional-flag-dropped", "types/checker/local.go",
   "\t\tcase conditionalLocalEnvType:\n\t\t\tnestedInConditionalScope = true", "\t\tcase conditionalLocalEnvType:\n\t\t\tnestedInConditionalScope = false"),
  ("macro-locals-added-to-caller-env", "types/checker/local.go",
   "\tenv := c.currentLocalEnv()\n\tenv.addLocal(value.ToSymbol(name), l)",
   "\tenv := c.currentLocalEnv()\n\tif env.typ == macroBoundaryLocalEnvType && env.parent != nil {\n\t\tenv = env.parent\n\t}\n\tenv.addLocal(value.ToSymbol(name), l)"),
  ("HARMLESS-resolve-locals-renamed", "types/checker/local.go",
   "\tnameSymbol := value.ToSymbol(name)\n\tcurrentEnv := l\n",
   "\tvar nameSymbol value.Symbol = value.ToSymbol(name)\n\tvar currentEnv *localEnvironment\n\tcurrentEnv = l\n"),
 ],
 "C27": [
  ("locals-not-restored", "types/checker/checker.go", "\t\tc.localEnvs = localEnvsCopy\n\t\tc.constantScopes", "\t\t_ = localEnvsCopy\n\t\tc.constantScopes"),
  ("global-env-not-restored", "types/checker/checker.go", "\t\tc.setRuntimeGlobalEnv(envCopy)\n\t\tc.localEnvs = localEnvsCopy", "\t\tc.localEnvs = localEnvsCopy"),
  ("constant-scopes-not-restored", "types/checker/checker.go", "\t\tc.constantScopes = constantScopesCopy\n", "\t\t_ = constantScopesCopy\n"),
  ("nested-compiler-left-active", "types/checker/checker.go",
   "\t\tfor c.compiler != nil && c.compiler.Parent() != nil {\n\t\t\tc.compiler = c.compiler.Parent()\n\t\t}\n", ""),
  ("local-snapshot-shares-the-maps", "types/checker/local.go",
   "\t\tnewLocalEnv := &localEnvironment{\n\t\t\tindex:  localEnv.index,\n\t\t\tlocals: make(map[value.Symbol]*local),",
   "\t\tnewLocalEnv := &localEnvironment{\n\t\t\tindex:  localEnv.index,\n\t\t\tlocals: localEnv.locals,"),
  ("previous-result-not-popped", "vm/thread.go",
   "\t} else {\n\t\t// pop the return value of the last run\n\t\tvm.pop()\n\t}\n\tvm.runWithState()\n\n\terr := vm.Err()\n\tif !err.IsUndefined() {\n\t\treturn value.Undefined, err\n\t}\n\treturn vm.peek(), value.Undefined\n}\n\nfunc (vm *Thread) InterpretBreakpoint",
   "\t}\n\tvm.runWithState()\n\n\terr := vm.Err()\n\tif !err.IsUndefined() {\n\t\treturn value.Undefined, err\n\t}\n\treturn vm.peek(), value.Undefined\n}\n\nfunc (vm *Thread) InterpretBreakpoint"),
  ("anonymous-mixins-conflated-again", "types/mixin.go", "\tanonymous := m.name == \"\"\n", "\tanonymous := false\n"),
  ("evaluate-does-not-clear-errors", "repl/repl.go",
   "\t\tisFailure := dl.IsFailure()\n\t\te.elkTypechecker.ClearErrors()\n\t\tif isFailure {\n\t\t\treturn\n\t\t}\n\t}\n\n\texecutionFinishedCtx",
   "\t\tisFailure := dl.IsFailure()\n\t\tif isFailure {\n\t\t\treturn\n\t\t}\n\t}\n\n\texecutionFinishedCtx"),
  ("evaluate-does-not-reset-vm-error", "repl/repl.go", "\t\te.vm.PrintError()\n\t\te.vm.ResetError()\n", "\t\te.vm.PrintError()\n"),
  ("HARMLESS-copies-taken-in-other-order", "types/checker/checker.go",
   "\tconstantScopesCopy := c.deepCopyConstantScopes(c.runtimeEnv, envCopy)\n\tmethodScopesCopy := c.deepCopyMethodScopes(c.runtimeEnv, envCopy)",
   "\tmethodScopesCopy := c.deepCopyMethodScopes(c.runtimeEnv, envCopy)\n\tconstantScopesCopy := c.deepCopyConstantScopes(c.runtimeEnv, envCopy)"),
 ],
 "C11": [
  ("foreach-returns-without-waiting", "concurrent/foreach.go", "\tfor range cap(sem) {\n\t\tsem <- true\n\t}\n", ""),
  ("foreach-one-permit-too-many", "concurrent/foreach.go", "sem := make(chan bool, concurrencyLimit)", "sem := make(chan bool, concurrencyLimit+1)"),
  ("foreach-skips-last-element", "concurrent/foreach.go", "\tfor _, element := range collection {\n\t\tsem <- true",
   "\tfor i, element := range collection {\n\t\tif i > 2 && i == len(collection)-1 {\n\t\t\tbreak\n\t\t}\n\t\tsem <- true"),
  ("diagnostics-appended-without-lock", "position/diagnostic/diagnostic.go",
   "func (e *SyncDiagnosticList) Append(err *Diagnostic) {\n\te.Mutex.Lock()\n\te.DiagnosticList = append(e.DiagnosticList, err)\n\te.Mutex.Unlock()\n}",
   "func (e *SyncDiagnosticList) Append(err *Diagnostic) {\n\tl := e.DiagnosticList\n\truntime.Gosched()\n\te.DiagnosticList = append(l, err)\n}"),
  ("bodies-skipped-after-three-errors", "types/checker/method.go",
   "\t\t\tmethod := methodCheck.method\n\t\t\tnode := methodCheck.node\n\n\t\t\tvar mode mode",
   "\t\t\tmethod := methodCheck.method\n\t\t\tnode := methodCheck.node\n\t\t\tif len(c.Errors.DiagnosticList) > 2 {\n\t\t\t\treturn\n\t\t\t}\n\n\t\t\tvar mode mode"),
  ("HARMLESS-foreach-with-waitgroup", "concurrent/foreach.go",
   "\tfor range cap(sem) {\n\t\tsem <- true\n\t}\n", "\tfor i := 0; i < cap(sem); i++ {\n\t\tsem <- true\n\t}\n"),
 ],
 "C12": [
  ("flags-saved-after-hasDefer-cleared", "types/checker/method.go",
   "\tprevFlags := c.flags\n\tprevHasDefer := c.hasDefer()\n\tc.setHasDefer(false)\n", "\tprevHasDefer := c.hasDefer()\n\tc.setHasDefer(false)\n\tprevFlags := c.flags\n"),
  ("return-type-reset-to-nil", "types/checker/method.go",
   "\tc.returnType = prevReturnType\n\tc.throwType = prevThrowType\n\tc.mode = prevMode", "\tc.returnType = nil\n\t_ = prevReturnType\n\tc.throwType = prevThrowType\n\tc.mode = prevMode"),
  ("throw-type-not-restored", "types/checker/method.go",
   "\tc.returnType = prevReturnType\n\tc.throwType = prevThrowType\n\tc.mode = prevMode", "\tc.returnType = prevReturnType\n\t_ = prevThrowType\n\tc.mode = prevMode"),
  ("catch-scopes-not-restored", "types/checker/method.go", "\tc.catchScopes = prevCatchScopes\n\treturn typedReturnTypeNode, typedThrowTypeNode", "\t_ = prevCatchScopes\n\treturn typedReturnTypeNode, typedThrowTypeNode"),
  ("mode-not-restored", "types/checker/method.go", "\tc.mode = prevMode\n\tc.flags = prevFlags\n\tc.catchScopes", "\tc.flags = prevFlags\n\tc.catchScopes"),
  ("overloads-rewritten-in-place", "types/checker/method.go",
   "\t\tnewOverloads := make([]*types.Method, len(method.Overloads))\n\t\tfor i, overload := range method.Overloads {\n\t\t\tnewOverloads[i] = c.replaceTypeParametersInMethodCopy(overload, typeArgs, replaceMethodTypeParams)\n\t\t}\n\t\tmethodCopy.Overloads = newOverloads\n",
   "\t\tfor i, overload := range method.Overloads {\n\t\t\tmethod.Overloads[i] = c.replaceTypeParametersInMethod(overload, typeArgs, replaceMethodTypeParams)\n\t\t}\n"),
  ("HARMLESS-restore-lines-reordered", "types/checker/method.go",
   "\tc.mode = prevMode\n\tc.flags = prevFlags\n\tc.catchScopes = prevCatchScopes", "\tc.catchScopes = prevCatchScopes\n\tc.flags = prevFlags\n\tc.mode = prevMode"),
 ],
}


def sh(cmd, cwd, env=None, timeout=3000):
    p = subprocess.run(cmd, cwd=cwd, env=env, stdout=subprocess.PIPE, stderr=subprocess.STDOUT, text=True, timeout=timeout)
    return p.returncode, p.stdout


def main():
    prop = sys.argv[1]
    only = set(sys.argv[2:])
    genv = {k: v for k, v in os.environ.items() if k not in ("GOFLAGS", "GOTOOLCHAIN", "GOSUMDB")}
    genv["GOPROXY"] = "off"
    for name, path, old, new in M[prop]:
        if only and name not in only:
            continue
        fp = os.path.join(REPO, path)
        src = open(fp).read()
        if src.count(old) != 1:
            print(f"{prop} {name}: PATTERN-NOT-UNIQUE ({src.count(old)})", flush=True)
            continue
        mutated = src.replace(old, new)
        if "runtime.Gosched" in new and '"runtime"' not in mutated:
            mutated = mutated.replace('import (\n', 'import (\n\t"runtime"\n', 1)
        open(fp, "w").write(mutated)
        try:
            rc, log = sh(["go", "build", "./..."], REPO, genv)
            if rc != 0:
                print(f"{prop} {name}: DOES-NOT-BUILD {log[-300:]}", flush=True)
                continue
            t0 = time.time()
            rc, log = sh([os.path.join(ROOT, "check"), prop], ROOT)
            viol = [l for l in log.splitlines() if l.startswith("VIOLATION")]
            concrete = [l for l in viol if "no-failing-input-found" not in l]
            last = log.strip().splitlines()[-1] if log.strip() else ""
            details = []
            import json
            for l in concrete[:2]:
                rp = l.split("replay=")[1].split()[0]
                try:
                    r = json.load(open(rp))
                    details.append(f"{r['kind']}: {str(r['detail'])[:160]}")
                except Exception:
                    pass
            print(f"{prop} {name}: exit={rc} violations={len(viol)} concrete={len(concrete)} wall={time.time() - t0:.0f}s | {last}", flush=True)
            for d in details:
                print("      " + d, flush=True)
        finally:
            open(fp, "w").write(src)
    sh(["git", "checkout", "--", "."], REPO)


if __name__ == "__main__":
    main()
