#!/bin/bash
# tools/seedtest.sh PATCH PROP [tier] : apply a seeded breaking change to /repo, run the check, undo
P=$1; PROP=$2; TIER=${3:-quick}
cd /repo || exit 1
git diff --quiet || { echo "/repo dirty"; exit 2; }
git apply "$P" || { echo "patch does not apply"; exit 3; }
cd /verif && timeout 3000 ./check $PROP --tier $TIER 2>&1 | grep "^VIOLATION\|tier=" | cut -c1-200
git -C /repo checkout -- .
git -C /repo status --short | head -3
