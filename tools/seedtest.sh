#!/bin/bash
# tools/seedtest.sh PATCH PROP [tier] : apply a seeded breaking change to /repo, run the check, undo
P=$1; PROP=$2; TIER=${3:-quick}
cd /repo || exit 1
git diff --quiet || { echo "/repo dirty"; exit 2; }
git apply "$P" || { echo "patch does not apply"; exit 3; }
cd /verif && timeout 3000 ./check $PROP --tier $TIER 2>&1 | grep "^VIOLATION\|tier=" | cut -c1-200
git -C /repo checkout -- .
# generated tables and evidence written by this run describe the changed tree: restore the committed ones
git -C /verif checkout -- lean/ElkVerif/Gen evidence 2>/dev/null
git -C /repo status --short | head -3
