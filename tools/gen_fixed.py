#!/usr/bin/env python3
"""Rebuilds the `fixed` list of known_findings.json from the fix: commits of /repo (since the pinned snapshot).
Property attribution: explicit table below, else by the builder branch the commit came from and the files touched."""
import json, subprocess, re
def sh(*a): return subprocess.run(a, capture_output=True, text=True).stdout
BASE = "da13067"
AG = {"num": ["C06", "C07"], "coll": ["C24", "C17", "C26"], "str": ["C20", "C19"], "date": ["C22", "C23"], "cmp": ["C18", "C08"],
      "filt": ["C34", "C05"], "lexrx": ["C04", "C21", "C03"], "bc": ["C29", "C33", "C28"], "upv": ["C13", "C10"], "proto": ["C16", "C25", "C15"],
      "chk": ["C31", "C27", "C11", "C12"], "pat": ["C30", "C02"]}
RULES = [(r"strict_numeric|value/u?int\d|value/uint\.go|float", "C07"), (r"hash_(map|set|record)|native_hash", "C17"), (r"symbol_table", "C26"),
         (r"array_(list|tuple)|native_array", "C24"), (r"inspect|symbol\.go|char\.go|headers/(float|big_float)", "C19"), (r"value/string\.go|vm/string\.go", "C20"),
         (r"date|time_span|span", "C22"), (r"iterable|range", "C23"), (r"ext/std/test|cmd/elk", "C34"), (r"parser/ast|token/", "C05"),
         (r"regex/", "C21"), (r"lexer/", "C04"), (r"parser/parser\.go", "C03"), (r"bytecode_function|bytecode/", "C29"), (r"pattern", "C30"),
         (r"narrow", "C02"), (r"repl|global_environment|checker\.go", "C27"), (r"macro|unhygienic|local\.go", "C31"), (r"mutex|channel|once|wait_group", "C25"),
         (r"promise|thread_pool", "C16")]
MANUAL = {  # integrator's own commits
    "LogicalExpressionNode.splice": "C03", "growValueStack computed negated": "C10", "optimised call sites recorded": "C15",
    "checkMethod reset": "C12", "explicit `return value`": "C14", "return/break/continue out of a `do`": "C13",
    "a `yield` used as the last statement": "C15", "CreateCompiler wrote the shared": "C11", "narrowing after a branch that never completes": "C02", "Int64#<<< and Int64#>>> called as methods": "C08", "outside of a quote made the checker panic": "C03", "an error unwound scopes": "C13", "`continue` did not close": "C13",
}
subj2agent = {}
for a in AG:
    for l in sh("git", "-C", "/repo", "log", "--format=%s", f"{BASE}..verif-{a}").splitlines():
        subj2agent.setdefault(l, a)
fixed = []
for l in sh("git", "-C", "/repo", "log", "--reverse", "--format=%h\t%s", f"{BASE}..main").splitlines():
    h, s = l.split("\t", 1)
    if not s.startswith("fix:"):
        continue
    prop = None
    for k, v in MANUAL.items():
        if k in s:
            prop = v
    files = sh("git", "-C", "/repo", "show", "--name-only", "--format=", h)
    a = subj2agent.get(s)
    if prop is None and a:
        cands = AG[a]
        prop = cands[0]
        for rx, p in RULES:
            if p in cands and re.search(rx, files):
                prop = p
                break
    fixed.append({"property": prop or "C01", "commit": h, "what": s[len("fix: "):], "files": files.split()})
k = json.load(open("/verif/known_findings.json"))
old = {f.get("commit"): f for f in k.get("fixed", [])}
for f in fixed:   # keep hand-written descriptions (with the failing input) where they exist
    o = old.get(f["commit"])
    if o and len(o.get("what", "")) > len(f["what"]):
        f["what"] = o["what"]
        if o.get("also"):
            f["also"] = o["also"]
k["fixed"] = fixed
json.dump(k, open("/verif/known_findings.json", "w"), indent=1)
print(len(fixed), "fixed entries")
