#!/bin/sh
# tools/mkworktree.sh NAME  — builder sandbox: /root/w/NAME/verif (branch NAME of /verif) and
# /root/w/NAME/repo (branch verif-NAME of /repo). Use with ELK_REPO=/root/w/NAME/repo.
set -e
N=$1
mkdir -p /root/w/$N
git -C /verif worktree add -q -b $N /root/w/$N/verif HEAD
git -C /repo worktree add -q -b verif-$N /root/w/$N/repo HEAD
echo "export ELK_REPO=/root/w/$N/repo; cd /root/w/$N/verif"
