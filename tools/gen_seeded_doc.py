#!/usr/bin/env python3
"""Rewrites the table between <!-- SEEDED:BEGIN --> and <!-- SEEDED:END --> in DESIGN.md from seeded/*/meta.json"""
import json, glob, os, re
rows = []
for f in sorted(glob.glob('/verif/seeded/*/meta.json')):
    m = json.load(open(f))
    det = "; ".join(f"{k}: {v}" for k, v in m.get("detected_by", {}).items())
    rows.append(f"| {m['id']} | {m['property']} | {m['change'][:160]} | {m['needs'][:140]} | {det[:330]} |")
tab = ("| id | property | change | needs | checks run and outcome |\n|---|---|---|---|---|\n" + "\n".join(rows) + "\n")
p = '/verif/DESIGN.md'
s = open(p).read()
if '<!-- SEEDED:BEGIN -->' not in s:
    s = s.replace("missed it and what was strengthened). Builders' own mutation self-tests are tabulated in `docs/Cxx.md`.",
                  "missed it and what was strengthened). Builders' own mutation self-tests are tabulated in `docs/Cxx.md`.\n\n<!-- SEEDED:BEGIN -->\n<!-- SEEDED:END -->")
s = re.sub(r"<!-- SEEDED:BEGIN -->.*?<!-- SEEDED:END -->", "<!-- SEEDED:BEGIN -->\n" + tab.replace("\\", "\\\\") + "<!-- SEEDED:END -->", s, flags=re.S)
open(p, 'w').write(s)
print(len(rows), "seeded rows")
