#!/usr/bin/env python3
"""Mutation self-test for C24, C17, C26 (builder coll): applies one breaking edit at a time to the elk
worktree ($ELK_REPO), checks that it still builds, runs the quick check, records VIOLATION / quiet, reverts.
usage: tools/coll_mutations.py [C24|C17|C26 ...]   -> prints a markdown table"""
import os
import subprocess
import sys

REPO = os.environ["ELK_REPO"]
ROOT = os.path.dirname(os.path.dirname(os.path.abspath(__file__)))

# (property, id, file, old, new, expect_violation, description)
M = [
    ("C24", "M1", "value/array_list_of_value.go", "if index >= length || index < -length {",
     "if index >= length || index <= -length {", True, "NormalizeArrayIndex rejects index -length (off by one)"),
    ("C24", "M2", "value/array_list_of_value.go",
     "\t\t\tnewList := make(ArrayListOfValue, len(*l), len(*l)+len(*o))\n\t\t\tcopy(newList, *l)\n\t\t\tnewList = append(newList, *o...)\n\t\t\treturn &newList, Undefined\n\t\tcase *ArrayTupleOfValue:",
     "\t\t\tnewList := make(ArrayListOfValue, len(*o), len(*l)+len(*o))\n\t\t\tcopy(newList, *o)\n\t\t\tnewList = append(newList, *l...)\n\t\t\treturn &newList, Undefined\n\t\tcase *ArrayTupleOfValue:",
     True, "list + list concatenates the operands in the wrong order"),
    ("C24", "M3", "value/array_list_of_value.go", "\t\tif o < 0 {\n\t\t\treturn nil, Ref(Errorf(\n\t\t\t\tOutOfRangeErrorClass,\n\t\t\t\t\"list repeat count cannot be negative",
     "\t\tif o <= 0 {\n\t\t\treturn nil, Ref(Errorf(\n\t\t\t\tOutOfRangeErrorClass,\n\t\t\t\t\"list repeat count cannot be negative", True,
     "list * 0 is an error instead of the empty list"),
    ("C24", "M4", "value/array_list_of_value.go", "n := (*l)[from:to:to]", "n := (*l)[from:to]", True,
     "D8 reverted: a slice keeps the source's spare capacity"),
    ("C24", "M5", "value/native_array_list.go", "newList := make(NativeArrayList[T], l.Length(), l.Capacity()+newSlots)",
     "newList := make(NativeArrayList[T], l.Length(), l.Length()+newSlots)", True,
     "element-specialised lists only: Grow adds to the length instead of the capacity"),
    ("C24", "M6", "vm/array_list.go", "\t\t\t\t\t// the next element has moved into slot i\n\t\t\t\t\ti--\n", "", True,
     "ArrayList#remove skips the element after a removed one"),
    ("C24", "M7", "vm/tuple.go", "\t\t\tcase *value.RightOpenRange:\n\t\t\t\tstart = r.Start.AsInt()\n\t\t\t\tend = r.End.AsInt() - 1",
     "\t\t\tcase *value.RightOpenRange:\n\t\t\t\tstart = r.Start.AsInt()\n\t\t\t\tend = r.End.AsInt()", True,
     "a..<b slices include index b"),
    ("C24", "M8", "value/array_list_of_value.go", "\ts := *l\n\tcopy(s[i:], s[i+1:])\n\t*l = s[:len(s)-1]\n}\n\nfunc (l *ArrayListOfValue) LeftCapacity",
     "\ts := *l\n\tcopy(s[i:], s[i+1:])\n\t*l = s[:len(s)-1:len(s)-1]\n}\n\nfunc (l *ArrayListOfValue) LeftCapacity", True,
     "RemoveAt drops the spare capacity (capacity is Elk-visible)"),
    ("C24", "H1", "value/array_list_of_value.go", "\t\tindex = length + index\n", "\t\tindex += length\n", False,
     "harmless: index += length"),

    ("C17", "M1", "vm/hash_map.go", "\thashMap.Elements--\n\thashMap.version++\n", "\thashMap.version++\n", True,
     "Delete does not decrement Elements"),
    ("C17", "M2", "vm/hash_map.go",
     "\tpair := hashMap.Table[index]\n\tif pair.Key().IsUndefined() {\n\t\t// the index of a free (empty or deleted) slot: the key is absent\n\t\treturn value.Undefined, value.Undefined\n\t}\n\n\treturn pair.Value(), value.Undefined",
     "\tpair := hashMap.Table[index]\n\n\treturn pair.Value(), value.Undefined", True,
     "D7 reverted: Get returns the tombstone marker"),
    ("C17", "M3", "vm/hash_set.go", "\tif valInSlot == DeletedHashSetValue || valInSlot.IsUndefined() {\n\t\treturn false, value.Undefined\n\t}\n\treturn true, value.Undefined",
     "\tif valInSlot.IsUndefined() {\n\t\treturn false, value.Undefined\n\t}\n\treturn true, value.Undefined", True,
     "HashSet#contains treats a deleted slot as a member"),
    ("C17", "M4", "vm/hash_map.go",
     "\ttarget.version++\n\tfor entry := range source.All() {\n\t\ti, err := HashMapOfValueIndex(vm, target, entry.Key())\n\t\tif !err.IsUndefined() {\n\t\t\treturn err\n\t\t}\n\t\tif i == -1 {\n\t\t\tpanic(\"no room in target hashmap during copy\")\n\t\t}\n\t\tslot := target.Table[i]\n\t\tif slot.Key().IsUndefined() {",
     "\ttarget.version++\n\tfor entry := range source.All() {\n\t\ti, err := HashMapOfValueIndex(vm, target, entry.Key())\n\t\tif !err.IsUndefined() {\n\t\t\treturn err\n\t\t}\n\t\tif i == -1 {\n\t\t\tpanic(\"no room in target hashmap during copy\")\n\t\t}\n\t\tslot := target.Table[i]\n\t\tif true {",
     True, "CopyInterface only (records / native operands): counts keys already present"),
    ("C17", "M5", "vm/hash_map.go",
     "func HashMapOfValueEqual(vm *Thread, x *HashMapOfValue, y *HashMapOfValue) (bool, value.Value) {\n\tif x == y {\n\t\treturn true, value.Undefined\n\t}\n\tif x.Length() != y.Length() {",
     "func HashMapOfValueEqual(vm *Thread, x *HashMapOfValue, y *HashMapOfValue) (bool, value.Value) {\n\tif x == y {\n\t\treturn true, value.Undefined\n\t}\n\tif x.Length() > y.Length() {",
     True, "== accepts a map that is a proper sub-map of the other"),
    ("C17", "M6", "vm/hash_map.go", "\t\t} else {\n\t\t\tindex++\n\t\t}\n\n\t\t// when we reach the start index\n\t\t// all slots are checked:\n\t\t// a deleted slot seen on the way is still free\n\t\tif index == startIndex {\n\t\t\treturn deletedIndex, value.Undefined",
     "\t\t} else {\n\t\t\tindex++\n\t\t}\n\n\t\t// when we reach the start index\n\t\t// all slots are checked:\n\t\t// a deleted slot seen on the way is still free\n\t\tif index == startIndex {\n\t\t\treturn -1, value.Undefined",
     True, "D7 reverted (maps): Index answers -1 although a deleted slot is free"),
    ("C17", "M7", "vm/hash_set.go", "\t} else if entry == DeletedHashSetValue {\n\t\t// this is a zombie slot, just overwrite it's content\n\t\tset.elements++\n\t\tnewValue = true",
     "\t} else if entry == DeletedHashSetValue {\n\t\t// this is a zombie slot, just overwrite it's content\n\t\tnewValue = true", True,
     "HashSet append into a deleted slot does not count the element"),
    ("C17", "H1", "vm/hash_map.go", "\t\tif index == capacity-1 {\n\t\t\tindex = 0\n\t\t} else {\n\t\t\tindex++\n\t\t}\n\n\t\t// when we reach the start index\n\t\t// all slots are checked:\n\t\t// a deleted slot seen on the way is still free\n\t\tif index == startIndex {\n\t\t\treturn deletedIndex, value.Undefined",
     "\t\tindex = (index + 1) % capacity\n\n\t\t// when we reach the start index\n\t\t// all slots are checked:\n\t\t// a deleted slot seen on the way is still free\n\t\tif index == startIndex {\n\t\t\treturn deletedIndex, value.Undefined",
     False, "harmless: wrap with a modulo"),

    ("C26", "M1", "value/symbol_table.go", "\tval, ok := s.nameTable[name]\n\tif ok {\n\t\treturn val\n\t}\n\n\tsymbol := Symbol(len(s.idTable))",
     "\tsymbol := Symbol(len(s.idTable))", True, "Add is not idempotent (no lookup before interning)"),
    ("C26", "M2", "value/symbol_table.go", "\tif symbol >= Symbol(len(s.idTable)) || symbol < 0 {\n\t\treturn \"\", false\n\t}",
     "\tif symbol > Symbol(len(s.idTable)) || symbol < 0 {\n\t\treturn \"\", false\n\t}", True, "GetName accepts id == len (off by one)"),
    ("C26", "M3", "value/symbol_table.go", "func (s *SymbolTableStruct) Add(name string) Symbol {\n\ts.mutex.Lock()\n\tdefer s.mutex.Unlock()\n\n\tval, ok := s.nameTable[name]",
     "func (s *SymbolTableStruct) Add(name string) Symbol {\n\ts.mutex.RLock()\n\tval, ok := s.nameTable[name]\n\ts.mutex.RUnlock()\n\tif ok {\n\t\treturn val\n\t}\n\ts.mutex.Lock()\n\tdefer s.mutex.Unlock()\n\n\tval, ok = s.nameTable[name]\n\tok = false",
     True, "Add checks under the read lock and does not re-check under the write lock (race: duplicate ids)"),
    ("C26", "M4", "value/symbol_table.go", "return symbol < Symbol(len(s.idTable)) && symbol >= 0", "return symbol < Symbol(len(s.idTable)) && symbol > 0", True,
     "ExistsId denies symbol 0 (fix reverted)"),
    ("C26", "M5", "value/symbol_table.go", "\tsymbol := Symbol(len(s.idTable))\n\ts.nameTable[name] = symbol\n\ts.idTable = append(s.idTable, name)\n\treturn symbol",
     "\tsymbol := Symbol(len(s.idTable))\n\ts.nameTable[name] = symbol\n\tif name != \"\" {\n\t\ts.idTable = append(s.idTable, name)\n\t}\n\treturn symbol",
     True, "the empty name is not appended to idTable (its id is reused)"),
    ("C26", "H1", "value/symbol_table.go", "\tsymbol := Symbol(len(s.idTable))\n\ts.nameTable[name] = symbol", "\tsymbol := Symbol(len(s.nameTable))\n\ts.nameTable[name] = symbol", False,
     "harmless: next id from len(nameTable)"),
]


def sh(cmd, cwd, timeout=3000):
    p = subprocess.run(cmd, cwd=cwd, stdout=subprocess.PIPE, stderr=subprocess.STDOUT, text=True, timeout=timeout, shell=isinstance(cmd, str))
    return p.returncode, p.stdout


def main():
    props = sys.argv[1:] or ["C24", "C17", "C26"]
    rows = []
    for prop, mid, path, old, new, expect, desc in M:
        if prop not in props:
            continue
        full = os.path.join(REPO, path)
        src = open(full).read()
        if src.count(old) != 1:
            rows.append((prop, mid, desc, "NOT-APPLIED (pattern count %d)" % src.count(old), ""))
            continue
        open(full, "w").write(src.replace(old, new))
        try:
            rc, out = sh("GOPROXY=off go build ./...", REPO)
            if rc != 0:
                rows.append((prop, mid, desc, "DOES-NOT-BUILD " + out[-200:].replace("\n", " "), ""))
                continue
            rc, out = sh(["./check", prop], ROOT)
            viol = [l for l in out.splitlines() if l.startswith("VIOLATION")]
            last = out.strip().splitlines()[-1] if out.strip() else ""
            detail = ""
            if viol:
                import json
                rp = viol[0].split("replay=")[1].split(" ")[0]
                try:
                    d = json.load(open(rp))
                    detail = (d["kind"] + ": " + json.dumps(d["input"])[:160] + " — " + str(d["detail"])[:160]).replace("|", "\\|").replace("\n", " ")
                except Exception as e:
                    detail = str(e)
            verdict = ("detected" if viol else "QUIET") if expect else ("quiet (as expected)" if not viol else "FALSE ALARM")
            if viol and all("no-failing-input-found" in v for v in viol):
                verdict += " (no-failing-input-found)"
            rows.append((prop, mid, desc, verdict, detail))
            print(prop, mid, verdict, last, flush=True)
        finally:
            open(full, "w").write(src)
    sh("git checkout -- .", REPO)
    print()
    print("| property | mutation | edit | result | first replay |")
    print("|---|---|---|---|---|")
    for r in rows:
        print("| " + " | ".join(r) + " |")


if __name__ == "__main__":
    main()
