#!/usr/bin/env python3
"""Builds the C05 known-finding proposals from the replays of a run on the fixed tree:
   python3 tools/c05_findings.py > docs/C05.findings.json   (entries to merge into known_findings.json)"""
import glob, json, re, sys
out = []
seen = set()
for f in sorted(glob.glob("replays/C05-*.json")):
    d = json.load(open(f))
    if d["kind"] != "roundtrip":
        continue
    cls = d["detail"].split("; printed=")[0][len("class="):]
    src = d["input"]["src"]
    if re.match(r"(return|throw|typeof|switch|while|until|unless|if) \(! \(", src):
        continue  # covered by C05-keyword-bang-paren
    if cls in seen:
        continue
    seen.add(cls)
    slug = re.sub(r"[^A-Za-z0-9]+", "-", cls)[:60].strip("-")
    printed = d["detail"].split("; printed=")[1]
    out.append({"property": "C05", "id": "C05-%02d-%s" % (len(out) + 1, slug),
                "match": {"kind": "roundtrip", "detail_re": "^class=" + re.escape(cls) + "; "},
                "what": "round trip fails (%s); smallest source in the elk tree: %r prints as %s" % (cls.split(":")[0], src[:120], printed[:120])})
out.append({"property": "C05", "id": "C05-keyword-bang-paren",
            "match": {"kind": "roundtrip", "input_re": "\"src\": \"(return|throw|typeof|switch|while|until|unless|if) \\(! \\("},
            "what": "`return (!(a as U)) |! b` prints as `return !(a as U) |! b`, which the parser reads as `(return !(a as U)) |! b`: "
                    "after return/throw/typeof/switch/while a `!(compound)` operand ends the keyword's argument"})
out.append({"property": "C05", "id": "C05-endless-range-operand",
            "match": {"kind": "property-fails", "input_re": "prec\\\\trt\\\\t(.* )?b:[-+] ro:\\S+ "},
            "what": "`(a...) - b` prints as `a... - b`, which parses as `a...(-b)` (theorem endless_range_witness)"})
out.append({"property": "C05", "id": "C05-range-end-lshift",
            "match": {"kind": "property-fails", "input_re": "prec\\\\trt\\\\t(.* )?r:\\S+ \\S+ (as:\\w+ )*u:<< "},
            "what": "`a...(<<b)` prints as `a...<<b`, which parses as `(a...) << b`: `<<` is not in IsValidAsEndInRangeLiteral "
                    "(theorem range_end_witness)"})
json.dump(out, sys.stdout, indent=1, ensure_ascii=False)
