#!/bin/bash
# tools/merge_branch.sh NAME: merge builder branch NAME into /verif main; generated files are regenerated
N=$1
cd /verif || exit 1
git merge --no-commit --no-ff $N >/tmp/merge_$N.log 2>&1
# generated / integrator-owned files: keep ours
for f in lean/Driver/Registry.lean MANIFEST.json known_findings.json harness/go.mod harness/go.sum vlib.py check docs/BUILDING.md docs/AGENT_COMMON.md evidence/C32.json checks/c32.py checks/c14.py; do
  if git status --short -- $f | grep -q "^\(UU\|AA\|U\|.U\)"; then git checkout --ours -- $f 2>/dev/null; git add $f; fi
done
for f in $(git status --short | grep "^\(UU\|AA\) evidence/" | awk '{print $2}'); do git checkout --ours -- $f; git add $f; done
git status --short | grep "^\(UU\|AA\|DU\|UD\)" && { echo "UNRESOLVED CONFLICTS"; exit 1; }
python3 -c "import vlib; vlib.gen_registry()"
python3 tools/genmanifest.py
git add -A
git commit -qm "merge builder branch $N" && echo merged $N
