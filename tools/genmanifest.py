#!/usr/bin/env python3
"""Regenerates MANIFEST.json from checks/cNN.py META blocks + tools/manifest_base.json."""
import importlib
import json
import os
import sys

ROOT = os.path.dirname(os.path.dirname(os.path.abspath(__file__)))
sys.path.insert(0, ROOT)
base = json.load(open(os.path.join(ROOT, "tools", "manifest_base.json")))
props = [json.loads(l) for l in open(os.path.join(ROOT, "properties.jsonl"))]
na = {x["property_id"]: x["reason"] for x in base.pop("not_applicable_reasons", [])}
checks, notapp = [], []
for p in props:
    pid = p["id"]
    path = os.path.join(ROOT, "checks", pid.lower() + ".py")
    if not os.path.exists(path):
        notapp.append({"property_id": pid, "reason": na.get(pid, "check not built yet (construction in progress; DESIGN.md §9)")})
        continue
    m = importlib.import_module("checks." + pid.lower()).META
    checks.append({
        "property_id": pid,
        "quick_cmd": f"./check {pid} --tier quick",
        "thorough_cmd": f"./check {pid} --tier thorough",
        "evidence_file": f"/verif/evidence/{pid}.json",
        "replay_cmd_template": f"./check {pid} --replay {{path}}",
        "engine": "lean4+elkh",
        "level_claimed": {"category": "proof", "text": m["level_text"], "design_ref": m.get("design_ref", "DESIGN.md §7 " + pid)},
        "level_note": m["level_note"],
        "technique": m["technique"],
    })
import subprocess
hooks = [l.split()[0] for l in subprocess.run(["git", "-C", "/repo", "log", "--reverse", "--format=%h %s", "da13067..main"],
         capture_output=True, text=True).stdout.splitlines() if " verif hook" in l]
if hooks:
    base["hooks"]["source_commits"] = hooks
base["checks"] = checks
base["not_applicable"] = notapp
json.dump(base, open(os.path.join(ROOT, "MANIFEST.json"), "w"), indent=1)
print(f"{len(checks)} checks, {len(notapp)} not_applicable")
