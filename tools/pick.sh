#!/bin/bash
# tools/pick.sh NAME [BASE]: cherry-pick the commits of branch verif-NAME (after BASE or the merge base
# with main) onto /repo main; skips commits that are already applied (empty); stops on a conflict.
N=$1
cd /repo || exit 1
BASE=${2:-$(git merge-base main verif-$N)}
for c in $(git rev-list --reverse $BASE..verif-$N); do
  if grep -q "^$(git rev-parse --short=7 $c)" /verif/tools/pick_skip.txt 2>/dev/null; then echo "skip (listed): $(git log -1 --format='%h %s' $c | cut -c1-90)"; continue; fi
  if git log main --format=%s | grep -qxF "$(git log -1 --format=%s $c)"; then echo "skip (already on main): $(git log -1 --format='%h %s' $c | cut -c1-90)"; continue; fi
  if git cherry-pick $c >/dev/null 2>&1; then echo "picked $(git log -1 --format='%h %s' $c | cut -c1-90)";
  else
    if git diff --cached --quiet && git diff --quiet; then git cherry-pick --skip; echo "empty, skipped $c";
    else echo "CONFLICT at $c: $(git log -1 --format=%s $c)"; git status --short | head; exit 1; fi
  fi
done
echo done
