#!/bin/bash
# tools/runall.sh [tier] [ids...] : run checks one after another; summary lines to stdout
TIER=${1:-quick}; shift
cd /verif
IDS=${@:-$(ls checks | grep -E '^c[0-9]+\.py$' | sed 's/\.py//' | tr a-z A-Z)}
for id in $IDS; do
  s=$(date +%s)
  timeout 3600 ./check $id --tier $TIER > /tmp/runall_$id.log 2>&1
  rc=$?
  echo "$id rc=$rc $(($(date +%s)-s))s :: $(grep -c VIOLATION /tmp/runall_$id.log) violations, $(grep -c KNOWN-FINDING /tmp/runall_$id.log) known :: $(tail -1 /tmp/runall_$id.log | cut -c1-150)"
done
