#!/usr/bin/env python3
"""tools/merge_findings.py NAME: add the builder's proposed known findings (its worktree's known_findings.json) to ours"""
import json, sys
n = sys.argv[1]
ours = json.load(open('/verif/known_findings.json'))
theirs = json.load(open(f'/root/w/{n}/verif/known_findings.json'))
ids = {f['id'] for f in ours['findings']}
added = 0
for f in theirs.get('findings', []):
    if f['id'] not in ids:
        ours['findings'].append(f); added += 1
json.dump(ours, open('/verif/known_findings.json', 'w'), indent=1)
print(f"{n}: added {added} findings:", [f['id'] for f in theirs.get('findings', []) if f['id'] not in ids])
