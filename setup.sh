#!/bin/sh
exit 0
