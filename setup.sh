#!/bin/sh
# Offline build of the framework from files on disk: Go harness (against /repo) and the Lake project.
set -e
cd "$(dirname "$0")"
mkdir -p build/bin evidence replays
unset GOTOOLCHAIN GOSUMDB || true
[ -f harness/go.sum ] || cp /repo/go.sum harness/go.sum
(cd harness && GOFLAGS=-mod=mod GOPROXY=off go build -tags verif -o ../build/bin/elkh ./cmd/elkh)
python3 -c "import vlib; vlib.gen_registry()"
(cd lean && lake build)
echo setup-ok
