# known finding C14-finally-skipped-after-abrupt-catch: the catch body throws; the finally of the same do must still run
(prog KfD14 (defs) (main (try ((throw (str "boom"))) ((catch any e1 (throw (int 7)))) (fin (print (int 0))))))
