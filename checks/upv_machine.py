"""Machine-level tie for C13 / C10: the real vm.Thread (captureUpvalue, opCloseUpvalues, Upvalue.Get/Set/Close,
call/return frames, growValueStack, driven through vm/verif_upvalue.go) against the Lean model
`Elk.Upvalue.CA`, with a model-free oracle: a python dict-of-cells reference machine.

Use from a check:      import checks.upv_machine as upv;  upv.run_machine(ctx)
Line format / answers: lean/Driver/Dom/Upvalue.lean.
"""
import json

import vlib

BIG_MAX = 1 << 20


# ------------------------------------------------------------------ reference machine (model-free oracle)

class Cells:
    """Every variable is a heap cell. Stack slots and closures (handles, frame upvalues) hold cell ids.
    No upvalue objects, no open list, no addresses, no capacity."""

    def __init__(self):
        self.cells = {}
        self.n = 0
        self.stack = []
        self.fp = 0
        self.up = []
        self.frames = []
        self.hs = []
        self.reads = []

    def new(self, v):
        self.cells[self.n] = v
        self.n += 1
        return self.n - 1

    def captured(self, cell):
        return cell in self.hs

    def step(self, p):
        """returns None, or 'unscoped' (the compiler's discipline is broken: not judged any further),
        or an error word (the operation is outside the live stack / unknown handle)"""
        o = p[0]
        a = [int(x) for x in p[1:2]] if o == "cc" else [int(x) for x in p[1:]]
        sp = len(self.stack)
        if o == "p":
            self.stack.append(self.new(a[0]))
        elif o == "o":
            if sp == 0:
                return "oob"
            if self.captured(self.stack[-1]):
                return "unscoped"
            self.stack.pop()
        elif o in ("gl", "sl", "cap"):
            i = self.fp + a[0]
            if i >= sp:
                return "oob"
            if o == "gl":
                self.reads.append(self.cells[self.stack[i]])
            elif o == "sl":
                self.cells[self.stack[i]] = a[1]
            else:
                self.hs.append(self.stack[i])
        elif o == "cl":
            # end of scope: the slots from fp+i are rebound to fresh variables (same values)
            for i in range(self.fp + a[0], sp):
                self.stack[i] = self.new(self.cells[self.stack[i]])
        elif o in ("ug", "us"):
            if a[0] >= len(self.hs):
                return "badHandle"
            if o == "ug":
                self.reads.append(self.cells[self.hs[a[0]]])
            else:
                self.cells[self.hs[a[0]]] = a[1]
        elif o in ("fg", "fs"):
            if a[0] >= len(self.up):
                return "badHandle"
            if o == "fg":
                self.reads.append(self.cells[self.up[a[0]]])
            else:
                self.cells[self.up[a[0]]] = a[1]
        elif o in ("cc", "cm"):
            if a[0] + 1 > sp:
                return "oob"
            up = self.up
            if o == "cc":
                ks = [int(k) for k in p[2].split(".")] if len(p) > 2 and p[2] else []
                if any(k >= len(self.hs) for k in ks):
                    return "badHandle"
                up = [self.hs[k] for k in ks]
            self.frames.append((self.fp, self.up))
            self.fp = sp - (a[0] + 1)
            self.up = up
        elif o == "tc":
            if self.fp + a[0] + 1 > sp:
                return "oob"
            vals = [self.cells[c] for c in self.stack[sp - (a[0] + 1):]]
            del self.stack[self.fp:]
            self.stack += [self.new(v) for v in vals]
        elif o == "ret":
            if not self.frames:
                return "noframe"
            if sp == 0 or self.fp >= sp:
                return "oob"
            rv = self.cells[self.stack[-1]]
            del self.stack[self.fp:]
            self.stack.append(self.new(rv))
            self.fp, self.up = self.frames.pop()
        elif o == "grow":
            pass
        else:
            raise ValueError(p)
        return None


def ref_run(ops):
    """(reads, index of the first op the reference machine refuses or None, reason)"""
    m = Cells()
    for i, o in enumerate(ops):
        e = m.step(o.split(" "))
        if e is not None:
            return m.reads, i, e
    return m.reads, None, None


def split_line(line):
    f = line.split("\t")
    return f[2], f[3], [o for o in f[4].split(";") if o]


def mk_line(size, mx, ops):
    return "upv\trun\t%s\t%s\t%s" % (size, mx, ";".join(ops))


def oracle(line, ans):
    """The property itself, on the implementation's answer: in a well-scoped sequence every read returns the
    current value of the variable (= what the cell machine reads), and the VM never needs a dangling pointer."""
    _, _, ops = split_line(line)
    want, stop, why = ref_run(ops)
    parts = ans.split(" | ")
    head = parts[0]
    got = [x for x in (parts[1].split(",") if len(parts) > 1 else []) if x != ""]
    wants = [str(v) for v in want]
    if head == "ok":
        upto = len(ops)
    elif head.startswith("err "):
        upto = int(head.split("@")[1])
    else:
        return f"the VM did not survive the sequence: {ans[:120]}"
    # reads of the scoped prefix must agree
    limit = len(ops) if stop is None else stop
    n_scoped_reads = len(ref_run(ops[:min(limit, upto)])[0])
    if got[:n_scoped_reads] != wants[:n_scoped_reads]:
        return (f"reads through locals/upvalues {got[:n_scoped_reads]} differ from the variables' values "
                f"{wants[:n_scoped_reads]}")
    if head.startswith("err ") and (stop is None or upto < stop):
        kind = head[4:].split("@")[0]
        if kind not in ("full", "max"):
            return f"well-scoped sequence fails in the VM with {head} (reference machine: fine)"
    if head == "ok" and stop is not None and why != "unscoped":
        return f"the VM accepted an operation the reference machine refuses ({why} at op {stop})"
    if head.startswith("err ") and stop is not None and stop < upto and why != "unscoped":
        return f"the VM accepted an operation the reference machine refuses ({why} at op {stop})"
    return None


# ------------------------------------------------------------------ generator

class Gen:
    def __init__(self, rng, ctx=None, sloppy=False, length=30):
        self.rng = rng
        self.ctx = ctx
        self.sloppy = sloppy
        self.length = length
        self.m = Cells()
        self.ops = []
        self.val = 0
        self.size = rng.choice([2, 3, 4, 5, 6, 8, 8, 16, 16, 64])
        self.cap = self.size
        self.max = BIG_MAX if rng.random() < 0.9 else rng.choice([8, 16, 32, 64, 128])

    def v(self):
        self.val += 1
        return self.val if self.rng.random() < 0.9 else self.rng.choice([0, -1, -self.val, 2 ** 62])

    def emit(self, op):
        e = self.m.step(op.split(" "))
        self.ops.append(op)
        o = op.split(" ")[0]
        if self.ctx:
            self.ctx.stat("op:" + o)
        if e is None:
            sp = len(self.m.stack)
            if o == "grow" and 2 * self.cap < self.max:
                self.cap *= 2
            # callBytecodeFunction's growth test (sp is unchanged by the call)
            if o == "cm" and float(sp) > 0.7 * float(self.cap) and 2 * self.cap < self.max:
                self.cap *= 2
        return e

    def room(self):
        return len(self.m.stack) + 1 < self.cap

    def ensure_room(self):
        while not self.room():
            if 2 * self.cap >= self.max:
                return False
            self.emit("grow")
        return True

    def close_before_pop(self):
        m = self.m
        if m.stack and m.captured(m.stack[-1]) and not (self.sloppy and self.rng.random() < 0.5):
            i = len(m.stack) - 1 - m.fp
            if i >= 0:
                # sometimes close a little more than needed
                i = max(0, i - self.rng.choice([0, 0, 0, 1, 2]))
                self.emit("cl %d" % i)

    def one(self):
        r, m = self.rng, self.m
        sp, fp = len(m.stack), m.fp
        live = max(0, sp - fp)
        choices = [("p", 5)]
        if live > 0 or self.sloppy:
            choices += [("gl", 2), ("sl", 2), ("cap", 4)]
        if live > 1 or (self.sloppy and sp > 0):
            choices += [("o", 2)]
        choices += [("cl", 1)]
        if m.hs:
            choices += [("ug", 3), ("us", 2)]
        if m.up:
            choices += [("fg", 2), ("fs", 1)]
        if sp > 0:
            choices += [("cc", 2), ("cm", 1.5)]
        if live > 0:
            choices += [("tc", 1)]
        if m.frames:
            choices += [("ret", 2.5)]
        choices += [("grow", 1)]
        if self.sloppy:
            choices += [("wild", 2)]
        tot = sum(w for _, w in choices)
        x = r.random() * tot
        for o, w in choices:
            x -= w
            if x <= 0:
                break
        idx = lambda: r.randrange(max(1, live)) if not (self.sloppy and r.random() < 0.2) else r.randrange(live + 3)
        if o == "p":
            if not self.ensure_room() and not self.sloppy:
                return
            self.emit("p %d" % self.v())
        elif o == "o":
            self.close_before_pop()
            self.emit("o")
        elif o == "gl":
            self.emit("gl %d" % idx())
        elif o == "sl":
            self.emit("sl %d %d" % (idx(), self.v()))
        elif o == "cap":
            # bias to slots that are already captured (find path) and to the neighbours of captured slots
            capt = [i - fp for i in range(fp, sp) if m.captured(m.stack[i])]
            if capt and r.random() < 0.4:
                i = r.choice(capt) + r.choice([0, 0, 1, -1])
                i = min(max(i, 0), max(0, live - 1))
            else:
                i = idx()
            self.emit("cap %d" % i)
        elif o == "cl":
            self.emit("cl %d" % r.randrange(live + 2))
        elif o == "ug":
            self.emit("ug %d" % r.randrange(len(m.hs)))
        elif o == "us":
            self.emit("us %d %d" % (r.randrange(len(m.hs)), self.v()))
        elif o == "fg":
            self.emit("fg %d" % r.randrange(len(m.up)))
        elif o == "fs":
            self.emit("fs %d %d" % (r.randrange(len(m.up)), self.v()))
        elif o in ("cc", "cm"):
            n = r.randrange(min(3, live)) if live > 0 else 0
            if self.sloppy and r.random() < 0.3:
                n = r.randrange(sp + 1)
            n = min(n, sp - 1) if not self.sloppy else n
            if o == "cc":
                ks = [r.randrange(len(m.hs)) for _ in range(r.choice([0, 1, 1, 2, 3]))] if m.hs else []
                self.emit(("cc %d %s" % (n, ".".join(map(str, ks)))).rstrip())
            else:
                self.emit("cm %d" % n)
        elif o == "tc":
            n = r.randrange(min(3, live))
            if self.sloppy and r.random() < 0.3:
                n = r.randrange(live + 2)
            self.emit("tc %d" % n)
        elif o == "ret":
            self.emit("ret")
        elif o == "grow":
            self.emit("grow")
        elif o == "wild":
            self.emit(r.choice(["ug %d" % (len(m.hs) + r.randrange(2)), "fg %d" % (len(m.up) + r.randrange(2)),
                                "ret", "o", "gl %d" % (live + r.randrange(3)), "cc %d" % (sp + r.randrange(2)),
                                "cap %d" % (live + r.randrange(2))]))

    def line(self):
        # a prologue that makes upvalue structure likely
        for _ in range(self.rng.choice([0, 1, 2, 3, 4])):
            if self.ensure_room():
                self.emit("p %d" % self.v())
        guard = 0
        while len(self.ops) < self.length and guard < 4 * self.length:
            guard += 1
            self.one()
        # epilogue: read everything that can be read
        m = self.m
        if self.rng.random() < 0.7:
            while m.frames and self.rng.random() < 0.8 and len(m.stack) > m.fp:
                self.emit("ret")
            for k in range(len(m.hs)):
                self.emit("ug %d" % k)
            for i in range(len(m.stack) - m.fp):
                self.emit("gl %d" % i)
        return mk_line(self.size, self.max, self.ops)


def gen_line(rng, ctx=None, thorough=False):
    sloppy = rng.random() < 0.12
    length = rng.choice([4, 8, 12, 20, 30, 45] + ([80, 150] if thorough else []))
    return Gen(rng, ctx, sloppy, length).line()


def _classes(lines):
    """(model≠impl, property fails) per line; one harness process and one model process for the whole batch"""
    impl = vlib.run_impl(lines)
    model = vlib.run_model(lines)
    return [(a != b, oracle(l, a) is not None) for l, a, b in zip(lines, impl, model)]


def minimise(line, still=None):
    """Greedy chunk removal keeping the failure class; every round evaluates all candidates in one batch
    (a process pair per candidate, as vlib.ddmin would do through `still`, costs minutes)."""
    size, mx, ops = split_line(line)
    cls = _classes([line])[0]
    # shortest failing prefix first (one batch)
    pre = _classes([mk_line(size, mx, ops[:k]) for k in range(1, len(ops))])
    for k, r in enumerate(pre, 1):
        if r == cls:
            ops = ops[:k]
            break
    chunk = max(1, len(ops) // 2)
    rounds = 0
    while chunk >= 1 and rounds < 60:
        rounds += 1
        cands = [ops[:i] + ops[i + chunk:] for i in range(0, len(ops), chunk)]
        cands = [c for c in cands if len(c) < len(ops)]
        if not cands:
            break
        res = _classes([mk_line(size, mx, c) for c in cands])
        hit = [c for c, r in zip(cands, res) if r == cls]
        if hit:
            ops = hit[0]
            chunk = min(chunk, max(1, len(ops) // 2))
        elif chunk == 1:
            break
        else:
            chunk //= 2
    # smaller initial size / no limit if the failure survives
    for alt in [mk_line(2, BIG_MAX, ops), mk_line(4, BIG_MAX, ops), mk_line(8, BIG_MAX, ops), mk_line(size, BIG_MAX, ops)]:
        if alt != mk_line(size, mx, ops) and _classes([alt])[0] == cls:
            return alt
    return mk_line(size, mx, ops)


# ------------------------------------------------------------------ entry point

def extensions(line):
    """The same sequence followed by reads of everything a program could still read: a disagreement in the
    machine state (a stale slot pointer, a lost sharing) becomes a wrong or impossible read."""
    size, mx, ops = split_line(line)
    m = Cells()
    for o in ops:
        if m.step(o.split(" ")) is not None:
            return []
    reads = ["ug %d" % k for k in range(len(m.hs))] + ["fg %d" % k for k in range(len(m.up))]
    out = [ops + reads + ["gl %d" % i for i in range(len(m.stack) - m.fp)]]
    # write through every handle, then read through every other one and the locals
    w = []
    for k in range(len(m.hs)):
        w += ["us %d %d" % (k, 1000 + k)] + reads
    out.append(ops + w)
    # leave all frames first
    rets = []
    m2 = m
    depth = len(m.frames)
    if depth and len(m.stack) > m.fp:
        out.append(ops + ["ret"] * depth + reads)
        out.append(ops + ["grow"] + ["ret"] * depth + reads)
    out.append(ops + ["grow"] + reads)
    out.append(ops + ["cl 0"] + w)
    return [mk_line(size, mx, o) for o in out]


def search_failing_inputs(ctx, lines):
    """Search step: lines on which the property itself fails on the implementation go first, so that they are the
    ones reported; a bare model/implementation disagreement is first extended by reads (see `extensions`)."""
    impl = vlib.run_impl(lines)
    model = vlib.run_model(lines)
    front, cands = [], []
    for ln, a, b in zip(lines, impl, model):
        if oracle(ln, a) is not None:
            front.append(ln)
        elif a != b and len(cands) < 40:
            cands += extensions(ln)
        if len(front) >= 3:
            break
    if len(front) < 3 and cands:
        for ln, a in zip(cands, vlib.run_impl(cands)):
            if oracle(ln, a) is not None:
                front.append(ln)
                if len(front) >= 3:
                    break
    ctx.stat("search:front", len(front))
    return front


def classify(ctx, line, ans):
    _, _, ops = split_line(line)
    _, stop, why = ref_run(ops)
    ctx.stat("ref:" + ("scoped" if stop is None else why))
    ctx.stat("grows:%d" % min(3, sum(1 for o in ops if o == "grow")))
    depth = mx = 0
    for o in ops:
        if o.startswith("cc") or o.startswith("cm"):
            depth += 1
        elif o == "ret" and depth:
            depth -= 1
        mx = max(mx, depth)
    ctx.stat("depth:%d" % min(4, mx))


def is_mine(replay_path):
    """does this replay file hold a line of the `upv` domain?"""
    try:
        inp = json.load(open(replay_path)).get("input", {})
    except (OSError, ValueError):
        return False
    return isinstance(inp, dict) and str(inp.get("line", "")).startswith("upv\t")


def run_machine(ctx, quick=1500, thorough=120000):
    """Generates op sequences from ctx.rng, compares the real thread with the Lean model (vlib.correspond, which
    records the correspondence obligation), judges the thread's reads with the cell machine, and cross-checks the
    cell machine against its Lean twin `Elk.Upvalue.stepA` (second obligation)."""
    if ctx.replay:
        if not is_mine(ctx.replay):
            return []
        lines = [json.load(open(ctx.replay))["input"]["line"]]
    else:
        lines = vlib.corpus_lines("upv") + [gen_line(ctx.rng, ctx, not ctx.quick) for _ in range(ctx.n(quick, thorough))]
    if not ctx.replay:
        lines = search_failing_inputs(ctx, lines) + lines
    res = vlib.correspond(ctx, lines, oracle=oracle, minimise=minimise, label="upvalue machine (vm.Thread vs Elk.Upvalue.CA)",
                          max_report=3)
    for ln, a, _ in res:
        classify(ctx, ln, a)
    # python reference machine = Lean cell machine A (and the Lean scope check) on the same sequences
    ref_lines = ["upv\tref\t" + ln.split("\t")[4] for ln in lines]
    bad = None
    for ln, ans in zip(lines, vlib.run_model(ref_lines)):
        _, _, ops = split_line(ln)
        reads, stop, why = ref_run(ops)
        c_part, a_part = ans.split(" | ")
        want_reads = ",".join(map(str, reads))
        if stop is None:
            want_c = want_a = ("ok " + want_reads)
        else:
            # the Lean scope-checked index machine reports unscoped as dangling; the cell machine A does not check scope
            want_c = "err %s@%d %s" % ("dangling" if why == "unscoped" else why, stop, want_reads)
            want_a = None if why == "unscoped" else want_c
        if c_part.rstrip() != want_c.rstrip() or (want_a is not None and a_part.rstrip() != want_a.rstrip()):
            bad = bad or (ln, ans, want_c)
    ctx.obligation("python cell machine = Lean Elk.Upvalue.stepA / scope check on %d lines" % len(lines), bad is None,
                   "correspondence", "" if bad is None else "line=%r lean=%r python=%r" % bad)
    if bad is not None:
        ctx.violation("oracle-model-disagree", {"line": bad[0], "correspondence": "python cells vs Lean A"},
                      "lean=%r python=%r" % (bad[1], bad[2]), no_input=True)
    return res
