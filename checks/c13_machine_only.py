"""Builder's stand-alone runner for the machine-level half of C13/C10 (./check C13_MACHINE_ONLY).
The integrator's checks/c13.py and checks/c10.py call checks.upv_machine.run_machine(ctx) themselves."""
import os

import vlib
from checks import upv_machine

META = {"property_id": "C13", "technique": "machine-level only (testing aid, not registered)", "level_text": "",
        "level_note": "", "design_ref": "DESIGN.md §7 C13, C10"}


def run(ctx):
    ctx.rule = ("operation sequences over a vm.Thread's value stack / open-upvalue list / call frames / growValueStack; "
                "distinct = distinct sequence")
    name = ctx.prop
    for p in ("C13", "C10"):
        if os.path.exists(os.path.join(vlib.LEAN, "Audit", p + ".lean")):
            ctx.prop = p
            ctx.prove("ElkVerif.Props." + p)
    ctx.prop = name
    upv_machine.run_machine(ctx)
