"""C30 — Pattern matching selects the first matching case and binds correctly."""
import json
import re
import concurrent.futures as cf

import vlib

META = {
    "property_id": "C30",
    "technique": "Lean 4 reference semantics of switch/catch patterns (first-match, bindings, captured-type exhaustiveness) "
                 "with kernel-checked theorems + differential execution of generated (switch, value) pairs through the real "
                 "parser/checker/compiler/VM against the Lean matcher and an independent Python matcher",
    "level_text": "Partial. Theorems (select_first, bindings_sound, captured_sound, covers_sound, isSub_sound, patTy_sound) hold for "
                  "every pattern, value and environment of the reference matcher in lean/ElkVerif/Model/Pattern.lean; the "
                  "checker's fully-captured-type computation (types/checker/pattern.go, second result of checkPattern) is "
                  "modelled line by line for the fragment. A Lean mirror of the emitted matching code (cmatch) is proved to decide the reference relation and, without ||/?, to "
                  "store the reference bindings; the real compiler/VM are tied to both per generated (switch, value) pair, depth <= 3.",
    "level_note": "Trusted: Lean kernel; the S-expression decoder of Driver/Dom/Pattern.lean; the Elk printer and inspect parser "
                  "of checks/c30.py; elkh run. Set patterns, regex patterns, object patterns other than `C()`/`C(length: p)`, "
                  "sized-integer literals and macros are outside the fragment. Known finding: variables under `||`/`?`.",
    "design_ref": "DESIGN.md §7 C30",
}

# ----------------------------------------------------------------------------- data
# scalar : ('i', n) ('f', halves) ('s', word) ('y', word) 'T' 'F' 'N'
# value  : scalar | ('L', [v]) | ('U', [v]) | ('M', [(k, v)]) | ('R', [(k, v)]) | ('G', lo, hi)
# pattern: ('lit', sc) ('interp', w, x) ('rng', op, lo|None, hi|None) ('list', pre, rest, post) ('tup', …)
#          ('map', [(k, p)]) ('rec', [(k, p)]) ('obj', C, p|None) ('bind', x) ('as', p, x) ('or', p, q)
#          ('and', p, q) ('opt', p) 'must' ('rel', op, sc | ('var', x));  rest: None | '*' | ('*', x)

NIL = 'N'
ENV = {"k": ('i', 5), "s0": ('s', "ab")}


def is_scalar(v):
    return v in ('T', 'F', 'N') or (isinstance(v, tuple) and v[0] in 'ifsy')


def sx_scalar(s):
    if s in ('T', 'F', 'N'):
        return s
    if s[0] == 's' and s[1] == "":
        return "(s)"
    return "(%s %s)" % (s[0], s[1])


def sx_value(v):
    if is_scalar(v):
        return sx_scalar(v)
    t = v[0]
    if t in 'LU':
        return "(" + " ".join([t] + [sx_value(x) for x in v[1]]) + ")"
    if t in 'MR':
        return "(" + " ".join([t] + ["(%s %s)" % (sx_scalar(k), sx_value(x)) for k, x in v[1]]) + ")"
    if t == 'G':
        return "(G %d %d)" % (v[1], v[2])
    raise ValueError(v)


def sx_rest(r):
    return "-" if r is None else "*" if r == '*' else "(* %s)" % r[1]


def sx_pat(p):
    if p == 'must':
        return "must"
    t = p[0]
    if t == 'lit':
        return "(lit %s)" % sx_scalar(p[1])
    if t == 'interp':
        return "(interp %s %s)" % (p[1], p[2])
    if t == 'rng':
        return "(rng %s %s %s)" % (p[1], "_" if p[2] is None else sx_scalar(p[2]), "_" if p[3] is None else sx_scalar(p[3]))
    if t in ('list', 'tup'):
        return "(%s (%s) %s (%s))" % (t, " ".join(map(sx_pat, p[1])), sx_rest(p[2]), " ".join(map(sx_pat, p[3])))
    if t in ('map', 'rec'):
        return "(" + " ".join([t] + ["(%s %s)" % (sx_scalar(k), sx_pat(q)) for k, q in p[1]]) + ")"
    if t == 'obj':
        return "(obj %s)" % p[1] if p[2] is None else "(obj %s %s)" % (p[1], sx_pat(p[2]))
    if t == 'bind':
        return "(bind %s)" % p[1]
    if t == 'as':
        return "(as %s %s)" % (sx_pat(p[1]), p[2])
    if t in ('or', 'and'):
        return "(%s %s %s)" % (t, sx_pat(p[1]), sx_pat(p[2]))
    if t == 'opt':
        return "(opt %s)" % sx_pat(p[1])
    if t == 'rel':
        o = p[2]
        return "(rel %s %s)" % (p[1], "(var %s)" % o[1] if o[0] == 'var' else sx_scalar(o))
    raise ValueError(p)


def sx_env(env):
    return "(" + " ".join("(%s %s)" % (x, sx_scalar(s)) for x, s in env.items()) + ")"


def sx_ty(t):
    if t in ('any', 'never'):
        return t
    if t[0] == 'lit':
        return "(lit %s)" % sx_scalar(t[1])
    if t[0] == 'cls':
        return "(cls %s)" % t[1]
    if t[0] in ('u', 'n'):
        return "(%s %s %s)" % (t[0], sx_ty(t[1]), sx_ty(t[2]))
    if t[0] == 'not':
        return "(not %s)" % sx_ty(t[1])
    raise ValueError(t)


# -- reading S-expressions back (replay, model answers)
def sx_parse(s):
    toks = re.findall(r"\(|\)|[^\s()]+", s)
    pos = [0]

    def rd():
        t = toks[pos[0]]
        pos[0] += 1
        if t == "(":
            out = []
            while toks[pos[0]] != ")":
                out.append(rd())
            pos[0] += 1
            return out
        return t
    r = rd()
    if pos[0] != len(toks):
        raise ValueError("trailing input in sexp: " + s)
    return r


def un_scalar(x):
    if x in ('T', 'F', 'N'):
        return x
    if x[0] in ('i', 'f'):
        return (x[0], int(x[1]))
    if x[0] in ('s', 'y'):
        return (x[0], x[1] if len(x) > 1 else "")
    raise ValueError(x)


def un_value(x):
    if isinstance(x, list) and x and x[0] in ('L', 'U'):
        return (x[0], [un_value(y) for y in x[1:]])
    if isinstance(x, list) and x and x[0] in ('M', 'R'):
        return (x[0], [(un_scalar(k), un_value(v)) for k, v in x[1:]])
    if isinstance(x, list) and x and x[0] == 'G':
        return ('G', int(x[1]), int(x[2]))
    return un_scalar(x)


def un_rest(x):
    return None if x == '-' else '*' if x == '*' else ('*', x[1])


def un_pat(x):
    if x == 'must':
        return 'must'
    t = x[0]
    if t == 'lit':
        return ('lit', un_scalar(x[1]))
    if t == 'interp':
        return ('interp', x[1], x[2])
    if t == 'rng':
        return ('rng', x[1], None if x[2] == '_' else un_scalar(x[2]), None if x[3] == '_' else un_scalar(x[3]))
    if t in ('list', 'tup'):
        return (t, [un_pat(y) for y in x[1]], un_rest(x[2]), [un_pat(y) for y in x[3]])
    if t in ('map', 'rec'):
        return (t, [(un_scalar(k), un_pat(q)) for k, q in x[1:]])
    if t == 'obj':
        return ('obj', x[1], un_pat(x[2]) if len(x) > 2 else None)
    if t == 'bind':
        return ('bind', x[1])
    if t == 'as':
        return ('as', un_pat(x[1]), x[2])
    if t in ('or', 'and'):
        return (t, un_pat(x[1]), un_pat(x[2]))
    if t == 'opt':
        return ('opt', un_pat(x[1]))
    if t == 'rel':
        o = x[2]
        return ('rel', x[1], ('var', o[1]) if isinstance(o, list) and o[0] == 'var' else un_scalar(o))
    raise ValueError(x)


def un_ty(x):
    if x in ('any', 'never'):
        return x
    if x[0] == 'lit':
        return ('lit', un_scalar(x[1]))
    if x[0] == 'cls':
        return ('cls', x[1])
    if x[0] in ('u', 'n'):
        return (x[0], un_ty(x[1]), un_ty(x[2]))
    return ('not', un_ty(x[1]))


def un_env(x):
    return {a: un_scalar(b) for a, b in x}


# ----------------------------------------------------------------------------- Elk printer

def elk_scalar(s):
    if s == 'T':
        return "true"
    if s == 'F':
        return "false"
    if s == 'N':
        return "nil"
    t, a = s
    if t == 'i':
        return str(a)
    if t == 'f':
        sign = "-" if a < 0 else ""
        a = abs(a)
        return "%s%d.%s" % (sign, a // 2, "5" if a % 2 else "0")
    if t == 's':
        return '"%s"' % a
    if t == 'y':
        return ":" + a
    raise ValueError(s)


def elk_value(v):
    if is_scalar(v):
        return elk_scalar(v)
    t = v[0]
    if t == 'L':
        return "[" + ", ".join(map(elk_value, v[1])) + "]"
    if t == 'U':
        return "%[" + ", ".join(map(elk_value, v[1])) + "]"
    if t == 'M':
        return "{ " + ", ".join("%s => %s" % (elk_scalar(k), elk_value(x)) for k, x in v[1]) + " }" if v[1] else "{}"
    if t == 'R':
        return "%{ " + ", ".join("%s => %s" % (elk_scalar(k), elk_value(x)) for k, x in v[1]) + " }" if v[1] else "%{}"
    if t == 'G':
        return "(%d...%d)" % (v[1], v[2])
    raise ValueError(v)


RNG_OPS = {"cc": "...", "co": "..<", "oc": "<..", "oo": "<.<"}
REL_OPS = {"lt": "<", "le": "<=", "gt": ">", "ge": ">=", "eq": "==", "ne": "!="}
CLS_ELK = {"Int": "::Std::Int", "Float": "::Std::Float", "String": "::Std::String", "Symbol": "::Std::Symbol",
           "Bool": "::Std::Bool", "Nil": "::Std::Nil", "ArrayList": "::Std::ArrayList", "ArrayTuple": "::Std::ArrayTuple",
           "HashMap": "::Std::HashMap", "HashRecord": "::Std::HashRecord", "ClosedRange": "::Std::ClosedRange",
           "List": "::Std::List", "Tuple": "::Std::Tuple", "Map": "::Std::Map", "Record": "::Std::Record",
           "Value": "::Std::Value"}


def atomic(p):
    return p == 'must' or p[0] in ('bind', 'list', 'tup', 'map', 'rec', 'obj', 'interp') or \
        (p[0] == 'lit' and not (p[1] not in ('T', 'F', 'N') and p[1][0] in 'if' and p[1][1] < 0))


def elk_sub(p):
    return elk_pat(p) if atomic(p) else "(" + elk_pat(p) + ")"


def elk_elems(pre, rest, post):
    parts = [elk_pat(q) for q in pre]
    if rest is not None:
        parts.append("*" if rest == '*' else "*" + rest[1])
    parts += [elk_pat(q) for q in post]
    return ", ".join(parts)


def elk_entry(k, q):
    if k not in ('T', 'F', 'N') and k[0] == 'y':
        if q == ('bind', k[1]):
            return k[1]
        return "%s: %s" % (k[1], elk_pat(q))
    return "%s => %s" % (elk_scalar(k), elk_pat(q))


def elk_pat(p):
    if p == 'must':
        return "must"
    t = p[0]
    if t == 'lit':
        return elk_scalar(p[1])
    if t == 'interp':
        return '"%s${%s}"' % (p[1], p[2])
    if t == 'rng':
        return "%s%s%s" % ("" if p[2] is None else elk_scalar(p[2]), RNG_OPS[p[1]], "" if p[3] is None else elk_scalar(p[3]))
    if t == 'list':
        return "[" + elk_elems(p[1], p[2], p[3]) + "]"
    if t == 'tup':
        return "%[" + elk_elems(p[1], p[2], p[3]) + "]"
    if t == 'map':
        return "{ " + ", ".join(elk_entry(k, q) for k, q in p[1]) + " }"
    if t == 'rec':
        return "%{ " + ", ".join(elk_entry(k, q) for k, q in p[1]) + " }"
    if t == 'obj':
        return CLS_ELK[p[1]] + ("()" if p[2] is None else "(length: %s)" % elk_pat(p[2]))
    if t == 'bind':
        return p[1]
    if t == 'as':
        return "%s as %s" % (elk_sub(p[1]), p[2])
    if t == 'or':
        return "%s || %s" % (elk_sub(p[1]), elk_sub(p[2]))
    if t == 'and':
        return "%s && %s" % (elk_sub(p[1]), elk_sub(p[2]))
    if t == 'opt':
        return elk_sub(p[1]) + "?"
    if t == 'rel':
        o = p[2]
        return "%s %s" % (REL_OPS[p[1]], o[1] if o[0] == 'var' else elk_scalar(o))
    raise ValueError(p)


def pat_vars(p):
    if p == 'must':
        return []
    t = p[0]
    if t in ('lit', 'interp', 'rng', 'rel'):
        return []
    if t in ('list', 'tup'):
        out = []
        for q in p[1]:
            out += pat_vars(q)
        if isinstance(p[2], tuple):
            out.append(p[2][1])
        for q in p[3]:
            out += pat_vars(q)
        return out
    if t in ('map', 'rec'):
        out = []
        for _, q in p[1]:
            out += pat_vars(q)
        return out
    if t == 'obj':
        return pat_vars(p[2]) if p[2] is not None else []
    if t == 'bind':
        return [p[1]]
    if t == 'as':
        return pat_vars(p[1]) + [p[2]]
    if t in ('or', 'and'):
        return pat_vars(p[1]) + pat_vars(p[2])
    if t == 'opt':
        return pat_vars(p[1])
    raise ValueError(p)


def sorted_vars(p):
    return sorted(set(pat_vars(p)))


def elk_env_params(env):
    out = []
    for x, s in env.items():
        ty = {"i": "Int", "f": "Float", "s": "String", "y": "Symbol"}[s[0]]
        out.append("%s: %s" % (x, ty))
    return out


def switch_program(mod, env, cases, values, vty="any"):
    """One switch in `def f`, one call per value. Every arm prints `@@` and then a tuple
    `%[index, bound values…]` (variables in sorted order); `else` prints `%[-1]`."""
    L = ["module %s" % mod, "  def id(x: any): any then x",
         "  def f(%s): nil" % ", ".join(["v: " + vty] + elk_env_params(env)), "    switch v"]
    for i, p in enumerate(cases):
        L.append("    case " + elk_pat(p))
        L.append('      println("@@")')
        L.append("      println(%%[%s].inspect)" % ", ".join([str(i)] + ["id(%s)" % x for x in sorted_vars(p)]))
    L += ["    else", '      println("@@")', "      println(%[-1].inspect)", "    end", "    nil", "  end", "end"]
    args = "".join(", " + elk_scalar(s) for s in env.values())
    for v in values:
        L.append("%s.f(%s%s)" % (mod, elk_value(v), args))
    return "\n".join(L) + "\n"


# ----------------------------------------------------------------------------- inspect parser

class InspectParser:
    """Parses the output of Elk's `inspect` for the fragment's values back into value terms."""

    def __init__(self, s):
        self.s = s
        self.i = 0

    def ws(self):
        while self.i < len(self.s) and self.s[self.i] in " \n\t\r":
            self.i += 1

    def eat(self, t):
        self.ws()
        if self.s.startswith(t, self.i):
            self.i += len(t)
            return True
        return False

    def expect(self, t):
        if not self.eat(t):
            raise ValueError("expected %r at %d in %r" % (t, self.i, self.s[:200]))

    def seq(self, close):
        out = []
        if self.eat(close):
            return out
        while True:
            out.append(self.value())
            if self.eat(close):
                return out
            self.expect(",")

    def pairs(self, close):
        out = []
        if self.eat(close):
            return out
        while True:
            k = self.value()
            self.expect("=>")
            v = self.value()
            out.append((k, v))
            if self.eat(close):
                return out
            self.expect(",")

    def value(self):
        self.ws()
        s = self.s
        if self.eat("%["):
            return ('U', self.seq("]"))
        if self.eat("%{"):
            return ('R', self.pairs("}"))
        if self.eat("["):
            xs = self.seq("]")
            m = re.compile(r":\d+").match(s, self.i)      # `[1, 2]:8` — capacity suffix
            if m:
                self.i = m.end()
            return ('L', xs)
        if self.eat("{"):
            return ('M', self.pairs("}"))
        if self.eat('"'):
            j = s.index('"', self.i)
            w = s[self.i:j]
            self.i = j + 1
            return ('s', w)
        if self.eat(":"):
            m = re.compile(r"[A-Za-z_][A-Za-z_0-9]*").match(s, self.i)
            self.i = m.end()
            return ('y', m.group(0))
        m = re.compile(r"-?\d+\.\d+").match(s, self.i)
        if m and not s.startswith("..", m.end() - 1 if False else m.end()):
            # a float such as 3.5 (not the start of the range 3...5: `\d+\.\d+` cannot match `3...5`)
            self.i = m.end()
            txt = m.group(0)
            neg = txt.startswith("-")
            whole, frac = txt.lstrip("-").split(".")
            if frac not in ("0", "5"):
                return ('x', txt)
            h = int(whole) * 2 + (1 if frac == "5" else 0)
            return ('f', -h if neg else h)
        m = re.compile(r"-?\d+").match(s, self.i)
        if m:
            self.i = m.end()
            a = int(m.group(0))
            if self.eat("..."):
                m2 = re.compile(r"-?\d+").match(s, self.i)
                self.i = m2.end()
                return ('G', a, int(m2.group(0)))
            return ('i', a)
        for w, r in (("nil", 'N'), ("true", 'T'), ("false", 'F')):
            if s.startswith(w, self.i):
                self.i += len(w)
                return r
        m = re.compile(r"[A-Za-z_:<>#]+").match(s, self.i)
        if m:   # `undefined` and other things that are not values of the fragment
            self.i = m.end()
            return ('x', m.group(0))
        raise ValueError("cannot parse inspect output at %d: %r" % (self.i, s[self.i:self.i + 40]))


def parse_inspect(s):
    p = InspectParser(s)
    v = p.value()
    p.ws()
    if p.i != len(s):
        raise ValueError("trailing inspect output: %r" % s[p.i:p.i + 40])
    return v


def canon_value(v):
    """canonical text of a value term: maps/records sorted by key"""
    if is_scalar(v):
        return sx_scalar(v)
    t = v[0]
    if t == 'x':
        return "(x %s)" % v[1]
    if t in 'LU':
        return "(" + " ".join([t] + [canon_value(x) for x in v[1]]) + ")"
    if t in 'MR':
        ents = sorted("(%s %s)" % (canon_value(k), canon_value(x)) for k, x in v[1])
        return "(" + " ".join([t] + ents) + ")"
    if t == 'G':
        return "(G %d %d)" % (v[1], v[2])
    raise ValueError(v)


def canon_result(idx, names, vals):
    if idx < 0:
        return "else"
    return " ".join([str(idx)] + ["%s=%s" % (n, canon_value(v)) for n, v in zip(names, vals)])


# ----------------------------------------------------------------------------- Python reference matcher (oracle)

def cls_of(v):
    if v == 'N':
        return "Nil"
    if v in ('T', 'F'):
        return "Bool"
    return {"i": "Int", "f": "Float", "s": "String", "y": "Symbol", "L": "ArrayList", "U": "ArrayTuple",
            "M": "HashMap", "R": "HashRecord", "G": "ClosedRange"}[v[0]]


SUPERS = {"ArrayList": {"List", "Tuple"}, "ArrayTuple": {"Tuple"}, "HashMap": {"Map", "Record"}, "HashRecord": {"Record"}}


def is_a(v, c):
    k = cls_of(v)
    return c == "Value" or k == c or c in SUPERS.get(k, ())


def ordered_kind(s):
    return s[0] if (s not in ('T', 'F', 'N') and s[0] in 'ifs') else None


def sc_lt(a, b):
    """a < b, or None when the two are not of one ordered class"""
    ka, kb = ordered_kind(a), ordered_kind(b)
    if ka is None or ka != kb:
        return None
    return a[1] < b[1]


def sc_le(a, b):
    r = sc_lt(a, b)
    return None if r is None else (r or a == b)


def py_match(env, p, v):
    """reference semantics; returns dict of bindings or None"""
    if p == 'must':
        return {} if v != 'N' else None
    t = p[0]
    if t == 'lit':
        return {} if v == p[1] else None
    if t == 'interp':
        return {} if v == ('s', p[1] + env[p[2]][1]) else None
    if t == 'rng':
        if not is_scalar(v):
            return None
        lo, hi, op = p[2], p[3], p[1]
        if lo is not None:
            r = sc_le(lo, v) if op in ('cc', 'co') else sc_lt(lo, v)
            if not r:
                return None
        if hi is not None:
            r = sc_le(v, hi) if op in ('cc', 'oc') else sc_lt(v, hi)
            if not r:
                return None
        return {}
    if t in ('list', 'tup'):
        if is_scalar(v) or not (v[0] == 'L' or (t == 'tup' and v[0] == 'U')):
            return None
        xs, pre, rest, post = v[1], p[1], p[2], p[3]
        n = len(pre) + len(post)
        if (rest is None and len(xs) != n) or len(xs) < n:
            return None
        out = {}
        for q, x in zip(pre, xs):
            b = py_match(env, q, x)
            if b is None:
                return None
            out.update(b)
        tail = xs[len(xs) - len(post):] if post else []
        mid = xs[len(pre):len(xs) - len(post)]
        if isinstance(rest, tuple):
            out[rest[1]] = ('L', list(mid))
        for q, x in zip(post, tail):
            b = py_match(env, q, x)
            if b is None:
                return None
            out.update(b)
        return out
    if t in ('map', 'rec'):
        if is_scalar(v) or not (v[0] == 'M' or (t == 'rec' and v[0] == 'R')):
            return None
        out = {}
        for k, q in p[1]:
            found = [x for kk, x in v[1] if kk == k]
            b = py_match(env, q, found[0] if found else 'N')
            if b is None:
                return None
            out.update(b)
        return out
    if t == 'obj':
        if not is_a(v, p[1]):
            return None
        if p[2] is None:
            return {}
        if v not in ('T', 'F', 'N') and v[0] == 's':
            n = len(v[1])
        elif not is_scalar(v) and v[0] in 'LUMR':
            n = len(v[1])
        else:
            return None
        return py_match(env, p[2], ('i', n))
    if t == 'bind':
        return {p[1]: v}
    if t == 'as':
        b = py_match(env, p[1], v)
        if b is None:
            return None
        out = {p[2]: v}       # `x` is stored first, an inner binding of the same name wins
        out.update(b)
        return out
    if t == 'or':
        b = py_match(env, p[1], v)
        if b is not None:
            out = dict(b)
            for x in pat_vars(p[2]):
                out[x] = 'N'
            return out
        b = py_match(env, p[2], v)
        if b is None:
            return None
        out = {x: 'N' for x in pat_vars(p[1])}
        out.update(b)
        return out
    if t == 'and':
        b1 = py_match(env, p[1], v)
        if b1 is None:
            return None
        b2 = py_match(env, p[2], v)
        if b2 is None:
            return None
        out = dict(b1)
        out.update(b2)
        return out
    if t == 'opt':
        b = py_match(env, p[1], v)
        if b is not None:
            return b
        return {x: 'N' for x in pat_vars(p[1])} if v == 'N' else None
    if t == 'rel':
        o = p[2]
        s = env[o[1]] if o[0] == 'var' else o
        op = p[1]
        if op == 'eq':
            return {} if v == s else None
        if op == 'ne':
            return {} if v != s else None
        if not is_scalar(v):
            return None
        r = {"lt": sc_lt(v, s), "le": sc_le(v, s), "gt": sc_lt(s, v), "ge": sc_le(s, v)}[op]
        return {} if r else None
    raise ValueError(p)


def py_select(env, cases, v):
    for i, p in enumerate(cases):
        b = py_match(env, p, v)
        if b is not None:
            names = sorted_vars(p)
            return canon_result(i, names, [b[n] for n in names])
    return "else"


# ----------------------------------------------------------------------------- line format

def make_line(env, cases, values):
    return "pat\tsel\t%s\t(%s)\t(%s)" % (sx_env(env), " ".join(map(sx_pat, cases)), " ".join(map(sx_value, values)))


def parse_line(line):
    f = line.split("\t")
    assert f[0] == "pat" and f[1] == "sel", line
    env = un_env(sx_parse(f[2]))
    cases = [un_pat(x) for x in sx_parse(f[3])]
    values = [un_value(x) for x in sx_parse(f[4])]
    return env, cases, values


def model_results(ans, cases):
    """`ok r | r | …` from elkmodel → canonical results"""
    if not ans.startswith("ok "):
        return None
    out = []
    for r in ans[3:].split(" | "):
        r = r.strip()
        if r == "else":
            out.append("else")
            continue
        idx, _, rest = r.partition(" ")
        binds = sx_parse("(" + rest + ")") if rest else []
        out.append(canon_result(int(idx), [b[0] for b in binds], [un_value(b[1]) for b in binds]))
    return out


def impl_results(ans, nvalues, cases):
    """stdout of the switch program → canonical results (one per value; missing ones `no-output`)"""
    chunks = ans["stdout"].split("@@\n")[1:]
    out = []
    for c in chunks:
        try:
            t = parse_inspect(c.strip())
            idx = t[1][0][1]
            names = sorted_vars(cases[idx]) if idx >= 0 else []
            out.append(canon_result(idx, names, t[1][1:]))
        except Exception as e:   # unparsable output is an answer too
            out.append("unparsable " + re.sub(r"\s+", " ", c.strip())[:120])
    tail = "%s %s %s" % (ans["outcome"], ans.get("err_class", ""), (ans.get("err_msg") or ans.get("panic") or "")[:120])
    while len(out) < nvalues:
        out.append(("crash " + tail.strip()) if len(out) == len(chunks) else "not-run")
    return out


def impl_struct(ans, cases):
    """stdout of the switch program → [(index or None, {var: canonical value})] (unparsable chunks: ('?', text))"""
    out = []
    for c in ans["stdout"].split("@@\n")[1:]:
        try:
            t = parse_inspect(c.strip())
            idx = t[1][0][1]
            if idx < 0:
                out.append((None, {}))
            else:
                out.append((idx, dict(zip(sorted_vars(cases[idx]), [canon_value(x) for x in t[1][1:]]))))
        except Exception:
            m = re.match(r"\s*%\[\s*(-?\d+)", c)
            out.append(("?" if not m else int(m.group(1)), None))
    return out


def run_switch_lines(lines, tag="S", workers=8, vty="any"):
    """Runs each line as one Elk program; returns per line (answer dict, canonical results)."""
    parsed = [parse_line(l) for l in lines]
    reqs = [{"id": "%s%d" % (tag, i), "src": switch_program("P%s%d" % (tag, i), env, cases, values, vty), "timeout_ms": 30000}
            for i, (env, cases, values) in enumerate(parsed)]
    n = max(1, min(workers, len(reqs) // 20 + 1))
    chunks = [reqs[i::n] for i in range(n)]
    with cf.ThreadPoolExecutor(n) as ex:
        res = list(ex.map(vlib.run_programs, chunks))
    byid = {}
    for ch in res:
        for a in ch:
            byid[a.get("id")] = a
    answers = [byid.get(r["id"], {"id": r["id"], "outcome": "fatal", "diags": [], "stdout": "", "panic": "no answer"}) for r in reqs]
    return [(a, impl_results(a, len(parsed[i][2]), parsed[i][1]) if not a.get("rejected") and a["outcome"] != "rejected" else None)
            for i, a in enumerate(answers)]


# ----------------------------------------------------------------------------- generators

INTS = [-3, -1, 0, 1, 2, 3, 4, 5, 6, 7, 9, 12, 100, 2 ** 63, 2 ** 64 + 1, -2 ** 70]
HALVES = [-3, -1, 0, 1, 2, 5, 6, 10, 15, 201]
STRS = ["", "a", "b", "ab", "abc", "aab", "m", "x", "zz", "abx", "xab"]
SYMS = ["a", "b", "foo", "bar"]
KEYS = [('y', "a"), ('y', "b"), ('y', "foo"), ('s', "k"), ('s', "a"), ('i', 1), ('i', 2)]
CLASSES = ["Int", "Float", "String", "Symbol", "Bool", "Nil", "ArrayList", "ArrayTuple", "HashMap", "HashRecord",
           "ClosedRange", "List", "Tuple", "Map", "Record", "Value"]
LEN_CLASSES = ["String", "ArrayList", "ArrayTuple", "HashMap", "HashRecord", "List", "Tuple", "Map", "Record"]


class Gen:
    def __init__(self, rng, binders_under_alt=False):
        self.rng = rng
        self.nvar = 0
        self.alt_binders = binders_under_alt

    def fresh(self):
        self.nvar += 1
        return "x%d" % self.nvar

    def scalar(self):
        r = self.rng
        c = r.random()
        if c < 0.35:
            return ('i', r.choice(INTS))
        if c < 0.5:
            return ('f', r.choice(HALVES))
        if c < 0.7:
            return ('s', r.choice(STRS))
        if c < 0.82:
            return ('y', r.choice(SYMS))
        return r.choice(['T', 'F', 'N', 'N'])

    def value(self, depth):
        r = self.rng
        if depth <= 0 or r.random() < 0.45:
            return self.scalar()
        c = r.random()
        n = r.choice([0, 1, 1, 2, 2, 3, 4])
        if c < 0.35:
            return ('L', [self.value(depth - 1) for _ in range(n)])
        if c < 0.55:
            return ('U', [self.value(depth - 1) for _ in range(n)])
        if c < 0.95:
            ks = r.sample(KEYS, min(n, 3))
            return ('M' if c < 0.78 else 'R', [(k, self.value(depth - 1)) for k in ks])
        a = r.choice([0, 1, 2, 5])
        return ('G', a, a + r.choice([0, 1, 3]))

    def mutate_value(self, v, depth):
        """a value near v: one component changed, an element added/removed, kind switched"""
        r = self.rng
        if is_scalar(v):
            if v not in ('T', 'F', 'N') and v[0] == 'i' and r.random() < 0.6:
                return ('i', v[1] + r.choice([-1, 1, 2])) if (r.random() < 0.7 or abs(v[1]) > 2 ** 20) else ('f', 2 * v[1])
            if v not in ('T', 'F', 'N') and v[0] == 'f' and r.random() < 0.6:
                return ('f', v[1] + r.choice([-1, 1])) if r.random() < 0.6 else ('i', v[1] // 2)
            return self.scalar()
        t = v[0]
        if t in 'LU':
            xs = list(v[1])
            c = r.random()
            if c < 0.2:
                return ('U' if t == 'L' else 'L', xs)
            if c < 0.4 or not xs:
                xs.insert(r.randint(0, len(xs)), self.value(depth - 1))
            elif c < 0.6:
                xs.pop(r.randrange(len(xs)))
            else:
                i = r.randrange(len(xs))
                xs[i] = self.mutate_value(xs[i], depth - 1)
            return (t, xs)
        if t in 'MR':
            kvs = list(v[1])
            c = r.random()
            if c < 0.2:
                return ('R' if t == 'M' else 'M', kvs)
            if c < 0.45 or not kvs:
                ks = [k for k in KEYS if k not in [a for a, _ in kvs]]
                if ks:
                    kvs.append((r.choice(ks), self.value(depth - 1)))
            elif c < 0.65:
                kvs.pop(r.randrange(len(kvs)))
            else:
                i = r.randrange(len(kvs))
                kvs[i] = (kvs[i][0], self.mutate_value(kvs[i][1], depth - 1))
            return (t, kvs)
        return self.value(depth)

    def wrap(self, p, v, depth, kind="any"):
        """compound forms around a pattern that matches v (kind: static type the pattern is checked against)"""
        r = self.rng
        c = r.random()
        if c < 0.55 or depth <= 0:
            return p
        if c < 0.68:
            return ('as', p, self.fresh())
        if c < 0.8:
            # `p && q`: q is type-checked against the type of p, so both come from the same value and the
            # left one is not a bare class/mixin test (the checker rejects e.g. `Value() && %[]`)
            q = self.pat_for(v, depth - 1, kind if kind != "any" else "narrow")
            if r.random() < 0.5 and not has_form(p, ('opt',)) and not has_ne(p):
                a, b = q, p
            else:
                a, b = p, q
            if a != 'must' and a[0] == 'obj':
                a, b = b, a
            if a != 'must' and a[0] == 'obj':
                return p
            return ('and', a, b)
        if c < 0.93:
            q = self.rand_pat(depth - 1) if (r.random() < 0.6 and kind == "any") else self.pat_for(v, depth - 1, kind)
            if not self.alt_binders:
                p, q = strip_binders(p), strip_binders(q)
            return ('or', q, p) if r.random() < 0.6 else ('or', p, q)
        if kind != "any":
            return p
        return ('opt', p if self.alt_binders else strip_binders(p))

    def pat_for(self, v, depth, kind="any"):
        """a pattern that (mostly) matches v"""
        r = self.rng
        c = r.random()
        if kind != "any":
            # checked against a narrowed type (`length:` → Int, right operand of `&&`): only patterns
            # that type can match, nothing about nil or literals of another class
            c = 0.05 if c < 0.15 else (0.15 if (c < 0.3 and kind == "narrow") else 0.5)
        if c < 0.1:
            return self.wrap(('bind', self.fresh()), v, depth, kind)
        if c < 0.2:
            k = cls_of(v)
            cands = [k] + sorted(SUPERS.get(k, ())) + ["Value"]
            cl = r.choice(cands)
            ln = None
            if cl in LEN_CLASSES and r.random() < 0.5 and depth > 0:
                n = len(v[1])
                ln = self.pat_for(('i', n), depth - 1, "int")
            return self.wrap(('obj', cl, ln), v, depth)
        if c < 0.25:
            return self.wrap('must' if v != 'N' else ('lit', 'N'), v, depth)
        if c < 0.3:
            return self.wrap(('rel', 'ne', self.scalar()), v, depth)
        if is_scalar(v):
            k = ordered_kind(v)
            c = r.random()
            if k == "s" and v[1].endswith(ENV["s0"][1]) and len(v[1]) > len(ENV["s0"][1]) and c < 0.5:
                return self.wrap(('interp', v[1][:-len(ENV["s0"][1])], "s0"), v, depth, kind)
            if c < 0.4 or k is None:
                return self.wrap(('lit', v), v, depth, kind)
            if c < 0.7:
                d = (lambda x, n: (x[0], x[1] + n)) if k in 'if' else (lambda x, n: x)
                lo = r.choice([None, v, d(v, -1), d(v, -2)])
                hi = r.choice([None, v, d(v, 1), d(v, 3)])
                if lo is None and hi is None:
                    lo = v
                return self.wrap(('rng', r.choice(["cc", "cc", "co", "oc", "oo"]), lo, hi), v, depth, kind)
            op = r.choice(["lt", "le", "gt", "ge", "eq"])
            if k == 'i' and r.random() < 0.3:
                o = ('var', 'k')
            elif k in 'if':
                o = (k, v[1] + r.choice([-1, 0, 0, 1]))
            else:
                o = r.choice([v, ('s', r.choice(STRS))])
            return self.wrap(('rel', op, o), v, depth, kind)
        t = v[0]
        if t in 'LU':
            xs = v[1]
            kind = 'list' if (t == 'L' and r.random() < 0.6) else 'tup'
            if depth <= 0:
                return (kind, [], '*', [])
            if r.random() < 0.5 or not xs:
                return self.wrap((kind, [self.pat_for(x, depth - 1) for x in xs], None, []), v, depth)
            a = r.randint(0, len(xs))
            b = r.randint(a, len(xs))
            rest = r.choice(['*', ('*', self.fresh())])
            return self.wrap((kind, [self.pat_for(x, depth - 1) for x in xs[:a]], rest,
                              [self.pat_for(x, depth - 1) for x in xs[b:]]), v, depth)
        if t in 'MR':
            kvs = v[1]
            kind = 'map' if (t == 'M' and r.random() < 0.6) else 'rec'
            ents = []
            for k, x in kvs:
                if r.random() < 0.7:
                    if k[0] == 'y' and r.random() < 0.3:
                        ents.append((k, ('bind', k[1])))
                    else:
                        ents.append((k, self.pat_for(x, depth - 1) if depth > 0 else ('bind', self.fresh())))
            if r.random() < 0.3 or not ents:
                ks = [k for k in KEYS if k not in [a for a, _ in kvs]]
                if ks:
                    ents.append((r.choice(ks), r.choice([('lit', 'N'), ('bind', self.fresh()), ('lit', ('i', 1))])))
            if not ents:
                ents = [(('y', "a"), ('bind', self.fresh()))]
            r.shuffle(ents)
            return self.wrap((kind, ents), v, depth)
        return self.wrap(('obj', 'ClosedRange', None), v, depth)

    def rand_pat(self, depth):
        return self.pat_for(self.value(min(depth, 2)), depth)


def has_form(p, forms):
    acc = set()
    pat_forms(p, acc)
    return any(f in acc for f in forms)


def has_ne(p):
    return has_form(p, ('rel-ne', 'must'))


def strip_binders(p):
    """the same pattern without variables (`x` → `Value()`, `p as x` → p, `*r` → `*`)"""
    if p == 'must':
        return p
    t = p[0]
    if t == 'bind':
        return ('obj', 'Value', None)
    if t == 'as':
        return strip_binders(p[1])
    if t in ('list', 'tup'):
        return (t, [strip_binders(q) for q in p[1]], '*' if isinstance(p[2], tuple) else p[2], [strip_binders(q) for q in p[3]])
    if t in ('map', 'rec'):
        return (t, [(k, strip_binders(q)) for k, q in p[1]])
    if t == 'obj':
        return (t, p[1], strip_binders(p[2]) if p[2] is not None else None)
    if t in ('or', 'and'):
        return (t, strip_binders(p[1]), strip_binders(p[2]))
    if t == 'opt':
        return (t, strip_binders(p[1]))
    return p


def pat_depth(p):
    if p == 'must' or p[0] in ('lit', 'interp', 'rng', 'rel', 'bind'):
        return 0
    t = p[0]
    if t in ('list', 'tup'):
        return 1 + max([pat_depth(q) for q in p[1] + p[3]] + [0])
    if t in ('map', 'rec'):
        return 1 + max([pat_depth(q) for _, q in p[1]] + [0])
    if t == 'obj':
        return 1 + (pat_depth(p[2]) if p[2] is not None else 0)
    if t in ('as', 'opt'):
        return 1 + pat_depth(p[1])
    return 1 + max(pat_depth(p[1]), pat_depth(p[2]))


def pat_forms(p, acc):
    if p == 'must':
        acc.add('must')
        return
    acc.add(p[0] if p[0] != 'rel' else 'rel-' + p[1])
    t = p[0]
    if t in ('list', 'tup'):
        if p[2] is not None:
            acc.add('rest')
        for q in p[1] + p[3]:
            pat_forms(q, acc)
    elif t in ('map', 'rec'):
        for _, q in p[1]:
            pat_forms(q, acc)
    elif t == 'obj' and p[2] is not None:
        acc.add('obj-length')
        pat_forms(p[2], acc)
    elif t in ('as', 'opt'):
        pat_forms(p[1], acc)
    elif t in ('or', 'and'):
        pat_forms(p[1], acc)
        pat_forms(p[2], acc)


def gen_line(rng, alt_binders=False):
    g = Gen(rng, alt_binders)
    seed_vals = [g.value(3) for _ in range(rng.choice([1, 2, 2, 3]))]
    cases = []
    for _ in range(rng.choice([1, 2, 3, 3, 4, 5])):
        if rng.random() < 0.75:
            p = g.pat_for(rng.choice(seed_vals), 3)
        else:
            p = g.rand_pat(2)
        if pat_depth(p) > 3:
            p = g.pat_for(rng.choice(seed_vals), 1)
        cases.append(p)
    # specific first: shuffle so that general patterns do not always shadow the rest
    values = list(seed_vals)
    for v in seed_vals:
        for _ in range(2):
            values.append(g.mutate_value(v, 3))
    values.append(g.value(2))
    return make_line(ENV, cases, values[:8])


# ----------------------------------------------------------------------------- the check

def oracle_results(line):
    env, cases, values = parse_line(line)
    return [py_select(env, cases, v) for v in values]


def judge(line, impl, model_ans):
    """returns (kind, detail) or None.  kind: property-fails | model-oracle | model-impl"""
    env, cases, values = parse_line(line)
    want = [py_select(env, cases, v) for v in values]
    mres = model_results(model_ans, cases)
    a, ires = impl
    if a["outcome"] in ("timeout", "fatal") and not a.get("stdout"):
        return ("no-answer", a["outcome"] + " " + str(a.get("panic", "")))
    if ires is None:
        return ("rejected", "; ".join(d["msg"] for d in a.get("diags", []))[:300])
    for i, v in enumerate(values):
        if ires[i] == "not-run":
            continue
        if ires[i] != want[i]:
            return ("property-fails", "value %s: Elk selected `%s`, the reference matcher says `%s`" % (sx_value(v), ires[i], want[i]))
    if mres != want:
        return ("model-oracle", "Lean matcher %r vs Python matcher %r" % (mres, want))
    return None


def minimise_line(line, fails):
    """greedy shrinking: one value, fewer cases, smaller patterns; `fails(line)` re-runs everything"""
    env, cases, values = parse_line(line)
    for v in values:
        l2 = make_line(env, cases, [v])
        if fails(l2):
            values = [v]
            break
    changed = True
    budget = 60
    while changed and budget > 0:
        changed = False
        for i in range(len(cases)):
            if len(cases) > 1:
                c2 = cases[:i] + cases[i + 1:]
                budget -= 1
                if fails(make_line(env, c2, values)):
                    cases = c2
                    changed = True
                    break
            for q in sub_patterns(cases[i]):
                c2 = cases[:i] + [q] + cases[i + 1:]
                budget -= 1
                if budget <= 0:
                    break
                if fails(make_line(env, c2, values)):
                    cases = c2
                    changed = True
                    break
            if changed or budget <= 0:
                break
    return make_line(env, cases, values)


def sub_patterns(p):
    """smaller candidates for p"""
    if p == 'must' or p[0] in ('lit', 'interp', 'rng', 'rel', 'bind'):
        return []
    t = p[0]
    out = []
    if t in ('list', 'tup'):
        for i in range(len(p[1])):
            for q in sub_patterns(p[1][i]):
                out.append((t, p[1][:i] + [q] + p[1][i + 1:], p[2], p[3]))
        for i in range(len(p[3])):
            for q in sub_patterns(p[3][i]):
                out.append((t, p[1], p[2], p[3][:i] + [q] + p[3][i + 1:]))
    elif t in ('map', 'rec'):
        for i in range(len(p[1])):
            if len(p[1]) > 1:
                out.append((t, p[1][:i] + p[1][i + 1:]))
            for q in sub_patterns(p[1][i][1]):
                out.append((t, p[1][:i] + [(p[1][i][0], q)] + p[1][i + 1:]))
    elif t == 'obj':
        if p[2] is not None:
            out.append((t, p[1], None))
    elif t in ('as', 'opt'):
        out.append(p[1])
        for q in sub_patterns(p[1]):
            out.append((t, q) + tuple(p[2:]))
    elif t in ('or', 'and'):
        out += [p[1], p[2]]
        for q in sub_patterns(p[1]):
            out.append((t, q, p[2]))
        for q in sub_patterns(p[2]):
            out.append((t, p[1], q))
    return out


def check_select(ctx, lines, label, tag):
    impl = run_switch_lines(lines, tag=tag)
    model = vlib.run_model(lines)
    ok = True
    reported = 0
    rejected = []
    noans = []
    for ln, im, mo in zip(lines, impl, model):
        env, cases, values = parse_line(ln)
        forms = set()
        for p in cases:
            pat_forms(p, forms)
        for f in forms:
            ctx.stat("form:" + f)
        verdict = judge(ln, im, mo)
        want = oracle_results(ln)
        for w in want:
            ctx.stat("selected:" + ("else" if w == "else" else "case"))
        ctx.case(ln, nontrivial=any(w != "else" for w in want),
                 sample={"line": ln, "elk": switch_program("P", env, cases, values)[:500], "reference": want})
        if verdict is None:
            continue
        kind, detail = verdict
        if kind == "no-answer":
            ctx.stat("no-answer:" + detail.split(" ")[0])
            noans.append(ln)
            continue
        if kind == "rejected":
            ctx.stat("rejected-by-checker")
            rejected.append((ln, detail))
            continue
        if reported >= 5:
            ok = False
            continue
        reported += 1

        def fails(l2, kind=kind):
            i2 = run_switch_lines([l2], tag=tag + "m")[0]
            m2 = vlib.run_model([l2])[0]
            v2 = judge(l2, i2, m2)
            return v2 is not None and v2[0] == kind
        try:
            small = minimise_line(ln, fails)
        except Exception:
            small = ln
        i2 = run_switch_lines([small], tag=tag + "r")[0]
        m2 = vlib.run_model([small])[0]
        v2 = judge(small, i2, m2)
        if v2 is None or v2[0] != kind:
            # not reproducible on re-execution: try the original line twice more before calling it a failure
            again = [judge(ln, run_switch_lines([ln], tag=tag + "q%d" % t)[0], mo) for t in range(2)]
            if not any(x is not None and x[0] == kind for x in again):
                ctx.stat("not-reproducible")
                ctx.extra.setdefault("not_reproducible", []).append({"line": ln, "first_verdict": list(verdict)})
                reported -= 1
                continue
            small, v2 = ln, verdict
        e2, c2, vals2 = parse_line(small)
        inp = {"line": small, "program": switch_program("P", e2, c2, vals2)}
        if v2[0] == "property-fails":
            new = ctx.violation("property-fails", inp, v2[1])
        else:
            new = ctx.violation("model-oracle-disagree", dict(inp, correspondence=label), v2[1], no_input=True)
        if new:
            ok = False
        else:
            reported -= 1
    ctx.obligation(f"{label}: Elk = Lean matcher = Python matcher on {len(lines)} generated (switch, values) lines", ok,
                   "correspondence")
    # the generator aims at switches the checker accepts for `v: any`; a few combinations (`p && q` with an
    # impossible intersection) are rejected and say nothing — but they must stay rare
    ctx.obligation(f"{label}: every generated program was answered by the worker ({len(noans)} timeouts/crashes without output)",
                   len(noans) <= max(1, len(lines) // 20), "machinery")
    lim = max(3, len(lines) // 8)
    ctx.obligation(f"{label}: at most {lim} of {len(lines)} generated switches rejected by the checker ({len(rejected)})",
                   len(rejected) <= lim, "generator", "; ".join(d for _, d in rejected[:3])[:400])
    if len(rejected) > lim:
        ctx.violation("generated-switches-rejected", {"line": rejected[0][0]}, rejected[0][1], no_input=True)


def csel_results(ans):
    """`ok r | r …` of `pat csel`: list of (index or None, {var: canonical value or 'stale'})"""
    out = []
    for r in ans[3:].split(" | "):
        r = r.strip()
        if r == "else":
            out.append((None, {}))
            continue
        idx, _, rest = r.partition(" ")
        binds = sx_parse("(" + rest + ")") if rest else []
        out.append((int(idx), {b[0]: ("stale" if b[1] == "stale" else canon_value(un_value(b[1]))) for b in binds}))
    return out


def check_compiled(ctx, lines, tag="B"):
    """binders under `||` / `?`: Elk against the Lean mirror of the compiled matcher (`cmatch`): same case,
    same content of every variable the bytecode stored; variables it never stored (`stale`) are not compared"""
    impl = run_switch_lines(lines, tag=tag)
    model = vlib.run_model([l.replace("pat\tsel\t", "pat\tcsel\t", 1) for l in lines])
    ok = True
    shown = 0
    for ln, (a, ires), mo in zip(lines, impl, model):
        env, cases, values = parse_line(ln)
        if ires is None or not mo.startswith("ok "):
            ctx.stat("compiled:rejected-or-unanswered")
            continue
        mres = csel_results(mo)
        got_all = impl_struct(a, cases)
        for k, (v, (idx, binds)) in enumerate(zip(values, mres)):
            if k >= len(got_all):
                if a["outcome"] != "value" and k == len(got_all):
                    got = ("crash", None)
                else:
                    continue
            else:
                got = got_all[k]
            ctx.stat("compiled:" + ("else" if idx is None else "case"))
            stale = [x for x, w in binds.items() if w == "stale"]
            if stale:
                ctx.stat("compiled:stale-variable")
            good = got[0] == idx
            if good and idx is not None and got[1] is not None:
                good = all(got[1].get(x) == w for x, w in binds.items() if w != "stale")
            elif good and idx is not None and got[1] is None:
                good = bool(stale)        # a stale slot may print anything, even something the parser rejects
            ctx.case(("compiled", ln, sx_value(v)), sample={"line": ln, "value": sx_value(v), "elk": str(got), "cmatch": binds})
            if not good and shown < 3:
                shown += 1
                if ctx.violation("model-impl-disagree", {"line": ln, "value": sx_value(v), "correspondence": "compiled matcher (cmatch)",
                                                         "program": switch_program("P", env, cases, [v])},
                                 "Elk %r, mirror of the compiled matcher: case %s %r" % (got, idx, binds), no_input=True):
                    ok = False
    ctx.obligation(f"compiled matcher: Elk = Lean cmatch on {len(lines)} switches with variables under || and ?", ok, "correspondence")


def run(ctx):
    ctx.rule = ("(switch, value) pairs: 1-5 cases of pattern depth <= 3 built around seed values (literal, range, list/tuple "
                "with rest, map/record, C()/C(length:), binder, as, ||, &&, ?, must, relational), 8 values per switch "
                "(seeds, mutations, random); distinct = distinct line; non-trivial = some value selects a case")
    import time
    t0 = time.time()
    ctx.prove("ElkVerif.Props.C30")
    ctx.extra["prove_s"] = round(time.time() - t0, 1)
    if ctx.replay:
        rp = json.load(open(ctx.replay))
        line = rp["input"]["line"]
        if line.split("\t")[1] == "sel":
            check_select(ctx, [line], "switch", "R")
        else:
            from checks import c30_cov
            c30_cov.check_cov(ctx, [line])
        return
    corpus = vlib.corpus_lines("C30")
    sel = [l for l in corpus if l.split("\t")[1] == "sel"]
    n = ctx.n(140, 3000)
    lines = sel + [gen_line(ctx.rng) for _ in range(n)]
    check_select(ctx, lines, "switch", "S")
    check_compiled(ctx, [gen_line(ctx.rng, alt_binders=True) for _ in range(ctx.n(40, 800))])
    from checks import c30_cov
    c30_cov.check_cov(ctx, [l for l in corpus if l.split("\t")[1] == "cov"] +
                      [c30_cov.gen_cov(ctx.rng) for _ in range(ctx.n(50, 800))])
