"""C25 — Channels and sync primitives keep their contracts under any schedule."""
import json
import re
import subprocess

import vlib

META = {
    "property_id": "C25",
    "technique": "Lean 4 proofs over state-machine models of the channel/select/Mutex/RWMutex/WaitGroup/Once wrappers "
                 "(all interleavings of atomic steps) + differential correspondence on generated misuse scripts against "
                 "value.ChannelOfValue, value.NativeChannel, value.Mutex, value.RWMutex, value.WaitGroup, value.Once + "
                 "certified checking (okHistory, with soundness theorem) of histories recorded from concurrent runs + "
                 "generated `go`-thread/select Elk programs",
    "level_text": "Kernel-checked for the model: FIFO exactly-once delivery for every interleaving and capacity "
                  "(chan_fifo_once, chan_exactly_once), closed-channel protocol with errors and no crash (closed_protocol, "
                  "closed_is_final), select takes only ready cases (select_ready_only), mutual exclusion (mutex_excl, rw_excl), "
                  "unlock of an unheld lock is the documented error (unlock_unlocked_is_error), Once/WaitGroup counting "
                  "(once_once, wg_counts), soundness of the history checker (okHistory_sound). Partial: that Go's chan/sync "
                  "types implement the atomic steps is trusted; concurrent behaviour of the real wrappers is checked per "
                  "recorded history, not proved; select on closed channels violates the property today (witness theorems).",
    "level_note": "Trusted: Lean kernel; hand-written models; Go runtime semantics of chan, sync.Mutex, sync.RWMutex, "
                  "sync.WaitGroup, sync.Once; harness record placement (before/after each call) in harness/dom/sync.go.",
    "design_ref": "DESIGN.md §7 C25",
}


# ----------------------------------------------------------------------------- sequential scripts

def gen_script(rng):
    ops = []
    kind = rng.choice(["chan", "chan", "chan", "mutex", "rw", "wg", "once", "mix"])
    live = {"c": [], "m": [], "r": [], "w": [], "o": []}
    nid = [0]

    def new(k):
        i = nid[0]
        nid[0] += 1
        live[k].append(i)
        return i

    tok = [0]
    n = rng.choice([2, 4, 6, 9, 14])
    kinds = {"chan": "c", "mutex": "m", "rw": "r", "wg": "w", "once": "o"}
    for _ in range(n):
        k = kinds.get(kind) or rng.choice("cmrwo")
        if not live[k] or rng.random() < 0.12:
            i = new(k)
            if k == "c":
                ops.append("%s %d %d" % (rng.choice(["cn", "cn", "nn"]), i, rng.choice([0, 1, 1, 2, 3])))
            else:
                ops.append({"m": "mn", "r": "rn", "w": "wn", "o": "on"}[k] + " %d" % i)
            continue
        i = rng.choice(live[k])
        if k == "c":
            r = rng.random()
            if r < 0.4:
                tok[0] += 1
                ops.append("cp %d %d" % (i, tok[0]))
            elif r < 0.7:
                ops.append("cg %d" % i)
            elif r < 0.85:
                ops.append("cc %d" % i)
            else:
                ops.append("cl %d" % i)
            if rng.random() < 0.3:
                # the same operation through the write-only / read-only view of the channel
                ops[-1] = "v" + ops[-1][1:]
        elif k == "m":
            ops.append(rng.choice(["ml", "mu", "mu"]) + " %d" % i)
        elif k == "r":
            ops.append(rng.choice(["rl", "rr", "rr", "ru", "rv", "rv"]) + " %d" % i)
        elif k == "w":
            r = rng.random()
            if r < 0.4:
                ops.append("wa %d %d" % (i, rng.choice([0, 1, 1, 2, 3])))
            elif r < 0.8:
                ops.append("wr %d %d" % (i, rng.choice([0, 1, 1, 2, -1])))
            else:
                ops.append("ww %d" % i)
        else:
            ops.append("oc %d" % i)
    return "sy\trun\t" + ";".join(ops)


def boundary_scripts():
    """every non-blocking sequence of up to 4 channel operations (push / pop / close, directly and through the
    write-only / read-only views) on one buffered channel, for both channel implementations"""
    import itertools
    out = []
    for mk in ("cn", "nn"):
        for n in (1, 2, 3, 4):
            for seq in itertools.product(("cp", "vp", "cg", "vg", "cc", "vc"), repeat=n):
                buf, closed, ops, tok, ok = 0, False, [], 0, True
                for o in seq:
                    base = "c" + o[1]
                    if base == "cp":
                        if not closed:
                            if buf >= 2:
                                ok = False
                                break
                            buf += 1
                        tok += 1
                        ops.append("%s 0 %d" % (o, tok))
                    elif base == "cg":
                        if buf == 0 and not closed:
                            ok = False
                            break
                        buf = max(0, buf - 1)
                        ops.append("%s 0" % o)
                    else:
                        closed = True
                        ops.append("%s 0" % o)
                if ok and any(o[0] == "v" for o in seq) and "cc" in "".join(seq).replace("v", "c"):
                    out.append("sy\trun\t%s 0 2;%s" % (mk, ";".join(ops)))
    return out


def script_oracle(line, ans):
    """Model-free reading of the property on one script: a python specification of what each call must
    answer (FIFO values, documented errors, never a crash, WaitGroup counting). WaitGroup misuse (negative
    counter) is outside the property."""
    ops = [o.split(" ") for o in line.split("\t")[2].split(";") if o]
    if ans.startswith("fatal"):
        return "the process died: " + ans[:120]
    if not ans.startswith("ok "):
        return None
    outs = ans[3:].split(",") if len(ans) > 3 else []
    ch, mu, rw, on, wg = {}, {}, {}, {}, {}
    for k, op in enumerate(ops):
        if k >= len(outs):
            return None
        o, a = outs[k], op[0]
        a = {"vp": "cp", "vg": "cg", "vc": "cc", "vl": "cl"}.get(a, a)      # a view is the same channel
        i = int(op[1])
        want = None
        if a in ("cn", "nn"):
            ch[i] = {"buf": [], "cap": int(op[2]), "closed": False}
        elif a == "cp":
            c = ch[i]
            if c["closed"]:
                want = "ClosedPush"
            elif len(c["buf"]) < c["cap"]:
                c["buf"].append(int(op[2]))
                want = "ok"
            else:
                want = "block"
        elif a == "cg":
            c = ch[i]
            if c["buf"]:
                want = "v%d" % c["buf"].pop(0)
            else:
                want = "ClosedPop" if c["closed"] else "block"
        elif a == "cc":
            c = ch[i]
            want = "ClosedClose" if c["closed"] else "ok"
            c["closed"] = True
        elif a == "cl":
            want = "v%d" % len(ch[i]["buf"])
        elif a == "mn":
            mu[i] = False
        elif a == "ml":
            want = "block" if mu[i] else "ok"
            mu[i] = True
        elif a == "mu":
            want = "ok" if mu[i] else "Unlocked"
            mu[i] = False
        elif a == "rn":
            rw[i] = [0, False]
        elif a == "rl":
            want = "block" if (rw[i][1] or rw[i][0]) else "ok"
            rw[i][1] = True
        elif a == "rr":
            want = "block" if rw[i][1] else "ok"
            rw[i][0] += 1
        elif a == "ru":
            want = "ok" if rw[i][1] else "Unlocked"
            rw[i][1] = False
        elif a == "rv":
            want = "ok" if rw[i][0] else "Unlocked"
            rw[i][0] = max(0, rw[i][0] - 1)
        elif a == "on":
            on[i] = 0
        elif a == "oc":
            on[i] = 1
            want = "v1"
        elif a == "wn":
            wg[i] = 0
        elif a in ("wa", "wr", "ww"):
            # counting contract for correct use; a counter driven below zero is misuse (outside the property)
            if wg.get(i) is None:
                return None
            if a == "wa":
                k2 = int(op[2])
                if wg[i] + k2 < 0:
                    return None
                wg[i] += k2
                want = "ok"
            elif a == "wr":
                k2 = int(op[2])
                if k2 > wg[i]:
                    return None
                if k2 > 0:
                    wg[i] -= k2
                want = "ok"
            else:
                want = "ok" if wg[i] == 0 else "block"
        if want is not None and o != want:
            return "call %d (%s) answered %s, the contract requires %s" % (k, " ".join(op), o, want)
        if o in ("block", "panic"):
            return None
    return None


def minimise_script(line, still):
    f = line.split("\t")
    ops = [o for o in f[2].split(";") if o]

    def ok(sub):
        # keep scripts well-formed: every object used must have been created
        made = set()
        for o in sub:
            p = o.split(" ")
            if p[0] in ("cn", "nn", "mn", "rn", "wn", "on"):
                made.add((p[0][0] if p[0] != "nn" else "c", p[1]))
            else:
                if (p[0][0], p[1]) not in made:
                    return False
        return still("sy\trun\t" + ";".join(sub))

    ops = vlib.ddmin(ops, ok) if len(ops) > 1 else ops
    return "sy\trun\t" + ";".join(ops)


def correspond_confirmed(ctx, lines, label):
    """vlib.correspond with one addition: a line on which implementation and model (or the oracle) disagree is
    run again, alone, before anything is reported — a `block` answer is a timing judgement of the harness
    and must be reproducible."""
    impl = vlib.run_impl(lines)
    model = vlib.run_model(lines)
    ok = True
    reported = 0
    for ln, a, b in zip(lines, impl, model):
        ctx.case(ln, sample={"line": ln, "impl": a, "model": b})
        ctx.stat("answer:" + a.split(" ", 1)[0])
        if b.startswith("bad-"):
            raise RuntimeError("model rejected line %r: %s" % (ln, b))
        pf = script_oracle(ln, a)
        if a == b and pf is None:
            continue
        a1 = vlib.run_impl([ln])[0]
        if a1 == b and script_oracle(ln, a1) is None:
            ctx.stat("unconfirmed-disagreement")
            continue
        if reported >= 5:
            ok = False
            continue
        reported += 1

        def still(l2):
            x, y = vlib.run_impl([l2])[0], vlib.run_model([l2])[0]
            pf2 = script_oracle(l2, x)
            return (x != y) == (a1 != b) and (pf2 is None) == (script_oracle(ln, a1) is None) and not y.startswith("bad-")
        try:
            line = minimise_script(ln, still)
        except Exception:
            line = ln
        a2, b2 = vlib.run_impl([line])[0], vlib.run_model([line])[0]
        pf2 = script_oracle(line, a2)
        if pf2 is None and a2 == b2:
            line, a2, b2, pf2 = ln, a1, b, script_oracle(ln, a1)     # shrinking lost the failure: report the original
        if pf2 is not None:
            new = ctx.violation("property-fails", {"line": line}, "%s; impl=%r model=%r" % (pf2, a2, b2))
        else:
            new = ctx.violation("model-impl-disagree", {"line": line, "correspondence": label},
                                "impl=%r model=%r; the property oracle found no failure on this input" % (a2, b2),
                                no_input=True)
        if new:
            ok = False
        else:
            reported -= 1
    ctx.obligation("%s: implementation = model on %d generated lines" % (label, len(lines)), ok, "correspondence")


# ----------------------------------------------------------------------------- concurrent histories

def history_oracle(scen, params, recs):
    """Model-free re-implementation of the contract on one recorded history (independent of the Lean
    checker; both must agree)."""
    R = [r.split(" ") for r in recs]
    begun, pushers = {}, {}
    delivered, by_consumer = {}, {}
    closed_done, close_begun, saw_closed = set(), set(), set()
    pushed_ok = {}
    inside, rinside = {}, {}
    ob, wd, wa_done, wb_adds = {}, {}, {}, {}
    for k, r in enumerate(R):
        t = r[0]
        if t == "pb":
            a, ch, v = r[1], r[2], r[3]
            begun[(ch, v)] = (a, k, ch in closed_done)
        elif t == "pe":
            a, ch, v, res = r[1], r[2], r[3], r[4]
            if res == "ok":
                if begun.get((ch, v), (None, None, False))[2]:
                    return "push of %s on %s succeeded although it started after a close had completed" % (v, ch)
                pushed_ok.setdefault(ch, []).append(v)
            elif res != "ClosedPush":
                return "push answered %s" % res
        elif t == "ge":
            a, ch, v = r[1], r[2], r[3]
            if (ch, v) not in begun:
                return "token %s delivered on %s before/without being pushed" % (v, ch)
            if v in delivered.setdefault(ch, []):
                return "token %s delivered twice on %s" % (v, ch)
            delivered[ch].append(v)
            if (a, ch) in saw_closed:
                return "consumer %s received %s after it had seen channel %s closed" % (a, v, ch)
            prev = by_consumer.setdefault((a, ch), [])
            pa, pk, _ = begun[(ch, v)]
            for u in prev:
                ua, uk, _ = begun[(ch, u)]
                if ua == pa and uk > pk:
                    return "consumer %s received %s before %s although producer %s pushed them the other way round" % (a, u, v, pa)
            prev.append(v)
        elif t == "gx":
            a, ch = r[1], r[2]
            if ch not in close_begun:
                return "pop on %s failed with closed although nobody had started closing it" % ch
            if len(r) > 3 and r[3] != "ClosedPop":
                return "pop on closed %s answered %s" % (ch, r[3])
            saw_closed.add((a, ch))
        elif t == "cb":
            close_begun.add(r[2])
        elif t == "ce":
            if r[3] == "ok":
                if r[2] in closed_done:
                    return "channel %s closed successfully twice" % r[2]
                closed_done.add(r[2])
            elif r[3] != "ClosedClose":
                return "close answered %s" % r[3]
        elif t == "en":
            m = r[2]
            if inside.get(m) or rinside.get(m):
                return "thread %s entered %s while %s is inside" % (r[1], m, inside.get(m) or rinside.get(m))
            inside[m] = [r[1]]
        elif t == "lv":
            inside[r[2]] = []
        elif t == "ren":
            m = r[2]
            if inside.get(m):
                return "reader %s entered %s while writer %s is inside" % (r[1], m, inside[m])
            rinside.setdefault(m, []).append(r[1])
        elif t == "rlv":
            rinside[r[2]].remove(r[1])
        elif t == "ue":
            return "unlock by the holder answered %s" % r[3]
        elif t == "ob":
            ob[r[2]] = ob.get(r[2], 0) + 1
            if ob[r[2]] > 1:
                return "Once %s ran its body twice" % r[2]
        elif t == "or":
            if not ob.get(r[2]):
                return "a Once call returned before the body had run"
        elif t == "wa":
            wa_done[r[2]] = wa_done.get(r[2], 0) + int(r[3])
        elif t == "wd":
            wd[r[2]] = wd.get(r[2], 0) + 1
        elif t == "wb":
            wb_adds[(r[1], r[2])] = wa_done.get(r[2], 0)
        elif t == "wr":
            if wd.get(r[2], 0) < wb_adds.get((r[1], r[2]), 0):
                return "Wait on %s returned after %d End()s although %d were outstanding" % (r[2], wd.get(r[2], 0), wb_adds[(r[1], r[2])])
    for (a, ch) in saw_closed:
        missing = [v for v in pushed_ok.get(ch, []) if v not in delivered.get(ch, [])]
        if missing:
            return "channel %s closed and drained but pushed tokens %s were never delivered" % (ch, missing[:5])
    if scen == "mutex":
        m = re.search(r"t=(\d+) n=(\d+) counter=(\d+)", params)
        if m and int(m.group(1)) * int(m.group(2)) != int(m.group(3)):
            return "lost update under the mutex: counter=%s, expected %d" % (m.group(3), int(m.group(1)) * int(m.group(2)))
    return None


def run_stress(seed, rounds, timeout=600, race=False):
    env = vlib.go_env()
    p = subprocess.run([vlib.ELKH + ("-race" if race else ""), "systress", str(seed), str(rounds)]
                       + (["noearlyclose"] if race else []),
                       stdout=subprocess.PIPE, stderr=subprocess.PIPE,
                       text=True, errors="replace", timeout=timeout, env=env)
    out = [l for l in p.stdout.split("\n") if l.startswith("H ")]
    return p.returncode, out, p.stderr[-3000:]


def judge_histories(ctx, lines, seed):
    model_lines, parsed = [], []
    for l in lines:
        head, recs = l.split(" | ", 1)
        hp = head.split(" ", 2)
        scen, params = hp[1], (hp[2] if len(hp) > 2 else "")
        parsed.append((scen, params, [r for r in recs.split(";") if r]))
        model_lines.append("hs\tcheck\t" + ";".join(r for r in recs.split(";") if r and not r.startswith("ue ")))
    answers = vlib.run_model(model_lines) if model_lines else []
    ok = True
    for (scen, params, recs), ans in zip(parsed, answers):
        ctx.case(("hist", scen, params, len(recs), seed), nontrivial=len(recs) > 4,
                 sample={"scenario": scen, "params": params, "records": len(recs), "okHistory": ans})
        ctx.stat("history:" + scen)
        pf = history_oracle(scen, params, recs)
        lean_ok = ans == "ok true"
        if ans.startswith("bad-"):
            raise RuntimeError("hs domain rejected a history: " + ";".join(recs)[:300])
        inp = {"stress_seed": seed, "scenario": scen, "params": params, "history": ";".join(recs)}
        if pf is not None:
            ok = False
            reported = ctx.stats.get("history-violations-reported", 0)
            if reported < 3:
                ctx.stat("history-violations-reported")
                ctx.violation("property-fails", inp, pf + ("; okHistory=" + ans))
            else:
                ctx.stat("more:history-property-fails")
        elif not lean_ok:
            ctx.violation("history-rejected", inp, "okHistory rejects the history but the python contract check accepts it", no_input=True)
            ok = False
    return ok


# ----------------------------------------------------------------------------- Elk-level programs

def elk_programs(rng, count):
    """generated `go`-thread and `select` programs whose output is determined by the contract"""
    progs = []
    for k in range(count):
        kind = rng.choice(["pc", "pc", "mpc", "sel-recv", "sel-send", "sel-else", "mutex", "closed"])
        name = "C25p%d" % k
        cap = rng.choice([0, 1, 2, 5])
        n = rng.randint(1, 12)
        if kind == "pc":
            src = """using Std::Sync::WaitGroup
ch := Channel::[Int](%d)
wg := WaitGroup(2)
go
  for i in 1...%d
    ch << i * 3
  end
  ch.close
  wg.end
end
go
  for v in ch
    println v.inspect
  end
  wg.end
end
wg.wait
""" % (cap, n)
            want = "".join("%d\n" % (i * 3) for i in range(1, n + 1))
        elif kind == "mpc":
            p = rng.randint(2, 4)
            src = """using Std::Sync::WaitGroup
module %s
  def produce(ch: Channel[Int], wg: WaitGroup, base: Int)
    for i in 1...%d
      ch << base + i
    end
    wg.end
  end
end
ch := Channel::[Int](%d)
wg := WaitGroup(%d)
for p in 1...%d
  go %s.produce(ch, wg, p * 100)
end
go
  wg.wait
  ch.close
end
var total = 0
var count = 0
for v in ch
  total += v
  count += 1
end
println count.inspect
println total.inspect
""" % (name, n, cap, p, p, name)
            total = sum(pp * 100 + i for pp in range(1, p + 1) for i in range(1, n + 1))
            want = "%d\n%d\n" % (p * n, total)
        elif kind == "sel-recv":
            which = rng.choice([1, 2])
            src = """ch1 := Channel::[Int](2)
ch2 := Channel::[Int](2)
ch%d << %d
select
case v := <<ch1
  println("ch1 " + v.inspect)
case v := <<ch2
  println("ch2 " + v.inspect)
end
println ch1.length.inspect
println ch2.length.inspect
""" % (which, n)
            want = "ch%d Std::Result{value: %d, err: nil}\n0\n0\n" % (which, n)
        elif kind == "sel-send":
            src = """ch1 := Channel::[Int](1)
ch2 := Channel::[Int](1)
ch1 << 1
select
case ch1 << %d
  println("sent 1")
case ch2 << %d
  println("sent 2")
end
println ch1.length.inspect
println ch2.length.inspect
for v in ch2
  println v.inspect
  break
end
""" % (n, n + 1)
            want = "sent 2\n1\n1\n%d\n" % (n + 1)
        elif kind == "sel-else":
            src = """ch1 := Channel::[Int](1)
ch2 := Channel::[Int](1)
ch2 << 5
select
case v := <<ch1
  println("got")
case ch2 << 6
  println("sent")
else
  println("none ready")
end
println ch2.length.inspect
"""
            want = "none ready\n1\n"
        elif kind == "mutex":
            t = rng.randint(2, 5)
            src = """using Std::Sync::{Mutex, WaitGroup}
module %s
  class Counter
    attr n: Int, m: Mutex
    init
      @n = 0
      @m = Mutex()
    end
    def incr
      @m.lock
      @n++
      @m.unlock
    end
  end
  def work(c: Counter, wg: WaitGroup)
    for i in 1...%d
      c.incr
    end
    wg.end
  end
end
c := %s::Counter()
wg := WaitGroup(%d)
for i in 1...%d
  go %s.work(c, wg)
end
wg.wait
println c.n.inspect
""" % (name, n * 5, name, t, t, name)
            want = "%d\n" % (t * n * 5)
        else:
            src = """ch := Channel::[Int](3)
do
  ch << 1
  ch << 2
  ch.close
  a := ch.pop
  println a.inspect
  b := ch.pop
  println b.inspect
catch Channel::ClosedError() as e
  println "unexpected " + e.message
end
do
  c := ch.pop
  println "popped"
catch Channel::ClosedError() as e
  println e.message
end
do
  ch << 3
  println "pushed"
catch Channel::ClosedError() as e
  println e.message
end
do
  ch.close
  println "closed"
catch Channel::ClosedError() as e
  println e.message
end
"""
            want = ("1\n2\ncannot pop values from a closed channel\ncannot push values to a closed channel\n"
                    "cannot close a closed channel\n")
        progs.append({"id": name, "kind": kind, "src": src, "want": want, "timeout_ms": 8000})
    return progs


SELECT_CLOSED = [
    {"id": "selclosed-send", "kind": "sel-closed-send", "timeout_ms": 8000,
     "src": "ch := Channel::[Int](2)\nch.close\ndo\n  select\n  case ch << 5\n    println \"sent\"\n  end\ncatch Channel::ClosedError() as e\n  println e.message\nend\n",
     "want": "cannot push values to a closed channel\n"},
    {"id": "selclosed-recv", "kind": "sel-closed-recv", "timeout_ms": 8000,
     "src": "ch := Channel::[Int](2)\nch.close\nselect\ncase v := <<ch\n  println v.inspect\nend\n",
     "want_re": r"^Std::Result\{value: nil, err: Std::Channel::ClosedError\{.*cannot pop values from a closed channel"},
]


def run_elk(ctx, progs):
    answers = vlib.run_programs([{k: p[k] for k in ("id", "src", "timeout_ms")} for p in progs])
    ok = True
    for p, a in zip(progs, answers):
        ctx.case(("elk", p["src"]), sample={"kind": p["kind"], "outcome": a.get("outcome"), "stdout": a.get("stdout", "")[:60]})
        ctx.stat("elk:" + p["kind"] + ":" + str(a.get("outcome")))
        if a.get("outcome") == "rejected":
            raise RuntimeError("generated program rejected: %s\n%s" % (a.get("diags"), p["src"]))
        good = a.get("outcome") == "value" and (
            a.get("stdout") == p["want"] if "want" in p else re.search(p["want_re"], a.get("stdout", "")) is not None)
        if not good:
            detail = "outcome=%s stdout=%r expected %r %s" % (a.get("outcome"), a.get("stdout"), p.get("want", p.get("want_re")),
                                                              a.get("panic", "") or a.get("err_msg", ""))
            if ctx.violation("elk-" + p["kind"], {"program": p["src"]}, detail):
                ok = False
    return ok


# ----------------------------------------------------------------------------- the check

def run(ctx):
    ctx.rule = ("(i) sequential scripts over channels (value and native), Mutex, RWMutex, WaitGroup, Once, misuse-heavy; "
                "(ii) histories of unique tokens recorded from concurrent producer/consumer/locker goroutines on the real "
                "wrappers; (iii) generated go-thread and select Elk programs. distinct = distinct script/history/program")
    ctx.prove("ElkVerif.Props.C25")
    if ctx.replay:
        rp = json.load(open(ctx.replay))["input"]
        if "line" in rp:
            correspond_confirmed(ctx, [rp["line"]], "sync wrappers")
        elif "history" in rp:
            line = "H %s %s | %s" % (rp["scenario"], rp["params"], rp["history"])
            judge_histories(ctx, [line], rp.get("stress_seed", 0))
        elif "program" in rp:
            run_elk(ctx, [{"id": "replay", "kind": "replay", "src": rp["program"], "want": rp.get("want", ""), "timeout_ms": 8000}])
        return
    lines = vlib.corpus_lines("C25") + boundary_scripts() + [gen_script(ctx.rng) for _ in range(ctx.n(400, 6000))]
    correspond_confirmed(ctx, lines, "sync wrappers")
    # concurrent histories, judged by the certified Lean checker and by the python contract
    hist_ok = True
    nh = 0
    for s in range(ctx.n(2, 12)):
        seed = ctx.rng.randint(1, 1 << 30)
        rc, out, err = run_stress(seed, ctx.n(12, 40))
        if rc != 0:
            ctx.violation("stress-died", {"stress_seed": seed}, "elkh systress exited %d: %s" % (rc, vlib.classify_fatal(err)))
            hist_ok = False
        nh += len(out)
        hist_ok &= judge_histories(ctx, out, seed)
    if not ctx.quick:
        # the same concurrent drivers under the Go race detector (unsynchronised access inside the wrappers)
        okr, logr = vlib.build_harness(race=True)
        if not okr:
            ctx.obligation("go build -race of the harness", False, "build", logr[-500:])
        else:
            seed = ctx.rng.randint(1, 1 << 30)
            rc, out, err = run_stress(seed, 30, race=True)
            racy = "DATA RACE" in err
            if racy or rc != 0:
                ctx.violation("data-race" if racy else "stress-died", {"stress_seed": seed, "race": True},
                              ("race detector report: " if racy else "exit %d: " % rc) + err[-1200:])
                hist_ok = False
            nh += len(out)
            hist_ok &= judge_histories(ctx, out, seed)
            ctx.stat("race-detector-histories", len(out))
    ctx.extra["histories_checked"] = nh
    ctx.obligation("recorded histories: okHistory accepts every history of the concurrent runs (%d)" % nh,
                   hist_ok and nh > 0, "correspondence")
    elk_ok = run_elk(ctx, elk_programs(ctx.rng, ctx.n(14, 80)) + SELECT_CLOSED)
    ctx.obligation("generated go-thread/select programs print what the contract determines", elk_ok, "correspondence")
    ctx.assumptions += [
        "Go chan / sync.Mutex / sync.RWMutex / sync.WaitGroup / sync.Once implement the atomic steps of the model",
        "history records are written before/after the calls as documented in harness/dom/sync.go",
    ]
