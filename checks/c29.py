"""C29 — Compiled bytecode is structurally valid."""
import json
import re

import vlib
from checks import _bc, _bcgen

META = {
    "property_id": "C29",
    "technique": "certified per-instance checking: Lean bytecode verifier (decoder over the probed opcode layout table, "
                 "structural rules, abstract interpretation of the operand stack) with a kernel-checked soundness theorem "
                 "w.r.t. an abstract machine over the same opcode table, run on every BytecodeFunction the real compiler "
                 "produces for the repo's Elk sources, the Go test tables' snippets and generated programs; Python "
                 "re-implementation of the structural rules as model-free oracle; decoder tied to the real "
                 "DisassembleInstruction by differential execution",
    "level_text": "Kernel-checked: verify_sound (a function accepted by the verifier never makes the abstract machine read "
                  "outside Instructions/Values/locals/upvalues or pop below the frame, and every reached pc is an "
                  "instruction boundary), structure_sound (jump targets / catch entries / indices of every instruction), "
                  "sweep_tiles (boundaries tile the code), tables_agree (disassembler layout = VM operand encoding for every "
                  "opcode, by decide on the regenerated table). Per instance: all accepted programs of the corpus are checked "
                  "by running the verifier on their real bytecode. Partial: the abstract machine's stack-effect table is "
                  "hand-written from Thread.run and validated only by the corpus; calls are modular (callee verified "
                  "separately); 'all accepted programs' is covered per instance, not by a compiler-correctness proof.",
    "level_note": "Trusted: Lean kernel; the hand-written semantic table (Model/Bytecode/Op.lean) mirrors vm/thread.go; the "
                  "harness serialiser (harness/dom/bytecode.go). Handler entry depth is verified for the VM as the compiler "
                  "assumes it (lax mode, stack cut back at a catch); the VM as it is (D16, no truncation) is reported as a "
                  "finding class. Generator/promise resumption and error re-entry of generators are modelled by edges, not "
                  "proved against the VM.",
    "design_ref": "DESIGN.md §7 C29",
}

QUICK_SNIPPETS, THOROUGH_SNIPPETS = 200, 100000
QUICK_GEN, THOROUGH_GEN = 200, 5000
QUICK_MUT, THOROUGH_MUT = 1500, 40000


# ---------------------------------------------------------------- model-free structural oracle (python)

class Table:
    """opcode layout from the probe JSON (the real DisassembleInstruction), nothing from Lean."""

    def __init__(self, probe):
        self.rows = {r["byte"]: r for r in probe["rows"]}
        self.term = probe["closure_terminator"]
        self.long_flag = probe["upvalue_long_flag"]
        self.local_flag = probe["upvalue_local_flag"]
        self.byname = {r["name"]: r["byte"] for r in probe["rows"] if r["name"] not in ("", "UNKNOWN")}

    def name(self, b):
        r = self.rows.get(b)
        return r["name"] if r and r["name"] not in ("", "UNKNOWN") else "?"

    def width(self, code, pc):
        """(width, descriptors) or raises ValueError(kind)"""
        r = self.rows.get(code[pc])
        if r is None or not r["known"]:
            raise ValueError("unknown" if not (r and r.get("panic")) else "panic")
        lay = _bc.layout_of(r)
        if lay == _bc.LAY_CLOSURE:
            pos, ups = pc + 1, []
            while True:
                if pos >= len(code):
                    raise ValueError("short")
                fl = code[pos]
                if fl == self.term:
                    return pos + 1 - pc, ups
                if fl & self.long_flag:
                    if pos + 2 >= len(code):
                        raise ValueError("short")
                    ups.append((bool(fl & self.local_flag), code[pos + 1] * 256 + code[pos + 2]))
                    pos += 3
                else:
                    if pos + 1 >= len(code):
                        raise ValueError("short")
                    ups.append((bool(fl & self.local_flag), code[pos + 1]))
                    pos += 2
        if pc + lay > len(code):
            raise ValueError("short")
        return lay, None


TERMINATOR = re.compile(r"^(RETURN.*|LOOP|JUMP|THROW|RETHROW|JUMP_TO_FINALLY|STOP_ITERATION|CALL_METHOD_TCO(8|16)|CALL_METHOD_BC(8|16))$")
JUMP_FWD = re.compile(r"^(JUMP|JUMP_IF.*|JUMP_UNLESS.*|FOR_IN|FOR_IN_BUILTIN)$")
CONST8 = {"LOAD_VALUE8", "CALL_METHOD8", "CALL_METHOD_TCO8", "CALL_METHOD_BC8", "CALL_METHOD_NT8", "CALL8", "GET_CONST8", "NEXT8"}
CONST16 = {"LOAD_VALUE16", "CALL_METHOD16", "CALL_METHOD_TCO16", "CALL_METHOD_BC16", "CALL_METHOD_NT16", "CALL16",
           "GET_CONST16", "NEXT16", "GET_IVAR_NAME16", "SET_IVAR_NAME16"}
CONSTKIND = [(re.compile(r"^(CALL_METHOD(_TCO)?(8|16)|CALL(8|16)|NEXT(8|16))$"), "c"),
             (re.compile(r"^CALL_METHOD_BC(8|16)$"), "b"), (re.compile(r"^CALL_METHOD_NT(8|16)$"), "n"),
             (re.compile(r"^(GET_CONST(8|16)|GET_IVAR_NAME16|SET_IVAR_NAME16)$"), "s")]
LOCAL_FIXED = re.compile(r"^(GET|SET)_LOCAL_(\d)$")
LOCAL_OP = re.compile(r"^((GET|SET)_LOCAL|BOX_LOCAL)(8|16)$")
UPV_FIXED = re.compile(r"^(GET|SET)_UPVALUE_(\d)$")
UPV_OP = re.compile(r"^(GET|SET)_UPVALUE(8|16)$")


def py_structure(tbl, f, nfuncs):
    """Structural rules of the property, judged on the dumped function with the probed layout only.
    Returns None or (rule, pc, detail)."""
    code = bytes.fromhex(f["code"])
    n = len(code)
    bounds, instrs, pc = [], [], 0
    while pc < n:
        try:
            w, ups = tbl.width(code, pc)
        except ValueError as e:
            return ("decode-" + str(e), pc, tbl.name(code[pc]))
        bounds.append(pc)
        instrs.append((pc, w, ups))
        pc += w
    bset = set(bounds)
    prep = 0
    if instrs and tbl.name(code[0]).startswith("PREP_LOCALS"):
        prep = code[1] if instrs[0][1] == 2 else code[1] * 256 + code[2]
    nlocals = f["params"] + 1 + prep
    consts = f["consts"]
    for pc, w, ups in instrs:
        nm = tbl.name(code[pc])
        opnd = int.from_bytes(code[pc + 1:pc + w], "big") if w in (2, 3) else 0
        nxt = pc + w
        if JUMP_FWD.match(nm) and nm != "JUMP_TO_FINALLY":
            if nxt + opnd not in bset:
                return ("jump-target", pc, "%s -> %d" % (nm, nxt + opnd))
        if nm == "LOOP":
            if nxt - opnd not in bset:
                return ("jump-target", pc, "LOOP -> %d" % (nxt - opnd))
        idx = None
        if nm in CONST8 or nm in CONST16:
            idx = opnd
        m = re.match(r"^LOAD_VALUE_(\d)$", nm)
        if m:
            idx = int(m.group(1))
        if idx is not None:
            if idx >= len(consts):
                return ("const-index", pc, "%s %d of %d" % (nm, idx, len(consts)))
            for rx, k in CONSTKIND:
                if rx.match(nm) and consts[idx][0] != k:
                    return ("const-kind", pc, "%s wants %s, has %s" % (nm, k, consts[idx]))
            if consts[idx][0] in "fb":
                k = int(consts[idx][1:].split(".")[-1])
                if not (0 <= k < nfuncs):
                    return ("const-kind", pc, "function index %d" % k)
        li = None
        m = LOCAL_FIXED.match(nm)
        if m:
            li = int(m.group(2))
        elif LOCAL_OP.match(nm):
            li = code[pc + 1] if nm.endswith("8") else code[pc + 1] * 256 + code[pc + 2]
        if li is not None and li >= nlocals:
            return ("local-index", pc, "%s %d of %d" % (nm, li, nlocals))
        ui = None
        m = UPV_FIXED.match(nm)
        if m:
            ui = int(m.group(2))
        elif UPV_OP.match(nm):
            ui = opnd
        if ui is not None and ui >= f["upvalues"]:
            return ("upvalue-index", pc, "%s %d of %d" % (nm, ui, f["upvalues"]))
        if ups is not None:
            for is_local, i in ups:
                if is_local and i >= nlocals:
                    return ("local-index", pc, "closure captures local %d of %d" % (i, nlocals))
                if not is_local and i >= f["upvalues"]:
                    return ("upvalue-index", pc, "closure captures upvalue %d of %d" % (i, f["upvalues"]))
        if nm.startswith("PREP_LOCALS") and pc != 0:
            return ("prep-not-first", pc, nm)
    for fr, to, jmp, fin in f["catches"]:
        if fr == to:
            continue
        if not (0 <= fr < to and fr in bset and (to in bset or to == n) and jmp in bset and (not fin or jmp + 4 in bset)):
            return ("catch-entry", max(fr, 0), "%d:%d -> %d%s" % (fr, to, jmp, " finally" if fin else ""))
    if instrs:
        lpc = instrs[-1][0]
        if not TERMINATOR.match(tbl.name(code[lpc])):
            return ("falls-off-end", lpc, tbl.name(code[lpc]))   # advisory: only a defect if that instruction is reachable
    return None


STRUCT_FAULTS = {"pc-out": "decode", "unknown-op": "decode-unknown", "layout": "decode", "truncated": "decode-short",
                 "const-index": "const-index", "const-kind": "const-kind", "local-index": "local-index",
                 "upvalue-index": "upvalue-index", "bad-jump": "jump-target", "prep-not-first": "prep-not-first"}


# ---------------------------------------------------------------- classification

def fault_sig(tbl, f, fault):
    """stable signature of a verifier fault: kind, faulting opcode, the two instructions before it"""
    m = re.match(r"([a-z-]+)(?:@(\d+))?", fault)
    kind, pc = m.group(1), int(m.group(2)) if m.group(2) else 0
    code = bytes.fromhex(f["code"])
    b = [x for x in f["bounds"]]
    names = []
    if pc in b:
        i = b.index(pc)
        for j in range(max(0, i - 2), i + 1):
            if b[j] < len(code):
                names.append(tbl.name(code[b[j]]))
    return kind + "|" + ">".join(names)


def parse_verdicts(ans):
    """`ok k:ok:states:depth:poly:conflict:amb k:err:fault:conflict ...` -> list of dicts"""
    out = []
    for tk in ans.split(" ")[1:]:
        p = tk.split(":")
        conf = None
        if p[-1 if p[1] == "err" else 5] not in ("-", ""):
            a, b = p[-1 if p[1] == "err" else 5].split(">")
            conf = (int(a), int(b))
        if p[1] == "ok":
            out.append({"ok": True, "states": int(p[2]), "depth": int(p[3]),
                        "poly": [] if p[4] == "-" else [int(x) for x in p[4].split(",")],
                        "conflict": conf, "amb": p[6] == "amb"})
        else:
            out.append({"ok": False, "fault": p[2], "conflict": conf})
    return out


def handler_regions(tbl, f):
    """[(from, to, handler start, end of the whole do expression)] of the non-finally catch entries.
    compileDo emits `JUMP end` immediately before the first handler."""
    code = bytes.fromhex(f["code"])
    res = []
    for fr, to, jmp, fin in f["catches"]:
        if fin or fr == to:
            continue
        end = len(code)
        if jmp >= 3 and tbl.name(code[jmp - 3]) == "JUMP":
            end = jmp + code[jmp - 2] * 256 + code[jmp - 1]
        res.append((fr, to, jmp, end))
    return res


def join_sig(tbl, f, conflict):
    """signature of an inconsistent join from the first edge that arrives with another depth:
    opcode of the edge's source, and where the edge leaves from / goes to relative to the innermost
    do-expression around the source (body | tail (inline finally) | handler) x (inside | end | outside)"""
    if conflict is None:
        return "join|?"
    a, b = conflict
    code = bytes.fromhex(f["code"])
    op = tbl.name(code[a]) if a < len(code) else "?"
    cls = "plain"
    for fr, to, jmp, end in sorted(handler_regions(tbl, f), key=lambda r: r[3] - r[0]):
        where = "body" if fr <= a < to else ("tail" if to <= a < jmp else ("handler" if jmp <= a < end else None))
        if where:
            cls = where + "-" + ("end" if b == end else ("inside" if fr <= b < end else "outside"))
            break
    return "join|%s|%s" % (op, cls)


def benign_poly(tbl, f, poly):
    """joins at a generator's `STOP_ITERATION` (and the `LOOP` behind the final one) are depth-agnostic"""
    code = bytes.fromhex(f["code"])
    n = len(code)
    return [p for p in poly if not (tbl.name(code[p]) == "STOP_ITERATION" or
                                    (p == n - 3 and n >= 4 and tbl.name(code[n - 4]) == "STOP_ITERATION"))]


def source_excerpt(f, n=40):
    """source lines of a function that was compiled from a file of the elk tree"""
    try:
        lines = open(f["file"], errors="replace").read().split("\n")
    except OSError:
        return ""
    return "\n".join(lines[max(0, f["line"] - 1):f["line"] - 1 + n])


def finally_region_start(f):
    """smallest handler address of a catch entry that shares its range with a `finally` entry"""
    fins = [(c[0], c[1]) for c in f["catches"] if c[3]]
    starts = [c[2] for c in f["catches"] if not c[3] and (c[0], c[1]) in fins]
    return min(starts) if starts else None


# ---------------------------------------------------------------- minimisation of a failing program

def ddmin_batch(items, test_many, budget=14):
    """delta debugging where all candidates of a round are judged by one call:
    test_many(list of item lists) -> list of bool. `budget` bounds the number of rounds."""
    items = list(items)
    n = 2
    rounds = 0
    while len(items) >= 2 and rounds < budget:
        rounds += 1
        chunk = max(1, len(items) // n)
        subsets = [items[i:i + chunk] for i in range(0, len(items), chunk)]
        cands = [[x for j, sub in enumerate(subsets) if j != i for x in sub] for i in range(len(subsets))]
        cands = [c for c in cands if c]
        res = test_many(cands) if cands else []
        hit = next((c for c, ok in zip(cands, res) if ok), None)
        if hit is not None:
            items = hit
            n = max(n - 1, 2)
        else:
            if chunk == 1:
                break
            n = min(n * 2, len(items))
    return items


def minimise_program(tbl, src, sig):
    """delta-debug the source by lines, keeping a function with the same problem signature"""
    lines = src.split("\n")
    if len(lines) > 400:
        return src

    def test_many(cands):
        res = judge_programs(tbl, ["\n".join(c) for c in cands])
        return [bool(r) and any(x[1] == sig for x in r) for r in res]
    try:
        keep = ddmin_batch(lines, test_many)
    except Exception:
        return src
    return "\n".join(keep)


def judge_programs(tbl, srcs, abort=False):
    """dump + verify programs; per program None (not compiled) or list of (funcname, sig) of its lax-mode problems"""
    answers = _bc.dump_programs([{"id": "m%d" % i, "src": s, "abort": abort} for i, s in enumerate(srcs)])
    oks = [a for a in answers if a["outcome"] == "ok"]
    outs = iter(vlib.run_model([_bc.verify_line(a["funcs"], "lax") for a in oks]) if oks else [])
    result = []
    for a in answers:
        if a["outcome"] != "ok":
            result.append(None)
            continue
        res = []
        for f, v in zip(a["funcs"], parse_verdicts(next(outs))):
            if f["lib"]:
                continue
            if v["ok"]:
                v["poly"] = benign_poly(tbl, f, v["poly"])
            if f["diserr"]:
                res.append((f["name"], "disassemble|" + f["diserr"] + "|" + tbl.name(bytes.fromhex(f["code"])[f["disat"]])))
            if not v["ok"]:
                kind = v["fault"].split("@")[0]
                res.append((f["name"], join_sig(tbl, f, v["conflict"]) if kind in ("diverges", "handler-depth") else fault_sig(tbl, f, v["fault"])))
            elif v["poly"] or v["amb"]:
                start = finally_region_start(f)
                if not (v["poly"] and not v["amb"] and start is not None and min(v["poly"]) >= start):
                    res.append((f["name"], join_sig(tbl, f, v["conflict"])))
        result.append(res)
    return result


# ---------------------------------------------------------------- decoder correspondence

def mutate_code(rng, code):
    b = bytearray(code)
    r = rng.random()
    if not b:
        return bytes([rng.randrange(256)])
    if r < 0.3:
        b[rng.randrange(len(b))] = rng.randrange(256)
    elif r < 0.5:
        del b[rng.randrange(len(b)):]
    elif r < 0.65:
        i = rng.randrange(len(b))
        b[i:i] = bytes([rng.randrange(256)])
    elif r < 0.8:
        i = rng.randrange(len(b))
        del b[i:i + rng.choice([1, 1, 2, 3])]
    else:
        b = bytearray(rng.randrange(256) for _ in range(rng.choice([1, 2, 3, 5, 8, 13])))
    return bytes(b[:400])


def decode_oracle_factory(real_lines):
    def oracle(line, ans):
        if line in real_lines and not ans.startswith("ok "):
            return "a function produced by the compiler does not disassemble: " + ans
        return None
    return oracle


def minimise_decode(line, still):
    f = line.split("\t")
    code = bytes.fromhex(f[2])
    if len(code) > 200:
        return line
    items = vlib.ddmin(list(code), lambda bs: still("bc\tdecode\t%s\t%s" % (bytes(bs).hex(), f[3])))
    return "bc\tdecode\t%s\t%s" % (bytes(items).hex(), f[3])


# ---------------------------------------------------------------- run

def collect_programs(ctx):
    progs = []   # (label, src, name or None)
    for rel, src in _bc.repo_sources():
        if rel.endswith(".elk.test") and rel != "main.elk.test":
            continue   # compiled through main.elk.test's import
        progs.append(("repo:" + rel, src, vlib.os.path.join(vlib.REPO, rel)))
    sn = _bc.harvested_snippets()
    ctx.stat("corpus:harvested_snippets_total", len(sn))
    k = ctx.n(QUICK_SNIPPETS, THOROUGH_SNIPPETS)
    if k < len(sn):
        sn = ctx.rng.sample(sn, k)
    progs += [("go-test:" + n, s, None) for n, s in sn]
    for i in range(ctx.n(QUICK_GEN, THOROUGH_GEN)):
        label, src = _bcgen.gen_program(ctx.rng, i)
        progs.append(("gen:" + label, src, None))
    # deterministic operand-width boundary grid (both tiers): verified like every other program, and run below
    progs += [(lab, src, None) for lab, src, exp in _bcgen.boundary_programs()]
    return progs


def run_boundary_programs(ctx):
    """the boundary grid is also executed: stdout must be the value the generator computed"""
    bp = _bcgen.boundary_programs()
    res = vlib.run_programs([{"id": "bw%d" % i, "src": src, "timeout_ms": 20000} for i, (lab, src, exp) in enumerate(bp)])
    seen = set()
    for (lab, src, exp), a in zip(bp, res):
        ctx.stat("boundary-run:" + str(a.get("outcome")))
        if a.get("outcome") == "rejected":
            continue
        if a.get("stdout") != exp:
            cls = ":".join(lab.split(":")[:2])
            if cls in seen:
                continue
            seen.add(cls)
            ctx.violation("boundary-program-output", {"program": src, "sig": "output|" + lab, "expected": exp},
                          "%s: outcome %s, stdout %r, expected %r %s" % (lab, a.get("outcome"), (a.get("stdout") or "")[:80], exp,
                                                                          (a.get("panic") or a.get("err_msg") or "")[:120]))


def _t(ctx, name, t0):
    ctx.extra.setdefault("phase_seconds", {})[name] = round(vlib.time.time() - t0, 1)
    return vlib.time.time()


def run(ctx):
    t0 = vlib.time.time()
    ctx.rule = ("every BytecodeFunction (recursively through the constant pools) the real compiler emits for: the repo's Elk "
                "sources (lib/, main.elk.test importing all *.elk.test), Elk snippets harvested from the Go test tables "
                "(go/ast), generated programs (loops, closures, do/catch/finally, switch/patterns, generators, async, macros), "
                "a deterministic operand-width boundary grid (253..257 locals at top level / in methods / in closures x "
                "do-catch, break/continue/return through finally, labelled break, call to a later method, closure over the "
                "highest local; constant pools and upvalue counts crossing 255; long jumps) which is also executed and "
                "compared with the value the generator computed; "
                "each is judged by the Lean verifier (lax and strict handler semantics), the Python structural oracle and the "
                "real Disassemble; plus byte-level mutants of real code for the decoder correspondence. distinct = distinct "
                "function bytecode; non-trivial = function with at least 2 instructions")
    probe, _ = _bc.regen_opcodes(ctx)
    tbl = Table(probe)
    t0 = _t(ctx, "probe", t0)
    ctx.prove("ElkVerif.Props.C29")
    t0 = _t(ctx, "prove", t0)
    ctx.trusted.append("semantic table Model/Bytecode/Op.lean hand-written from vm/thread.go (validated by the corpus only)")

    if ctx.replay:
        rp = json.load(open(ctx.replay))["input"]
        if "line" in rp:
            lines = [rp["line"]]
            vlib.correspond(ctx, lines, oracle=decode_oracle_factory(set(lines) if rp.get("real") else set()),
                            label="decoder = DisassembleInstruction")
            return
        progs = [("replay", rp["program"], rp.get("name"))]
    else:
        progs = collect_programs(ctx)
        for l in vlib.corpus_lines("C29"):
            if l.startswith("{"):
                d = json.loads(l)
                progs.insert(0, ("corpus:" + d.get("id", "?"), d["src"], None))

    reqs = [{"id": "p%d" % i, "src": src, **({"name": nm} if nm else {})} for i, (lab, src, nm) in enumerate(progs)]
    t0 = _t(ctx, "collect", t0)
    answers = _bc.dump_programs(reqs)
    t0 = _t(ctx, "dump", t0)
    seen_code = set()
    real_lines, decode_lines = set(), []
    vlines, vmeta = [], []
    for (lab, src, nm), a in zip(progs, answers):
        ctx.stat("compile:" + a["outcome"])
        if a["outcome"] in ("panic", "fatal", "timeout"):
            ctx.stat("compile-crash:" + (a.get("panic") or "")[:60])
            continue
        if a["outcome"] != "ok":
            continue
        vlines.append(_bc.verify_line(a["funcs"], "lax"))
        vlines.append(_bc.verify_line(a["funcs"], "strict"))
        vmeta.append((lab, src, nm, a))
        for f in a["funcs"]:
            if f["code"] not in seen_code:
                seen_code.add(f["code"])
                ln = _bc.decode_line(f["code"], len(f["consts"]))
                real_lines.add(ln)
                decode_lines.append(ln)
    ctx.stat("functions:distinct_code", len(seen_code))

    # --- verifier on every function
    out = vlib.run_model(vlines, timeout=3000) if vlines else []
    t0 = _t(ctx, "verify", t0)
    reported = {}
    d16_instances = 0
    poly_fin = 0
    for idx, (lab, src, nm, a) in enumerate(vmeta):
        lax = parse_verdicts(out[2 * idx])
        strict = parse_verdicts(out[2 * idx + 1])
        for k, f in enumerate(a["funcs"]):
            if f["lib"] and not lab.startswith("repo:"):
                continue
            ninstr = max(0, len(f["bounds"]) - 1)
            ctx.case(f["code"], nontrivial=ninstr >= 2,
                     sample={"program": lab, "function": f["name"], "lax": out[2 * idx].split(" ")[1 + k],
                             "strict": out[2 * idx + 1].split(" ")[1 + k]})
            py = py_structure(tbl, f, len(a["funcs"]))
            falls = py is not None and py[0] == "falls-off-end"
            if falls and not (not lax[k]["ok"] and lax[k]["fault"].startswith("pc-out")):
                py = None   # the last instruction is not reachable (or the verifier found something else first)
            v, vs = lax[k], strict[k]
            for vv in (v, vs):
                if vv["ok"]:
                    vv["poly"] = benign_poly(tbl, f, vv["poly"])
            problems = []
            if f["diserr"]:
                code = bytes.fromhex(f["code"])
                problems.append(("disassemble", "disassemble|%s|%s" % (f["diserr"], tbl.name(code[f["disat"]]) if f["disat"] < len(code) else "?"),
                                 "the real Disassemble fails at offset %d (%s)" % (f["disat"], f["diserr"])))
            if py is not None:
                problems.append(("structure", "py|%s|%s" % (py[0], tbl.name(bytes.fromhex(f["code"])[py[1]])),
                                 "python structural oracle: %s at %d (%s)" % py))
            JOINK = ("diverges", "handler-depth")
            if not v["ok"]:
                kind = v["fault"].split("@")[0]
                if kind in STRUCT_FAULTS and py is None and not f["diserr"]:
                    # the Lean verifier rejects on a structural rule the model-free oracle accepts: broken correspondence
                    ctx.violation("model-impl-disagree", {"program": src, "function": f["name"], "correspondence": "verifier vs python structure"},
                                  "lean=%s python=ok" % v["fault"], no_input=True)
                elif kind in JOINK:
                    problems.append(("join-depth", join_sig(tbl, f, v["conflict"]),
                                     "operand-stack depth grows without bound / is inconsistent (%s), first conflicting edge %s"
                                     % (v["fault"], v["conflict"])))
                else:
                    problems.append(("verifier", fault_sig(tbl, f, v["fault"]), "verifier rejects: " + v["fault"]))
            elif py is not None and not f["diserr"]:
                ctx.violation("model-impl-disagree", {"program": src, "function": f["name"], "correspondence": "verifier vs python structure"},
                              "lean=ok python=%s" % (py,), no_input=True)
            if v["ok"]:
                ctx.stat("verdict:lax-ok")
                if v["poly"] or v["amb"]:
                    start = finally_region_start(f)
                    if v["poly"] and not v["amb"] and start is not None and min(v["poly"]) >= start:
                        poly_fin += 1
                        ctx.stat("verdict:lax-poly-in-finally-region")
                    else:
                        problems.append(("join-depth", join_sig(tbl, f, v["conflict"]),
                                         "paths join with different operand-stack depths at pcs %s (first conflicting edge %s)"
                                         % (v["poly"][:8], v["conflict"])))
                if (not vs["ok"]) or (vs["poly"] and not v["poly"]) or (vs["ok"] and vs["depth"] > v["depth"]):
                    d16_instances += 1
                    ctx.stat("verdict:strict-only-failure(D16 class)")
            else:
                ctx.stat("verdict:lax-" + v["fault"].split("@")[0])
            for rule, sig, detail in problems:
                ctx.stat("problem:" + sig)
                key = sig
                if key in reported:
                    reported[key][3] += 1
                    continue
                reported[key] = [rule, (lab, src, nm, f["name"], source_excerpt(f) if nm else None), detail, 1]

    # --- report each distinct problem signature once, on a minimised program
    n_min = n_rep = 0
    for sig, (rule, (lab, src, nm, fname, excerpt), detail, count) in sorted(reported.items(), key=lambda kv: (len(kv[1][1][1]), kv[0])):
        if n_rep >= 12:
            ctx.stat("problems-not-reported(over the cap of 12 signatures)")
            continue
        msrc = src
        inp = {"program": src, "sig": sig, **({"name": nm, "context": excerpt} if nm else {})}
        det = "%s; function %s of %s; %d function(s) with this signature in this run" % (detail, fname, lab, count)
        pre = {"kind": "bytecode-" + rule, "input": inp, "detail": det}
        known = ctx.match_finding(pre) is not None
        if not known:
            n_rep += 1
        if (not known and n_min < 3 and nm is None and not ctx.replay and not vlib.os.environ.get("C29_NOMIN")
                and rule in ("verifier", "disassemble", "join-depth")):
            n_min += 1
            # unknown problem: shrink the program first (known ones are recognised on the program as generated)
            msrc = minimise_program(tbl, src, sig)
            inp = {"program": msrc, "sig": sig}
        ctx.violation("bytecode-" + rule, inp, det)

    # --- D16 class (strict-only failures) reported once on the canonical program
    if d16_instances:
        canon = _bcgen.D16_CANON
        r = vlib.run_programs([{"id": "d16", "src": canon}])[0]
        ctx.extra["d16_canonical_outcome"] = r.get("outcome")
        ctx.violation("handler-stack-leak", {"program": canon, "sig": "d16"},
                      "catch handlers are entered without cutting the operand stack back (strict machine): %d function(s) "
                      "are depth-consistent only if the VM truncated; the canonical program ends in %s %s"
                      % (d16_instances, r.get("outcome"), (r.get("panic") or r.get("err_msg") or "")[:100]))
    if poly_fin:
        ctx.violation("finally-join-depth", {"program": _bcgen.FINALLY_CANON, "sig": "finally-poly"},
                      "%d function(s): the shared `finally` epilogue is entered with different operand-stack depths "
                      "(flag-discriminated protocol of compileDo)" % poly_fin)

    if not ctx.replay:
        run_boundary_programs(ctx)
    t0 = _t(ctx, "classify+report", t0)
    # --- decoder correspondence: real code + byte-level mutants
    if not ctx.replay:
        decode_lines = [l for l in vlib.corpus_lines("C29") if l.startswith("bc\tdecode")] + decode_lines
        base = [bytes.fromhex(l.split("\t")[2]) for l in decode_lines]
        for _ in range(ctx.n(QUICK_MUT, THOROUGH_MUT)):
            c = mutate_code(ctx.rng, ctx.rng.choice(base) if base else b"")
            decode_lines.append(_bc.decode_line(c.hex(), ctx.rng.choice([0, 1, 2, 4, 300])))
            ctx.stat("decode:mutant")
        vlib.correspond(ctx, decode_lines, oracle=decode_oracle_factory(real_lines), minimise=minimise_decode,
                        label="decoder = DisassembleInstruction", keyfn=lambda l: l.split("\t")[2])
        _t(ctx, "decode-correspondence", t0)
