"""C20 — String operations agree with code-point, byte and grapheme models."""
import json

import vlib
from checks import strlib
from checks.strlib import go_pieces, go_runes, go_encode, hx, unhx

META = {
    "property_id": "C20",
    "technique": "Lean 4 theorems over a byte-list model of value.String (code-point/byte/grapheme counts = iterator lengths, "
                 "indexed access spec with negative indices, padding/concat/repeat/remove-suffix/compare specs) on top of a "
                 "proved model of Go's UTF-8 decoder; differential correspondence with the real native methods of Std::String "
                 "plus a model-free Python/uniseg oracle",
    "level_text": "Kernel-checked theorems for all byte strings (valid or not) and all integer arguments over the model; the "
                  "model is tied to vm/string.go + value/string.go by differential execution of generated operations through "
                  "the real method table, and an independent oracle (Python strict UTF-8 decoder, uniseg Graphemes iterator, "
                  "unicode.ToUpper/ToLower) judges the implementation's answers directly. Grapheme segmentation and case "
                  "mapping are parameters of the model (uniseg / unicode tables trusted).",
    "level_note": "Trusted: Lean kernel; hand-written model of value/string.go; uniseg segmentation and Go's unicode case tables "
                  "(parameters); harness. Elk-source dispatch (checker/compiler) is exercised by a sample of generated programs only.",
    "design_ref": "DESIGN.md §7 C20",
}

KINDS = ["int", "int", "int", "int", "i64", "i32", "i16", "i8", "u64", "u32", "u16", "u8", "uint"]
KRANGE = {"i64": (-2**63, 2**63 - 1), "i32": (-2**31, 2**31 - 1), "i16": (-2**15, 2**15 - 1), "i8": (-128, 127),
          "u64": (0, 2**64 - 1), "u32": (0, 2**32 - 1), "u16": (0, 2**16 - 1), "u8": (0, 255), "uint": (0, 2**64 - 1)}


def gen_index(rng, n):
    """index in [-n-2, n+2] mostly; boundary / huge values sometimes; of a random integer kind"""
    k = rng.choice(KINDS)
    r = rng.random()
    if r < 0.8:
        v = rng.randint(-n - 2, n + 2)
    elif r < 0.9:
        v = rng.choice(strlib.BOUNDARY)
    else:
        v = rng.choice([2**63, 2**64 - 1, 2**64 - 2, 2**63 + 1, 2**64 - n - 1 if n else 2**64 - 1, 2**64 - n])
    if k != "int":
        lo, hi = KRANGE[k]
        if not lo <= v <= hi:
            if v > hi and k in ("u64", "uint"):
                v = hi - rng.randint(0, n + 1)
            else:
                v = max(lo, min(hi, v))
    return k, v


def gen_other(rng, s):
    """right operand of + - <=>: a string related to s, a char related to s, or something else"""
    r = rng.random()
    ps = go_pieces(s)
    if r < 0.5:
        c = rng.random()
        if c < 0.3 and ps:
            k = rng.randint(0, len(ps))
            w = sum(p[1] for p in ps[len(ps) - k:]) if k else 0
            o = s[len(s) - w:]                      # a suffix on a piece boundary
        elif c < 0.45 and s:
            o = s[rng.randint(0, len(s)):]          # a suffix at any byte offset
        elif c < 0.6 and s:
            o = s[:rng.randint(0, len(s))]          # a prefix
        elif c < 0.7:
            o = s + strlib.gen_bytes(rng, 2)
        elif c < 0.8 and s:
            i = rng.randrange(len(s))
            o = s[:i] + bytes([(s[i] + rng.choice([1, 255, 128])) % 256]) + s[i + 1:]
        else:
            o = strlib.gen_bytes(rng, 3)
        return "s:" + hx(o)
    if r < 0.95:
        c = rng.random()
        if c < 0.5 and ps:
            ch = ps[-1][0] if rng.random() < 0.7 else rng.choice(ps)[0]
        elif c < 0.6 and s:
            ch = s[-1]                               # the last *byte* as a char
        elif c < 0.7:
            ch = rng.choice([0xFFFD, 0xD800, 0xDFFF, 0x110000, -1, 0x7FFFFFFF])
        else:
            ch = go_runes(strlib.gen_piece(rng, "valid") or b"a")[0]
        return "c:%d" % ch
    return "o"


def gen_pad(rng):
    r = rng.random()
    if r < 0.5:
        return rng.choice([0x20, 0x2D, 0x30, 0x2A])
    if r < 0.9:
        return go_runes(strlib.gen_piece(rng, "valid") or b" ")[0]
    return rng.choice([0xD800, 0x110000, -1, 0xFFFD, 0])


OPS = ["counts"] * 3 + ["char_at"] * 4 + ["byte_at"] * 3 + ["grapheme_at"] * 3 + ["rjust"] * 3 + ["ljust"] * 3 + \
      ["concat"] * 2 + ["rmsuffix"] * 3 + ["repeat"] * 2 + ["cmp"] * 3 + ["upper", "lower", "utf8", "utf8", "enc"]


def gen_op(rng):
    op = rng.choice(OPS)
    s = strlib.gen_bytes(rng)
    if op == "counts" or op == "utf8":
        if op == "utf8" and rng.random() < 0.5:
            s = bytes(rng.randrange(256) if rng.random() < 0.3 else rng.choice([0x80, 0xBF, 0xC2, 0xE0, 0xA0, 0xED, 0x9F, 0xF0, 0x90, 0xF4, 0x8F, 0x41])
                      for _ in range(rng.randint(0, 6)))
        return (op, s, [])
    if op == "enc":
        r = rng.choice([0, 0x7F, 0x80, 0x7FF, 0x800, 0xD7FF, 0xD800, 0xDFFF, 0xE000, 0xFFFD, 0xFFFF, 0x10000, 0x10FFFF, 0x110000,
                        -1, 2**31 - 1, -2**31, rng.randrange(0x110000)])
        return (op, None, [str(r)])
    if op in ("char_at", "byte_at", "grapheme_at"):
        n = {"char_at": len(go_pieces(s)), "byte_at": len(s), "grapheme_at": len(go_pieces(s))}[op]
        k, v = gen_index(rng, n)
        return (op, s, ["%s:%d" % (k, v)])
    if op in ("rjust", "ljust"):
        nb, nc = len(s), len(go_pieces(s))
        t = rng.choice([nb, nc, nb + 1, nc + 1, nc - 1, nb - 1, nc + 3, nb + 2, 0, -1, -2**63, rng.randint(0, 12)])
        return (op, s, [str(t), str(gen_pad(rng))])
    if op in ("concat", "rmsuffix", "cmp"):
        return (op, s, [gen_other(rng, s)])
    if op == "repeat":
        r = rng.random()
        if r < 0.6:
            n = rng.randint(0, 5)
        elif r < 0.75:
            n = rng.choice([-1, -2, -2**63, -2**64, 2**63, 2**64, 2**127])
        elif len(s) > 1:
            # result length overflows int: the count itself is a small int
            n = rng.choice([2**63 - 1, 2**62, 2**63 // len(s) + 1, (2**63 - 1) // len(s) + 1])
        elif len(s) == 0:
            n = rng.choice([2**63 - 1, 2**62, 7])
        else:
            n = rng.randint(0, 9)
        return (op, s, [str(n)])
    return (op, s, [])    # upper / lower


def finalize(ops):
    """attach the uniseg segmentation / case map parameters (from the harness reference domain)"""
    need_seg = sorted({o[1] for o in ops if o[0] in ("counts", "grapheme_at")})
    need_case = sorted({o[1] for o in ops if o[0] in ("upper", "lower")})
    ref = vlib.run_impl(["strref\tseg\t" + hx(s) for s in need_seg] + ["strref\tcase\t" + hx(s) for s in need_case])
    for a in ref:
        if not a.startswith("ok "):
            raise RuntimeError("strref failed: " + a)
    seg = {s: a[3:] for s, a in zip(need_seg, ref)}
    case = {s: a[3:] for s, a in zip(need_case, ref[len(need_seg):])}
    lines = []
    for op, s, args in ops:
        f = ["str", op] + ([hx(s)] if s is not None else []) + args
        if op in ("counts", "grapheme_at"):
            f.append(seg[s])
        if op in ("upper", "lower"):
            f.append(case[s])
        lines.append("\t".join(f))
    return lines


def parse_line(line):
    f = line.split("\t")
    op = f[1]
    if op == "enc":
        return op, None, f[2:]
    return op, unhx(f[2]), f[3:]


def idx_value(a):
    k, d = a.split(":")
    return k, int(d)


def at_expect(elems, v):
    n = len(elems)
    if -n <= v < n:
        return ("ok", elems[v % n])
    return ("err Index", None)


def other_bytes(a):
    if a == "o":
        return None
    k, d = a.split(":")
    return unhx(d) if k == "s" else go_encode(int(d))


def oracle(line, ans):
    """Model-free: what the documented character-level definitions prescribe, computed with Python's
    strict UTF-8 decoder (and the uniseg reference passed on the line for graphemes)."""
    op, s, args = parse_line(line)
    if ans.startswith("panic") or ans.startswith("fatal"):
        return f"{op} crashed the native method: {ans}"
    if op == "counts":
        segs = [unhx(x) for x in args[0].split(",")] if args[0] != "-" else []
        if not ans.startswith("ok "):
            return "counts failed: " + ans
        kv = dict(p.split("=", 1) for p in ans[3:].split(" "))
        lst = lambda x: [] if x == "-" else x.split(",")
        runes = go_runes(s)
        chars = [int(x) for x in lst(kv["chars"])] if "?" not in kv["chars"] and "!" not in kv["chars"] else None
        if chars is None:
            return "char iterator failed: " + kv["chars"]
        if chars != runes:
            return f"char iterator yields {chars} but the code points are {runes}"
        if int(kv["len"]) != len(chars):
            return f"length {kv['len']} != {len(chars)} elements of the char iterator"
        if lst(kv["byteiter"]) != [str(b) for b in s]:
            return "byte iterator does not yield the bytes of the string"
        if int(kv["bytes"]) != len(s):
            return f"byte_count {kv['bytes']} != {len(s)} elements of the byte iterator"
        gi = lst(kv["giter"])
        if any(x.startswith("?") or x.startswith("!") for x in gi):
            return "grapheme iterator failed: " + kv["giter"]
        gi = [unhx(x) for x in gi]
        if int(kv["graphemes"]) != len(gi):
            return f"grapheme_count {kv['graphemes']} != {len(gi)} elements of the grapheme iterator"
        if gi != segs:
            return f"grapheme iterator {[g.hex() for g in gi]} differs from uniseg's Graphemes {[g.hex() for g in segs]}"
        return None
    if op in ("char_at", "byte_at", "grapheme_at"):
        k, v = idx_value(args[0])
        if op == "char_at":
            elems = [str(r) for r in go_runes(s)]
        elif op == "byte_at":
            elems = [str(b) for b in s]
        else:
            elems = [x for x in args[1].split(",")] if args[1] != "-" else []
        st, want = at_expect(elems, v)
        if st == "ok":
            if ans != "ok " + want:
                return f"{op}({v}) answers {ans!r}; element {v % len(elems)} of the iterator is {want}"
        elif ans != st:
            return f"{op}({v}) answers {ans!r} on {len(elems)} elements; expected an index error"
        return None
    if op in ("rjust", "ljust"):
        t, c = int(args[0]), int(args[1])
        n = len(go_pieces(s))
        pad = go_encode(c) * max(0, t - n)
        want = pad + s if op == "rjust" else s + pad
        if ans != "ok " + hx(want):
            got_n = len(go_pieces(unhx(ans[3:]))) if ans.startswith("ok ") and "?" not in ans else None
            return f"{op}({t}) of a {n}-character string has {got_n} characters (expected {max(n, t)}): {ans!r} != ok {hx(want)}"
        return None
    if op == "concat":
        o = other_bytes(args[0])
        want = "err Type" if o is None else "ok " + hx(s + o)
        return None if ans == want else f"+ answers {ans!r}, expected {want!r}"
    if op == "rmsuffix":
        if args[0] == "o":
            want = "err Type"
        elif args[0].startswith("s:"):
            o = unhx(args[0][2:])
            want = "ok " + hx(s[:len(s) - len(o)] if o and s.endswith(o) else s)
        else:
            c = int(args[0][2:])
            ps = go_pieces(s)
            want = "ok " + hx(s[:len(s) - ps[-1][1]] if ps and ps[-1][0] == c else s)
        return None if ans == want else f"- answers {ans!r}, expected {want!r}"
    if op == "repeat":
        n = int(args[0])
        if n < 0 or n >= 2**63 or len(s) * n > 2**63 - 1:
            want = "err OutOfRange"
        else:
            want = "ok " + hx(s * n)
        return None if ans == want else f"* {n} answers {ans[:80]!r}, expected {want[:80]!r}"
    if op == "cmp":
        o = other_bytes(args[0])
        if o is None:
            want = "ok err Type err Type err Type err Type err Type f"
        else:
            c = (s > o) - (s < o)
            b = lambda x: "t" if x else "f"
            want = "ok %d %s %s %s %s %s" % (c, b(c < 0), b(c <= 0), b(c > 0), b(c >= 0),
                                             b(args[0].startswith("s:") and s == o))
        return None if ans == want else f"comparison answers {ans!r}, bytewise lexicographic order gives {want!r}"
    if op in ("upper", "lower"):
        tbl = {}
        if args[0] != "-":
            for e in args[0].split(","):
                r, u, l = (int(x) for x in e.split(">"))
                tbl[r] = u if op == "upper" else l
        want = "ok " + hx(b"".join(go_encode(tbl.get(r, r)) for r in go_runes(s)))
        return None if ans == want else f"{op}case answers {ans!r}, rune-wise simple case mapping gives {want!r}"
    if op == "utf8":
        ps = go_pieces(s)
        body = ",".join("%d:%d" % (p[0], p[1]) for p in ps)
        last = "%d:%d" % (ps[-1][0], ps[-1][1]) if ps else "65533:0"
        want = "ok n=%d last=%s valid=%s %s" % (len(ps), last, "false" if any(p[2] for p in ps) else "true", body)
        return None if ans == want else f"unicode/utf8 answers {ans!r}, reference decoder {want!r}"
    if op == "enc":
        r = int(args[0])
        l = -1 if not strlib.valid_scalar(r) else len(go_encode(r))
        want = "ok %s len=%d" % (hx(go_encode(r)), l)
        return None if ans == want else f"EncodeRune answers {ans!r}, reference {want!r}"
    return None


def classify(line, a, b, pf):
    op, s, args = parse_line(line)
    extra = ""
    if op == "char_at" and s is not None:
        k, v = idx_value(args[0])
        ps = go_pieces(s)
        if -len(ps) <= v < len(ps) and ps[v % len(ps)][2]:
            extra = "invalid-byte"
        elif k in ("u64", "uint") and v >= 2**63:
            extra = "u64-wrap"
    elif op in ("byte_at", "grapheme_at"):
        k, v = idx_value(args[0])
        if k in ("u64", "uint") and v >= 2**63:
            extra = "u64-wrap"
    return (op, extra, "model!=impl" if a != b else "model=impl", "property" if pf else "no-property-failure")


def minimise(line, still):
    op, s, args = parse_line(line)
    if s is None:
        return line

    def mk(s2, args2):
        return finalize([(op, s2, args2)])[0]

    base = [a for a in args if not (op in ("counts", "grapheme_at", "upper", "lower") and a is args[-1])]
    if op in ("upper", "lower", "counts"):
        base = []
    elif op == "grapheme_at":
        base = args[:1]
    cur_s, cur_a = s, list(base)
    for _round in range(2):
        # 1. simpler index
        if op in ("char_at", "byte_at", "grapheme_at"):
            k, v = idx_value(cur_a[0])
            cands = ["int:0", "int:-1", "%s:0" % k] if abs(v) < 2**62 else ["%s:%d" % (k, 2**64 - 1), "%s:%d" % (k, 2**63)]
            for cand in cands:
                if cand == cur_a[0]:
                    break
                if still(mk(cur_s, [cand])):
                    cur_a = [cand]
                    break
        # 2. fewer bytes
        bs = list(cur_s)
        if len(bs) > 1:
            bs = vlib.ddmin(bs, lambda sub: still(mk(bytes(sub), cur_a)))
            cur_s = bytes(bs)
        # 3. canonical invalid byte
        for i, b in enumerate(cur_s):
            if b >= 0x80 and b != 0x80:
                cand = cur_s[:i] + b"\x80" + cur_s[i + 1:]
                if still(mk(cand, cur_a)):
                    cur_s = cand
    return mk(cur_s, cur_a)


def elk_lit(bs):
    return '"' + "".join("\\x%02x" % b for b in bs) + '"'


def elk_char(c):
    return "`\\U%08X`" % c


def program_tie(ctx, n):
    """A sample of operations run as Elk *source* through the real parser, checker, compiler and VM;
    the expected value is the oracle's (documented definition), compared in Elk with `==`."""
    rng = ctx.rng
    progs, wants = [], []
    while len(progs) < n:
        op, s, args = gen_op(rng)
        if s is None or op in ("counts", "utf8", "upper", "lower", "grapheme_at"):
            continue
        src = None
        ps = go_pieces(s)
        if op in ("rjust", "ljust"):
            t, c = int(args[0]), int(args[1])
            if not strlib.valid_scalar(c) or abs(t) > 1000:
                continue
            pad = go_encode(c) * max(0, t - len(ps))
            want = pad + s if op == "rjust" else s + pad
            src = "println((%s.%s(%d, %s) == %s).inspect)" % (elk_lit(s), op, t, elk_char(c), elk_lit(want))
        elif op == "char_at":
            k, v = idx_value(args[0])
            if k != "int" or abs(v) > 2**40 or any(p[2] for p in ps):
                continue
            if -len(ps) <= v < len(ps):
                src = "println((%s.char_at(%d) == %s).inspect)" % (elk_lit(s), v, elk_char(ps[v % len(ps)][0]))
            else:
                src = "println((do\n %s.char_at(%d)\n false\ncatch Std::IndexError()\n true\nend).inspect)" % (elk_lit(s), v)
        elif op == "byte_at":
            k, v = idx_value(args[0])
            if k != "int" or abs(v) > 2**40:
                continue
            if -len(s) <= v < len(s):
                src = "println((%s.byte_at(%d) == %du8).inspect)" % (elk_lit(s), v, s[v % len(s)])
            else:
                src = "println((do\n %s.byte_at(%d)\n false\ncatch Std::IndexError()\n true\nend).inspect)" % (elk_lit(s), v)
        elif op in ("concat", "rmsuffix", "cmp") and args[0] != "o":
            o = other_bytes(args[0])
            if args[0].startswith("c:"):
                c = int(args[0][2:])
                if not strlib.valid_scalar(c):
                    continue
                rhs = elk_char(c)
            else:
                rhs = elk_lit(o)
            if op == "concat":
                src = "println((%s + %s == %s).inspect)" % (elk_lit(s), rhs, elk_lit(s + o))
            elif op == "rmsuffix":
                if args[0].startswith("s:"):
                    want = s[:len(s) - len(o)] if o and s.endswith(o) else s
                else:
                    want = s[:len(s) - ps[-1][1]] if ps and ps[-1][0] == int(args[0][2:]) else s
                src = "println((%s - %s == %s).inspect)" % (elk_lit(s), rhs, elk_lit(want))
            else:
                c = (s > o) - (s < o)
                src = "println(((%s <=> %s) == %d && (%s < %s) == %s).inspect)" % (elk_lit(s), rhs, c, elk_lit(s), rhs, "true" if c < 0 else "false")
        elif op == "repeat":
            k = int(args[0])
            if not 0 <= k <= 5:
                continue
            src = "println((%s * %d == %s && %s.length == %d && %s.byte_count == %d).inspect)" % (
                elk_lit(s), k, elk_lit(s * k), elk_lit(s), len(ps), elk_lit(s), len(s))
        if src is None:
            continue
        progs.append({"id": "c20p%d" % len(progs), "src": src, "timeout_ms": 10000})
        wants.append((op, s, args))
    answers = vlib.run_programs(progs)
    bad = 0
    for p, a, w in zip(progs, answers, wants):
        ctx.case(("prog", p["src"]), sample=None)
        ctx.stat("program:" + w[0])
        ctx.stat("program-outcome:" + str(a.get("outcome")))
        if a.get("outcome") == "value" and a.get("stdout") == "true\n":
            continue
        bad += 1
        if bad <= 3:
            ctx.violation("property-fails", {"program": p["src"]},
                          f"Elk program evaluating a String operation against its documented result printed "
                          f"{a.get('stdout')!r} (outcome {a.get('outcome')}, {a.get('err_class')}: {a.get('err_msg')}, diags {a.get('diags')})")
    ctx.obligation(f"Elk-source tie: {len(progs)} generated programs print true", bad == 0, "correspondence")


def run(ctx):
    ctx.rule = ("operations of Std::String (counts+iterators, char_at/byte_at/grapheme_at with indices of every integer kind "
                "in [-n-2,n+2] and at 2^k boundaries, rjust/ljust with widths around byte/char counts, + - * <=> < <= > >= ==, "
                "upper/lowercase) on byte strings mixing ASCII, 2-4-byte, combining marks, ZWJ/flag emoji, Hangul and invalid "
                "bytes; distinct = distinct (operation, string, arguments)")
    ctx.assumptions += [
        "grapheme segmentation is uniseg's (parameter `segs` of the model; the oracle compares the three uniseg entry points used)",
        "simple case mapping is Go's unicode.ToUpper/ToLower (parameter of the model)",
    ]
    ctx.prove("ElkVerif.Props.C20")
    if ctx.replay:
        rp = json.load(open(ctx.replay))["input"]
        if "program" in rp:
            a = vlib.run_programs([{"id": "replay", "src": rp["program"]}])[0]
            if not (a.get("outcome") == "value" and a.get("stdout") == "true\n"):
                ctx.violation("property-fails", rp, f"printed {a.get('stdout')!r} outcome {a.get('outcome')}")
            return
        lines = [rp["line"]]
    else:
        n = ctx.n(4000, 400000)
        lines = vlib.corpus_lines("C20") + finalize([gen_op(ctx.rng) for _ in range(n)])
    for ln in lines:
        ctx.stat("op:" + ln.split("\t")[1])
    strlib.correspond2(ctx, lines, oracle=oracle, minimise=minimise, classify=classify, label="Std::String native methods")
    if not ctx.replay:
        program_tie(ctx, ctx.n(150, 6000))
