"""Helpers shared by checks/c19.py and checks/c20.py (byte-string generators, a Go-compatible UTF-8
reference written against Python's strict decoder, and a correspondence loop that groups failures
by signature so that a known finding cannot use up the report budget)."""
import vlib

# ---------------------------------------------------------------- UTF-8 reference (model-free)

RUNE_ERROR = 0xFFFD


def go_pieces(bs):
    """[(rune, width, invalid)] as Go's utf8.DecodeRune loop sees them. Uses Python's strict decoder
    (rejects overlongs, surrogates, > U+10FFFF, truncation) — independent of the Lean model."""
    out = []
    i = 0
    n = len(bs)
    while i < n:
        b = bs[i]
        if b < 0x80:
            out.append((b, 1, False))
            i += 1
            continue
        done = False
        for w in (2, 3, 4):
            if i + w <= n:
                try:
                    s = bs[i:i + w].decode("utf-8", "strict")
                except UnicodeDecodeError:
                    continue
                if len(s) == 1:
                    out.append((ord(s), w, False))
                    i += w
                    done = True
                    break
        if not done:
            out.append((RUNE_ERROR, 1, True))
            i += 1
    return out


def go_runes(bs):
    return [p[0] for p in go_pieces(bs)]


def go_encode(r):
    """utf8.AppendRune / WriteRune for a Go rune (int32): invalid runes are written as U+FFFD."""
    if r < 0 or r > 0x10FFFF or 0xD800 <= r <= 0xDFFF:
        return b"\xef\xbf\xbd"
    return chr(r).encode("utf-8")


def valid_scalar(r):
    return 0 <= r <= 0x10FFFF and not (0xD800 <= r <= 0xDFFF)


def hx(bs):
    return bs.hex() if bs else "-"


def unhx(s):
    return b"" if s == "-" else bytes.fromhex(s)


# ---------------------------------------------------------------- generators

ASCII_POOL = [b"a", b"b", b"z", b"A", b"Z", b"0", b"9", b" ", b"_", b"-", b"\"", b"\\", b"$", b"#", b"{", b"`", b"'",
              b"\n", b"\t", b"\r", b"\x00", b"\x01", b"\x07", b"\x08", b"\x0b", b"\x0c", b"\x1b", b"\x7f", b"~", b"/", b":"]
TWO = ["é", "ł", "ß", "ǅ", "ʰ", "\u0080", "\u0085", "\u009f", " ", "­", "߿", "µ", "İ", "ı", "ſ", "Ω", "я", "͸"]
THREE = ["€", "中", "ぁ", "ࠀ", "�", "￿", "‍", "​", " ", "퟿", "", "ᄀ", "ᅡ", "ᆨ", "한", "ำ", "﻿", "ẞ", "٣"]
FOUR = ["👍", "𝒳", "\U00010000", "\U0010ffff", "\U000e0001", "🇵", "🇱", "👨", "👩", "👧", "🏽", "\U0001f3f4", "\U000e0067", "\U000e007f", "𐐀", "𐐨"]
COMBINING = ["́", "̈", "̧", "⃣", "️", "ि", "ः", "᪰"]
CLUSTERS = ["é", "👨‍👩‍👧", "🇵🇱", "🇵🇱🇩", "👍🏽", "\r\n", "각", "각", "क्षि", "ä́", "1️⃣", "🏴\U000e0067\U000e0062\U000e007f"]
INVALID = [b"\x80", b"\xbf", b"\xc0\x80", b"\xc1\xbf", b"\xc2", b"\xe0\x80\x80", b"\xe0\xa0", b"\xed\xa0\x80", b"\xed\xbf\xbf",
           b"\xf0\x80\x80\x80", b"\xf0\x90\x80", b"\xf4\x90\x80\x80", b"\xf5", b"\xff", b"\xfe", b"\xe2\x82", b"\xf0\x9f\x91",
           b"\xa0", b"\xad", b"\xe9", b"\x86", b"\x9f"]


def gen_piece(rng, profile):
    r = rng.random()
    if profile == "ascii":
        return rng.choice(ASCII_POOL)
    if profile == "valid":
        r = r * 0.85
    if r < 0.30:
        return rng.choice(ASCII_POOL)
    if r < 0.42:
        return rng.choice(TWO).encode()
    if r < 0.54:
        return rng.choice(THREE).encode()
    if r < 0.64:
        return rng.choice(FOUR).encode()
    if r < 0.72:
        return rng.choice(COMBINING).encode()
    if r < 0.80:
        return rng.choice(CLUSTERS).encode()
    if r < 0.85:
        # a random scalar value
        while True:
            c = rng.choice([rng.randrange(0x80, 0x800), rng.randrange(0x800, 0x10000), rng.randrange(0x10000, 0x110000)])
            if valid_scalar(c):
                return chr(c).encode()
    if r < 0.97:
        return rng.choice(INVALID)
    return bytes([rng.randrange(256)])


def gen_bytes(rng, maxpieces=7, profile=None):
    if profile is None:
        profile = rng.choice(["mixed", "mixed", "mixed", "valid", "valid", "ascii"])
    n = rng.choice([0, 1, 1, 2, 2, 3, 3, 4, 5, maxpieces])
    return b"".join(gen_piece(rng, profile) for _ in range(n))


BOUNDARY = [0, 1, -1, 2, -2, 127, 128, 255, 256, 2**15, 2**31 - 1, 2**31, 2**32, 2**53, 2**62, 2**63 - 1, 2**63, 2**63 + 1, 2**64 - 1,
            2**64, 2**64 + 1, 2**65, 2**127, -2**31, -2**63, -2**63 - 1, -2**64, -2**64 - 1]


# ---------------------------------------------------------------- correspondence with signatures

def correspond2(ctx, lines, oracle=None, minimise=None, label="correspondence", classify=None,
                per_sig=1, max_report=10, keyfn=None, timeout=900):
    """Like vlib.correspond, but failures are grouped by classify(line, impl, model, oracle_msg);
    at most per_sig inputs per signature are minimised and reported."""
    impl = vlib.run_impl(lines, timeout=timeout)
    model = vlib.run_model(lines, timeout=timeout)
    ok = True
    seen = {}
    reported = 0
    res = []
    for ln, a, b in zip(lines, impl, model):
        res.append((ln, a, b))
        ctx.case(keyfn(ln) if keyfn else ln, sample={"line": ln, "impl": a, "model": b})
        ctx.stat("answer:" + a.split(" ", 1)[0])
        if b.startswith("bad-"):
            raise RuntimeError(f"model rejected line {ln!r}: {b}")
        pf = oracle(ln, a) if oracle else None
        if a == b and pf is None:
            continue
        if a != b:
            ok = False   # a known finding never excuses a model/implementation disagreement
        sig = classify(ln, a, b, pf) if classify else (ln.split("\t")[1], a != b, pf is not None)
        seen[sig] = seen.get(sig, 0) + 1
        if seen[sig] > per_sig or reported >= max_report:
            continue
        reported += 1
        line = ln
        a2, b2, pf2 = a, b, pf
        if minimise:
            def still(l2):
                x = vlib.run_impl([l2])[0]
                y = vlib.run_model([l2])[0]
                p2 = oracle(l2, x) if oracle else None
                return (x != y) == (a != b) and (p2 is None) == (pf is None) and not y.startswith("bad-")
            try:
                line = minimise(ln, still)
            except Exception:
                line = ln
            a2, b2 = vlib.run_impl([line])[0], vlib.run_model([line])[0]
            pf2 = oracle(line, a2) if oracle else None
        if pf2 is not None:
            ctx.violation("property-fails", {"line": line}, f"{pf2}; impl={a2!r} model={b2!r}")
        else:
            ctx.violation("model-impl-disagree", {"line": line, "correspondence": label},
                          f"impl={a2!r} model={b2!r}; the property oracle found no failure on this input",
                          no_input=True)
    for sig, n in sorted(seen.items(), key=lambda kv: -kv[1])[:12]:
        ctx.stat("fail:" + "/".join(str(x) for x in sig), n)
    ctx.obligation(f"{label}: implementation = model on {len(lines)} generated lines", ok, "correspondence")
    return res
