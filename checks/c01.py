"""C01 — Programs the type checker accepts never crash the interpreter."""
import json
import vlib
from checks import mini_gen, mini_common

META = {
    "property_id": "C01",
    "technique": "Lean 4 type-soundness proof for the MiniElk expression fragment (sound_A: well-typed => never stuck) tied to the real checker by verdict correspondence, + crash search over generated well-typed programs run on the real VM",
    "level_text": "Partial. Theorem (Props/C01.lean): for the expression fragment of MiniElk, the model type checker's "
                  "acceptance implies the reference evaluator never reaches `stuck` (the model's rendering of a Go panic "
                  "on a wrong-kind operand), yields values of the static type and raises only ZeroDivisionError — all "
                  "environments, stores, fuels. Tie: every expression the model checker accepts must be accepted by the "
                  "real checker and evaluate to the reference value. Beyond the fragment (statements, closures, "
                  "exceptions, generators, async, recursion) there is no theorem: generated programs that the real "
                  "checker accepts are run and any Go panic / fatal error / hang is reported with the program.",
    "level_note": "Trusted: Lean kernel; MiniElk decoder/printer/generator. Soundness stages B-D (narrowing, methods, "
                  "closures) are not proved. Std-library calls are exercised by C28's sweep, sync primitives by C25. "
                  "Known finding: unchecked operand-stack pushes overrun the value stack (design-level).",
    "design_ref": "DESIGN.md §6, §7 C01",
}

KNOB_SETS = [
    dict(closures=True, closure_bias=0.2, defs=3, max_depth=3, block_len=(2, 5), deep_rec=40, d14_shapes=True),
    dict(closures=True, closure_bias=0.4, defs=2, max_depth=2, block_len=(2, 6), finally_abrupt=True, d14_shapes=True),
    dict(closures=False, defs=3, max_depth=3, block_len=(1, 4), finally_abrupt=True, d14_shapes=True),
]
EXEMPT = ("call stack overflow", "maximum value stack size exceeded")

# genuine defects recorded rather than repaired, replayed on every run
FINDING_PROGRAMS = [
    ("host-crash",
     "module KfC01a\n  def g(a: Int): Int\n    a + 1\n  end\nend\nvar x = 1\nvar l = ["
     + ", ".join(["x"] * 1200) + ", KfC01a.g(1)]\nprintln(l.length.inspect)\n"),
]

CTX = [("x", "int"), ("y", "int"), ("b", "bool"), ("s", "str"), ("z", "(opt int)"), ("u", "(opt str)"), ("n", "nil")]
INIT = {"x": "3", "y": "0", "b": "true", "s": '"ab"', "z": "nil", "u": '"q"', "n": "nil"}
ELKTY = {"int": "Int", "bool": "Bool", "str": "String", "(opt int)": "Int?", "(opt str)": "String?", "nil": "nil"}


def gen_expr(r, d):
    """random expression over the typed locals: mostly well-typed shapes, some ill-typed"""
    c = r.random()
    if d <= 0 or c < 0.25:
        k = r.random()
        if k < 0.5:
            return f"(var {r.choice(CTX)[0]})"
        if k < 0.7:
            return f"(int {r.choice([0, 1, 2, 7, -3])})"
        if k < 0.8:
            return f"(bool {r.choice(['true', 'false'])})"
        if k < 0.9:
            return '(str "%s")' % r.choice(["a", "", "xy"])
        return "(nil)"
    if c < 0.6:
        op = r.choice(["add", "sub", "mul", "div", "mod", "lt", "le", "gt", "ge", "eq", "ne", "concat"])
        return f"(bin {op} {gen_expr(r, d - 1)} {gen_expr(r, d - 1)})"
    if c < 0.7:
        return f"(un {r.choice(['neg', 'not'])} {gen_expr(r, d - 1)})"
    if c < 0.85:
        return f"({r.choice(['and', 'or'])} {gen_expr(r, d - 1)} {gen_expr(r, d - 1)})"
    return f"(nilco {gen_expr(r, d - 1)} {gen_expr(r, d - 1)})"


def expr_tie(ctx):
    """model checker accepts => real checker accepts and the value equals the reference value"""
    n = ctx.n(400, 6000)
    exprs = [gen_expr(ctx.rng, ctx.rng.choice([1, 2, 2, 3])) for _ in range(n)]
    ctxs = "(" + " ".join(f"({x} {t})" for x, t in CTX) + ")"
    verdicts = vlib.run_model([f"mini\ttc\t{ctxs}\t{e}" for e in exprs])
    acc = [(e, v[3:]) for e, v in zip(exprs, verdicts) if v.startswith("ok ") and v != "ok none"]
    ctx.stat("expr-tie:model-accepts", len(acc))
    ctx.stat("expr-tie:model-rejects", len(exprs) - len(acc))
    decls = " ".join(f"(decl {x} {t if t != 'nil' else '_'} {('(int ' + INIT[x] + ')') if t == 'int' else ('(bool ' + INIT[x] + ')') if t == 'bool' else ('(str ' + INIT[x] + ')') if INIT[x].startswith(chr(34)) else '(nil)'})" for x, t in CTX)
    progs = []
    for i, (e, t) in enumerate(acc):
        pr = f"(print {e})" if not t.startswith("(opt") and t != "nil" else f"(print (bin eq {e} (nil)))"
        progs.append(f"(prog T{ctx.seed}x{i} (defs) (main {decls} {pr}))")
    recs = mini_common.compare_programs(ctx, progs, "expressions accepted by the model checker", reject_is_violation=True)
    for r in recs:
        ctx.case(("expr", r["src"]), sample={"program": r["src"][-200:], "reference": r["model_out"]})


def run(ctx):
    ctx.rule = ("(a) expressions over typed locals accepted by the model type checker, run on both sides; "
                "(b) generated well-typed MiniElk programs with every construct of the fragment (closures, labelled loops, "
                "throw/catch/finally incl. abrupt exits from handlers and finally blocks, recursion depth 40); a case is a "
                "program the real checker accepted; non-trivial = the program runs at least one call or loop; "
                "violation = Go panic, fatal error or hang of the host")
    ctx.prove("ElkVerif.Props.C01")
    if ctx.replay:
        inp = json.load(open(ctx.replay))["input"]
        reqs = [{"id": "r", "src": inp["program"], "timeout_ms": 8000}]
        srcs = [inp["program"]]
        sexprs = [inp.get("sexpr")]
    else:
        expr_tie(ctx)
        sexprs = mini_common.corpus_programs("C01")
        per = ctx.n(120, 4000)
        for ki, kn in enumerate(KNOB_SETS):
            for i in range(per):
                g = mini_gen.Gen(ctx.rng, mini_gen.Knobs(**kn), modname=f"X{ctx.seed}k{ki}x{i}")
                sexprs.append(g.program())
                for f in g.features:
                    ctx.stat("feature:" + f)
        mods = mini_common.model_eval(sexprs)
        srcs = [m[0] for m in mods]
        for kind, src in FINDING_PROGRAMS:
            srcs.append(src)
            sexprs.append(None)
        reqs = [{"id": f"p{i}", "src": s, "timeout_ms": 8000} for i, s in enumerate(srcs)]
    res = vlib.run_programs(reqs)
    ok = True
    reported = 0
    for sx, src, a in zip(sexprs, srcs, res):
        o = a["outcome"]
        ctx.stat("outcome:" + o)
        if o == "rejected":
            continue   # outside the property's premise (the real checker did not accept it)
        ctx.case(src, nontrivial=("while" in src or "loop" in src or ".call(" in src or "(" in src),
                 sample={"program": src[:400], "outcome": o})
        bad = o in ("panic", "fatal", "timeout") and not any(e in (a.get("panic") or "") for e in EXEMPT)
        if not bad:
            continue
        if reported >= 4:
            ok = False
            continue
        reported += 1
        small_src, small_sx = src, sx
        if sx is not None:
            want = o

            def fails_batch(cands):
                ms = mini_common.model_eval(cands)
                rs = vlib.run_programs([{"id": f"s{i}", "src": m[0], "timeout_ms": 3000} for i, m in enumerate(ms)])
                return [r["outcome"] == want for r in rs]
            from checks.c10 import uniq_wrap
            small_sx = mini_common.shrink_program(sx, uniq_wrap(fails_batch))
            small_src = mini_common.model_eval([small_sx])[0][0]
            a = vlib.run_programs([{"id": "s", "src": small_src, "timeout_ms": 8000}])[0]
        new = ctx.violation("host-crash", {"program": small_src, "sexpr": small_sx},
                            f"accepted by the checker; outcome {a['outcome']}: {a.get('panic')}; stdout so far {a['stdout'][-120:]!r}")
        if new:
            ok = False
        else:
            reported -= 1
    ctx.obligation(f"no host crash on {len(srcs)} accepted programs", ok, "search")
