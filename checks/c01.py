"""C01 — Programs the type checker accepts never crash the interpreter."""
import json
import re
import vlib
from checks import mini_gen, mini_common

META = {
    "property_id": "C01",
    "technique": "Lean 4 type-soundness proof for MiniElk (expressions, statements, labelled loops, exceptions with finally, "
                 "methods with recursion, closures over store cells): checkProg accepts => the reference evaluator never "
                 "reaches `stuck`, for every fuel; tied to the real checker and VM by verdict and output correspondence on "
                 "generated and type-mutated programs, + crash search over every program the real checker accepts",
    "level_text": "Theorems (Props/C01.lean stage A, Props/C01B.lean stages B-D; fuel induction over the five mutually "
                  "recursive evaluator functions with a store typing that only grows): for every program p and every "
                  "fuel, checkProg k p = true implies runProg never yields `stuck` (the model's rendering of a Go panic on "
                  "a wrong-kind operand), break/continue/return never escape, every cell always holds a value of its "
                  "declared type (preservation, C02), a call returns a value of the static return type (call_sound, "
                  "closure_call_sound). Ties checked on every run: (1) the verdicts of checkProg and of the real "
                  "checker are compared on generated and on type-mutated programs (measured, in the evidence); (2) real "
                  "accepts => checkProg accepts on at least 80% of the accepted generated programs (the share of the "
                  "tested programs inside the theorem's premise; measured 100%); (3) reference evaluator = real VM on stdout and "
                  "outcome (C13/C14 run the same comparison); (4) every program the real checker accepts, in or outside "
                  "the fragment, is run and any Go panic / fatal error / hang is reported with the minimised program.",
    "level_note": "Trusted: Lean kernel; MiniElk decoder/printer/generator; the hand-written checker checkProg mirrors the "
                  "real checker only on the fragment (no generics, unions beyond T?, classes, generators, async). Outside "
                  "the fragment there is no theorem, only the search; std-library calls are exercised by C28's sweep, sync "
                  "primitives by C25. Known finding: unchecked operand-stack pushes overrun the value stack (design-level).",
    "design_ref": "DESIGN.md §6, §7 C01",
}

KNOB_SETS = [
    dict(closures=True, closure_bias=0.2, defs=3, max_depth=3, block_len=(2, 5), deep_rec=40, d14_shapes=True),
    dict(closures=True, closure_bias=0.4, defs=2, max_depth=2, block_len=(2, 6), finally_abrupt=True, d14_shapes=True),
    dict(closures=False, defs=3, max_depth=3, block_len=(1, 4), finally_abrupt=True, d14_shapes=True),
]
EXEMPT = ("call stack overflow", "maximum value stack size exceeded")

# genuine defects recorded rather than repaired, replayed on every run
FINDING_PROGRAMS = [
    ("host-crash",
     "module KfC01a\n  def g(a: Int): Int\n    a + 1\n  end\nend\nvar x = 1\nvar l = ["
     + ", ".join(["x"] * 1200) + ", KfC01a.g(1)]\nprintln(l.length.inspect)\n"),
]

CTX = [("x", "int"), ("y", "int"), ("b", "bool"), ("s", "str"), ("z", "(opt int)"), ("u", "(opt str)"), ("n", "nil")]
INIT = {"x": "3", "y": "0", "b": "true", "s": '"ab"', "z": "nil", "u": '"q"', "n": "nil"}
ELKTY = {"int": "Int", "bool": "Bool", "str": "String", "(opt int)": "Int?", "(opt str)": "String?", "nil": "nil"}


def gen_expr(r, d):
    """random expression over the typed locals: mostly well-typed shapes, some ill-typed"""
    c = r.random()
    if d <= 0 or c < 0.25:
        k = r.random()
        if k < 0.5:
            return f"(var {r.choice(CTX)[0]})"
        if k < 0.7:
            return f"(int {r.choice([0, 1, 2, 7, -3])})"
        if k < 0.8:
            return f"(bool {r.choice(['true', 'false'])})"
        if k < 0.9:
            return '(str "%s")' % r.choice(["a", "", "xy"])
        return "(nil)"
    if c < 0.6:
        op = r.choice(["add", "sub", "mul", "div", "mod", "lt", "le", "gt", "ge", "eq", "ne", "concat"])
        return f"(bin {op} {gen_expr(r, d - 1)} {gen_expr(r, d - 1)})"
    if c < 0.7:
        return f"(un {r.choice(['neg', 'not'])} {gen_expr(r, d - 1)})"
    if c < 0.85:
        return f"({r.choice(['and', 'or'])} {gen_expr(r, d - 1)} {gen_expr(r, d - 1)})"
    return f"(nilco {gen_expr(r, d - 1)} {gen_expr(r, d - 1)})"


_LIT = re.compile(r"\((int -?\d+|bool (?:true|false)|str \"[^\"]*\"|nil|var \w+)\)")


def mutate(rng, sx, tag):
    """a copy of the program with 1-2 atoms replaced by atoms of another type (usually ill-typed): the real checker
    should reject it; when it accepts, the program is run like any other accepted program"""
    ms = list(_LIT.finditer(sx))
    if not ms:
        return None
    names = sorted({m.group(1)[4:] for m in ms if m.group(1).startswith("var ")})
    out = sx
    for m in sorted(rng.sample(ms, min(len(ms), rng.choice([1, 1, 2]))), key=lambda m: -m.start()):
        cur = m.group(1)
        pool = ['int 3', 'bool true', 'str "m"', 'nil'] + (["var " + rng.choice(names)] if names else [])
        pool = [x for x in pool if x.split(" ")[0] != cur.split(" ")[0] or x.startswith("var ")]
        out = out[:m.start()] + "(" + rng.choice(pool) + ")" + out[m.end():]
    return re.sub(r"^\(prog (\w+) ", lambda m: "(prog %sm%s " % (m.group(1), tag), out)


def expr_tie(ctx):
    """model checker accepts => real checker accepts and the value equals the reference value"""
    n = ctx.n(400, 6000)
    exprs = [gen_expr(ctx.rng, ctx.rng.choice([1, 2, 2, 3])) for _ in range(n)]
    ctxs = "(" + " ".join(f"({x} {t})" for x, t in CTX) + ")"
    verdicts = vlib.run_model([f"mini\ttc\t{ctxs}\t{e}" for e in exprs])
    acc = [(e, v[3:]) for e, v in zip(exprs, verdicts) if v.startswith("ok ") and v != "ok none"]
    ctx.stat("expr-tie:model-accepts", len(acc))
    ctx.stat("expr-tie:model-rejects", len(exprs) - len(acc))
    decls = " ".join(f"(decl {x} {t if t != 'nil' else '_'} {('(int ' + INIT[x] + ')') if t == 'int' else ('(bool ' + INIT[x] + ')') if t == 'bool' else ('(str ' + INIT[x] + ')') if INIT[x].startswith(chr(34)) else '(nil)'})" for x, t in CTX)
    progs = []
    for i, (e, t) in enumerate(acc):
        pr = f"(print {e})" if not t.startswith("(opt") and t != "nil" else f"(print (bin eq {e} (nil)))"
        progs.append(f"(prog T{ctx.seed}x{i} (defs) (main {decls} {pr}))")
    recs = mini_common.compare_programs(ctx, progs, "expressions accepted by the model checker", reject_is_violation=True)
    for r in recs:
        ctx.case(("expr", r["src"]), sample={"program": r["src"][-200:], "reference": r["model_out"]})


def checker_tie(ctx, sexprs, srcs, res, verdicts):
    """ties the model's program checker (the premise of sound_B/sound_C/prog_sound) to the real one: what the argument
    needs is real accepts => model accepts on the fragment (then the theorem covers the program); the share of accepted
    generated programs inside the premise must be >= 80%. The other direction is reported as a measurement."""
    both, real_only, model_only = 0, 0, 0
    for sx, src, a, v in zip(sexprs, srcs, res, verdicts):
        if sx is None:
            continue
        mut = bool(re.match(r"^\(prog \w+m\d+ ", sx))
        macc, racc = (v == "ok"), a["outcome"] != "rejected"
        ctx.stat("checker-tie:%s:model-%s/real-%s" % ("mutated" if mut else "generated", "accepts" if macc else "rejects",
                                                     "accepts" if racc else "rejects"))
        if mut:
            continue       # mutated copies are measured (stats above) and searched for crashes, not part of the coverage figure
        if macc and racc:
            both += 1
        elif racc:
            real_only += 1
        elif macc:
            # the model checker is more permissive here; the program is outside the property's premise (the real
            # checker rejected it), so this is a measurement of how closely checkProg mirrors the real checker, not a failure
            model_only += 1
    ctx.extra["theorem_premise_coverage"] = {"accepted_by_both": both, "accepted_by_real_checker_only": real_only,
                                             "accepted_by_model_checker_only": model_only}
    ctx.obligation("at least 80%% of the generated programs the real checker accepts are inside the theorem's premise "
                   "(accepted by checkProg): %d of %d" % (both, both + real_only), both * 5 >= (both + real_only) * 4,
                   "correspondence")


def run(ctx):
    ctx.rule = ("(a) expressions over typed locals accepted by the model type checker, run on both sides; "
                "(b) generated well-typed MiniElk programs with every construct of the fragment (closures, labelled loops, "
                "throw/catch/finally incl. abrupt exits from handlers and finally blocks, recursion depth 40); a case is a "
                "program the real checker accepted; non-trivial = the program runs at least one call or loop; "
                "violation = Go panic, fatal error or hang of the host")
    ctx.prove("ElkVerif.Props.C01B")      # imports Props.C01 (stage A); Audit/C01.lean lists both
    verdicts, mods = None, None
    if ctx.replay:
        inp = json.load(open(ctx.replay))["input"]
        reqs = [{"id": "r", "src": inp["program"], "timeout_ms": 8000}]
        srcs = [inp["program"]]
        sexprs = [inp.get("sexpr")]
    else:
        expr_tie(ctx)
        sexprs = mini_common.corpus_programs("C01")
        per = ctx.n(120, 4000)
        for ki, kn in enumerate(KNOB_SETS):
            for i in range(per):
                g = mini_gen.Gen(ctx.rng, mini_gen.Knobs(**kn), modname=f"X{ctx.seed}k{ki}x{i}")
                sexprs.append(g.program())
                for f in g.features:
                    ctx.stat("feature:" + f)
        # ill-typed stream: type-breaking mutations of generated programs (the real checker must reject them or they
        # must run without a host crash)
        base = [x for x in sexprs if x]
        for i in range(ctx.n(150, 4000)):
            m = mutate(ctx.rng, ctx.rng.choice(base), str(i))
            if m is not None:
                sexprs.append(m)
                ctx.stat("stream:mutated")
        verdicts = vlib.run_model(["mini\ttcb\t" + x for x in sexprs])
        mods = mini_common.model_eval(sexprs)
        srcs = [m[0] for m in mods]
        for kind, src in FINDING_PROGRAMS:
            srcs.append(src)
            sexprs.append(None)
        reqs = [{"id": f"p{i}", "src": s, "timeout_ms": 8000} for i, s in enumerate(srcs)]
    res = vlib.run_programs(reqs)
    ok = True
    reported = 0
    if verdicts is not None:
        checker_tie(ctx, sexprs, srcs, res, verdicts)
    for k, (sx, src, a) in enumerate(zip(sexprs, srcs, res)):
        o = a["outcome"]
        ctx.stat("outcome:" + o)
        if o == "rejected":
            continue   # outside the property's premise (the real checker did not accept it)
        if o == "timeout" and sx is not None and re.match(r"^\(prog \w+m\d+ ", sx) and mods is not None and mods[k][1] == "timeout":
            # a type-mutated copy whose mutation broke a loop counter: the reference evaluator runs out of fuel too
            ctx.stat("mutated:nonterminating")
            continue
        ctx.case(src, nontrivial=("while" in src or "loop" in src or ".call(" in src or "(" in src),
                 sample={"program": src[:400], "outcome": o})
        bad = o in ("panic", "fatal", "timeout") and not any(e in (a.get("panic") or "") for e in EXEMPT)
        if not bad:
            continue
        if reported >= 4:
            ok = False
            continue
        reported += 1
        small_src, small_sx = src, sx
        if sx is not None:
            want = o

            def fails_batch(cands):
                ms = mini_common.model_eval(cands)
                rs = vlib.run_programs([{"id": f"s{i}", "src": m[0], "timeout_ms": 3000} for i, m in enumerate(ms)])
                return [r["outcome"] == want for r in rs]
            from checks.c10 import uniq_wrap
            small_sx = mini_common.shrink_program(sx, uniq_wrap(fails_batch))
            small_src = mini_common.model_eval([small_sx])[0][0]
            a = vlib.run_programs([{"id": "s", "src": small_src, "timeout_ms": 8000}])[0]
        new = ctx.violation("host-crash", {"program": small_src, "sexpr": small_sx},
                            f"accepted by the checker; outcome {a['outcome']}: {a.get('panic')}; stdout so far {a['stdout'][-120:]!r}")
        if new:
            ok = False
        else:
            reported -= 1
    ctx.obligation(f"no host crash on {len(srcs)} accepted programs", ok, "search")
