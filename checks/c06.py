"""C06 — Int arithmetic is exact and independent of integer representation."""
import json
import sys

import vlib

if hasattr(sys, "set_int_max_str_digits"):
    sys.set_int_max_str_digits(0)

META = {
    "property_id": "C06",
    "technique": "Lean 4 proofs over a model of SmallInt/BigInt (BitVec 64 | Int) + differential correspondence "
                 "(direct value.* API, value.*Ints helpers, Elk programs: folded / typed / generic) + Python-integer oracle",
    "level_text": "Kernel-checked: every Int operator of the model returns the exact integer (add/sub/mul/neg/inc/dec, "
                  "truncated div and sign-of-dividend mod with the div-mod identity, pow for n>=0, shifts as *2^n / floor, "
                  "bitwise operators bit by bit, comparisons), results are in normal form and the normal form is unique, so "
                  "equal values are the same model value (hence same ==, hash key, inspect). The model is tied to "
                  "value/small_int.go, value/big_int.go, the typed opcodes and the constant folder by differential "
                  "execution on boundary-biased operands with operands re-read after every call.",
    "level_note": "Trusted: Lean kernel; hand-written model; math/big's Add/Sub/Mul/Quo/Rem/Lsh/Rsh/And/Or/Xor/Not/Exp "
                  "are taken to be the integer functions they document (exercised by the Python oracle on every run); "
                  "xxhash itself is outside the model (the model states the bytes that are hashed; the harness checks "
                  "xxhash(bytes) = value.Hash). Receiver immutability is tested (operands-after), not proved.",
    "design_ref": "DESIGN.md §7 C06",
}

K = [7, 8, 15, 16, 31, 32, 52, 53, 62, 63, 64, 65, 127]
I64MIN, I64MAX = -(1 << 63), (1 << 63) - 1

BIN_OPS = ["add", "sub", "mul", "div", "mod", "pow", "shl", "shr", "and", "or", "xor", "andnot",
           "cmp", "gt", "ge", "lt", "le", "eq"]
UN_OPS = ["neg", "not", "inc", "dec", "even", "odd"]
INTS_UN = ["neg", "inc", "dec"]
SHIFT_CAP = 4096       # larger left-shift counts of a non-zero value are not representable in memory
POW_CAP = 300


def fits(v):
    return I64MIN <= v <= I64MAX


def boundary_set():
    s = {0, 1, -1, 2, -2, 3, -3, 5, 7, -7, 10, -10, 100, 3037000499, 3037000500, -3037000500, 10 ** 30, -(10 ** 30)}
    for k in K:
        for d in (-1, 0, 1):
            s.add((1 << k) + d)
            s.add(-(1 << k) + d)
    return sorted(s)


BOUNDARY = boundary_set()


def gen_value(rng):
    r = rng.random()
    if r < 0.55:
        return rng.choice(BOUNDARY)
    if r < 0.65:
        return rng.randint(-20, 20)
    if r < 0.78:
        return rng.randint(I64MIN, I64MAX)
    if r < 0.88:
        return rng.randint(-(1 << 32), 1 << 32)
    if r < 0.96:
        return rng.randint(-(1 << 130), 1 << 130)
    return rng.choice([1, -1]) * (1 << rng.randint(60, 70)) + rng.randint(-3, 3)


def gen_count(rng):
    r = rng.random()
    if r < 0.6:
        return rng.choice([0, 1, 2, 31, 32, 62, 63, 64, 65, 66, 127, 128, 200]) * rng.choice([1, 1, -1])
    if r < 0.85:
        return rng.randint(-130, 130)
    if r < 0.93:
        return rng.choice([SHIFT_CAP, -SHIFT_CAP, 1000, -1000])
    return rng.choice([I64MAX, I64MIN, I64MIN + 1, 1 << 63, 1 << 64, -(1 << 63) - 1, -(1 << 64), (1 << 64) + 5])


def rep(v, rng, allow_unnormal):
    if not fits(v):
        return "b%d" % v
    if allow_unnormal and rng.random() < 0.07:
        return "b%d" % v
    return "s%d" % v


def safe_shift(op, x, n):
    """True when the shift cannot need more than ~SHIFT_CAP bits beyond the operand."""
    left = n if op == "shl" else -n
    if x == 0 or left <= SHIFT_CAP:
        return True
    # a count that does not fit a word is answered without shifting (model and code agree on that)
    return not fits(n) or n == I64MIN


def gen_line(rng, fam=None):
    fam = fam or ("val" if rng.random() < 0.7 else "ints")
    if rng.random() < 0.14:
        op = rng.choice(INTS_UN if fam == "ints" else UN_OPS)
        x = gen_value(rng)
        return "int\t%s\t%s\t%s\t-" % (fam, op, rep(x, rng, True))
    op = rng.choice(BIN_OPS)
    x = gen_value(rng)
    if op in ("shl", "shr"):
        y = gen_count(rng)
        if not safe_shift(op, x, y):
            y = rng.randint(-70, 70)
    elif op == "pow":
        y = rng.choice([0, 1, 2, 3, 5, 10, 31, 32, 62, 63, 64, 65, 100, POW_CAP, -1, -5, rng.randint(0, 70)])
        if abs(x) > (1 << 140):
            x = rng.choice(BOUNDARY)
    else:
        y = gen_value(rng)
        r = rng.random()
        if r < 0.08:
            y = x
        elif r < 0.14:
            y = -x
        elif r < 0.19 and op in ("div", "mod"):
            y = 0
        elif r < 0.26 and x != 0 and op in ("div", "mod"):
            y = x * rng.randint(-3, 3) + rng.choice([0, 1, -1])
            x, y = y, x
    return "int\t%s\t%s\t%s\t%s" % (fam, op, rep(x, rng, True), rep(y, rng, True))


# ------------------------------------------------------------------ model-free oracle (Python integers)

def tdiv(x, y):
    q = abs(x) // abs(y)
    return q if (x < 0) == (y < 0) else -q


def expected(op, x, y):
    """('val', int) | ('bool', bool) | ('err', 'ZeroDivision') | None when the property does not fix the answer."""
    if op == "add":
        return ("val", x + y)
    if op == "sub":
        return ("val", x - y)
    if op == "mul":
        return ("val", x * y)
    if op == "div":
        return ("err", "ZeroDivision") if y == 0 else ("val", tdiv(x, y))
    if op == "mod":
        return ("err", "ZeroDivision") if y == 0 else ("val", x - tdiv(x, y) * y)
    if op == "pow":
        return ("val", x ** y) if y >= 0 else None
    if op in ("shl", "shr"):
        if not fits(y) or y == I64MIN:
            # counts beyond a machine word are outside the modelled property (docs/C06.md "not covered")
            return None
        left = y if op == "shl" else -y
        if left >= 0:
            if x == 0:
                return ("val", 0)
            return ("val", x << left) if left <= 4 * SHIFT_CAP else None
        right = -left
        if right > 1 << 20:
            return ("val", -1 if x < 0 else 0)
        return ("val", x >> right)
    if op == "and":
        return ("val", x & y)
    if op == "or":
        return ("val", x | y)
    if op == "xor":
        return ("val", x ^ y)
    if op == "andnot":
        return ("val", x & ~y)
    if op == "cmp":
        return ("val", (x > y) - (x < y))
    if op == "gt":
        return ("bool", x > y)
    if op == "ge":
        return ("bool", x >= y)
    if op == "lt":
        return ("bool", x < y)
    if op == "le":
        return ("bool", x <= y)
    if op == "eq":
        return ("bool", x == y)
    if op == "neg":
        return ("val", -x)
    if op == "not":
        return ("val", ~x)
    if op == "inc":
        return ("val", x + 1)
    if op == "dec":
        return ("val", x - 1)
    if op == "even":
        return ("bool", x % 2 == 0)
    if op == "odd":
        return ("bool", x % 2 == 1)
    return None


def hash_key_hex(v):
    """bytes value.Hash feeds to xxhash for the *normal* representation of v"""
    if fits(v):
        return (v & ((1 << 64) - 1)).to_bytes(8, "little").hex()
    m = abs(v)
    return m.to_bytes((m.bit_length() + 7) // 8, "big").hex()


def parse_operand(s):
    return s[0], int(s[1:])


def oracle(line, ans):
    f = line.split("\t")
    _, fam, op, a, b = f
    ra, x = parse_operand(a)
    rb, y = parse_operand(b) if b != "-" else ("s", 0)
    normal_in = (ra == "s" or not fits(x)) and (b == "-" or rb == "s" or not fits(y))
    if " | " not in ans:
        return "unexpected answer %r" % ans
    head, after = ans.rsplit(" | ", 1)
    if after != a + " " + b:
        return "operands changed by the operation: before %s %s, after %s" % (a, b, after)
    exp = expected(op, x, y)
    if exp is None:
        return None
    if head == "panic":
        return "Go panic; the exact result is %s" % (exp[1],)
    if exp[0] == "err":
        return None if head == "err " + exp[1] else "expected %s error, got %r" % (exp[1], head)
    if exp[0] == "bool":
        want = "ok true" if exp[1] else "ok false"
        return None if head == want else "expected %s, got %r" % (want, head)
    v = exp[1]
    parts = head.split(" ")
    if len(parts) != 3 or parts[0] != "ok" or parts[1][0] not in "sb" or not parts[2].startswith("hk="):
        return "expected the Int %d, got %r" % (v, head)
    r, got = parts[1][0], parts[1][1:]
    if got != str(v):
        return "inexact: %s %s %s = %d but the implementation answers %s" % (x, op, y, v, got)
    hk = parts[2][3:]
    if hk.startswith("MISMATCH") or hk == "ERR":
        return "value.Hash does not hash the documented bytes: %s" % hk
    if normal_in:
        want_rep = "s" if fits(v) else "b"
        if r != want_rep:
            return ("representation: result %d is held as %s; it is distinguishable (hash) from the same value "
                    "computed the other way" % (v, "BigInt" if r == "b" else "SmallInt"))
        if hk != hash_key_hex(v):
            return "hash key %s differs from the canonical %s for %d" % (hk, hash_key_hex(v), v)
    return None


# ------------------------------------------------------------------ shrinking

def shrink_candidates(v):
    c = [0, 1, -1, 2, -2]
    for k in K:
        for d in (-1, 0, 1):
            for s in (1, -1):
                w = s * (1 << k) + d
                if abs(w) < abs(v):
                    c.append(w)
    c += [v // 2, -(-v // 2), v - 1 if v > 0 else v + 1]
    out = []
    for w in sorted(set(c), key=abs):
        if abs(w) < abs(v):
            out.append(w)
    return out


def minimise(line, still):
    f = line.split("\t")
    cur = f[:]
    for _ in range(6):
        changed = False
        for idx in (3, 4):
            if cur[idx] == "-":
                continue
            r, v = parse_operand(cur[idx])
            for w in shrink_candidates(v):
                for rr in ([r] if not fits(w) else ([r, "s"] if r == "b" else ["s"])):
                    if rr == "s" and not fits(w):
                        continue
                    if cur[2] in ("shl", "shr") and not safe_shift(cur[2], w if idx == 3 else parse_operand(cur[3])[1],
                                                                    parse_operand(cur[4])[1] if idx == 3 else w):
                        continue
                    t = cur[:]
                    t[idx] = "%s%d" % (rr, w)
                    if still("\t".join(t)):
                        cur = t
                        changed = True
                        break
                else:
                    continue
                break
        if not changed:
            break
    return "\t".join(cur)


# ------------------------------------------------------------------ Elk programs: folded / typed / generic routes

ELK_OPS = {"add": "+", "sub": "-", "mul": "*", "div": "/", "mod": "%", "pow": "**", "shl": "<<", "shr": ">>",
           "and": "&", "or": "|", "xor": "^", "andnot": "&~", "cmp": "<=>", "gt": ">", "ge": ">=", "lt": "<",
           "le": "<=", "eq": "=="}


def lit(v):
    return str(v) if v >= 0 else "(-%d)" % -v


GENERIC_OPS = {"add", "sub", "mul", "div", "mod", "pow", "cmp", "gt", "ge", "lt", "le", "eq", "neg"}
GENERIC_SHIFT = {"shl", "shr"}


def program(i, route, op, x, y):
    """prints (through string interpolation): the result, result == the exact literal, hash equality with it.
    folded: literal operands (compiler/resolve.go evaluates the expression at compile time);
    typed : `Int` variables (ADD_INT … typed opcodes); any: `Int | Float` / `Int | Int64` variables
    (generic ADD … opcodes dispatching on the runtime flag)."""
    exp = expected(op, x, y if y is not None else 0)
    body = []
    if route == "folded":
        if y is None:
            e = {"neg": "-%s" % lit(x), "not": "~%s" % lit(x)}[op]
        else:
            e = "%s %s %s" % (lit(x), ELK_OPS[op], lit(y))
        body.append("r := %s" % e)
    else:
        if route == "typed":
            ta = tb = "Int"
        elif op in GENERIC_SHIFT:
            ta, tb = "Int | Int64", "Int"
        else:
            ta = tb = "Int | Float"
        body.append("var a: %s = %s" % (ta, lit(x)))
        if y is None:
            body.append("r := %sa" % {"neg": "-", "not": "~"}[op])
        else:
            body.append("var b: %s = %s" % (tb, lit(y)))
            body.append("r := a %s b" % ELK_OPS[op])
    body.append('println("#{r}")')
    if exp is not None and exp[0] == "val" and op != "cmp":
        body.append("var w: Int = %s" % lit(exp[1]))
        body.append('println("#{r == w}")')
        body.append('println("#{r.hash == w.hash}")')
    src = "module P%d\n  def run\n    %s\n  end\nend\nP%d.run\n" % (i, "\n    ".join(body), i)
    return src


def gen_program_case(rng):
    route = rng.choice(["folded", "typed", "any"])
    if rng.random() < 0.1:
        op = rng.choice(["neg", "not"])
        if route == "any" and op not in GENERIC_OPS:
            route = "typed"
        return route, op, gen_value(rng), None
    op = rng.choice([o for o in BIN_OPS])
    if route == "any" and op not in GENERIC_OPS and op not in GENERIC_SHIFT:
        route = "typed"      # `& | ^ &~` on a union type do not type-check: no generic route to them from Elk source
    x = gen_value(rng)
    if op in ("shl", "shr"):
        y = gen_count(rng)
        if not safe_shift(op, x, y) or abs(y) > SHIFT_CAP:
            y = rng.randint(-70, 70)
    elif op == "pow":
        y = rng.choice([0, 1, 2, 3, 10, 31, 63, 64, 65, 100])
        if abs(x) > (1 << 70):
            x = rng.choice(BOUNDARY)
    else:
        y = gen_value(rng)
        if rng.random() < 0.1:
            y = x
    return route, op, x, y


def judge_program(case, ans):
    """model-free: compare the program's output with Python integers. Returns None or a description."""
    route, op, x, y = case
    exp = expected(op, x, y if y is not None else 0)
    out = ans.get("outcome")
    if exp is None:
        return None
    if out in ("panic", "fatal", "timeout"):
        return "%s route: %s (%s); exact result %s" % (route, out, (ans.get("panic") or "")[:120], exp[1])
    if ans.get("rejected"):
        return "SKIP"
    if exp[0] == "err":
        if out == "error" and "ZeroDivision" in (ans.get("err_class") or ""):
            return None
        return "%s route: expected ZeroDivisionError, got %s %s" % (route, out, ans.get("err_class"))
    if out != "value":
        return "%s route: outcome %s %s %s" % (route, out, ans.get("err_class"), ans.get("err_msg"))
    lines = (ans.get("stdout") or "").split("\n")
    if exp[0] == "bool":
        want = "true" if exp[1] else "false"
        return None if lines[0] == want else "%s route: expected %s, printed %r" % (route, want, lines[0])
    if lines[0] != str(exp[1]):
        return "%s route: inexact, expected %d, printed %r" % (route, exp[1], lines[0])
    if op != "cmp" and lines[1:3] != ["true", "true"]:
        return ("%s route: result prints %s but ==/hash against the literal %d give %s"
                % (route, lines[0], exp[1], lines[1:3]))
    return None


FIXED_PROGRAM_CASES = [
    ("neg", 1 << 63, None), ("neg", I64MIN, None), ("neg", (1 << 63) + 1, None), ("not", 1 << 63, None), ("not", -1, None),
    ("div", -5, 10), ("div", 3, -7), ("div", -7, 10 ** 30), ("div", -(1 << 64), 3), ("div", I64MIN, -1), ("div", 7, 0),
    ("mod", -7, 10 ** 30), ("mod", I64MIN, 1 << 63), ("mod", -(1 << 64) - 1, 10), ("mod", 7, -3), ("mod", 1, 0),
    ("shl", 1, 64), ("shl", 1, 63), ("shl", -1, 63), ("shl", -1, 64), ("shl", 0, 64), ("shl", 1 << 65, -1), ("shl", 5, -1),
    ("shr", 1 << 65, 1), ("shr", -(1 << 65) - 1, 1), ("shr", 5, -62), ("shr", -1, 200),
    ("add", I64MAX, 1), ("add", I64MIN, -1), ("add", 1 << 63, -1), ("add", 5, 0), ("sub", I64MIN, 1), ("sub", 0, I64MIN),
    ("sub", 1 << 63, 1), ("mul", 3037000500, 3037000500), ("mul", I64MIN, -1), ("mul", 1 << 32, -(1 << 31)), ("mul", 1 << 64, 0),
    ("pow", 2, 64), ("pow", -2, 63), ("pow", 3, 0), ("and", -1, (1 << 64) + 5), ("or", 1 << 64, -(1 << 64)),
    ("xor", (1 << 64) + 1, 1 << 64), ("andnot", (1 << 65) + 1, 1), ("andnot", (1 << 65) + 1, 1 << 65),
    ("cmp", 5, 1 << 64), ("lt", -(1 << 63) - 1, I64MIN), ("ge", 1 << 63, I64MAX), ("eq", 1 << 63, 1 << 63), ("le", -1, -(1 << 70)),
]


def fixed_program_cases():
    out = []
    for route in ("folded", "typed", "any"):
        for op, x, y in FIXED_PROGRAM_CASES:
            r = route
            if r == "any" and op not in GENERIC_OPS and op not in GENERIC_SHIFT:
                continue
            out.append((r, op, x, y))
    return out


def run_program_routes(ctx, n):
    cases = fixed_program_cases() + [gen_program_case(ctx.rng) for _ in range(n)]
    reqs = [{"id": "c06p%d" % i, "src": program(i, *c), "timeout_ms": 10000} for i, c in enumerate(cases)]
    answers = vlib.run_programs(reqs)
    ok = True
    reported = 0
    for c, rq, ans in zip(cases, reqs, answers):
        verdict = judge_program(c, ans)
        ctx.stat("route:" + c[0])
        ctx.stat("prog-outcome:" + str(ans.get("outcome")))
        if verdict == "SKIP":
            ctx.stat("prog-rejected")
            ctx.extra.setdefault("rejected_program_samples", [])
            if len(ctx.extra["rejected_program_samples"]) < 3:
                ctx.extra["rejected_program_samples"].append({"src": rq["src"], "diags": ans.get("diags")})
            continue
        ctx.case(("prog",) + tuple(c), sample=None)
        if verdict is None:
            continue
        ok = False
        if reported < 5:
            reported += 1
            ctx.violation("property-fails", {"program": rq["src"], "route": c[0], "op": c[1], "a": str(c[2]), "b": str(c[3])},
                          verdict)
    ctx.obligation("Elk programs (folded/typed/generic routes) agree with Python integers on %d programs" % len(cases), ok,
                   "correspondence")


def replay_program(ctx, inp):
    ans = vlib.run_programs([{"id": "c06replay", "src": inp["program"], "timeout_ms": 10000}])[0]
    y = None if inp["b"] == "None" else int(inp["b"])
    verdict = judge_program((inp["route"], inp["op"], int(inp["a"]), y), ans)
    if verdict not in (None, "SKIP"):
        ctx.violation("property-fails", inp, verdict)
    ctx.case(("prog", inp["program"]))


GRID = [0, 1, -1, 2, -2, I64MAX, I64MIN, I64MAX + 1, I64MIN - 1, 1 << 64, -(1 << 64)]


def grid_lines():
    """deterministic: every operator x both families x all pairs of the identity/boundary grid (in normal form)"""
    out = []
    nrep = lambda v: ("s%d" if fits(v) else "b%d") % v
    for fam in ("val", "ints"):
        for op in BIN_OPS:
            ys = GRID
            if op in ("shl", "shr"):
                ys = [0, 1, -1, 2, 62, 63, 64, 65, -62, -63, -64, -65, 127, -128]
            elif op == "pow":
                ys = [0, 1, 2, 3, 62, 63, 64, 65]
            for x in GRID:
                for y in ys:
                    out.append("int\t%s\t%s\t%s\t%s" % (fam, op, nrep(x), nrep(y)))
        for op in (INTS_UN if fam == "ints" else UN_OPS):
            for x in GRID:
                out.append("int\t%s\t%s\t%s\t-" % (fam, op, nrep(x)))
    return out


def all_pairs_lines(rng):
    """thorough tier: ALL pairs of the boundary set for every operator (`value.<Op>Val`), a random half of them
    through the `value.<Op>Ints` helpers as well"""
    out = []
    nrep = lambda v: ("s%d" if fits(v) else "b%d") % v
    counts = [-200, -128, -65, -64, -63, -2, -1, 0, 1, 2, 31, 32, 62, 63, 64, 65, 127, 128, 200]
    for op in BIN_OPS:
        ys = counts if op in ("shl", "shr") else ([0, 1, 2, 3, 31, 63, 64, 65] if op == "pow" else BOUNDARY)
        for x in BOUNDARY:
            for y in ys:
                out.append("int\tval\t%s\t%s\t%s" % (op, nrep(x), nrep(y)))
                if rng.random() < 0.5:
                    out.append("int\tints\t%s\t%s\t%s" % (op, nrep(x), nrep(y)))
    return out


def run(ctx):
    ctx.rule = ("(family, operator, operand pair with representation tags) drawn from a boundary-biased integer "
                "distribution (0, ±1, ±2^k, ±2^k±1 around the word boundaries, random 64/128-bit, products that "
                "straddle 2^63); distinct = distinct line; non-trivial = every line (each executes one operator)")
    ctx.prove("ElkVerif.Props.C06")
    if ctx.replay:
        inp = json.load(open(ctx.replay))["input"]
        if "program" in inp:
            replay_program(ctx, inp)
            return
        lines = [inp["line"]]
    else:
        lines = vlib.corpus_lines("C06") + grid_lines() + [gen_line(ctx.rng) for _ in range(ctx.n(12000, 300000))]
        if not ctx.quick:
            lines += all_pairs_lines(ctx.rng)
    for ln in lines:
        f = ln.split("\t")
        ctx.stat("op:" + f[2])
        ctx.stat("fam:" + f[1])
        ctx.stat("reps:" + f[3][0] + (f[4][0] if f[4] != "-" else ""))
    vlib.correspond(ctx, lines, oracle=oracle, minimise=minimise, label="Int operators (value.*Val / value.*Ints)")
    if not ctx.replay:
        run_program_routes(ctx, ctx.n(400, 6000))
