"""C03 — The front end is total: every input gets diagnostics, never a crash or a hang.

Mostly search (no theorem can be tied to the 60k-line parser/checker): token-level mutants of the Elk sources of
the tree, every two-token sequence over the token alphabet, sampled longer sequences, byte truncations, regex
patterns x all 64 flag sets — through lexer.Lex, parser.Parse (+ IsIncomplete), checker.CheckSource and
regex.Transpile under recover() with a 2 s budget each (harness domains `fe` and `rx`; a hang kills only the worker).
The Lean side: the regex transpiler as total definitions, progress lemmas for the lexer cursor machine and the
parser's token-window machine.
"""
import json
import re
import threading

import vlib
from checks import lexrx_common as LC
from checks import rxref as R

META = {
    "property_id": "C03",
    "technique": "Lean 4 totality/progress theorems for the regex front end model, the lexer cursor machine and the parser "
                 "token window + crash/hang search over mutated and exhaustive short inputs under recover() and a time budget",
    "level_text": "Kernel-checked: the Lean model of the regex transpiler is total and never takes its one panic path on trees "
                  "the parser accepts (regex_total); the Lean port of the regex lexer always advances (regex_lex_progress); each "
                  "token emitted by the Elk lexer's cursor machine consumes at least one byte, so a run yields at most |src| tokens "
                  "(lex_progress); panic-mode synchronisation of the token-window machine stops within the remaining tokens "
                  "(sync_progress). The regex parser port is total only by fuel (never exhausted in any run, not proved). The "
                  "regex front end port is tied to the code by text-level correspondence incl. malformed patterns x 64 flag sets. "
                  "For the Elk lexer, parser, macro expander and checker proper there is NO model: they are covered only by "
                  "search (all two-token inputs, token mutants of every Elk source in the tree, truncations), each run under "
                  "recover() with a 2 s budget.",
    "level_note": "Weak claim (DESIGN.md §8.3): no theorem quantifies over the 60k-line parser/checker; a crash or hang outside the "
                  "generated inputs is not excluded. Trusted: Lean kernel, harness, Go's recover() semantics.",
    "design_ref": "DESIGN.md §7 C03",
}

EXTRA_LEXEMES = [
    "foo", "Foo", "_foo", "_Foo", "@foo", "$foo", "$$Foo", "foo!", "foo:", "Foo:", "1", "1.5", "1i8", "1u64", "1f32", "1bf", "0xff",
    '"a"', "'a'", "`a`", "r`a`", ":foo", ':"a b"', "%/a/", "%/a/i", '"a${b}c"', '"#{b}"', '"$b"', "\\w[a b]", "\\s[a b]", "\\x[ff]",
    "\\b[1]", "^w[a]", "^s[a]", "^x[f]", "^b[1]", "%w[a]", "%s[a]", "%x[a]", "%b[1]", "%[1]", "^[1]", "%{a: 1}", "{a: 1}", "[1]",
    "##[ doc ]##", "#[ c ]#", "# c\n", "\n", ";", "<<~X\nX\n", "$\"a b\"", "@\"a\"", "$$\"A\"", "foo.", "?.", "..", "a: 1",
    "|a|", "||", "->", "~>", "&", "&.", "*a", "**a", "unquote(a)", "quote a end", "macro", "a!()", "?a", "a?",
    "\"\\q\"", "\"\\x\"", "`ab`", "1i7", "\\w[", "%/a", '"a', "'a", "#[ c",
]

NOISE_TOKENS = ["(", ")", "[", "]", "{", "}", "end", "do", "if", "then", "else", "|", "||", "->", ":", "::", ",", ".", "=", "<", ">",
                "def", "class", "module", "macro", "!", "?", "*", "**", "&", "..", "...", "\n", ";", "var", "val", "as", "of", "in",
                "switch", "case", "catch", "finally", "loop", "while", "for", "with", "using", "unquote", "quote", "struct", "sig",
                "enum", "interface", "mixin", "include", "implement", "extend", "where", "init", "singleton", "typedef", "type",
                "%/", "\"", "'", "`", "${", "#{", "\\w[", "%[", "^[", "%{", "@", "$", "1", "foo", "Foo", "self", "nil", "<<", "64"]


def hx(b):
    return (b if isinstance(b, bytes) else b.encode("utf-8", "surrogatepass")).hex() or "-"


BATCH = 400
EXTRA = {}   # extra environment of the re-runs made while minimising
MAX_BAD = 150   # stop feeding the workers once this many inputs crashed or hung (they are all reported anyway)


def run_parallel(lines, workers=4):
    """Runs the lines in batches of BATCH, each batch in a fresh worker process (the checker keeps process-global
    state: a batch is the scope in which one input can influence another), batches spread over threads."""
    if len(lines) <= BATCH:
        return vlib.run_impl(lines, timeout=1500)
    batches = [lines[i:i + BATCH] for i in range(0, len(lines), BATCH)]
    res = [None] * len(batches)
    nxt = [0]
    lock = threading.Lock()

    nbad = [0]

    def go():
        while True:
            with lock:
                k = nxt[0]
                nxt[0] += 1
                give_up = nbad[0] > MAX_BAD
            if k >= len(batches):
                return
            if give_up:
                # enough crashes/hangs to report: do not spend 2 s on each of thousands more
                res[k] = ["skipped"] * len(batches[k])
                continue
            res[k] = vlib.run_impl(batches[k], timeout=1500)
            with lock:
                nbad[0] += sum(1 for a in res[k] if bad(a))
    ths = [threading.Thread(target=go) for _ in range(workers)]
    for t in ths:
        t.start()
    for t in ths:
        t.join()
    out = []
    for r in res:
        out += r
    return out


def token_spans(srcs):
    """token byte spans of each source via the real lexer (harness domain lex)"""
    ans = vlib.run_impl(["lex\ttok\tn\t" + hx(s) for s in srcs])
    out = []
    for s, a in zip(srcs, ans):
        spans = []
        if a.startswith("ok "):
            t = a.split(" ")[1]
            if t != "-":
                for tok in t.split(","):
                    p = tok.split(":")
                    so, eo = int(p[1]), int(p[4])
                    if 0 <= so <= eo < len(s):
                        spans.append((so, eo + 1))
        out.append(spans)
    return out


def mutate_tokens(rng, src, spans, alphabet):
    if not spans:
        return src + rng.choice(alphabet).encode()
    pieces = []
    prev = 0
    for so, eo in spans:
        pieces.append(src[prev:so])   # gap
        pieces.append(src[so:eo])     # token
        prev = eo
    pieces.append(src[prev:])
    for _ in range(rng.choice([1, 1, 1, 2, 3])):
        ntok = len(pieces) // 2
        if ntok == 0:
            break
        k = 1 + 2 * rng.randrange(ntok)
        r = rng.random()
        if r < 0.3:
            pieces[k] = b""
        elif r < 0.55:
            pieces[k] = rng.choice(NOISE_TOKENS if rng.random() < 0.7 else alphabet).encode()
        elif r < 0.7:
            pieces[k] = pieces[k] + b" " + rng.choice(NOISE_TOKENS).encode()
        elif r < 0.8:
            j = 1 + 2 * rng.randrange(ntok)
            pieces[k], pieces[j] = pieces[j], pieces[k]
        elif r < 0.9:
            pieces[k] = pieces[k] + b" " + pieces[k]
        else:
            pieces = pieces[:k + 1]  # truncate after a token (REPL prefix)
    return b"".join(pieces)[:2048]


def site_of(ans):
    """crash site used to tell distinct defects apart"""
    if ans.startswith("panic"):
        m = re.match(r"panic (\S+) (.*?) @ (.*)$", ans)
        if m:
            msg = re.sub(r"0x[0-9a-f]+|\d+", "N", m.group(2))[:60]
            return "panic %s %s @ %s" % (m.group(1), msg, m.group(3))
        return re.sub(r"0x[0-9a-f]+|\d+", "N", ans)[:120]
    return ans.split(" @ ")[0][:80]


def bad(ans):
    return ans.startswith(("panic", "timeout", "fatal"))


def mk_line(f, raw):
    return "%s\t%s\t%s\t%s" % (f[0], f[1], f[2], hx(bytes(raw)))


def minimise(line, site, prefix=()):
    """Smallest input with the same crash site. `prefix`: the lines that ran before it in the same worker process;
    used when the crash does not reproduce in a fresh process (process-global checker state)."""
    f = line.split("\t")
    raw = bytes.fromhex(f[3].replace("-", ""))

    # re-runs of a hang use a longer budget than the sweep (10 s while shrinking, 30 s for the final word)
    EXTRA.clear()
    if site.startswith("timeout"):
        EXTRA["LEXRX_BUDGET_MS"] = "10000"

    def crashes(ans):
        return bad(ans) and site_of(ans) == site
    alone = vlib.run_impl([line], extra_env=EXTRA, per_line_timeout=60)[0]
    if not crashes(alone) and f[0] == "fe":
        # which earlier inputs of the batch are needed?
        pre = [l.split("\t")[3] for l in prefix if l.startswith("fe\trun\t") and "c" in l.split("\t")[2]]

        def seq(ps, last=f[3]):
            return "fe\tseq\t%s\t%s" % (f[2], ",".join(list(ps) + [last]))
        if not crashes(vlib.run_impl([seq(pre)], extra_env=EXTRA)[0]):
            return line  # not reproducible even with its batch: reported as observed
        if len(pre) > 1:
            pre = LC.ddmin_batch(pre, lambda cs: [crashes(a) for a in run_each([seq(c) for c in cs])])
        # shrink every member of the sequence
        members = pre + [f[3]]
        for i in range(len(members)):
            rawi = bytes.fromhex(members[i].replace("-", ""))
            words = re.findall(rb"\s+|[^\s]+", rawi)

            def with_member(b):
                return "fe\tseq\t%s\t%s" % (f[2], ",".join(members[:i] + [hx(b)] + members[i + 1:]))
            if len(words) > 1:
                words = LC.ddmin_batch(words, lambda cs: [crashes(a) for a in run_each([with_member(b"".join(c)) for c in cs])])
                members[i] = hx(b"".join(words))
        return "fe\tseq\t%s\t%s" % (f[2], ",".join(members))

    def test_many(cands):
        return [crashes(a) for a in run_each([mk_line(f, c) for c in cands])]
    words = re.findall(rb"\s+|[^\s]+", raw)
    if len(words) > 1:
        words = LC.ddmin_batch(words, lambda cs: test_many([b"".join(c) for c in cs]))
        raw = b"".join(words)
    if 1 < len(raw) <= 400:
        raw = bytes(LC.ddmin_batch(list(raw), lambda cs: test_many([bytes(c) for c in cs])))
    return mk_line(f, raw)


def run_each(lines, workers=6):
    """every line in its own fresh worker process"""
    res = [None] * len(lines)
    nxt = [0]
    lock = threading.Lock()

    def go():
        while True:
            with lock:
                k = nxt[0]
                nxt[0] += 1
            if k >= len(lines):
                return
            res[k] = vlib.run_impl([lines[k]], extra_env=EXTRA, per_line_timeout=60)[0]
    ths = [threading.Thread(target=go) for _ in range(min(workers, max(1, len(lines))))]
    for t in ths:
        t.start()
    for t in ths:
        t.join()
    return res


def run(ctx):
    ctx.rule = ("Elk source bytes ≤ 2 KB: all two-token sequences over one lexeme per token type, sampled 3–6 token sequences, "
                "token-level mutants (delete/replace/insert/swap/duplicate/truncate) of chunks of every Elk source and Go-test "
                "snippet in the tree, byte truncations; regex patterns (test literals, generated trees, their mutants) x 64 flag "
                "sets; stages lexer.Lex, parser.Parse+IsIncomplete, checker.CheckSource, regex.Transpile; distinct = distinct "
                "(stages, input); non-trivial = the stage list ran to completion")
    ctx.prove("ElkVerif.Props.C03")
    rng = ctx.rng
    if ctx.replay:
        inp = json.load(open(ctx.replay))["input"]
        a = vlib.run_impl([inp["line"]], extra_env={"LEXRX_BUDGET_MS": "30000"}, per_line_timeout=90)[0]
        ctx.case(inp["line"])
        if bad(a):
            ctx.violation("property-fails", {"line": inp["line"]}, f"{site_of(a)}: {a[:300]}")
        return
    seeds = LC.load_seeds(ctx)

    # ---- token alphabet: one lexeme per token type (the type's own name when it lexes), plus value-carrying lexemes
    toks = vlib.run_impl(["fe\ttokens"])[0]
    names = []
    for t in toks[3:].split(","):
        i, nm, tn = t.split(":")
        if nm != "-":
            s = bytes.fromhex(nm).decode()
            if not re.fullmatch(r"[A-Z_0-9]+", s) or s in ("END_OF_FILE",):
                names.append(s)
    alphabet = sorted(set(names + EXTRA_LEXEMES) - {"END_OF_FILE", "NEWLINE", "ERROR"})
    ctx.extra["token_alphabet"] = len(alphabet)

    lines = []
    for l in vlib.corpus_lines("C03"):
        f = l.split("\t")
        if f[:2] == ["rx", "tr"] and len(f) == 4:
            l += "\t" + LC.letters_hex(bytes.fromhex(f[3].replace("-", "")))
        lines.append(l)
    origin = ["regression"] * len(lines)

    def add(stages, b, o):
        lines.append("fe\trun\t%s\t%s" % (stages, hx(b)))
        origin.append(o)

    # every two-token sequence (quick: lex+parse; thorough: checker on a sample too)
    for a in alphabet:
        for b in alphabet:
            add("lp", a + " " + b, "pair")
    for a in alphabet:
        add("lpc", a, "single")
    for _ in range(ctx.n(8000, 150000)):
        k = rng.choice([3, 3, 4, 5, 6])
        add("lp", " ".join(rng.choice(alphabet if rng.random() < 0.5 else NOISE_TOKENS) for _ in range(k)), "seq")
    for _ in range(ctx.n(600, 12000)):
        k = rng.choice([2, 3, 3, 4, 5, 6])
        add("lpc", " ".join(rng.choice(alphabet if rng.random() < 0.5 else NOISE_TOKENS) for _ in range(k)), "seq-check")

    # the pattern grammar: every pair of pattern forms joined by every binary pattern operator (ranges, ||, &&, as) and the
    # open-range prefixes/suffixes, in every position where the parser expects a pattern
    atoms = ["1", "-5", "2.5", '"s"', ":sym", "`c`", "nil", "true", "a", "A", "A::B", "Foo(a)", "Foo(a: 1)", "[1, a]", "[1, *r]",
             "%[a, 2]", "{a}", "@{a}", "{k: v}", "(1 || 2)", "(a)", "([1])", "> 5", "< a", "== 2", "%/x/", "1...3", "_", "*a", "^[1]",
             "\\w[a b]", "a as b"]
    pops = ["...", "<..", "..<", "<.<", " || ", " && ", " as "]
    pctx = ["switch x\ncase %s\n  1\nend", "y = x match %s", "for %s in x\nend", "do\n  1\ncatch %s\n  2\nend", "var %s = x"]
    if ctx.quick:
        pctx = pctx[:3]
    for c in pctx:
        for x in atoms:
            for o in ("...", "<..", "..<", "<.<"):
                add("lp", c % (o + x), "pattern-grid")
                add("lp", c % (x + o), "pattern-grid")
            for y in atoms:
                for o in pops:
                    add("lp", c % (x + o + y), "pattern-grid")
    # structured multi-line constructs (doc/block comments, strings, collections, …) with independent per-line indentation
    for k, (mode, b, name) in enumerate(LC.multiline_grid()):
        if mode == "n":
            add("lpc" if k % 12 == 0 else "lp", b, "multiline-grid")
            if k % 6 == 0:
                add("lp", b"def f\n  " + b.replace(b"\n", b"\n  ") + b"\nend", "multiline-grid")
    # token-level mutants of the tree's Elk sources
    nmut = ctx.n(8000, 200000)
    chunks = LC.chunks(seeds, rng, nmut // 3 + 10, 1200)
    spans = token_spans(chunks)
    ncheck = ctx.n(1000, 15000)
    for i in range(nmut):
        k = rng.randrange(len(chunks))
        m = mutate_tokens(rng, chunks[k], spans[k], alphabet)
        add("lpc" if i < ncheck else "lp", m, "mutant")
    for k in range(min(len(chunks), ctx.n(150, 5000))):
        add("lpc" if k < ctx.n(60, 2000) else "lp", chunks[k], "corpus")
    # truncations at every byte (REPL prefixes)
    for k in range(ctx.n(25, 300)):
        c = chunks[rng.randrange(len(chunks))][:ctx.n(300, 600)]
        for p in range(len(c)):
            add("lp", c[:p], "truncation")

    # ---- regex patterns x 64 flag sets
    pats = [b.decode("utf-8", "replace") for b in seeds["regex"] if len(b) <= 200]
    gen = R.Gen(rng)
    gpats = [R.source(gen.tree(), rng) for _ in range(ctx.n(100, 4000))]
    allp = list(dict.fromkeys(pats + gpats))
    mutp = []
    for _ in range(ctx.n(250, 20000)):
        p = rng.choice(allp)
        q = rng.randint(0, len(p))
        r = rng.random()
        if r < 0.35:
            p = p[:q]
        elif r < 0.7:
            p = p[:q] + rng.choice(["(", ")", "[", "]", "{", "}", "\\", "?", "*", "+", "|", "(?", "(?#", "(?<", "\\p{", "\\x{", "\\Q",
                                    "[:", "\\c", "\\o", "\\u", "^", "-", ",", "'", "<", ">", ":", "P", "\\1", "\\8", "\\0"]) + p[q:]
        else:
            p = p[:q] + p[q + 1:]
        mutp.append(p)
    rx_quick = rng.sample(allp, min(len(allp), ctx.n(150, 10 ** 9))) + mutp
    for p in rx_quick:
        pb = p.encode("utf-8", "surrogatepass")
        lt = LC.letters_hex(pb)
        for fl in range(64):
            lines.append("rx\ttr\t%d\t%s\t%s" % (fl, hx(pb), lt))
            origin.append("regex")

    # canaries: when a stage crashes on a trivial program (e.g. a lexer defect hit while the checker loads the std headers in
    # its goroutines kills the worker on EVERY input), report that once and leave the stage out of the sweep
    dead = ""
    for st in "lpc":
        cl = "fe\trun\t%s\t%s" % (st, hx("x = 1\nprintln x"))
        ca = LC.confirm_hangs([cl], vlib.run_impl([cl]), ctx.stat)[0]
        if bad(ca):
            dead += st
            ctx.stat("stage-dead:" + st)
            ctx.violation("property-fails", {"line": cl}, f"{site_of(ca)}: the stage fails on a trivial program: {ca[:300]}")
    if dead:
        def strip(l):
            f = l.split("\t")
            if f[0] == "fe" and f[1] == "run":
                f[2] = "".join(c for c in f[2] if c not in dead) or "l"
            return "\t".join(f)
        lines = [strip(l) for l in lines]
    impl = LC.confirm_hangs(lines, run_parallel(lines), ctx.stat)
    sites = {}
    for idx, (ln, o, a) in enumerate(zip(lines, origin, impl)):
        if a in ("skipped", "slow"):
            ctx.stat("skipped-after-many-crashes")
            continue
        ctx.case(ln, nontrivial=a.startswith(("ok ", "ast=", "perr=")), sample={"line": ln[:200], "impl": a[:100]} if o != "pair" else None)
        ctx.stat("origin:" + o)
        if a.startswith("ok "):
            f = dict(x.split("=") for x in a[3:].split(" "))
            if f.get("parse", "-") != "-":
                ctx.stat("parse:" + ("clean" if f["parse"] == "0" else "diagnostics"))
                if f.get("inc") == "1":
                    ctx.stat("parse:incomplete")
            if f.get("check", "-") != "-":
                ctx.stat("check:" + ("clean" if f["check"] == "0" else "diagnostics"))
        elif a.startswith(("ast=", "perr=")):
            ctx.stat("regex:" + a.split("=")[0] + "/" + a.split(" ")[1].split("=")[0])
        if bad(a):
            s = site_of(a)
            ctx.stat("crash")
            if s not in sites or len(ln) < len(sites[s][0]):
                sites[s] = (ln, a, idx)
    # the Lean port of the regex lexer + parser + transpiler must give the same answer on every regex line
    rx_idx = [i for i, l in enumerate(lines) if l.startswith("rx\ttr\t") and not bad(impl[i]) and impl[i] not in ("skipped", "slow")]
    rx_model = vlib.run_model([lines[i] for i in rx_idx]) if rx_idx else []
    port_ok, shown = True, 0
    for i, m in zip(rx_idx, rx_model):
        if m.startswith("bad-"):
            raise RuntimeError("model rejected " + lines[i])
        if m == "stuck":
            ctx.stat("port:stuck")
        if m != impl[i]:
            port_ok = False
            if shown < 3:
                shown += 1
                ctx.violation("model-impl-disagree", {"line": lines[i], "correspondence": "regex front end port"},
                              f"impl={impl[i][:200]!r} model={m[:200]!r}", no_input=True)
    ctx.obligation(f"regex front end: Lean port (lexer, parser, transpiler) = regex.Parse/Transpile on {len(rx_idx)} "
                   f"(pattern, flags) pairs, malformed patterns included", port_ok, "correspondence")
    unknown = 0
    for s, (ln, a, idx) in sorted(sites.items())[:12]:
        m = minimise(ln, s, prefix=lines[idx - idx % BATCH:idx])
        a2 = vlib.run_impl([m], extra_env={"LEXRX_BUDGET_MS": "30000"} if s.startswith("timeout") else None, per_line_timeout=90)[0]
        if not bad(a2):
            m, a2 = ln, a
        if ctx.violation("property-fails", {"line": m}, f"{site_of(a2)}: {a2[:400]}"):
            unknown += 1
    ctx.extra["crash_sites"] = sorted(sites)
    ctx.obligation(f"search: {len(lines)} inputs through the front end, every run returned within the budget without a Go panic "
                   f"(known findings excepted)", unknown == 0 and not dead, "search")
