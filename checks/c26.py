"""C26 — Symbol interning is a bijection under concurrency."""
import json
import os
import subprocess

import vlib

META = {
    "property_id": "C26",
    "technique": "Lean 4 invariant proof over all schedules of atomic symbol-table operations + certified history checker "
                 "(okSym, soundness theorem) run on histories recorded from concurrent stress runs of value.SymbolTableStruct "
                 "(race detector: 6 runs in the quick tier, 40 in the thorough tier) + sequential correspondence",
    "level_text": "Kernel-checked: for every interleaving of atomic Add/Get/GetName/ExistsId steps by any number of actors the "
                  "name and id tables stay inverse, equal names get equal symbols, distinct names distinct symbols, and every "
                  "symbol's name is recovered (inv_reachable, same_name_same_symbol, distinct_names_distinct_symbols, "
                  "name_recoverable); okSym_sound/model_histories_ok certify the history checker that judges recorded concurrent "
                  "runs. Atomicity of the Go methods (the RWMutex discipline) is tested, not proved.",
    "level_note": "Trusted: Lean kernel; model of the four methods as atomic steps; Go's sync.RWMutex and map; the stress "
                  "driver and the race detector sample schedules, they do not enumerate them.",
    "design_ref": "DESIGN.md §7 C26",
}

NAMES = ["", "61", "62", "6162", "66f6f", "e282ac", "ff", "00", "6e616d65", "2b", "5b5d3d", "73656c66", "41", "61" * 40]
NAMES = [n for n in NAMES if len(n) % 2 == 0]


def gen_line(rng, ctx=None):
    n = rng.choice([1, 3, 6, 12, 25, 60])
    pool = rng.sample(NAMES, rng.randint(1, min(8, len(NAMES))))
    ops = []
    added = 0
    for _ in range(n):
        x = rng.random()
        if x < 0.5:
            ops.append("a " + rng.choice(pool)); added += 1
        elif x < 0.7:
            ops.append("g " + rng.choice(pool if rng.random() < 0.8 else NAMES))
        else:
            i = rng.choice([-1, 0, 1, added, added - 1, len(pool), len(pool) - 1, rng.randint(-2, 12), 2 ** 31, -2 ** 63, 2 ** 63 - 1])
            ops.append(("n " if x < 0.87 else "e ") + str(i))
    if ctx is not None:
        for o in ops:
            ctx.stat("op:" + o[0])
    return "sym\trun\t" + ";".join(ops)


def oracle(line, ans):
    """python dict/list: ids are handed out 0,1,2,… in order of first Add; everything else follows."""
    ops = [o for o in line.split("\t")[2].split(";") if o]
    if not ans.startswith("ok "):
        return f"harness answered {ans[:80]!r}"
    res = ans[3:].split(";") if ans != "ok " else []
    if len(res) != len(ops):
        return f"{len(res)} answers for {len(ops)} operations"
    ids, names = {}, []
    for k, (o, r) in enumerate(zip(ops, res)):
        kind, _, arg = o.partition(" ")
        where = f"op #{k} `{o}`"
        if kind == "a":
            if arg not in ids:
                ids[arg] = len(names); names.append(arg)
            want = "i%d" % ids[arg]
        elif kind == "g":
            want = "i%d" % ids[arg] if arg in ids else "-"
        elif kind == "n":
            i = int(arg)
            want = "s" + names[i] if 0 <= i < len(names) else "-"
        else:
            i = int(arg)
            want = "t" if 0 <= i < len(names) else "f"
        if r != want:
            what = {"a": "Add", "g": "Get", "n": "GetName", "e": "ExistsId"}[kind]
            return f"{where}: {what} answered {r}, a bijective interning gives {want} (names so far: {len(names)})"
    return None


def minimise(line, still):
    f = line.split("\t")
    ops = [o for o in f[2].split(";") if o]
    mk = lambda os_: "\t".join(f[:2] + [";".join(os_)])
    if len(ops) > 1:
        ops = vlib.ddmin(ops, lambda os_: still(mk(os_)))
    return mk(ops)


def py_check_history(events):
    """model-free judgement of a recorded concurrent history: same name <=> same id over all Add/Get/GetName answers."""
    name_of, id_of = {}, {}
    for a, op, arg, r in events:
        pair = None
        if op in ("a", "g") and r.startswith("i"):
            pair = (arg, int(r[1:]))
        elif op == "n" and r.startswith("s"):
            pair = (r[1:], int(arg))
        elif op == "a":
            return f"actor {a}: Add {arg} answered {r}"
        if pair:
            n, i = pair
            if id_of.setdefault(n, i) != i:
                return f"name {n} was given symbols {id_of[n]} and {i}"
            if name_of.setdefault(i, n) != n:
                return f"symbol {i} was given to names {name_of[i]} and {n}"
    return None


def stress(ctx, binary, g, n, names, seed, race, lockstep=False):
    env = vlib.go_env()
    if race:
        env["GORACE"] = "halt_on_error=0"
    p = subprocess.run([binary, "symstress", str(g), str(n), str(names), str(seed)] + (["lockstep"] if lockstep else []),
                       stdout=subprocess.PIPE,
                       stderr=subprocess.PIPE, text=True, env=env, timeout=600)
    events = [tuple(l.split(" ")) for l in p.stdout.split("\n") if l]
    inp = {"stress": {"goroutines": g, "ops": n, "names": names, "seed": seed, "race": race, "lockstep": lockstep}}
    ctx.case(("stress", g, n, names, seed, race), sample=None)
    ctx.stat("stress-events", len(events))
    if p.returncode != 0:
        ctx.violation("property-fails", inp, f"stress run died rc={p.returncode}: {p.stderr[-400:]}")
        return False
    if "DATA RACE" in p.stderr:
        first = p.stderr.split("WARNING: DATA RACE", 1)[1][:900]
        ctx.violation("property-fails", inp, "race detector: unsynchronised access in the symbol table: " + first)
        return False
    if len(events) != g * n or any(len(e) != 4 for e in events):
        ctx.violation("broken-machinery", inp, f"expected {g * n} events, got {len(events)}", no_input=True)
        return False
    pf = py_check_history(events)
    model = vlib.run_model(["sym\thist\t" + ";".join(" ".join(e) for e in events)])[0]
    if pf is not None:
        ctx.violation("property-fails", dict(inp, history=[" ".join(e) for e in events][:4000]),
                      f"recorded concurrent history is not a bijective interning: {pf}; okSym says {model}")
        return False
    if model != "ok true":
        ctx.violation("property-fails", dict(inp, history=[" ".join(e) for e in events][:4000]),
                      f"certified checker okSym rejects the recorded history ({model}): no interleaving of atomic "
                      f"operations produces it (an id was unknown to the actor that had just obtained it)")
        return False
    return True


def run(ctx):
    ctx.rule = ("sequential: operation lists (Add/Get/GetName/ExistsId) over overlapping name pools incl. empty, non-UTF-8 and "
                "long names, boundary ids; concurrent: G goroutines x N operations on one fresh table, recorded results "
                "checked by okSym; distinct = distinct operation list / stress configuration")
    ctx.prove("ElkVerif.Props.C26")
    if ctx.replay:
        inp = json.load(open(ctx.replay))["input"]
        if "line" in inp:
            vlib.correspond(ctx, [inp["line"]], oracle=oracle, minimise=minimise, label="SymbolTable")
        else:
            s = inp["stress"]
            binary = vlib.ELKH
            if s.get("race"):
                ok, log = vlib.build_harness(race=True)
                binary = vlib.ELKH + "-race"
            stress(ctx, binary, s["goroutines"], s["ops"], s["names"], s["seed"], s.get("race", False), s.get("lockstep", False))
        return
    lines = vlib.corpus_lines("C26") + [gen_line(ctx.rng, ctx) for _ in range(ctx.n(2000, 30000))]
    vlib.correspond(ctx, lines, oracle=oracle, minimise=minimise, label="SymbolTable", max_report=2)
    ok = True
    configs = [(2, 200, 6), (8, 120, 12), (64, 40, 24), (8, 300, 3), (32, 60, 40)]
    runs = ctx.n(20, 60)
    for k in range(runs):
        g, n, names = configs[k % len(configs)]
        ok &= stress(ctx, vlib.ELKH, g, n, names, ctx.seed * 100000 + k, False, lockstep=(k % 2 == 1))
    ctx.obligation(f"stress: okSym accepts the histories of {runs} concurrent runs (G up to 64)", ok, "history-check")
    if True:          # a small sample under the race detector in the quick tier too (6 runs), 40 in the thorough tier
        built, log = vlib.build_harness(race=True)
        if not built:
            ctx.obligation("go build -race of the harness", False, "build", log[-600:])
        else:
            okr = True
            for k in range(ctx.n(6, 40)):
                g, n, names = configs[k % len(configs)]
                okr &= stress(ctx, vlib.ELKH + "-race", g, n, names, ctx.seed * 100000 + 5000 + k, True, lockstep=(k % 2 == 1))
            ctx.obligation("stress under the race detector: no data race reported, okSym accepts (%d runs)" % ctx.n(6, 40), okr, "race")
