"""Program-level correspondence: MiniElk reference evaluator (Lean, elkmodel) vs the real
parser → checker → compiler → VM (elkh run)."""
import json
import re
import vlib
from checks import mini_gen

FUEL = 800


def unesc(s):
    out, i = [], 0
    while i < len(s):
        if s[i] == "\\" and i + 1 < len(s):
            out.append("\n" if s[i + 1] == "n" else s[i + 1])
            i += 2
        else:
            out.append(s[i])
            i += 1
    return "".join(out)


def _model_lines(sexprs, fuel):
    lines = []
    for s in sexprs:
        lines.append("mini\tsrc\t" + s)
        lines.append(f"mini\trun\t{fuel}\t" + s)
    return lines


def _model_chunk(sexprs, fuel, timeout):
    """answers for a chunk; a program on which the model itself does not finish in time is
    answered ("", "timeout", "") — found by bisection"""
    try:
        return vlib.run_model(_model_lines(sexprs, fuel), timeout=timeout)
    except RuntimeError:
        if len(sexprs) == 1:
            return ["ok ", "ok timeout | "]
        h = len(sexprs) // 2
        return _model_chunk(sexprs[:h], fuel, timeout) + _model_chunk(sexprs[h:], fuel, timeout)


def model_eval(sexprs, fuel=FUEL):
    """-> list of (source, outcome, stdout) from the Lean model"""
    ans = []
    for i in range(0, len(sexprs), 100):
        ans += _model_chunk(sexprs[i:i + 100], fuel, 40)
    out = []
    for i in range(0, len(ans), 2):
        a, b = ans[i], ans[i + 1]
        if not a.startswith("ok ") or not b.startswith("ok "):
            raise RuntimeError(f"model rejected program: {a[:80]} / {b[:80]}\n{sexprs[i // 2][:400]}")
        src = unesc(a[3:])
        outcome, _, tr = b[3:].partition(" | ")
        tr = unesc(tr)
        out.append((src, outcome, tr + "\n" if tr else ""))
    return out


def real_outcome(ans):
    """canonical outcome string of an elkh-run answer, comparable with the model's"""
    o = ans["outcome"]
    if o == "value":
        return "val"
    if o == "error":
        if ans.get("err_class") == "Std::ZeroDivisionError":
            return "error Std::ZeroDivisionError"
        if ans.get("err_class") in ("Std::String", "Std::Int"):
            return "thrown " + ans.get("err_msg", "")
        return f"error {ans.get('err_class')}: {ans.get('err_msg')}"
    if o in ("panic", "fatal"):
        return f"{o} {ans.get('panic')}"
    if o == "rejected":
        return "rejected " + "; ".join(d["msg"].split("\n")[0] for d in ans["diags"] if d["sev"] == "FAIL")[:300]
    return o


def shrink_program(sexpr, fails_batch, wall=30.0, max_cands=80):
    """Batched greedy shrinking: each round builds all single-step reductions (drop one statement
    or method, unwrap an `if`/`try`), evaluates them in ONE model run + ONE real run
    (`fails_batch(list) -> list of bool`), and keeps the smallest one that still fails."""
    import re
    import time

    def norm(t):
        return re.sub(r"\s+", " ", t).replace("( ", "(").replace(" )", ")")
    cur = sexpr
    t0 = time.time()
    while time.time() - t0 < wall:
        cands = []
        for (a, b) in stmt_spans(cur):
            cands.append(norm(cur[:a] + cur[b:]))
            inner = unwrap(cur[a:b])
            if inner is not None:
                cands.append(norm(cur[:a] + inner + cur[b:]))
        cands = sorted(set(c for c in cands if c != cur), key=len)[:max_cands]
        if not cands:
            break
        try:
            res = fails_batch(cands)
        except Exception:
            break
        good = [c for c, ok in zip(cands, res) if ok]
        if not good:
            break
        cur = good[0]
    return cur


def unwrap(stmt):
    """(if C (S…) (T…)) -> S… ; (try (S…) … ) -> S… ; returns None when not applicable"""
    for head in ("(if ", "(try "):
        if stmt.startswith(head):
            # find the first parenthesised *list of statements*
            i = len(head)
            if head == "(if ":
                # skip the condition s-expression
                depth = 0
                while True:
                    if stmt[i] == "(":
                        depth += 1
                    elif stmt[i] == ")":
                        depth -= 1
                        if depth == 0:
                            i += 1
                            break
                    i += 1
                while stmt[i] == " ":
                    i += 1
            if stmt[i] != "(":
                return None
            j, depth = i, 0
            while True:
                if stmt[j] == "(":
                    depth += 1
                elif stmt[j] == ")":
                    depth -= 1
                    if depth == 0:
                        break
                j += 1
            return stmt[i + 1:j]
    return None


STMT_HEADS = ("(decl ", "(expr ", "(print ", "(if ", "(while ", "(loop ", "(brk ", "(cont ", "(ret ", "(throw ", "(try ", "(def ", "(catch ")


def stmt_spans(s):
    """spans of statement-level s-expressions, largest first"""
    spans = []
    stack = []
    for i, ch in enumerate(s):
        if ch == "(":
            stack.append(i)
        elif ch == ")":
            a = stack.pop()
            if s.startswith(STMT_HEADS, a):
                spans.append((a, i + 1))
    spans.sort(key=lambda ab: ab[0] - ab[1])
    return spans


def compare_programs(ctx, sexprs, label, extra_env=None, finding_kinds=None, max_report=4, reject_is_violation=False):
    """Runs every program on both sides; reports disagreements. Returns per-program records."""
    mods = model_eval(sexprs)
    reqs = [{"id": f"m{i}", "src": m[0], "timeout_ms": 5000} for i, m in enumerate(mods)]
    real = vlib.run_programs(reqs, extra_env=extra_env)
    recs = []
    agree = True
    reported = 0
    for sx, (src, mo, mt), ra in zip(sexprs, mods, real):
        ro = real_outcome(ra)
        rec = {"sexpr": sx, "src": src, "model": mo, "model_out": mt, "real": ro, "real_out": ra["stdout"]}
        recs.append(rec)
        ctx.stat("model:" + mo.split(" ")[0])
        ctx.stat("real:" + ro.split(" ")[0])
        if mo.startswith("stuck") or mo == "timeout":
            ctx.stat("generator-outside-fragment")
            continue
        ok = (mo == ro and mt == ra["stdout"])
        if ok:
            continue
        if ro.startswith("rejected") and not reject_is_violation:
            # the real checker did not accept the program: outside the premise of the program-level
            # properties (the generator is type-directed, but the real checker has rules the fragment
            # does not model); counted, not reported. A generator that is mostly rejected shows in the stats.
            ctx.stat("real-checker-rejects")
            continue
        if reported >= max_report:
            agree = False
            continue
        reported += 1

        want = classify(mo, mt, ro, ra["stdout"])
        uniq = [0]

        def fails_batch(cands):
            lines = []
            uniq[0] += 1
            # method tables are process-global: every candidate gets its own module name
            cands = [re.sub(r"^\(prog (\w+?)(?:x\d+y\d+)? ", lambda m: f"(prog {m.group(1)}x{uniq[0]}y{j} ", c)
                     for j, c in enumerate(cands)]
            for c in cands:
                lines.append("mini\tsrc\t" + c)
                lines.append(f"mini\trun\t{FUEL}\t" + c)
            ans = vlib.run_model(lines)
            ms, idx = [], []
            for i in range(len(cands)):
                a_, b_ = ans[2 * i], ans[2 * i + 1]
                if not a_.startswith("ok ") or not b_.startswith("ok "):
                    ms.append(None)
                    continue
                outc, _, tr = b_[3:].partition(" | ")
                tr = unesc(tr)
                if outc.startswith("stuck") or outc == "timeout":
                    ms.append(None)
                    continue
                ms.append((unesc(a_[3:]), outc, tr + "\n" if tr else ""))
                idx.append(i)
            rs = vlib.run_programs([{"id": f"s{i}", "src": ms[i][0], "timeout_ms": 1500} for i in idx], extra_env=extra_env)
            out = [False] * len(cands)
            for i, r in zip(idx, rs):
                ro_ = real_outcome(r)
                if ms[i][1] == ro_ and ms[i][2] == r["stdout"]:
                    continue
                out[i] = classify(ms[i][1], ms[i][2], ro_, r["stdout"]) == want
            return out
        small = shrink_program(sx, fails_batch)
        m2 = model_eval([small])[0]
        r2 = vlib.run_programs([{"id": "s", "src": m2[0], "timeout_ms": 5000}], extra_env=extra_env)[0]
        ro2 = real_outcome(r2)
        kind = classify(m2[1], m2[2], ro2, r2["stdout"])
        detail = (f"reference: {m2[1]} stdout={m2[2]!r}; implementation: {ro2} stdout={r2['stdout']!r}")
        # A crash of the host, or output that differs from the reference semantics, is the property
        # failing on the implementation (the reference evaluator is the property's oracle here).
        if ctx.violation(kind, {"program": m2[0], "sexpr": small}, detail):
            agree = False          # a listed known finding does not break the correspondence obligation
        else:
            reported -= 1
    ctx.obligation(f"{label}: real pipeline = MiniElk reference on {len(sexprs)} generated programs", agree, "correspondence")
    return recs


def classify(mo, mt, ro, rt):
    h = ro.split(" ")[0]
    if h in ("panic", "fatal"):
        return "host-crash"
    if h == "rejected":
        return "checker-rejects-fragment-program"
    if h == "timeout":
        return "hang"
    if mo != ro:
        return "outcome-differs"
    return "output-differs"


def corpus_programs(prop):
    """corpus/<prop>/*.sexp: one MiniElk program (s-expression) per line; replayed first"""
    import os
    d = os.path.join(vlib.ROOT, "corpus", prop)
    out = []
    if os.path.isdir(d):
        for f in sorted(os.listdir(d)):
            if f.endswith(".sexp"):
                out += [l.strip() for l in open(os.path.join(d, f)) if l.strip() and not l.startswith("#")]
    return out
