"""Shared helpers of the lexrx checks (C03, C04, C21): seed corpus harvested from the elk tree."""
import json
import subprocess

import vlib

_cache = {}


def load_seeds(ctx=None):
    """{'elk': [(name, bytes)], 'lit': [bytes], 'regex': [bytes]} via `elkh probe lexrx_seeds` (inputs only)."""
    if "s" not in _cache:
        p = subprocess.run([vlib.ELKH, "probe", "lexrx_seeds", vlib.REPO], env=vlib.go_env(),
                           stdout=subprocess.PIPE, stderr=subprocess.PIPE, timeout=300)
        if p.returncode != 0:
            raise RuntimeError("probe lexrx_seeds failed: " + p.stderr.decode(errors="replace")[-300:])
        d = json.loads(p.stdout)
        _cache["s"] = {
            "elk": [(x.split(":", 1)[0], bytes.fromhex(x.split(":", 1)[1])) for x in d["elk"]],
            "lit": [bytes.fromhex(x) for x in d["lit"]],
            "regex": [bytes.fromhex(x) for x in d["regex"]],
        }
    return _cache["s"]


def chunks(seeds, rng, n, maxlen):
    """n byte strings ≤ maxlen: windows of whole lines of the Elk files, and Go-test literals."""
    out = []
    files = [b for _, b in seeds["elk"] if b]
    lits = [b for b in seeds["lit"] if len(b) >= 2]
    split = {}
    for _ in range(n):
        if rng.random() < 0.5 and files:
            k = rng.randrange(len(files))
            if k not in split:
                split[k] = files[k].split(b"\n")
            ls = split[k]
            i = rng.randrange(len(ls))
            j = i
            size = 0
            while j < len(ls) and size + len(ls[j]) + 1 <= maxlen and j - i < 25:
                size += len(ls[j]) + 1
                j += 1
            out.append(b"\n".join(ls[i:max(j, i + 1)])[:maxlen] + (b"\n" if rng.random() < 0.5 else b""))
        else:
            out.append(rng.choice(lits)[:maxlen])
    return out


def ddmin_batch(items, test_many):
    """ddmin where all candidates of a round are judged by one call: test_many([cand,…]) -> [bool,…]."""
    items = list(items)
    n = 2
    while len(items) >= 2:
        chunk = max(1, len(items) // n)
        subsets = [items[i:i + chunk] for i in range(0, len(items), chunk)]
        cands = [[x for j, s in enumerate(subsets) if j != i for x in s] for i in range(len(subsets))]
        cands = [c for c in cands if c]
        res = test_many(cands) if cands else []
        hit = next((c for c, r in zip(cands, res) if r), None)
        if hit is not None:
            items = hit
            n = max(n - 1, 2)
        else:
            if chunk == 1:
                break
            n = min(n * 2, len(items))
    return items


def letters_hex(pattern_bytes):
    """the non-ASCII runes of a regex source that unicode.IsLetter accepts (the Lean port takes IsLetter as data)"""
    t = pattern_bytes.decode("utf-8", "replace")
    return "".join(sorted({c for c in t if ord(c) > 127 and c != "\ufffd" and c.isalpha()})).encode().hex() or "-"


import threading


def confirm_hangs(lines, answers, stat=None, cap=40):
    """A wall-clock timeout is never believed on its first occurrence: every `timeout` answer is re-run ALONE in a fresh
    worker with a 30 s budget (LEXRX_BUDGET_MS); only inputs that still do not finish keep their `timeout` answer, the others
    get their real answer and are counted as slow_under_load. At most `cap` inputs are re-run (shortest first); if none of
    those is a real hang the rest is taken to be slow as well (answer `slow`), if one is, the rest keep `timeout`."""
    idx = sorted((i for i, a in enumerate(answers) if a.startswith("timeout")), key=lambda i: len(lines[i]))
    if not idx:
        return answers
    answers = list(answers)
    todo = idx[:cap]
    res = {}
    lock = threading.Lock()
    it = iter(todo)

    def go():
        while True:
            with lock:
                i = next(it, None)
            if i is None:
                return
            res[i] = vlib.run_impl([lines[i]], extra_env={"LEXRX_BUDGET_MS": "30000"}, per_line_timeout=90, timeout=90)[0]
    ths = [threading.Thread(target=go) for _ in range(min(4, len(todo)))]
    for t in ths:
        t.start()
    for t in ths:
        t.join()
    real = 0
    for i in todo:
        if res[i].startswith("timeout") or res[i].startswith("fatal timeout"):
            real += 1
        else:
            answers[i] = res[i]
            if stat:
                stat("slow_under_load")
    if real == 0:
        for i in idx[cap:]:
            answers[i] = "slow"
            if stat:
                stat("slow_under_load")
    return answers


# ---------------------------------------------------------------- structured multi-line constructs

# (name, opener, closer, content words, mode): every lexing construct that may span lines
MULTILINE = [
    ("doc-hash", "##[", "]##", ["doc", "a b", "]", "#", "##[ n ]##"], "n"),
    ("doc-slash", "/**", "**/", ["doc", "a b", "*", "/** n **/"], "n"),
    ("block-hash", "#[", "]#", ["c", "a b", "#[ n ]#", "]"], "n"),
    ("block-slash", "/*", "*/", ["c", "a b", "/* n */", "*"], "n"),
    ("raw-string", "'", "'", ["r", "a b", "${x}"], "n"),
    ("string", '"', '"', ["s", "a ${b} c", "#{d}", "$e \\n"], "n"),
    ("string-interp", '"a ${', '} z"', ["b +", "c", "1"], "n"),
    ("regex", "%/", "/x", ["a+", "b # c", "${d}", "e\\", "\\"], "n"),     # a piece ending in a backslash: `\` + line feed
    ("word-list", "\\w[", "]", ["foo", "bar baz", "q"], "n"),
    ("symbol-set", "^s[", "]", ["foo", "bar baz", "q"], "n"),
    ("hex-tuple", "%x[", "]", ["ff", "1a 2b", "0"], "n"),
    ("bin-list", "\\b[", "]", ["101", "1 0", "11"], "n"),
    ("char", "`", "`", ["a", "ab"], "n"),
    ("quoted-ivar", '@"', '"', ["iv", "a b"], "n"),
    ("embellished-3", "text ```", "``` more", ["x = 1", "\"s\" + y", "# c"], "e"),
    ("embellished-1", "see `", "` and", ["1 + 2", "a.b"], "e"),
]


def multiline_grid():
    """Deterministic grid: every multi-line construct x 2-4 lines (opening and closing line included) x independent
    per-line indentation 0..4 x (blank lines, tabs vs spaces, text before/after the terminator, terminator right
    after the opener, unterminated). Returns [(mode, bytes, construct)]."""
    out = []
    pre_texts = ["", "x", "]", " ]"]
    posts = ["", " y", "\n  z"]
    for name, op, cl, words, mode in MULTILINE:
        combos = [(a, b) for a in range(5) for b in range(5)]
        combos += [(a, b, c) for a in range(5) for b in range(5) for c in range(5)]
        combos += [(a, b, c, d) for a in (0, 2, 4) for b in (0, 2, 4) for c in (0, 2, 4) for d in (0, 1, 3)]
        for k, ind in enumerate(combos):
            n = len(ind)
            ws = "\t" if k % 7 == 3 else " "
            mixed = k % 11 == 5
            lines = []
            for i, w in enumerate(ind):
                pad = (ws * w) if not (mixed and i % 2) else ("\t " * w)[:w]
                if i == 0:
                    first = words[k % len(words)] if k % 3 else ""
                    lines.append(pad + ("v = " if k % 5 == 1 else "") + op + ((" " + first) if first and k % 2 else first))
                elif i == n - 1:
                    unterminated = k % 13 == 7
                    lines.append(pad + pre_texts[(k // 2) % len(pre_texts)] + ("" if unterminated else cl + posts[k % len(posts)]))
                else:
                    blank = k % 9 == 4 and i == 1
                    lines.append("" if blank else pad + words[(k + i) % len(words)])
            nl = "\r\n" if k % 17 == 9 else "\n"
            out.append((mode, nl.join(lines).encode(), name))
        # the degenerate layouts once per construct
        for src in (op + cl, op + "\n" + cl, op + cl + "\n" + cl, op + "\n\n\n" + cl + " y", op, op + "\n", "  " + op + "\n    a\n" + cl,
                    op + "\n    a\n    b\nx" + cl, op + "\n\t\ta\n " + cl[:1] + cl, op + " a\n" + op + " b\n" + cl + "\n" + cl):
            out.append((mode, src.encode(), name))
    return out
