"""C19 — inspect output is Elk source that evaluates back to an equal value."""
import json
import math
import os
import re
import struct
import subprocess

import vlib
from checks import strlib
from checks.strlib import go_pieces, go_runes, go_encode, hx, unhx

META = {
    "property_id": "C19",
    "technique": "Lean 4 round-trip theorems (reader ∘ inspect = id) for String/Char/Symbol/Int over byte-level models of "
                 "value.*.Inspect and of the lexer's escape/identifier/number readers, on a proved model of Go's UTF-8 codec; "
                 "differential correspondence + real-pipeline re-evaluation of the real inspect output (exhaustive over all code "
                 "points and all 1- and 2-byte strings in the thorough tier)",
    "level_text": "Kernel-checked: readString (inspectString g bs) = some bs for every byte string and every classification g; "
                  "the same for Char (all scalar values) and Symbol (under stated inclusions between Go's Unicode classes), "
                  "readInt (showInt n) = n for all n, positional value of integer literals in every base with `_`. The models are "
                  "tied to value/string.go, char.go, symbol.go, big_int.go and lexer/lexer.go by differential execution; the reader "
                  "side of the tie lexes, parses, checks, compiles and runs the REAL inspect output in-process and compares bytes. "
                  "Floats: inspect/parse round-trip is tested on the implementation (strconv's shortest round-trip is assumed, "
                  "not proved). Collections, Regex, ranges, BigFloat: not covered.",
    "level_note": "Trusted: Lean kernel; hand-written models of the inspect writers and of the lexer's readers; probed Unicode "
                  "class tables (Go unicode 15.0.0); strconv for floats; harness.",
    "design_ref": "DESIGN.md §7 C19",
}

KEYWORDS = ["nil", "false", "true", "if", "else", "elsif", "unless", "while", "until", "loop", "for", "break", "next", "return",
            "def", "end", "then", "class", "module", "self", "do", "in", "is", "as", "var", "val", "const", "switch", "case",
            "macro", "throw", "catch", "finally", "type", "struct", "and", "or", "not", "super", "using", "import", "go", "await"]
IDENT_PIECES = ["foo", "Foo", "_", "_", "bar", "x", "X", "1", "9", "é", "Ł", "中", "ǅ", "ʰ", "٣", "Ⅷ", "²", "ß", "я", "Ω", "ª", "_a", "_A"]
SYM_SPECIAL = ["", "_", "__", "_1", "_1a", "__a", "_中", "_ǅ", "_ʰ", "_a", "_A", "_é", "_Ł", "__FILE__", "a_", "a__b", "1a", "٣a", "a٣", "aⅧ",
               "a²", "$a", "#a", "${a}", "#{a}", "a$b", "a#b", "a$", "$", "#", "$_", "#_x", "$é", "+", "-", "*", "[]", "[]=", "==", "<=>", "!",
               "a b", "a\nb", "a\"b", "a\\b", "a'b", "a`b", "r", "r`", "foo=", "foo?", "foo!", "@a", "@@a", "§a", "a\x00", "a\x7f", "\x01",
               "a\u0080", "a­", "a‍", "a\U0010ffff", "a", "a�", "a🐧"]


def gen_str(rng):
    r = rng.random()
    if r < 0.55:
        return strlib.gen_bytes(rng)
    if r < 0.75:
        # dense in the defect-prone regions: U+0080..U+00FF valid and as raw bytes, escapes, interpolation starters
        pool = [chr(c).encode() for c in (0x80, 0x85, 0x9F, 0xA0, 0xAD, 0xE9, 0xFF, 0x100, 0x7F, 0x00, 0x1B)] + \
               [bytes([b]) for b in (0x80, 0x9F, 0xA0, 0xAD, 0xE9, 0xFF, 0xC2, 0xC3)] + \
               [b"$", b"#", b"{", b"}", b"_", b"a", b"\\", b"\"", b"x", b"u", b"U", b"0", b"n", b"`", b"'"]
        return b"".join(rng.choice(pool) for _ in range(rng.randint(1, 6)))
    if r < 0.9:
        # random scalar values, biased to non-graphic areas
        out = b""
        for _ in range(rng.randint(1, 4)):
            c = rng.choice([rng.randrange(0x20), rng.randrange(0x7F, 0x100), rng.randrange(0x2000, 0x2070), rng.randrange(0xD7A0, 0xD800),
                            rng.randrange(0xE000, 0xE010), rng.randrange(0xFFF0, 0x10000), rng.randrange(0x10000, 0x110000),
                            rng.randrange(0xE0000, 0xE0100), rng.randrange(0x110000)])
            if strlib.valid_scalar(c):
                out += chr(c).encode()
        return out
    return bytes(rng.randrange(256) for _ in range(rng.randint(1, 5)))


def gen_chr(rng):
    r = rng.random()
    if r < 0.4:
        return rng.choice([0, 7, 8, 9, 10, 11, 12, 13, 0x1B, 0x20, 0x22, 0x24, 0x23, 0x27, 0x5C, 0x60, 0x7E, 0x7F, 0x80, 0x85, 0x9F, 0xA0, 0xAD,
                           0xE9, 0xFF, 0x100, 0x7FF, 0x800, 0xD7FF, 0xE000, 0xFFFD, 0xFFFE, 0xFFFF, 0x10000, 0x10FFFF, 0x200D, 0x2028, 0xFEFF])
    if r < 0.9:
        return go_runes(strlib.gen_piece(rng, "valid") or b"a")[0]
    return rng.choice([0xD800, 0xDFFF, 0x110000, 0x7FFFFFFF, rng.randrange(0x110000)])


def gen_sym(rng):
    r = rng.random()
    if r < 0.3:
        return rng.choice(SYM_SPECIAL).encode()
    if r < 0.4:
        return rng.choice(KEYWORDS).encode()
    if r < 0.75:
        return "".join(rng.choice(IDENT_PIECES) for _ in range(rng.randint(1, 4))).encode()
    return gen_str(rng)


def gen_int(rng):
    r = rng.random()
    if r < 0.5:
        k = rng.choice([0, 1, 7, 8, 15, 16, 31, 32, 52, 53, 62, 63, 64, 65, 127, 128, 200])
        return rng.choice([1, -1]) * (2 ** k + rng.choice([-1, 0, 1]))
    if r < 0.7:
        return rng.randint(-1000, 1000)
    return rng.choice([1, -1]) * rng.getrandbits(rng.choice([10, 40, 64, 70, 130, 300]))


BASES = {2: ("b", "01"), 4: ("q", "0123"), 8: ("o", "01234567"), 10: ("", "0123456789"), 12: ("d", "0123456789abAB"),
         16: ("x", "0123456789abcdefABCDEF")}


def gen_lit(rng):
    base = rng.choice([2, 4, 8, 10, 10, 12, 16, 16])
    letter, digs = BASES[base]
    n = rng.choice([1, 1, 2, 3, 5, 8, 17, 20, 40])
    ds = [rng.choice(digs) for _ in range(n)]
    if base == 10 and rng.random() < 0.7:
        ds[0] = rng.choice("123456789")
    body = ds[0]
    for d in ds[1:]:
        body += ("_" if rng.random() < 0.25 else "") + d
    pre = ""
    if letter:
        pre = "0" + (letter.upper() if rng.random() < 0.3 else letter)
    s = pre + body
    r = rng.random()
    if r < 0.12:     # malformed variants
        s = rng.choice([s + "_", s.replace("_", "__", 1) if "_" in s else s + "__1", pre, pre + "_" + body, s + rng.choice("29gGzZ"),
                        "_" + s, "0" + s, pre + body[:1] + "_" + body[1:] + "_"])
    if rng.random() < 0.35:
        s = "-" + s      # unary minus: folded by compiler/resolve.go (resolveUnaryExpression + resolveInt)
    return s.encode()


def gen_toint(rng):
    r = rng.random()
    base = rng.choice([0, 0, 0, 2, 8, 10, 10, 12, 16, 36, 36, 7, 1, 37, -1, 62])
    if r < 0.7:
        b = base if 2 <= base <= 36 else rng.choice([2, 4, 8, 10, 12, 16])
        alphabet = "0123456789abcdefghijklmnopqrstuvwxyz"[:b]
        n = rng.choice([1, 2, 3, 8, 20, 30])
        body = ""
        for i in range(n):
            ch = rng.choice(alphabet)
            body += ("_" if i and rng.random() < 0.2 else "") + (ch.upper() if rng.random() < 0.3 else ch)
        pre = ""
        if base == 0 and b != 10:
            pre = "0" + {2: "b", 4: "q", 8: "o", 12: "d", 16: "x"}[b]
            if rng.random() < 0.3:
                pre = pre.upper()
        s = rng.choice(["", "", "", "-", "+"]) + pre + body
    elif r < 0.85:
        s = rng.choice(["", "-", "+", "_", "0x", "0b", "0x_", "-0x1", "+-1", "1-", " 1", "1 ", "0b2", "0o8", "0d c", "12abz", "é", "١٢", "0x1g",
                        "1__2", "_1", "1_", "0", "-0", "00", "0_0", "0q3", "0Q3", "0D1b", "z", "Z", "{", "`", "@", "[", "/", ":"])
    else:
        s = gen_str(rng).decode("latin-1")[:6]
    return s.encode("latin-1", "replace") if isinstance(s, str) else s, base


def gen_float(rng):
    kind = rng.choice(["f", "f", "f", "f64", "f32"])
    if kind == "f32":
        r = rng.random()
        if r < 0.4:
            bits = rng.choice([0, 0x80000000, 1, 0x007FFFFF, 0x00800000, 0x7F7FFFFF, 0x7F800000, 0xFF800000, 0x7FC00000, 0x3F800000,
                               0x3DCCCCCD, 0x4B800000, 0x4B000001, 0x501502F9])
        else:
            bits = rng.getrandbits(32)
        return kind, "%08x" % bits
    r = rng.random()
    if r < 0.35:
        bits = rng.choice([0, 1 << 63, 1, 0x000FFFFFFFFFFFFF, 0x0010000000000000, 0x7FEFFFFFFFFFFFFF, 0x7FF0000000000000, 0xFFF0000000000000,
                           0x7FF8000000000000, 0x7FF0000000000001, 0x3FF0000000000000, 0x3FB999999999999A, 0x4330000000000000,
                           0x4340000000000000, 0x433FFFFFFFFFFFFF, 0x3F1A36E2EB1C432D, 0x3F50624DD2F1A9FC, 0x412E848000000000,
                           0x4415AF1D78B58C40, 0x444B1AE4D6E2EF50, 0x7E37E43C8800759C, 0x0000000000000002, 0x3CB0000000000000])
    elif r < 0.6:
        v = rng.choice([rng.randint(-10**6, 10**6) / rng.choice([1, 2, 4, 10, 1000, 3]), float(rng.randint(-2**60, 2**60)),
                        10.0 ** rng.randint(-30, 30), rng.random(), rng.uniform(-1e-5, 1e-5), 1.5 * 2.0 ** rng.randint(-1074, 1023)])
        bits = struct.unpack("<Q", struct.pack("<d", v))[0]
    else:
        bits = rng.getrandbits(64)
    return kind, "%016x" % bits


BATCH = 40


def gen_lines(rng, n):
    """n values, grouped into self-contained batch lines (one Elk program per batch on the implementation
    side); malformed integer literals and String#to_int calls travel alone."""
    items = {"str": [], "chr": [], "sym": [], "int": [], "lit": []}
    single = []
    for _ in range(n):
        r = rng.random()
        if r < 0.30:
            items["str"].append(hx(gen_str(rng)))
        elif r < 0.42:
            items["chr"].append("%d" % gen_chr(rng))
        elif r < 0.67:
            items["sym"].append(hx(gen_sym(rng)))
        elif r < 0.75:
            items["int"].append("%d" % gen_int(rng))
        elif r < 0.88:
            src = gen_lit(rng)
            if CLEAN_LIT.match(src[1:] if src[:1] == b"-" else src):
                items["lit"].append(hx(src))
            else:
                single.append("insp\tlit\t" + hx(src))
        else:
            t, b = gen_toint(rng)
            single.append("insp\ttoint\t%s\t%d" % (hx(t), b))
    lines = []
    for kind, its in items.items():
        for i in range(0, len(its), BATCH):
            lines.append("insp\tbatch\t%s\t%s" % (kind, ",".join(its[i:i + BATCH])))
    rng.shuffle(lines)
    return lines + single


# ---------------------------------------------------------------- oracle (model-free)

CLEAN_LIT = re.compile(rb"^(?:0[xX](?P<x>[0-9a-fA-F]+(?:_[0-9a-fA-F]+)*)|0[dD](?P<d>[0-9abAB]+(?:_[0-9abAB]+)*)|0[oO](?P<o>[0-7]+(?:_[0-7]+)*)"
                       rb"|0[qQ](?P<q>[0-3]+(?:_[0-3]+)*)|0[bB](?P<b>[01]+(?:_[01]+)*)|(?P<t>[0-9]+(?:_[0-9]+)*))$")
LIT_BASE = {"x": 16, "d": 12, "o": 8, "q": 4, "b": 2, "t": 10}
DIGITS36 = "0123456789abcdefghijklmnopqrstuvwxyz"


def positional(digits, base):
    """Σ dᵢ·baseⁱ, written out (not Python's int(s, base))"""
    v = 0
    for ch in digits:
        v = v * base + DIGITS36.index(ch.lower())
    return v


def judge_rt(kind, item, ins, back):
    """round trip of one value: `back` must be the canonical form of the original"""
    if kind == "chr" and not strlib.valid_scalar(int(item)):
        return None      # a Char that is not a Unicode scalar value cannot be written as a literal: no claim
    if back != item:
        shown = unhx(ins).decode("utf-8", "backslashreplace")
        return (f"{kind} {item} inspects to {shown!r} which evaluates to {back} "
                f"(inspect output does not evaluate back to the original value)")
    return None


def judge_lit(src, ans):
    neg = src[:1] == b"-"
    m = CLEAN_LIT.match(src[1:] if neg else src)
    if not m:
        return None      # outside the clean literal grammar: correspondence only
    k = m.lastgroup
    want = positional(m.group(k).replace(b"_", b"").decode(), LIT_BASE[k]) * (-1 if neg else 1)
    if ans != "%d" % want:
        return f"literal {src.decode()!r} evaluates to {ans!r}, its positional value is {want}"
    return None


def oracle(line, ans):
    f = line.split("\t")
    op = f[1]
    if ans.startswith("panic") or ans.startswith("fatal") or "!panic" in ans:
        return f"{op}: the pipeline crashed: {ans[:200]}"
    if op == "batch":
        if not ans.startswith("ok "):
            return f"unexpected answer {ans[:200]!r}"
        kind, items, outs = f[2], f[3].split(","), ans[3:].split(",")
        if len(items) != len(outs):
            return f"batch of {len(items)} answered {len(outs)} results"
        for it, o in zip(items, outs):
            if kind == "lit":
                r = judge_lit(unhx(it), o)
            else:
                ins, back = o.split(":", 1)
                r = judge_rt(kind, it, ins, back)
            if r:
                return r
        return None
    if op in ("str", "sym", "chr", "int"):
        if not ans.startswith("ok "):
            return f"unexpected answer {ans!r}"
        ins, back = ans[3:].split(" ", 1)
        return judge_rt(op, f[2], ins, back)
    if op == "lit":
        return judge_lit(unhx(f[2]), ans[3:] if ans.startswith("ok ") else ans)
    if op == "toint":
        s, base = unhx(f[2]), int(f[3])
        body = s
        neg = False
        if body[:1] in (b"+", b"-"):
            neg = body[:1] == b"-"
            body = body[1:]
        b = base
        if base == 0:
            m = CLEAN_LIT.match(body)
            if not m:
                return None
            k = m.lastgroup
            b = LIT_BASE[k]
            digits = m.group(k)
        else:
            if not 2 <= base <= 36:
                return None if ans.startswith("err") else f"to_int with base {base} answers {ans!r}, expected a format error"
            digits = body
            if not re.match(rb"^[0-9a-zA-Z]+(?:_[0-9a-zA-Z]+)*$", digits):
                return None
        ds = digits.replace(b"_", b"").decode()
        if any(DIGITS36.index(c.lower()) >= b for c in ds):
            return None if ans.startswith("err") else f"to_int({base}) of {s!r} answers {ans!r}; a digit is not below the base"
        want = positional(ds, b) * (-1 if neg else 1)
        if ans != "ok %d" % want:
            return f"{s.decode('latin-1')!r}.to_int({base}) answers {ans!r}, the written value is {want}"
        return None
    if op == "sweep":
        if not ans.startswith("ok "):
            return f"unexpected answer {ans!r}"
        bad = ans.rsplit("bad=", 1)[1]
        if bad != "-":
            return f"sweep {f[2]} [{f[3]},{f[4]}): inspect output of {bad} does not evaluate back to it"
        return None
    return None


def float_one(kind, bits_hex, ins, back):
    bits = int(bits_hex, 16)
    text = unhx(ins).decode("latin-1")
    if back.startswith("!"):
        return f"{kind} {bits_hex} inspects to {text!r} which does not evaluate ({back})"
    back = int(back, 16)
    if kind == "f32":
        v = struct.unpack("<f", struct.pack("<I", bits))[0]
        w = struct.unpack("<f", struct.pack("<I", back))[0]
    else:
        v = struct.unpack("<d", struct.pack("<Q", bits))[0]
        w = struct.unpack("<d", struct.pack("<Q", back))[0]
    if math.isnan(v):
        return None if math.isnan(w) else f"NaN inspects to {text!r} which evaluates to {w!r}"
    if back != bits:
        return f"{kind} {bits_hex} ({v!r}) inspects to {text!r} which evaluates to bits {back:x} ({w!r})"
    # the text itself must denote the value (independent check with Python's float parser)
    num = re.match(r"^-?[0-9.]+(?:e[+-]?[0-9]+)?", text)
    if num and not text.startswith("Std::"):
        p = float(num.group(0))
        if kind == "f32":
            p = struct.unpack("<f", struct.pack("<f", p))[0]
        if p != v or math.copysign(1, p) != math.copysign(1, v):
            return f"{kind} {bits_hex} ({v!r}) inspects to {text!r} which denotes {p!r}"
    return None


def float_oracle(line, ans):
    f = line.split("\t")
    if not ans.startswith("ok "):
        return f"unexpected answer {ans[:200]!r}"
    if f[1] == "batch":
        items, outs = f[3].split(","), ans[3:].split(",")
        if len(items) != len(outs):
            return f"batch of {len(items)} answered {len(outs)} results"
        for it, o in zip(items, outs):
            ins, back = o.split(":", 1)
            r = float_one(f[2], it, ins, back)
            if r:
                return r
        return None
    ins, back = ans[3:].split(" ", 1)
    return float_one(f[1], f[2], ins, back)


FIX = {"i8": (-2**7, 2**7 - 1), "i16": (-2**15, 2**15 - 1), "i32": (-2**31, 2**31 - 1), "i64": (-2**63, 2**63 - 1),
       "u8": (0, 2**8 - 1), "u16": (0, 2**16 - 1), "u32": (0, 2**32 - 1), "u64": (0, 2**64 - 1), "uint": (0, 2**64 - 1)}
SUFFIX = {"i8": "i8", "i16": "i16", "i32": "i32", "i64": "i64", "u8": "u8", "u16": "u16", "u32": "u32", "u64": "u64", "uint": "u"}


def gen_fix(rng):
    k = rng.choice(list(FIX))
    lo, hi = FIX[k]
    v = rng.choice([lo, lo + 1, hi, hi - 1, 0, 1, -1 if lo < 0 else 2, rng.randint(lo, hi), rng.randint(max(lo, -300), min(hi, 300))])
    return "inspx\tfix\t%s\t%d" % (k, v)


def gen_litx(rng):
    """an integer literal with a size suffix, around the limits of the suffix"""
    k = rng.choice(list(FIX))
    lo, hi = FIX[k]
    v = rng.choice([hi, hi + 1, hi - 1, 0, 1, -lo, -lo + 1, rng.randint(0, hi), 2 * hi + 1, 2 * hi + 2, 2**64, 2**64 - 1, 2**63])
    base = rng.choice([10, 10, 16, 2, 8, 12, 4])
    letter = BASES[base][0]
    digs = ""
    n = v
    while True:
        digs = DIGITS36[n % base] + digs
        n //= base
        if n == 0:
            break
    if len(digs) > 3 and rng.random() < 0.3:
        i = rng.randint(1, len(digs) - 1)
        digs = digs[:i] + "_" + digs[i:]
    if base == 16 and rng.random() < 0.3:
        digs = digs.upper()
    src = ("0" + letter if letter else "") + digs + SUFFIX[k]
    if k.startswith("i") and rng.random() < 0.35:
        src = "-" + src
    if base == 16 and k in ("u8", "u16", "u32", "u64", "uint") and digs.lower().endswith(("e", "f", "b")):
        pass
    return "inspx\tlitx\t" + hx(src.encode())


def gen_elem(rng):
    r = rng.random()
    if r < 0.25:
        return "s:" + hx(gen_str(rng))
    if r < 0.35:
        while True:
            c = gen_chr(rng)
            if strlib.valid_scalar(c):
                return "c:%d" % c
    if r < 0.5:
        return "y:" + hx(gen_sym(rng))
    if r < 0.65:
        return "i:%d" % gen_int(rng)
    if r < 0.75:
        while True:
            k, b = gen_float(rng)
            if k == "f":
                v = struct.unpack("<d", struct.pack("<Q", int(b, 16)))[0]
                if not math.isnan(v):
                    return "f:" + b
    if r < 0.85:
        return rng.choice(["n", "t", "b"])
    while True:
        ln = gen_fix(rng).split("\t")
        if int(ln[3]) != FIX[ln[2]][0] or ln[2].startswith("u"):
            return "%s:%s" % (ln[2], ln[3])


def gen_coll(rng):
    n = rng.choice([0, 1, 2, 3, 4, 6])
    els = [gen_elem(rng) for _ in range(n)]
    return "inspx\tcoll\t%s\t%s" % (rng.choice(["list", "tuple"]), ";".join(els) if els else "-")


LITX = re.compile(rb"^(?:0[xX](?P<x>[0-9a-fA-F]+(?:_[0-9a-fA-F]+)*?)|0[dD](?P<d>[0-9abAB]+(?:_[0-9abAB]+)*?)|0[oO](?P<o>[0-7]+(?:_[0-7]+)*)"
                  rb"|0[qQ](?P<q>[0-3]+(?:_[0-3]+)*)|0[bB](?P<b>[01]+(?:_[01]+)*)|(?P<t>[0-9]+(?:_[0-9]+)*))(?P<suf>i8|i16|i32|i64|u8|u16|u32|u64|u)$")


def aux_oracle(line, ans):
    f = line.split("\t")
    op = f[1]
    if ans.startswith("panic") or ans.startswith("fatal"):
        return f"{op}: the pipeline crashed: {ans[:200]}"
    if op == "fix":
        want = "%s:%s" % (f[2], f[3])
        ins, back = ans[3:].split(" ", 1)
        if back != want:
            return (f"{f[2]} {f[3]} inspects to {unhx(ins).decode()!r} which evaluates to {back} "
                    f"(inspect output does not evaluate back to the original value)")
        return None
    if op == "litx":
        src = unhx(f[2])
        neg = src[:1] == b"-"
        m = LITX.match(src[1:] if neg else src)
        if not m:
            return None
        k = [g for g in ("x", "d", "o", "q", "b", "t") if m.group(g) is not None][0]
        kind = {v: kk for kk, v in SUFFIX.items()}[m.group("suf").decode()]
        val = positional(m.group(k).replace(b"_", b"").decode(), LIT_BASE[k])
        lo, hi = FIX[kind]
        if val > hi:
            return None if ans == "err" else f"literal {src.decode()!r} is out of range for {kind} but evaluates to {ans!r}"
        if neg:
            val = -val
        if ans != "ok %s:%d" % (kind, val):
            return f"literal {src.decode()!r} evaluates to {ans!r}, its positional value is {kind}:{val}"
        return None
    if op == "coll":
        ins, back = ans[3:].split(" ", 1)
        want = "%s %s" % (f[2], f[3])
        if back != want:
            # NaN payloads / float zero signs are compared exactly; nothing else is normalised
            return (f"{f[2]} [{f[3]}] inspects to {unhx(ins).decode('utf-8', 'backslashreplace')!r} which evaluates to "
                    f"{back} (inspect output does not evaluate back to an equal collection)")
        return None
    return None


def classify(line, a, b, pf):
    f = line.split("\t")
    op = f[1] + (":" + f[2] if f[1] in ("sweep", "batch") else "")
    return (op, "model!=impl" if a != b else "model=impl", "property" if pf else "no-property-failure")


def minimise(line, still):
    f = line.split("\t")
    op = f[1]
    if op == "batch":
        items = f[3].split(",")
        if len(items) > 1:
            items = vlib.ddmin(items, lambda sub: still("\t".join(f[:3] + [",".join(sub)])))
        line = "\t".join(f[:3] + [",".join(items)])
        if len(items) == 1:
            single = "\t".join(["insp", f[2], items[0]])
            if still(single):
                return minimise(single, still)
        return line
    if op in ("str", "sym", "lit", "toint"):
        bs = list(unhx(f[2]))
        rest = f[3:]
        mk = lambda sub: "\t".join(["insp", op, hx(bytes(sub))] + rest)
        if len(bs) > 1:
            bs = vlib.ddmin(bs, lambda sub: still(mk(sub)))
        return mk(bs)
    if op == "sweep":
        lo, hi = int(f[3]), int(f[4])
        while hi - lo > 1:
            mid = (lo + hi) // 2
            if still("\t".join(f[:3] + [str(lo), str(mid)])):
                hi = mid
            elif still("\t".join(f[:3] + [str(mid), str(hi)])):
                lo = mid
            else:
                break
        return "\t".join(f[:3] + [str(lo), str(hi)])
    return line


def is_float_line(l):
    f = l.split("\t")
    return f[1] in ("f", "f64", "f32") or (f[1] == "batch" and f[2] in ("f", "f64", "f32"))


def regen_tables(ctx):
    """probe the Go unicode tables → lean/ElkVerif/Gen/Unicode.lean (rewritten only when different)"""
    import importlib.util
    spec = importlib.util.spec_from_file_location("gen_unicode", os.path.join(vlib.ROOT, "tools", "gen_unicode.py"))
    mod = importlib.util.module_from_spec(spec)
    spec.loader.exec_module(mod)
    p = subprocess.run([vlib.ELKH, "probe", "unicode"], stdout=subprocess.PIPE, stderr=subprocess.PIPE, env=vlib.go_env(), timeout=120)
    if p.returncode != 0:
        ctx.obligation("probe unicode", False, "probe", p.stderr.decode()[-300:])
        return
    d = json.loads(p.stdout)
    changed = vlib.write_if_changed(os.path.join(vlib.LEAN, "ElkVerif", "Gen", "Unicode.lean"), mod.render(d))
    ctx.extra["unicode_version"] = d["version"]
    ctx.stat("probe:unicode-table-regenerated", 1 if changed else 0)


def sweep_lines(ctx):
    rng = ctx.rng
    lines = ["insp\tsweep\tbyte\t0\t256", "insp\tsweep\tsymbyte\t0\t256"]
    if ctx.quick:
        for kind in ("str", "chr", "sym"):
            lines.append("insp\tsweep\t%s\t0\t1024" % kind)
            for _ in range(3):
                lo = rng.choice([rng.randrange(0, 0x3000), rng.randrange(0, 0x110000 - 2048), rng.randrange(0xD000, 0x10000), rng.randrange(0xE0000, 0xE1000)])
                lines.append("insp\tsweep\t%s\t%d\t%d" % (kind, lo, min(0x110000, lo + 2048)))
        lo = rng.randrange(0, 65536 - 4096)
        lines.append("insp\tsweep\tbyte\t%d\t%d" % (lo + 256, lo + 256 + 4096))
    else:
        step = 8192
        for kind in ("str", "chr", "sym"):
            for lo in range(0, 0x110000, step):
                lines.append("insp\tsweep\t%s\t%d\t%d" % (kind, lo, lo + step))
        for kind in ("byte", "symbyte"):
            for lo in range(256, 65536, step):
                lines.append("insp\tsweep\t%s\t%d\t%d" % (kind, lo, lo + step))
    return lines


def aux_stream(ctx, only=None):
    """implementation-only round trips (no Lean model): fixed-width integers, suffixed literals, flat collections"""
    rng = ctx.rng
    if only is not None:
        lines = only
    else:
        lines = [l for l in vlib.corpus_lines("C19") if l.startswith("inspx\t")]
        n = ctx.n(200, 4000)
        lines += [gen_fix(rng) for _ in range(n)] + [gen_litx(rng) for _ in range(n)] + [gen_coll(rng) for _ in range(n)]
    ans = vlib.run_impl(lines)
    bad = 0
    seen = {}
    for ln, a in zip(lines, ans):
        op = ln.split("\t")[1]
        ctx.case(ln, sample=None)
        ctx.stat("op:aux:" + op)
        pf = aux_oracle(ln, a)
        if pf:
            seen[op] = seen.get(op, 0) + 1
            if seen[op] <= 4:
                if ctx.violation("property-fails", {"line": ln}, pf):
                    bad += 1
    ctx.obligation(f"fixed-width integer / suffixed literal / collection round trips on {len(lines)} generated inputs "
                   f"(implementation only)", bad == 0, "correspondence")


def run(ctx):
    ctx.rule = ("values: byte strings (ASCII, 2-4-byte, combining, emoji, non-graphic U+0080..U+00FF, invalid bytes, escape and "
                "interpolation starters), chars (all classes incl. non-scalar), symbol names (identifiers, keywords, `_` prefixes, "
                "operators, quoted), integers around 2^k, integer literals in bases 2/4/8/10/12/16 with `_`, String#to_int inputs, "
                "floats by bit pattern (±0, subnormals, extremes, NaN, ±inf); sweeps over code-point windows (all code points and "
                "all 1-/2-byte strings in the thorough tier); distinct = distinct input line")
    ctx.assumptions += [
        "unicode.IsGraphic/IsLetter/IsDigit/IsNumber/IsUpper/IsLower are the probed range tables (Gen/Unicode.lean); the string and "
        "char theorems hold for every classification, the symbol theorem needs the stated inclusions between the classes",
        "floats: strconv's shortest formatting/parsing round-trip (not modelled in Lean; tested on generated bit patterns)",
    ]
    regen_tables(ctx)
    ctx.prove("ElkVerif.Props.C19")
    if ctx.replay:
        rp = json.load(open(ctx.replay))["input"]
        lines = [rp["line"]]
        if lines[0].startswith("inspx\t"):
            aux_stream(ctx, only=lines)
            return
        if is_float_line(lines[0]):
            a = vlib.run_impl(lines)[0]
            pf = float_oracle(lines[0], a)
            if pf:
                ctx.violation("property-fails", {"line": lines[0]}, pf)
            return
    else:
        n = ctx.n(6000, 400000)
        lines = [l for l in vlib.corpus_lines("C19") if not is_float_line(l) and not l.startswith("inspx\t")] + \
            gen_lines(ctx.rng, n) + sweep_lines(ctx)
    for ln in lines:
        f = ln.split("\t")
        k = f[1] + (":" + f[2] if f[1] in ("sweep", "batch") else "")
        ctx.stat("op:" + k, len(f[3].split(",")) if f[1] == "batch" else 1)
    strlib.correspond2(ctx, lines, oracle=oracle, minimise=minimise, classify=classify,
                       label="inspect writers and lexer readers (String/Char/Symbol/Int)", timeout=3000)
    if not ctx.replay:
        # floats: implementation only (no Lean model of strconv); judged by the oracle
        fl = [l for l in vlib.corpus_lines("C19") if is_float_line(l) and not l.startswith("inspx\t")]
        by = {"f": [], "f64": [], "f32": []}
        for _ in range(ctx.n(3000, 200000)):
            k, b = gen_float(ctx.rng)
            by[k].append(b)
        for k, bs in by.items():
            for i in range(0, len(bs), BATCH):
                fl.append("insp\tbatch\t%s\t%s" % (k, ",".join(bs[i:i + BATCH])))
        ans = vlib.run_impl(fl)
        bad = 0
        for ln, a in zip(fl, ans):
            ctx.case(ln, sample=None)
            f = ln.split("\t")
            ctx.stat("op:float:" + (f[2] if f[1] == "batch" else f[1]), len(f[3].split(",")) if f[1] == "batch" else 1)
            pf = float_oracle(ln, a)
            if pf:
                bad += 1
                if bad <= 3:
                    # shrink a batch to the first failing bit pattern
                    if f[1] == "batch":
                        for it in f[3].split(","):
                            l1 = "insp\t%s\t%s" % (f[2], it)
                            p1 = float_oracle(l1, vlib.run_impl([l1])[0])
                            if p1:
                                ln, pf = l1, p1
                                break
                    ctx.violation("property-fails", {"line": ln}, pf)
        ctx.obligation(f"float inspect round-trip on {len(fl)} generated batches of bit patterns (implementation, strconv assumed)",
                       bad == 0, "correspondence")
        aux_stream(ctx)
