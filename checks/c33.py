"""C33 — Cancellation stops any running program."""
import json
import re

import vlib
from checks import _bc, _bcgen

META = {
    "property_id": "C33",
    "technique": "certified per-instance checking of abort-check placement: control-flow graph (all steps of the C29 abstract "
                 "machine + tail-call edges) of bytecode compiled with AdditionalAbortChecks, ranking certificate found by an "
                 "untrusted DFS and checked by a Lean validRank with kernel-checked theorem rank_valid_bounds / "
                 "check_free_run_bounded; dynamic leg: every generated non-terminating shape is run with an aborter, cancelled "
                 "after a seeded delay and must end in Std::ExecutionAbortedError within 1 s",
    "level_text": "Kernel-checked: rank_valid_bounds (valid ranking => every path that passes no CHECK_ABORT/SELECT node has at "
                  "most rank+1 nodes), check_free_run_bounded (the same for runs of the C29 abstract machine of a verified "
                  "function), no_rank_for_check_free_cycle. Per instance: a ranking is computed and checked for every program "
                  "of the corpus and every generated shape compiled as the REPL compiles. Partial: wall-clock promptness, "
                  "blocking natives (channel ops, await, sleep) and non-tail calls are covered only by the dynamic leg.",
    "level_note": "Trusted: Lean kernel; C29's decoder/abstract machine (hand-written semantic table); the harness. Functions "
                  "the C29 verifier rejects (its known findings) have no certificate and are not covered by the ranking. "
                  "Tail calls through CALL_METHOD_TCO are resolved by method name inside the program only.",
    "design_ref": "DESIGN.md §7 C33",
}

QUICK_SHAPES, THOROUGH_SHAPES = 60, 600
QUICK_CORPUS, THOROUGH_CORPUS = 120, 3000
QUICK_GEN, THOROUGH_GEN = 80, 1500


# ---------------------------------------------------------------- non-terminating shapes

def shapes(rng, n):
    """(label, source) programs that never terminate on their own; each wrapped in its own module"""
    out = []
    for i in range(n):
        out.append(shape(rng, i))
    return out


# (name, head, tail, syntactically infinite: code after it is unreachable for the checker)
LOOP_HEADS = [
    ("loop", "loop", "end", True),
    ("while", "while i >= 0", "end", False),
    ("until", "until i < 0", "end", False),
    ("dowhile", "do", "end while i >= 0", False),
    ("fornum", "fornum ;;", "end", True),
    ("fornum-cond", "fornum var k: Int = 0; k >= 0; k += 1", "end", False),
    ("forin-endless", "for k in 1...", "end", False),
    ("forin-big", "for k in 1...1000000000000", "end", False),
    ("forin-int", "for k in 1000000000000", "end", False),
    ("forin-gen", "for k in S%d.gen()", "end", False),
]


def body_variants(rng, inner_label=""):
    """statement lists for a loop body with `continue` at different positions"""
    cont = "continue" + inner_label
    v = rng.randrange(9)
    if v == 0:
        return "plain", ["i += 1"]
    if v == 1:
        return "continue-first", [cont + " if i >= 0", "i += 1"]
    if v == 2:
        return "continue-last", ["i += 1", "if i > 0", "  " + cont, "end"]
    if v == 3:
        return "continue-if", ["i += 1", "if i > 0", "  " + cont, "end", "i += 1"]
    if v == 4:
        return "continue-mod", ["i += 1", cont + " if i > 0", "i -= 1"]
    if v == 5:
        return "continue-in-catch", ["do", "  S%d.thrower(i)", "catch Error() as e", "  " + cont + " if i >= 0", "end", "i += 1"]
    if v == 6:
        return "continue-in-do-finally", ["do", "  i += 1", "  " + cont + " if i > 0", "finally", "  i += 0", "end"]
    if v == 7:
        return "loop-in-finally", ["do", "  i += 1", "finally", "  while i >= 0", "    i += 1", "  end", "end"]
    return "continue-value", ["i += 1", cont + " if i > 0"]


def shape(rng, i):
    kind = rng.choice(["loop", "loop", "loop", "nested", "tail", "mutual", "chan", "select", "await", "genloop", "closure-loop", "sleep"])
    mod = "S%d" % i
    pre = ["module " + mod,
           "  def thrower(a: Int): Int ! Error",
           "    throw Error(\"t\") if a > 3",
           "    a",
           "  end",
           "  def *gen: Int",
           "    var n: Int = 0",
           "    loop",
           "      yield n",
           "      n += 1",     # `yield` as the last statement of a loop body hits C29-generator-void-end (see shape genloop:yield-last)
           "    end",
           "  end"]
    label = kind
    if kind in ("loop", "nested", "closure-loop"):
        hname, head, tail, infinite = rng.choice(LOOP_HEADS)
        head = head.replace("%d", str(i))
        bl, body = body_variants(rng)
        body = [b.replace("%d", str(i)) for b in body]
        label = "%s:%s:%s" % (kind, hname, bl)
        if kind == "nested":
            h2name, head2, tail2, _inf2 = rng.choice(LOOP_HEADS[1:4])
            lab = rng.random() < 0.6
            bl2, body2 = body_variants(rng, "[outer]" if lab else "")
            body2 = [b.replace("%d", str(i)) for b in body2]
            label += "/%s:%s%s" % (h2name, bl2, ":labeled" if lab else "")
            inner = [head2] + ["  " + b for b in body2] + [tail2]
            loop = ["$outer: " + head] + ["  " + b for b in (["i += 1"] + inner)] + [tail]
        else:
            loop = [head] + ["  " + b for b in body] + [tail]
        last = [] if infinite else ["i"]
        if kind == "closure-loop":
            fn = ["  def spin: Int ! Error", "    var i: Int = 0", "    f := ||: Int ! Error ->"] + ["      " + l for l in loop] + \
                 ["      " + l for l in last] + ["    end", "    f()", "  end"]
        else:
            fn = ["  def spin: Int ! Error", "    var i: Int = 0"] + ["    " + l for l in loop] + ["    " + l for l in last] + ["  end"]
        src = pre + fn + ["end", "do", "  " + mod + ".spin", "catch Error() as e", "  println(\"err\")", "end"]
    elif kind == "tail":
        v = rng.randrange(3)
        if v == 0:
            fn = ["  def spin(n: Int): Int then spin(n + 1)"]
            label += ":then"
        elif v == 1:
            fn = ["  def spin(n: Int): Int", "    return spin(n + 1)", "  end"]
            label += ":return"
        else:
            fn = ["  def spin(n: Int): Int", "    m := n + 1", "    spin(m)", "  end"]
            label += ":implicit"
        src = pre + fn + ["end", mod + ".spin(0)"]
    elif kind == "mutual":
        fn = ["  def spin(n: Int): Int", "    return pong(n + 1) if n >= 0", "    0", "  end",
              "  def pong(n: Int): Int", "    spin(n + 1)", "  end"]
        src = pre + fn + ["end", mod + ".spin(0)"]
    elif kind == "chan":
        v = rng.randrange(3)
        if v == 0:
            body, label = ["c := Channel::[Int]()", "x := <<c"], "chan:pop-unbuffered"
        elif v == 1:
            body, label = ["c := Channel::[Int](1)", "c << 1", "c << 2"], "chan:push-full"
        else:
            body, label = ["c := Channel::[Int](1)", "loop", "  x := <<c", "end"], "chan:pop-loop"
        src = pre + ["  def spin: Int"] + ["    " + b for b in body] + ["    0", "  end", "end", mod + ".spin"]
    elif kind == "select":
        body = ["c1 := Channel::[Int]()", "c2 := Channel::[Int]()", "r := 0",
                "loop" if rng.random() < 0.5 else "do",
                "  select", "  case v := <<c1", "    r = 1", "  case c2 << 1", "    r = 2", "  end",
                "end"]
        src = pre + ["  def spin: Int"] + ["    " + b for b in body] + ["    r", "  end", "end", mod + ".spin"]
    elif kind == "await":
        fn = ["  async def hangs: Int", "    c := Channel::[Int]()", "    <<c", "    1", "  end",
              "  async def spin: Int", "    await hangs()", "  end"]
        src = pre + fn + ["end", "await " + mod + ".spin()"] if rng.random() < 0.5 else \
            pre + fn + ["end", "p := " + mod + ".spin()", "loop", "  sleep(1.millisecond)", "end"]
        label = "await"
    elif kind == "sleep":
        if rng.random() < 0.5:
            body, label = ["loop", "  sleep(1.millisecond)", "end"], "sleep:loop"
        else:
            body, label = ["sleep(30.seconds)"], "sleep:long"
        src = pre + ["  def spin: Int"] + ["    " + b for b in body] + ([] if label == "sleep:loop" else ["    0"]) + ["  end", "end", mod + ".spin"]
    else:  # genloop
        if rng.random() < 0.3:
            label = "genloop:yield-last"
            pre = pre[:5] + ["  def *gen: Int", "    loop", "      yield 1", "    end", "  end"]
        fn = ["  def spin: Int", "    var t: Int = 0", "    for x in " + mod + ".gen()", "      t += x",
              "      continue if t > 5" if rng.random() < 0.5 else "      t -= 1", "    end", "    t", "  end"]
        src = pre + fn + ["end", mod + ".spin"]
    return label, "\n".join(src) + "\n"


# ---------------------------------------------------------------- static leg

def abort_line(funcs):
    return "bc\tabort\t" + "|".join(_bc.func_token(f) for f in funcs)


def parse_abort(ans):
    m = re.match(r"ok (ranked|cycle|rejected)(.*) unverified=(\S+)$", ans)
    if not m:
        return {"kind": "bad", "raw": ans}
    un = [] if m.group(3) == "-" else [int(x) for x in m.group(3).split(",")]
    d = {"kind": m.group(1), "unverified": un}
    if m.group(1) == "ranked":
        d.update({k: int(v) for k, v in re.findall(r"(\w+)=(\d+)", m.group(2))})
    elif m.group(1) == "cycle":
        d["cycle"] = [tuple(int(x) for x in n.split(":")) for n in m.group(2).strip().split(">")]
    return d


def py_check_free_cycle(tbl, f):
    """model-free second opinion: a cycle of the function's static jump graph (fallthrough, jump targets,
    handler entries) that passes no CHECK_ABORT / SELECT instruction. Returns a pc on it or None."""
    from checks import c29
    code = bytes.fromhex(f["code"])
    n = len(code)
    nodes, pc = {}, 0
    try:
        while pc < n:
            w, _ = tbl.width(code, pc)
            nodes[pc] = w
            pc += w
    except ValueError:
        return None
    adj = {}
    for pc, w in nodes.items():
        nm = tbl.name(code[pc])
        if nm in ("CHECK_ABORT", "SELECT"):
            adj[pc] = []
            continue
        opnd = int.from_bytes(code[pc + 1:pc + w], "big") if w == 3 else 0
        nxt = pc + w
        succ = []
        if nm == "LOOP":
            succ.append(nxt - opnd)
        elif nm == "JUMP":
            succ.append(nxt + opnd)
        elif c29.JUMP_FWD.match(nm) and nm != "JUMP_TO_FINALLY":
            succ += [nxt, nxt + opnd]
        elif not c29.TERMINATOR.match(nm) or nm.startswith("CALL_METHOD"):
            succ.append(nxt)
        for fr, to, jmp, fin in f["catches"]:
            if not fin and fr <= pc < to:
                succ.append(jmp)
        adj[pc] = [s for s in succ if s in nodes]
    color = {}
    for root in nodes:
        if root in color:
            continue
        stack = [(root, iter(adj[root]))]
        color[root] = 1
        while stack:
            u, it = stack[-1]
            v = next(it, None)
            if v is None:
                color[u] = 2
                stack.pop()
            elif color.get(v) == 1:
                return v
            elif v not in color:
                color[v] = 1
                stack.append((v, iter(adj[v])))
    return None


# ---------------------------------------------------------------- dynamic leg

def run_abort(reqs, timeout=1200):
    env = vlib.go_env()
    env.setdefault("GOMEMLIMIT", "6GiB")
    cmd = [vlib.ELKH, "abortrun"]
    lines = [json.dumps(r) for r in reqs]
    answers = []
    rest = lines
    guard = 0
    while rest:
        out, died, err = vlib._run_lines(cmd, rest, timeout, env)
        answers += out[:len(rest)]
        k = len(out)
        if k >= len(rest):
            break
        if out and '"outcome":"hang"' in out[-1]:
            rest = rest[k:]       # the worker exits after a hang (a goroutine is still spinning)
            continue
        rid = json.loads(rest[k]).get("id")
        answers.append(json.dumps({"id": rid, "outcome": "fatal", "panic": vlib.classify_fatal(err), "stop_ms": -1}))
        rest = rest[k + 1:]
        guard += 1
        if guard > 300:
            raise RuntimeError("abortrun worker keeps dying")
    return [json.loads(a) for a in answers]


def shape_class(label):
    """coarse class of a shape label for the findings list: loop kind is irrelevant, the jump position is not"""
    m = re.search(r"(continue-[a-z-]+|loop-in-finally|plain|pop-[a-z]+|push-full|long|yield-last)", label)
    base = label.split(":")[0]
    return base + (":" + m.group(1) if m else "") + (":labeled" if "labeled" in label else "")


def run(ctx):
    from checks import c29
    ctx.rule = ("generated non-terminating shapes (every loop kind x continue at every position x nesting/labels, loops in "
                "finally, tail and mutual tail recursion, generator loops, blocking channel / select / await shapes), the "
                "repo's Elk sources, harvested Go-test snippets and generated terminating programs, all compiled with "
                "AdditionalAbortChecks; static: ranking certificate per program; dynamic: cancel after a seeded delay in "
                "[0,50] ms, require ExecutionAbortedError within 1 s. distinct = distinct program text")
    probe, _ = _bc.regen_opcodes(ctx)
    tbl = c29.Table(probe)
    ctx.prove("ElkVerif.Props.C33")

    if ctx.replay:
        rj = json.load(open(ctx.replay))
        rp = rj["input"]
        if rj.get("kind") in ("check-free-cycle", "model-impl-disagree"):
            shp, corpus = [], [("session:replay" if rp.get("session") else "replay", rp["program"], rp.get("name"))]   # a static finding on an ordinary program
        else:
            shp, corpus = [("replay:" + rp.get("shape", ""), rp["program"])], []
        delays = [rp.get("delay_ms", 20)]
    else:
        shp = shapes(ctx.rng, ctx.n(QUICK_SHAPES, THOROUGH_SHAPES))
        for l in vlib.corpus_lines("C33"):
            if l.startswith("{"):
                d = json.loads(l)
                shp.insert(0, ("corpus:" + d.get("id", "?"), d["src"]))
        delays = [ctx.rng.choice([0, 1, 5, 20, 50]) for _ in shp]
        corpus = []
        for rel, src in _bc.repo_sources():
            if rel.endswith(".elk.test") and rel != "main.elk.test":
                continue
            corpus.append(("repo:" + rel, src, vlib.os.path.join(vlib.REPO, rel)))
        sn = _bc.harvested_snippets()
        k = ctx.n(QUICK_CORPUS, THOROUGH_CORPUS)
        corpus += [("go-test:" + n, s, None) for n, s in (ctx.rng.sample(sn, k) if k < len(sn) else sn)]
        for i in range(ctx.n(QUICK_GEN, THOROUGH_GEN)):
            label, src = _bcgen.gen_program(ctx.rng, 100000 + i)
            corpus.append(("gen:" + label, src, None))

    # the same shapes compiled as a LATER input of an incremental session (what the REPL does for every input but the
    # first: another top-level compiler with fresh global data); every check-free cycle there is reported
    if not ctx.replay:
        corpus += [("session:" + lab, src, None) for lab, src in shp]
    # ---- static leg
    reqs = [{"id": "s%d" % i, "src": src, "abort": True} for i, (lab, src) in enumerate(shp)]
    reqs += [{"id": "c%d" % i, "src": src, "abort": True, "session": lab.startswith("session:"), **({"name": nm} if nm else {})}
             for i, (lab, src, nm) in enumerate(corpus)]
    dumps = _bc.dump_programs(reqs)
    lines, meta = [], []
    all_progs = [(lab, src, None, True) for lab, src in shp] + [(lab, src, nm, False) for lab, src, nm in corpus]
    for (lab, src, nm, is_shape), a in zip(all_progs, dumps):
        ctx.stat("compile:" + a["outcome"] + (":shape" if is_shape else ""))
        if a["outcome"] != "ok":
            if is_shape:
                ctx.stat("shape-rejected:" + shape_class(lab))
                ctx.extra.setdefault("rejected_shape_diags", []).append((lab, (a.get("diags") or a.get("panic") or "")))
            continue
        lines.append(abort_line(a["funcs"]))
        meta.append((lab, src, nm, is_shape, a))
    out = vlib.run_model(lines, timeout=3000) if lines else []
    static_cycle = {}
    reported = set()
    for (lab, src, nm, is_shape, a), ans in zip(meta, out):
        r = parse_abort(ans)
        ctx.case(src, sample={"program": lab, "static": ans[:160]})
        ctx.stat("static:" + r["kind"])
        ctx.stat("static:unverified-functions", len([k for k in r.get("unverified", []) if not a["funcs"][k]["lib"]]))
        if r["kind"] == "cycle":
            k, pc = r["cycle"][0]
            f = a["funcs"][k]
            if f["lib"] and not lab.startswith("repo:"):
                continue
            pycyc = py_check_free_cycle(tbl, f) if len(set(x[0] for x in r["cycle"])) == 1 else "tail-call"
            code = bytes.fromhex(f["code"])
            ops = ">".join(sorted(set(tbl.name(code[p]) for kk, p in r["cycle"] if kk == k and p < len(code) and
                                      tbl.name(code[p]) in ("LOOP", "JUMP", "JUMP_TO_FINALLY", "CALL_METHOD_TCO8", "CALL_METHOD_BC8", "YIELD"))))
            sig = "cycle|" + ops
            static_cycle[src] = (sig, r["cycle"], pycyc)
            if not is_shape:
                key = (sig, shape_class(lab) if is_shape else lab.split(":")[0])
                if key in reported:
                    continue
                reported.add(key)
                if pycyc is None:
                    ctx.violation("model-impl-disagree", {"program": src, "correspondence": "ranking vs python static cycle search", "sig": sig},
                                  "lean reports the check-free cycle %s in %s, the python jump graph has none" % (r["cycle"][:6], f["name"]), no_input=True)
                else:
                    ctx.violation("check-free-cycle", {"program": src, "sig": sig, **({"session": True} if lab.startswith("session:") else {}),
                                                       **({"name": nm, "context": c29.source_excerpt(f)} if nm else {})},
                                  "function %s of %s has a cycle that executes no CHECK_ABORT/SELECT: %s"
                                  % (f["name"], lab, ">".join("%d:%d" % x for x in r["cycle"][:10])))
        elif r["kind"] in ("rejected", "bad"):
            ctx.violation("model-impl-disagree", {"program": src, "correspondence": "ranking search vs validRank"}, ans[:200], no_input=True)

    # ---- dynamic leg on the shapes
    dyn_reqs, dyn_meta = [], []
    for (lab, src, nm, is_shape, a), d in zip([m for m in meta if m[3]], delays * 1000):
        dyn_reqs.append({"id": "d%d" % len(dyn_reqs), "src": src, "delay_ms": d, "grace_ms": 1000})
        dyn_meta.append((lab, src, d))
    answers = run_abort(dyn_reqs) if dyn_reqs else []
    seen_cls = set()
    for (lab, src, d), a in zip(dyn_meta, answers):
        oc = a.get("outcome")
        ctx.stat("dynamic:" + str(oc))
        ctx.stat("dynamic:%s:%s" % (oc, shape_class(lab)))
        st = static_cycle.get(src)
        if oc == "aborted":
            ctx.stat("dynamic:stop_ms<=10" if a.get("stop_ms", 0) <= 10 else "dynamic:stop_ms>10")
            if st is not None and st[2] is not None:
                ctx.stat("static-cycle-but-aborted")   # the cycle is not the one the program spins in
            continue
        if oc in ("finished", "error", "rejected"):
            ctx.stat("shape-terminated:" + shape_class(lab))   # generator produced a terminating program: not a test of C33
            continue
        cls = shape_class(lab)
        if cls in seen_cls:
            continue
        seen_cls.add(cls)
        sig = st[0] if st else "no-static-cycle"
        ctx.violation("not-cancellable" if oc == "hang" else "cancel-crash",
                      {"program": src, "delay_ms": d, "shape": cls, "sig": sig},
                      "shape %s: cancelled after %d ms, outcome %s within 1 s (%s); static: %s"
                      % (lab, d, oc, a.get("panic") or a.get("err_class") or "", sig))
