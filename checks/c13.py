"""C13 — Closures capture variables, not values."""
import importlib
import json
import os
import vlib
from checks import mini_gen, mini_common

META = {
    "property_id": "C13",
    "technique": "Lean 4 refinement proof (VM upvalue machine -> heap cells) + MiniElk reference semantics with cell-capturing closures, tied by machine-level and program-level differential execution",
    "level_text": "Partial. Machine level: the open/closed upvalue bookkeeping of the VM (capture = find-or-insert in the "
                  "sorted open list, close-from, get/set) is modelled and proved to refine a heap-of-cells machine for all "
                  "well-scoped operation sequences (Props/C13.lean), and driven against the real vm.Thread through verif "
                  "wrappers. Program level: generated closure programs (nesting, shared captured variables, loop variables, "
                  "closures returned/stored/called after the defining frame returned) must print what the MiniElk reference "
                  "evaluator (closures capture cells) prints. The compiler's scoping discipline is not proved.",
    "level_note": "Trusted: Lean kernel; MiniElk decoder/printer and python generator (unverified); verif wrappers in vm/. "
                  "Tail calls are not in the MiniElk fragment.",
    "design_ref": "DESIGN.md §6, §7 C13",
}

KNOBS = dict(closures=True, closure_bias=0.35, defs=3, max_depth=2, block_len=(2, 5), exceptions=True)


def run(ctx):
    ctx.rule = ("closure-heavy MiniElk programs (type-directed; closures capture params, locals and loop variables, "
                "mutate them, are stored, returned and called later); distinct = distinct program text; "
                "non-trivial = the program creates a closure and calls one")
    have_props = os.path.exists(os.path.join(vlib.LEAN, "ElkVerif", "Props", "C13.lean"))
    if have_props:
        ctx.prove("ElkVerif.Props.C13")
    else:
        vlib.lake_build(["elkmodel"])
    try:
        mach = importlib.import_module("checks.upv_machine")
    except ModuleNotFoundError:
        mach = None
    if mach and not ctx.replay:
        mach.run_machine(ctx)
    if ctx.replay:
        inp = json.load(open(ctx.replay))["input"]
        if "sexpr" not in inp:
            return mach.run_machine(ctx) if mach else None
        progs = [inp["sexpr"]]
    else:
        progs = mini_common.corpus_programs("C13")
        for i in range(ctx.n(300, 10000)):
            g = mini_gen.Gen(ctx.rng, mini_gen.Knobs(**KNOBS), modname=f"K{ctx.seed}x{i}")
            progs.append(g.program())
            for f in g.features:
                ctx.stat("feature:" + f)
    recs = mini_common.compare_programs(ctx, progs, "closure programs")
    for r in recs:
        ctx.case(r["src"], nontrivial=("->" in r["src"] and ".call(" in r["src"]),
                 sample={"program": r["src"][:600], "reference": r["model"], "stdout": r["model_out"][:200]})
