"""C04 — Lexing partitions the source faithfully; colouring never alters text.

Certified per-instance checking: the real token list and the real Colorize output are dumped by
`elkh exec` (domain lex), the Lean checker (`elkmodel`, domain lex) evaluates `spansOk`/`positionsOk`
on them and recomputes the coloured output; the same predicate in Python on the real tokens is the
model-free oracle.
"""
import json
import re

import vlib
from checks import lexrx_common as LC

META = {
    "property_id": "C04",
    "technique": "Lean 4 theorems (tiling, strip, cursor invariant) + certified per-instance checking of the real token "
                 "lists and Colorize outputs",
    "level_text": "Kernel-checked: for ALL byte strings, token lists and styles, a token list accepted by the Lean checker "
                  "`spansOk` makes the structural payload of the modelled Colorize output equal to the source (tiling) and, "
                  "for sources without ESC, textual ANSI stripping gives the source back (strip); the cursor machine keeps "
                  "(line, column) = posAt(cursor) under precondition-respecting primitive sequences (cursor_inv). The real "
                  "lexer's token list and real Colorize output are checked per instance against the Lean checker/model on "
                  "every generated input. Partial: that the 2.5k-line scanner calls the cursor primitives within their "
                  "preconditions is checked per input, not proved.",
    "level_note": "Trusted: Lean kernel; hand-written model of Colorize/tokenWithValue/cursor primitives; harness token dump; "
                  "fatih/color's wrapper format (ESC[<codes>m … ESC[0m) is reproduced by the model and compared byte for byte.",
    "design_ref": "DESIGN.md §7 C04",
}

SGR = re.compile(rb"\x1b\[[0-9;]*m")


# ---------------------------------------------------------------- model-free reference (python)

def rune_width(b, i):
    """Go utf8.DecodeRune width at b[i:] (1 for invalid/truncated)."""
    n = len(b)
    c = b[i]
    if c < 0x80:
        return 1
    if c < 0xC2 or c > 0xF4:
        return 1
    if c < 0xE0:
        need, lo, hi = 1, 0x80, 0xBF
    elif c < 0xF0:
        need = 2
        lo, hi = (0xA0, 0xBF) if c == 0xE0 else ((0x80, 0x9F) if c == 0xED else (0x80, 0xBF))
    else:
        need = 3
        lo, hi = (0x90, 0xBF) if c == 0xF0 else ((0x80, 0x8F) if c == 0xF4 else (0x80, 0xBF))
    if i + need >= n:
        return 1  # truncated sequence
    if i + 1 >= n or not (lo <= b[i + 1] <= hi):
        return 1
    for k in range(2, need + 1):
        if i + k >= n or not (0x80 <= b[i + k] <= 0xBF):
            return 1
    return need + 1


def pos_table(b):
    """(line, column) of every byte offset: the position of the code point containing it."""
    tab = [None] * len(b)
    line, col, i = 1, 1, 0
    while i < len(b):
        w = rune_width(b, i)
        for k in range(i, i + w):
            tab[k] = (line, col)
        if b[i] == 0x0A:
            line, col = line + 1, 1
        else:
            col += 1
        i += w
    return tab


def parse_tokens(s):
    if s == "-":
        return []
    out = []
    for t in s.split(","):
        p = t.split(":")
        out.append((int(p[0]), int(p[1]), int(p[2]), int(p[3]), int(p[4]), int(p[5]), int(p[6]), p[7]))
    return out


def strip_to(out, src):
    """True iff src is obtained from out by deleting SGR sequences (exact search over the choices)."""
    if 0x1B not in src:
        return SGR.sub(b"", out) == src
    cur = {0}  # set of src indices reachable at out index i
    front = {0: {0}}
    n = len(out)
    for i in range(n + 1):
        js = front.pop(i, None)
        if not js:
            continue
        if i == n:
            return len(src) in js
        m = SGR.match(out, i)
        if m:
            front.setdefault(m.end(), set()).update(js)
        nxt = {j + 1 for j in js if j < len(src) and src[j] == out[i]}
        if nxt:
            front.setdefault(i + 1, set()).update(nxt)
    return False


NEWLINE_END = "end-position-after-line-break"


def judge(src, ans):
    """Model-free verdict on the implementation's answer: None | (class, message)."""
    if ans.startswith("panic") or ans.startswith("fatal") or ans.startswith("timeout"):
        return ("lexer-crash", "lexer.Lex/Colorize did not return: " + ans[:160])
    if not ans.startswith("ok "):
        return ("bad-answer", ans[:160])
    _, toks_s, col_s = ans.split(" ")
    toks = parse_tokens(toks_s)
    out = b"" if col_s == "-" else bytes.fromhex(col_s)
    n = len(src)
    prev_end = -1
    for k, (ty, so, sl, sc, eo, el, ec, _) in enumerate(toks):
        if not (0 <= so <= eo < n):
            return ("span-outside", f"token #{k} type {ty} span [{so},{eo}] is not inside the {n}-byte input")
        if so <= prev_end:
            return ("span-overlap", f"token #{k} type {ty} starts at {so}, previous token ends at {prev_end}")
        prev_end = eo
    tab = pos_table(src)
    fails = []
    for k, (ty, so, sl, sc, eo, el, ec, _) in enumerate(toks):
        if (sl, sc) != tab[so]:
            return ("start-position", f"token #{k} type {ty} starts at byte {so} = line:col {tab[so][0]}:{tab[so][1]} "
                                      f"but reports {sl}:{sc}")
        if (el, ec) != tab[eo]:
            if src[eo] == 0x0A and eo > so and (el, ec) == (tab[eo][0] + 1, 0):
                fails.append((NEWLINE_END, f"token #{k} type {ty} ends at byte {eo} (a line break) = line:col "
                                           f"{tab[eo][0]}:{tab[eo][1]} but reports {el}:{ec} (column 0 of the next line)"))
            else:
                return ("end-position", f"token #{k} type {ty} ends at byte {eo} = line:col {tab[eo][0]}:{tab[eo][1]} "
                                        f"but reports {el}:{ec}")
    if not strip_to(out, src):
        return ("colour-alters-text", "removing the SGR sequences from the Colorize output does not give back the input")
    if fails:
        return fails[0]
    return None


# ---------------------------------------------------------------- generators

MODE_TEMPLATES = [
    'x = "a${b}c"', '"a #{b + 1} c"', '"$foo and #Bar"', '"a ${"b ${c} d"} e"', '"\\n\\t\\x41\\u00e9\\U0001F600"',
    '"bad \\q \\xZZ \\u12 \\U1234"', "'raw ${x}'", "`c`", "r`\\n`", "%/ab+/i", "%/a${b}c/mx", "%/[a-z]\\//", "%/a/q",
    "\\w[foo bar  baz]", "\\s[a b]", "\\x[ff 1a]", "\\b[101 11]", "^w[a b]", "^s[a b]", "^x[f]", "^b[1]",
    "%w[a b]", "%s[a b]", "%x[a]", "%b[0 1]", "\\w[a\nb]", "\\x[zz]", "\\b[12]",
    "#[ block\n comment ]# x", "##[ doc\n comment ]## def", "# line\nfoo", "a\\\nb", "1_000.5e-3 0xff 0b11 0o7 12u8 1.5f32",
    "foo.bar?.baz |> qux", ":sym :\"quoted sym\" :+", "@ivar @\"quoted\" $glob", "A::B::\"C d\"", "1...5 1<.<5 a <=> b",
    "if a then b else c end", "def foo(a: Int): String; end", "\n\n\nfoo\n\n", "a\r\n\r\nb\r\n", "\"a\r\nb\"", "'a\r\nb'",
    "é + ñ", "日本語 = \"日本語\"", "`é`", "\"${\"", "\"#{", "%/${", "\\w[", "%/abc", "\"abc", "'abc", "`a", "#[ abc",
    "##[ abc", "\"\\", "\"\\x", "\"\\u00", "1e", "0x", "@\"abc", ":\"abc", "\"${a\n}\"", "%/a\nb/x", "%/a\\\nb/ + c\nd", "%/\\\n\\\n/\nx = 1", "\"a\\\nb\" + c\nd", "`\\\n`\nx",
    "macro foo!; end", "foo!(1)", "%[1, 2] ^[1] %{a: 1} { a: 1 } [1, 2]", "|a| -> a", "a ||= b &&= c ??= d",
    "<<~HERE\n  a\nHERE\n", "x = 1 # c\r\n# d\r\ny", "\ufeffa", "a\tb\u00a0c\u2028d", "\"\\\n\"", "'\\''",
]
EMB_TEMPLATES = [
    "foo `1 + 2` bar", "use ``a ` b`` here", "```\nx = \"s\"\n``` done", "no code", "`unterminated", "a `b` c `d", "``x",
    "é `\"é\"` é", "line\n`1`\nline", "`a\nb`", "``` a", "`", "``", "```", "a``b```c`",
]
BOUNDARY_CPS = [0x7F, 0x80, 0x7FF, 0x800, 0xFFFD, 0xFFFE, 0xFFFF, 0x10000, 0x10FFFF]
BAD_BYTES = [b"\xff", b"\x80", b"\xc3", b"\xe2\x82", b"\xf0\x9f\x98", b"\xc0\xaf", b"\xed\xa0\x80", b"\x1b[31m", b"\x00",
             b"\r", b"\r\n", b"\n", "é".encode(), "日".encode(), "😀".encode()] + [chr(c).encode() for c in BOUNDARY_CPS]


# boundary code points, as VALID characters: ends of the 1/2/3/4-byte encodings, the rune utf8.RuneError itself
# (U+FFFD, which a decoder also answers for INVALID input), the non-characters next to it, the first/last supplementary
# every lexing mode with a hole (§) for one character, always followed by further tokens ON THE SAME LINE
BOUNDARY_CONTEXTS = [
    ("n", 'x § y + 1'), ("n", 'a§b = c + 1'), ("n", '"a§b" + c.d'), ("n", '"§" + "§" + e'), ("n", '"a${x}§${y}" + c'),
    ("n", '"a $x§ #y" + c'), ("n", "'raw§' + c"), ("n", "`§` + c"), ("n", "r`§` + c"), ("n", '%/a§b/i + c'),
    ("n", '%/a${x}§/ + c'), ("n", '\\w[a§ §b c§d] + e'), ("n", '\\s[§a b§] + e'), ("n", '^w[§] + e'), ("n", '%s[a§] + e'),
    ("n", '#[ c § c ]# x + 1'), ("n", '##[ d § ]## def f; end'), ("n", 'x + 1 # c § c'), ("n", ':"s§" + c'),
    ("n", '@"i§" + c'), ("n", '$"g§" + c'), ("n", 'f(§) + g(1)'), ("n", '"\\§" + c'), ("n", '"a\\x§" + c'),
    ("e", 'text § ˋcodeˋ more § text'), ("e", 'a ˋ"§" + §ˋ b § c'), ("e", '§ ``x § y`` z'),
]


def boundary_grid():
    out = []
    for m, t in BOUNDARY_CONTEXTS:
        t = t.replace("ˋ", "`").replace("\\\\", "\\")
        for cp in BOUNDARY_CPS:
            out.append((m, t.replace("§", chr(cp)).encode("utf-8", "surrogatepass"), "boundary-grid"))
    return out


def mutate(rng, b, ctx=None):
    b = bytearray(b)
    for _ in range(rng.choice([1, 1, 1, 2, 3])):
        r = rng.random()
        p = rng.randint(0, len(b))
        if r < 0.3:
            b[p:p] = rng.choice(BAD_BYTES)
        elif r < 0.4 and b:
            p = min(p, len(b) - 1)
            b[p:p + 1] = rng.choice(BAD_BYTES)
        elif r < 0.5:
            b = bytearray(bytes(b).replace(b"\n", b"\r\n"))
        elif r < 0.62:
            b = b[:p]  # unterminated
        elif r < 0.7 and b:
            q = rng.randint(p, len(b))
            del b[p:q]
        elif r < 0.8 and b:
            q = rng.randint(p, min(len(b), p + 8))
            b[p:p] = b[p:q]
        elif r < 0.9:
            b[p:p] = rng.choice(MODE_TEMPLATES).encode()
        else:
            b[p:p] = rng.choice([b'"', b"'", b"`", b"${", b"#{", b"}", b"%/", b"/", b"\\w[", b"]", b"#[", b"]#", b"\\"])
    return bytes(b[:512])


def gen_inputs(ctx, seeds):
    """list of (mode, bytes, origin)"""
    rng = ctx.rng
    out = []
    for t in MODE_TEMPLATES:
        out.append(("n", t.encode(), "template"))
    for t in EMB_TEMPLATES:
        out.append(("e", t.encode(), "template-emb"))
        out.append(("n", t.encode(), "template"))
    out += boundary_grid()
    out += [(m, b, "multiline-grid") for m, b, _ in LC.multiline_grid()]
    # invalid UTF-8 / CRLF at every position of the templates (deterministic sweep)
    sweep = [b"\xff", b"\xe2\x82"] if ctx.quick else BAD_BYTES
    for t in MODE_TEMPLATES + EMB_TEMPLATES:
        tb = t.encode()
        m = "e" if t in EMB_TEMPLATES else "n"
        for p in range(len(tb) + 1):
            for bad in sweep:
                out.append((m, tb[:p] + bad + tb[p:], "sweep"))
        if not ctx.quick:
            for p in range(len(tb)):
                out.append((m, tb[:p], "truncate"))
    n = ctx.n(2500, 250000)
    chunks = LC.chunks(seeds, rng, n, 400)
    for i, c in enumerate(chunks):
        r = rng.random()
        m = "e" if rng.random() < 0.12 else "n"
        if r < 0.3:
            out.append((m, c[:512], "corpus"))
        else:
            out.append((m, mutate(rng, c), "mutant"))
    for _ in range(ctx.n(600, 60000)):
        t = rng.choice(EMB_TEMPLATES if rng.random() < 0.2 else MODE_TEMPLATES).encode()
        out.append(("e" if rng.random() < 0.25 else "n", mutate(rng, t), "template-mutant"))
    return out


def line_of(mode, b):
    return "lex\ttok\t%s\t%s" % (mode, b.hex())


def cert_line(mode, b, ans):
    _, toks, col = ans.split(" ")
    return "lex\tcert\t%s\t%s\t%s\t%s" % (mode, b.hex(), toks, col)


def minimise_bytes(mode, b, cls):
    """ddmin on the bytes keeping the failure class."""
    def still(bs):
        bb = bytes(bs)
        a = vlib.run_impl([line_of(mode, bb)])[0]
        j = judge(bb, a)
        return j is not None and j[0] == cls
    if cls == NEWLINE_END:
        for cand in (b"\n\n", b"\r\n"):
            if still(cand):
                return cand
    items = list(b)
    if len(items) > 1:
        items = vlib.ddmin(items, still)
    return bytes(items)


def run(ctx):
    ctx.rule = ("byte strings ≤ 512 B: every lexing-mode template, invalid UTF-8/CRLF inserted at every position of the "
                "templates, chunks of the repo's Elk sources and Go-test snippets, and their mutants (bad bytes, CRLF, "
                "truncation, splices), in normal and embellished mode; distinct = distinct (mode, bytes); non-trivial = "
                "at least one token")
    ctx.prove("ElkVerif.Props.C04")
    if ctx.replay:
        f = json.load(open(ctx.replay))["input"]["line"].split("\t")
        inputs = [(f[2], bytes.fromhex(f[3]), "replay")]
    else:
        seeds = LC.load_seeds(ctx)
        inputs = []
        for l in vlib.corpus_lines("C04"):
            f = l.split("\t")
            inputs.append((f[2], bytes.fromhex(f[3]), "regression"))
        inputs += gen_inputs(ctx, seeds)
    lines = [line_of(m, b) for m, b, _ in inputs]
    impl = LC.confirm_hangs(lines, vlib.run_impl(lines), ctx.stat)
    # model leg: certificate on the real artefacts
    cert_idx = [i for i, a in enumerate(impl) if a.startswith("ok ")]
    model = dict(zip(cert_idx, vlib.run_model([cert_line(inputs[i][0], inputs[i][1], impl[i]) for i in cert_idx])))
    agree = True
    reported = {}
    for i, ((mode, b, origin), a) in enumerate(zip(inputs, impl)):
        ntok = 0 if not a.startswith("ok ") else (0 if a.split(" ")[1] == "-" else a.split(" ")[1].count(",") + 1)
        ctx.case((mode, b), nontrivial=ntok > 0,
                 sample={"line": lines[i], "tokens": ntok, "model": model.get(i, "")[:80]})
        ctx.stat("origin:" + origin)
        ctx.stat("mode:" + mode)
        ctx.stat("tokens:" + ("0" if ntok == 0 else "1-3" if ntok <= 3 else "4-15" if ntok <= 15 else "16+"))
        if not b.isascii():
            ctx.stat("non-ascii")
        if b"\r\n" in b:
            ctx.stat("crlf")
        if a == "slow":
            continue
        j = judge(b, a)
        mv = model.get(i)
        if mv is not None and mv.startswith("bad-"):
            raise RuntimeError(f"model rejected certificate line for {lines[i]!r}: {mv}")
        # what the Lean checker must say given the python verdict
        if j is None:
            want = "ok spans=1 pos=1 colour=1"
        elif j[0] == NEWLINE_END:
            want = "ok spans=1 pos=lax colour=1"
        else:
            want = None
        if j is not None:
            ctx.stat("oracle:" + j[0])
            if reported.get(j[0], 0) < 3:
                reported[j[0]] = reported.get(j[0], 0) + 1
                mb = minimise_bytes(mode, b, j[0]) if not ctx.replay else b
                a2 = vlib.run_impl([line_of(mode, mb)])[0]
                j2 = judge(mb, a2) or j
                ctx.violation("property-fails", {"line": line_of(mode, mb)}, f"{j2[0]}: {j2[1]}; impl={a2[:300]!r}")
        if mv is not None and want is not None and mv != want:
            agree = False
            if reported.get("disagree", 0) < 3:
                reported["disagree"] = reported.get("disagree", 0) + 1
                ctx.violation("model-impl-disagree", {"line": lines[i], "correspondence": "lex certificate"},
                              f"Lean checker says {mv!r}, python oracle expects {want!r}; impl={a[:300]!r}", no_input=True)
    ctx.obligation(f"lex certificate: Lean checker verdict and recomputed Colorize output agree with the real lexer on "
                   f"{len(lines)} inputs", agree, "correspondence")
