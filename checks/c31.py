"""C31 — Macro expansion is hygienic except where explicitly unhygienic."""
import concurrent.futures
import json
import re
import subprocess

import vlib

META = {
    "property_id": "C31",
    "technique": "Lean 4 model of the checker's local-environment chain (resolveLocal/addLocal/push/pop) with kernel-checked "
                 "hygiene theorems for all chains, names and operation sequences; differential correspondence with a real "
                 "checker.Checker through a verif hook; metamorphic program-level check (macro call vs printed expansion "
                 "pasted by hand with the macro's locals renamed)",
    "level_text": "Partial. Proved for every environment stack, name and operation sequence of the model of types/checker/local.go: "
                  "hygienic lookups inside a macro boundary never depend on or return caller bindings (caller_independent, "
                  "caller_invisible_inside), the caller's stack is bit-identical after pushBoundary;body;pop "
                  "(macro_locals_invisible_outside, no_overwrite), unhygienic lookups reach the caller (unhygienic_sees_caller), "
                  "alpha-renaming of macro locals preserves every hygienic resolution, per lookup (alpha) and for whole expansion bodies with nested blocks (alpha_body; with unhygienic islands under the no-capture hypothesis: alpha_body_islands_partial). The full alpha statement for "
                  "identifiers inside unhygienic islands is refuted on the model (unhygienic_capture_witness: a macro local named "
                  "like the caller's variable captures it) and proved under the no-collision hypothesis (alpha_unhygienic_partial). "
                  "The model is tied to the real Checker by generated push/add/resolve sequences; that the checker uses these "
                  "operations as assumed and that the compiler allocates slots accordingly is only tested, on generated macro "
                  "programs with systematic name collisions, against the hand-pasted printed expansion.",
    "level_note": "Trusted: Lean kernel; hand-written model of local.go; hook types/checker/verif_local.go; python generator and the "
                  "normalisation of the printed expansion ($$\"Std::Kernel\".$\"println@1\" -> ::Std::Kernel.println). Not covered: "
                  "pattern and type macros, unhygienic declarations, conditional specialisations and shadow locals (attributes of a "
                  "local, not bindings). Known finding: unhygienic splices are captured by same-named macro locals.",
    "design_ref": "DESIGN.md §7 C31",
}

# ---------------------------------------------------------------- environment-operation lines

def gen_line(rng):
    """push/add/resolve sequences with few names (collisions) and boundary/conditional/isolated frames"""
    n = rng.choice([1, 2, 4, 6, 10, 16, 30])
    names = [0, 1, 2] if rng.random() < 0.8 else [0, 1, 2, 3, 4, 5]
    ops = []
    depth = 1
    nid = 0
    for _ in range(n):
        r = rng.random()
        if r < 0.22:
            ops.append("n " + rng.choice("dmmc"))
            depth += 1
        elif r < 0.26:
            ops.append("i")
            depth += 1
        elif r < 0.40:
            if depth > 1 or rng.random() < 0.1:
                ops.append("p")
                depth = max(0, depth - 1)
        elif r < 0.65:
            nid += 1
            ops.append(f"a {rng.choice(names)} {nid}")
        elif r < 0.95:
            ops.append(f"r {rng.choice(names)} {rng.choice('01')}")
        else:
            ops.append(f"g {rng.choice(names)}")
    for nm in names[:3]:
        ops.append(f"r {nm} 0")
        ops.append(f"r {nm} 1")
    return "hyg\trun\t" + ";".join(ops)


def py_reference(line):
    """independent python reference of the property-relevant behaviour; returns the expected answer
    and, per query, a description of which hygiene rule decides it"""
    stack = [{"t": "d", "par": False, "m": {}}]
    ans, why = [], []
    for e in filter(None, line.split("\t")[2].split(";")):
        p = e.split(" ")
        if p[0] == "n":
            if not stack:
                return "panic", why
            stack.append({"t": p[1], "par": True, "m": {}})
        elif p[0] == "i":
            stack.append({"t": "d", "par": False, "m": {}})
        elif p[0] == "p":
            if not stack:
                return "panic", why
            stack.pop()
        elif p[0] == "a":
            if not stack:
                return "panic", why
            stack[-1]["m"][p[1]] = p[2]
        elif p[0] == "g":
            if not stack:
                return "panic", why
            ans.append(stack[-1]["m"].get(p[1], "none"))
            why.append("getLocal reads the current environment only")
        elif p[0] == "r":
            if not stack:
                return "panic", why
            i, nested, res, rule = len(stack) - 1, 0, "none", "not bound anywhere on the chain"
            while i >= 0:
                f = stack[i]
                if p[1] in f["m"]:
                    res = f"{f['m'][p[1]]}@{i}:{nested}"
                    rule = "innermost binding on the chain"
                    break
                if f["t"] == "m" and p[2] == "0":
                    rule = "hygienic lookup stops at the macro boundary (caller locals are invisible)"
                    break
                if f["t"] == "c":
                    nested = 1
                if not f["par"]:
                    rule = "isolated environment has no parent"
                    break
                i -= 1
            ans.append(res)
            why.append(rule)
    return f"ok {len(stack)} | " + ",".join(ans), why


def line_oracle(line, ans):
    want, why = py_reference(line)
    if ans == want:
        return None
    if ans.startswith("ok ") and want.startswith("ok "):
        g, w = ans.split(" | ", 1)[1].split(","), want.split(" | ", 1)[1].split(",")
        for i, (x, y) in enumerate(zip(g, w)):
            if x != y:
                return f"query #{i} answered {x}, hygiene requires {y} ({why[i]})"
    return f"answered {ans!r}, expected {want!r}"


def line_minimise(line, still):
    f = line.split("\t")
    ops = [e for e in f[2].split(";") if e]
    mk = lambda es: "hyg\trun\t" + ";".join(es)
    if len(ops) > 1:
        ops = vlib.ddmin(ops, lambda es: still(mk(es)))
    return mk(ops)


# ---------------------------------------------------------------- macro programs

CALLER_NAMES = ["a", "b", "c"]
MACRO_ONLY = "t"          # a name only macros bind (leak probe)


class MacroGen:
    """One program: macros with quoted bodies that bind/read locals named like the call site's."""

    def __init__(self, rng, uid, knobs=None):
        self.rng = rng
        self.uid = uid
        self.k = dict(unhyg=0.6, free=0.12, leak=0.12, capture=0.0, shadow_init=0.0, ctx=None, let=0.25, single=0.15)
        self.k.update(knobs or {})

    # ---- bodies
    def expr(self, scope, nparams, depth=0, allow_usplice=True):
        r = self.rng.random()
        bound = [n for n, kind in scope.items() if kind != "clos"]
        if depth > 1 or r < 0.25:
            return ["int", self.rng.randint(1, 9)]
        if r < 0.55 and bound:
            return ["var", self.rng.choice(bound)]
        if r < 0.70 and nparams and allow_usplice and self.want_unhyg:
            return ["usplice", self.rng.randrange(nparams)]
        if r < 0.75 and [n for n, k in scope.items() if k == "clos"]:
            return ["call", self.rng.choice([n for n, k in scope.items() if k == "clos"])]
        if r < 0.82 and getattr(self, "cur_ctx", None) == "method" and depth <= 1:
            # a receiverless call of a METHOD of the enclosing module whose name is also a caller local / parameter:
            # hygienic code must reach the method, never the caller's variable
            cand = [n for n in CALLER_NAMES if n not in scope]
            if cand:
                return ["mcall", self.rng.choice(cand), self.expr(scope, nparams, depth + 1, allow_usplice)]
        return ["add", self.expr(scope, nparams, depth + 1, allow_usplice), self.expr(scope, nparams, depth + 1, allow_usplice)]

    def pick_new_name(self, scope):
        pool = CALLER_NAMES + [MACRO_ONLY, "u"]
        if self.rng.random() >= self.k["capture"]:
            # known finding C31-unhygienic-capture: a macro local named like a variable mentioned in an
            # unhygienic argument captures it; the random stream avoids the shape (corpus replays it)
            pool = [n for n in pool if n not in self.arg_names]
        return self.rng.choice(pool)

    def rhs(self, name, scope, nparams, **kw):
        """right-hand side of a declaration of `name`. Known finding C31-shadow-init (general compiler defect):
        a declaration in a nested scope that reads the outer variable of the same name reads the new,
        uninitialised slot; the random stream never reads `name` on the right-hand side."""
        if self.rng.random() < self.k["shadow_init"]:
            return self.expr(scope, nparams, **kw)
        return self.expr({k: v for k, v in scope.items() if k != name}, nparams, **kw)

    def stmts(self, scope, nparams, depth, n):
        out = []
        scope = dict(scope)
        for _ in range(n):
            r = self.rng.random()
            assignable = [x for x, kind in scope.items() if kind in (":=", "var")]
            if r < 0.30 or not scope:
                name = self.pick_new_name(scope)
                kind = self.rng.choice([":=", ":=", "var", "val"])
                if name in self.local_scope_names(scope, out):
                    # redeclaration in the same scope is only legal with `:=`
                    kind = ":="
                    if scope.get(name) in ("val", "clos"):
                        continue
                out.append(["decl", kind, name, self.rhs(name, scope, nparams)])
                scope[name] = kind
                self.declared_here[-1].add(name)
            elif r < 0.45 and assignable:
                out.append(["set", self.rng.choice(assignable), self.expr(scope, nparams)])
            elif r < 0.65:
                out.append(["print", self.expr(scope, nparams)])
            elif r < 0.75 and depth < 2:
                self.declared_here.append(set())
                th = self.stmts(scope, nparams, depth + 1, self.rng.randint(1, 3))
                self.declared_here.pop()
                self.declared_here.append(set())
                el = self.stmts(scope, nparams, depth + 1, self.rng.randint(0, 2))
                self.declared_here.pop()
                out.append(["if", self.expr(scope, nparams), th, el])
            elif r < 0.82 and depth < 2:
                self.declared_here.append(set())
                out.append(["block", self.stmts(scope, nparams, depth + 1, self.rng.randint(1, 3))])
                self.declared_here.pop()
            elif r < 0.90 and assignable and depth < 2:
                v = self.rng.choice(assignable)
                self.declared_here.append(set())
                body = self.stmts(scope, nparams, depth + 1, self.rng.randint(0, 2))
                self.declared_here.pop()
                # the loop variable must not be assigned anywhere in the body, nested blocks included (termination)
                def strip(stmts):
                    out2 = []
                    for st in stmts:
                        if (st[0] == "set" and st[1] == v) or (st[0] == "decl" and st[2] == v) or (st[0] == "clos" and st[1] == v):
                            continue
                        st = list(st)
                        if st[0] == "if":
                            st[2], st[3] = strip(st[2]), strip(st[3])
                        elif st[0] == "block":
                            st[1] = strip(st[1])
                        elif st[0] == "while":
                            st[3] = strip(st[3])
                        out2.append(st)
                    return out2
                body = strip(body)
                out.append(["while", v, self.rng.randint(2, 12), body])
            elif r < 0.97:
                name = self.pick_new_name(scope)
                if name in self.declared_here[-1]:
                    continue
                out.append(["clos", name, self.rhs(name, scope, nparams, allow_usplice=False)])
                scope[name] = "clos"
                self.declared_here[-1].add(name)
            else:
                # a free hygienic read: a caller name the macro does not bind here
                free = [n for n in CALLER_NAMES if n not in scope]
                if free and self.rng.random() < self.k["free"] * 4:
                    out.append(["print", ["var", self.rng.choice(free)]])
        return out

    def local_scope_names(self, scope, out):
        return self.declared_here[-1]

    def program(self):
        rng = self.rng
        self.want_unhyg = rng.random() < self.k["unhyg"]
        nparams = rng.randint(0, 2)
        ctxk = self.k["ctx"] or rng.choice(["top", "top", "method", "method", "block", "if"])
        self.cur_ctx = ctxk
        decls = {n: rng.randint(10, 99) * 10 for n in CALLER_NAMES if rng.random() < 0.85}
        if not decls:
            decls = {"a": 50}
        cn = list(decls)
        if len(cn) > 1:
            cn = rng.sample(cn, rng.randint(1, len(cn) - 1))      # leave a caller name free for macro-local collisions

        def arg():
            r = rng.random()
            if r < 0.6:
                return ["cvar", rng.choice(cn)]
            if r < 0.75:
                return ["int", rng.randint(1, 9)]
            return ["add", ["cvar", rng.choice(cn)], ["cvar", rng.choice(cn)]]
        ncalls = rng.choice([1, 1, 2])
        calls = [{"args": [arg() for _ in range(nparams)], "as": rng.choice(["stmt", "stmt", "value"])} for _ in range(ncalls)]
        self.arg_names = set()
        for c in calls:
            for a in c["args"]:
                self.arg_names |= names_of_arg(a)
        self.declared_here = [set()]
        single = rng.random() < self.k["single"]
        body = [] if single else self.stmts({}, nparams, 0, rng.randint(2, 6))
        if single or rng.random() < 0.5:
            sc = scope_after(body)
            if single or rng.random() < self.k["let"]:
                # a local bound inside an expression: `(x := e1) + e2` (with `single`, the whole expansion is this one expression)
                name = self.pick_new_name(sc)
                if sc.get(name) in ("val", "clos", "var") or name in self.declared_here[-1] and sc.get(name) != ":=":
                    name = "u"
                if sc.get(name) in ("val", "clos", "var"):
                    body.append(["result", self.expr(sc, nparams)])
                else:
                    sc2 = dict(sc)
                    sc2[name] = ":="
                    body.append(["result", ["let", name, self.rhs(name, sc, nparams), self.expr(sc2, nparams)]])
            else:
                body.append(["result", self.expr(sc, nparams)])
        leak = rng.random() < self.k["leak"]
        prog = {"uid": self.uid, "nparams": nparams, "body": body, "ctx": ctxk, "decls": decls, "calls": calls,
                "leak_probe": MACRO_ONLY if leak else None}
        # a method call `n(...)` is only meaningful when the macro binds no local `n` anywhere (its own local would
        # legitimately shadow the method): such calls are replaced by their argument
        locs = analyse(prog)["macro_locals"]
        if locs:
            def fix(x):
                if isinstance(x, list):
                    if x and x[0] == "mcall" and x[1] in locs:
                        return fix(x[2])
                    return [fix(y) for y in x]
                return x
            prog["body"] = fix(prog["body"])
        return prog


def names_of_arg(a):
    if a[0] == "cvar":
        return {a[1]}
    if a[0] == "add":
        return names_of_arg(a[1]) | names_of_arg(a[2])
    return set()


def scope_after(body):
    s = {}
    for st in body:
        if st[0] == "decl":
            s[st[2]] = st[1]
        elif st[0] == "clos":
            s[st[1]] = "clos"
    return s


# ---- static scope analysis of a macro body (the generator's own knowledge; no implementation involved)

def analyse(prog):
    """-> dict(free=[names read hygienically while unbound], capture=[(name)] unhygienic argument names bound by the
    macro at the splice, has_unhyg=bool, macro_locals=set)"""
    free, capture, locs, shadow = [], [], set(), []
    info = {"has_unhyg": False}

    def reads(e):
        if e[0] in ("var", "call"):
            return {e[1]}
        if e[0] == "add":
            return reads(e[1]) | reads(e[2])
        if e[0] == "usplice":
            return {"@" + n for n in argn[e[1]]}
        if e[0] == "let":
            return reads(e[2]) | reads(e[3])
        if e[0] == "mcall":
            return reads(e[2])
        return set()
    argn = [set().union(*[names_of_arg(c["args"][i]) for c in prog["calls"]]) if prog["calls"] else set()
            for i in range(prog["nparams"])]

    def ex(e, scopes):
        bound = set().union(*scopes)
        if e[0] == "var" or e[0] == "call":
            if e[1] not in bound:
                free.append(e[1])
        elif e[0] == "add":
            ex(e[1], scopes)
            ex(e[2], scopes)
        elif e[0] == "usplice":
            info["has_unhyg"] = True
            for n in argn[e[1]]:
                if n in bound:
                    capture.append(n)
        elif e[0] == "hsplice":
            pass
        elif e[0] == "mcall":
            info["mcall"] = True
            ex(e[2], scopes)
        elif e[0] == "let":
            ex(e[2], scopes)
            rd = reads(e[2])
            if (e[1] in rd or ("@" + e[1]) in rd) and e[1] not in scopes[-1]:
                shadow.append(e[1])
            scopes[-1].add(e[1])
            locs.add(e[1])
            ex(e[3], scopes)

    def st(stmts, scopes):
        scopes = scopes + [set()]
        for s in stmts:
            if s[0] == "decl":
                ex(s[3], scopes)
                rd = reads(s[3])
                if (s[2] in rd and s[2] not in scopes[-1]) or ("@" + s[2]) in rd and s[2] not in scopes[-1]:
                    shadow.append(s[2])
                scopes[-1].add(s[2])
                locs.add(s[2])
            elif s[0] == "set":
                ex(s[2], scopes)
                if s[1] not in set().union(*scopes):
                    free.append(s[1])
            elif s[0] in ("print", "result"):
                ex(s[1], scopes)
            elif s[0] == "if":
                ex(s[1], scopes)
                st(s[2], scopes)
                st(s[3], scopes)
            elif s[0] == "block":
                st(s[1], scopes)
            elif s[0] == "while":
                if s[1] not in set().union(*scopes):
                    free.append(s[1])
                st(s[3], scopes)
            elif s[0] == "clos":
                # the closure body is checked before the name is bound
                ex(s[2], scopes)
                if s[1] in reads(s[2]) and s[1] not in scopes[-1]:
                    shadow.append(s[1])
                scopes[-1].add(s[1])
                locs.add(s[1])
    st(prog["body"], [])
    info.update(free=free, capture=sorted(set(capture)), macro_locals=locs, shadow_init=sorted(set(shadow)))
    return info


# ---- printing

def p_expr(e, ren):
    if e[0] == "int":
        return str(e[1])
    if e[0] == "var":
        return ren(e[1])
    if e[0] == "call":
        return ren(e[1]) + "()"
    if e[0] == "add":
        return f"{p_expr(e[1], ren)} + {p_expr(e[2], ren)}"
    if e[0] == "usplice":
        return "!{unhygienic(p%d)}" % e[1]
    if e[0] == "hsplice":
        return "!{p%d}" % e[1]
    if e[0] == "let":
        return f"({ren(e[1])} := {p_expr(e[2], ren)}) + {p_expr(e[3], ren)}"
    if e[0] == "mcall":
        return f"{e[1]}({p_expr(e[2], ren)})"
    raise ValueError(e)


def p_stmts(stmts, ren, ind):
    out = []
    pad = "  " * ind
    for s in stmts:
        if s[0] == "decl":
            if s[1] == ":=":
                out.append(f"{pad}{ren(s[2])} := {p_expr(s[3], ren)}")
            else:
                out.append(f"{pad}{s[1]} {ren(s[2])} = {p_expr(s[3], ren)}")
        elif s[0] == "set":
            out.append(f"{pad}{ren(s[1])} = {p_expr(s[2], ren)}")
        elif s[0] == "print":
            out.append(f"{pad}println({p_expr(s[1], ren)})")
        elif s[0] == "result":
            out.append(f"{pad}{p_expr(s[1], ren)}")
        elif s[0] == "if":
            out.append(f"{pad}if {p_expr(s[1], ren)} > 4")
            out += p_stmts(s[2], ren, ind + 1)
            if s[3]:
                out.append(f"{pad}else")
                out += p_stmts(s[3], ren, ind + 1)
            out.append(f"{pad}end")
        elif s[0] == "block":
            out.append(f"{pad}do")
            out += p_stmts(s[1], ren, ind + 1)
            out.append(f"{pad}end")
        elif s[0] == "while":
            out.append(f"{pad}while {ren(s[1])} < {s[2]}")
            out += p_stmts(s[3], ren, ind + 1)
            out.append(f"{pad}  {ren(s[1])} = {ren(s[1])} + 1")
            out.append(f"{pad}end")
        elif s[0] == "clos":
            out.append(f"{pad}{ren(s[1])} := || -> {p_expr(s[2], ren)}")
    return out


def p_arg(a, crn=lambda n: n):
    if a[0] == "int":
        return str(a[1])
    if a[0] == "cvar":
        return crn(a[1])
    return f"{p_arg(a[1], crn)} + {p_arg(a[2], crn)}"


def render(prog, fresh, caller_fresh=False):
    """fresh=False: macro locals keep their (colliding) names; fresh=True: every hygienic identifier of the macro
    body is renamed x -> hq_x (consistent renaming of the macro's locals)."""
    ren = (lambda n: "hq_" + n) if fresh else (lambda n: n)
    # caller_fresh: the CALLER's locals / parameters are renamed n -> cq_n (hygienic code of the macro cannot notice)
    crn = (lambda n: "cq_" + n) if caller_fresh else (lambda n: n)
    uid = prog["uid"]
    mname = f"mq{uid}"
    params = ", ".join(f"p{i}: ExpressionNode" for i in range(prog["nparams"]))
    L = ["using Std::Elk::AST::*", f"macro {mname}({params})", "  quote"]
    body = p_stmts(prog["body"], ren, 2)
    L += body or ["    nil"]
    if not prog["body"] or prog["body"][-1][0] != "result":
        L.append("    nil")
    L += ["  end", "end"]
    calls = []
    for i, c in enumerate(prog["calls"]):
        call = f"{mname}!({', '.join(p_arg(a, crn) for a in c['args'])})"
        if c["as"] == "value":
            calls.append(f"r{i} := {call}")
            calls.append(f"println(r{i}.inspect)")
        else:
            calls.append(call)
        for n in prog["decls"]:
            calls.append(f"println({crn(n)})")
    if prog["leak_probe"]:
        calls.append(f"println({ren(prog['leak_probe'])})")
    d = prog["decls"]
    ctx = prog["ctx"]
    if ctx == "top":
        L += [f"{crn(n)} := {v}" for n, v in d.items()] + calls
    elif ctx == "if":
        L += [f"{crn(n)} := {v}" for n, v in d.items()]
        first = next(iter(d))
        L += [f"if {crn(first)} > 0"] + ["  " + x for x in calls] + ["end"]
        L += [f"println({crn(n)})" for n in d]
    elif ctx == "method":
        ps = list(d.items())
        L += [f"module MQ{uid}"]
        # methods of the enclosing module named like the caller's locals / parameters (reached by `mcall` nodes)
        L += [f"  def {n}(x: Int): Int then x + {1000 * (k + 1)}" for k, n in enumerate(CALLER_NAMES)]
        L += [f"  def run({', '.join(crn(n) + ': Int' for n, _ in ps[:2])}): Int"]
        L += [f"    {crn(n)} := {v}" for n, v in ps[2:]]
        L += ["    " + x for x in calls] + ["    0", "  end", "end"]
        L += [f"MQ{uid}.run({', '.join(str(v) for _, v in ps[:2])})"]
    elif ctx == "block":
        L += [f"{crn(n)} := {v}" for n, v in d.items()]
        L += ["do"] + ["  " + x for x in calls] + ["end"]
        L += [f"println({crn(n)})" for n in d]
    return "\n".join(L) + "\n"


def normalise_expansion(text, keep_boundary):
    """what a person copying the printed expansion would type: resolved constant/method spellings back to source
    spellings; the `do macro 'name'` header either kept (pure hygiene reference) or written as a plain `do`."""
    t = re.sub(r'\$\$"([^"]+)"', r'::\1', text)
    t = re.sub(r'\.\$"([A-Za-z_]+)@\d+"', r'.\1', t)
    if not keep_boundary:
        t = re.sub(r"do macro '[^']*' ?", "do", t)
    return t


# ---- execution helpers

def prun(reqs, workers=4, sub="run", timeout=900):
    """run_programs over several worker processes"""
    if not reqs:
        return []
    if sub == "run":
        for r in reqs:
            _LAST_REQS[r["id"]] = r
    chunks = [reqs[i::workers] for i in range(workers)]
    res = [None] * workers

    def one(i):
        if not chunks[i]:
            return []
        if sub == "run":
            return vlib.run_programs(chunks[i], timeout=timeout)
        env = vlib.go_env()
        data = "".join(json.dumps(r) + "\n" for r in chunks[i])
        p = subprocess.run([vlib.ELKH, sub], input=data, stdout=subprocess.PIPE, stderr=subprocess.PIPE,
                           text=True, env=env, timeout=timeout)
        out = [json.loads(l) for l in p.stdout.splitlines() if l.strip()]
        while len(out) < len(chunks[i]):
            out.append({"id": chunks[i][len(out)]["id"], "diags": [], "rejected": False, "expansion": "",
                        "panic": "worker died: " + vlib.classify_fatal(p.stderr)})
        return out
    with concurrent.futures.ThreadPoolExecutor(workers) as ex:
        for i, r in enumerate(ex.map(one, range(workers))):
            res[i] = r
    out = [None] * len(reqs)
    for i in range(workers):
        for j, r in enumerate(res[i]):
            out[i + j * workers] = r
    return out


_LAST_REQS = {}


def retry_timeouts(answers, reqs=None):
    """a timeout under machine load is not evidence: re-run such programs alone with a generous limit"""
    out = []
    for i, a in enumerate(answers):
        if a.get("outcome") == "timeout":
            rq = (reqs[i] if reqs else _LAST_REQS.get(a.get("id")))
            if rq is not None:
                a = vlib.run_programs([dict(rq, timeout_ms=30000)])[0]
        out.append(a)
    return out


def obs(a):
    """observable behaviour of a run: verdict, outcome class, stdout"""
    if a.get("rejected"):
        return ("rejected", "", "")
    o = a.get("outcome")
    if o == "error":
        return ("error", a.get("err_class", ""), a.get("stdout", ""))
    if o in ("panic", "fatal"):
        return (o, a.get("panic", "")[:80], a.get("stdout", ""))
    return (o, "", a.get("stdout", ""))


def reject_msgs(a):
    return "; ".join(d["msg"].split("\n")[0] for d in a.get("diags", []) if d["sev"] == "FAIL")[:300]


def evaluate(progs):
    """Runs, for each program: P (colliding names), P' (macro locals renamed fresh), the printed expansion of P'
    pasted as a plain `do` block (R2) and, for macros without unhygienic splices, with the boundary kept (R1).
    Returns a list of records with the failures found (independent oracles, no Lean model involved)."""
    infos = [analyse(p) for p in progs]
    srcP = [render(p, False) for p in progs]
    srcF = [render(p, True) for p in progs]
    # C: the CALLER's locals renamed (module names made unique: method tables are process-global)
    srcC = [render(p, False, caller_fresh=True).replace(f"MQ{p['uid']}", f"MQ{p['uid']}C").replace(f"mq{p['uid']}", f"mq{p['uid']}C")
            for p in progs]
    runs = prun([{"id": f"P{i}", "src": s, "timeout_ms": 4000} for i, s in enumerate(srcP)]
                + [{"id": f"F{i}", "src": s, "timeout_ms": 4000} for i, s in enumerate(srcF)]
                + [{"id": f"C{i}", "src": s, "timeout_ms": 4000} for i, s in enumerate(srcC)])
    runs = retry_timeouts(runs)
    rp, rf, rc = runs[:len(progs)], runs[len(progs):2 * len(progs)], runs[2 * len(progs):]
    exps = prun([{"id": f"E{i}", "src": s} for i, s in enumerate(srcF)], sub="expand")
    paste_reqs, idx = [], []
    for i, e in enumerate(exps):
        if e.get("expansion"):
            # module names of the method context must stay unique in the worker process
            uid = progs[i]["uid"]
            for tag, keep in (("R2", False), ("R1", True)):
                if keep and infos[i]["has_unhyg"]:
                    continue
                t = normalise_expansion(e["expansion"], keep)
                t = t.replace(f"MQ{uid}", f"MQ{uid}{tag}").replace(f"mq{uid}", f"mq{uid}{tag}")
                paste_reqs.append({"id": f"{tag}-{i}", "src": t, "timeout_ms": 4000})
                idx.append((i, tag))
    pr = retry_timeouts(prun(paste_reqs), paste_reqs)
    pastes = {}
    for (i, tag), a, rq in zip(idx, pr, paste_reqs):
        pastes[(i, tag)] = (a, rq["src"])
    recs = []
    for i, p in enumerate(progs):
        info = infos[i]
        fails = []
        oP, oF = obs(rp[i]), obs(rf[i])
        must_reject = bool(info["free"]) or (p["leak_probe"] is not None and p["leak_probe"] not in p["decls"])
        if oP[0] in ("panic", "fatal", "timeout"):
            fails.append(("host-crash", f"macro program: {oP}"))
        if must_reject:
            why = ("hygienic code of the macro reads `%s`, which only the caller binds" % info["free"][0]) if info["free"] \
                else ("the caller reads `%s`, which only the macro's expansion binds" % p["leak_probe"])
            if oP[0] != "rejected":
                fails.append(("hygiene-accepts", f"{why}; expected a rejection, got {oP}"))
        else:
            oC = obs(rc[i])
            if oP != oC and not info["capture"] and not info["shadow_init"] and p["leak_probe"] is None:
                fails.append(("hygiene-differs",
                              f"macro call: {oP} {reject_msgs(rp[i])!r}; the same program with the CALLER's locals renamed "
                              f"(a -> cq_a, ...): {oC} {reject_msgs(rc[i])!r} — hygienic code of the macro depends on the "
                              f"names of the caller's variables"))
            if oP != oF:
                fails.append(("hygiene-differs",
                              f"macro call with colliding names: {oP} {reject_msgs(rp[i])!r}; same macro with its locals "
                              f"renamed to fresh names: {oF} {reject_msgs(rf[i])!r}"))
            if exps[i].get("panic"):
                fails.append(("host-crash", f"expansion: {exps[i]['panic']}"))
            for tag in ("R2", "R1"):
                if (i, tag) in pastes:
                    a, src = pastes[(i, tag)]
                    oR = obs(a)
                    if oR != oP:
                        fails.append(("expansion-differs",
                                      f"macro call: {oP} {reject_msgs(rp[i])!r}; printed expansion pasted by hand with the macro's "
                                      f"locals renamed ({'boundary kept' if tag == 'R1' else 'as a plain do block'}): {oR} "
                                      f"{reject_msgs(a)!r}"))
                        break
        recs.append({"prog": p, "info": info, "src": srcP[i], "src_fresh": srcF[i], "obs": oP, "fails": fails,
                     "paste": pastes.get((i, "R2"), (None, None))[1], "must_reject": must_reject})
    return recs


# ---- shrinking

def flat_paths(stmts, pre=()):
    out = []
    for i, s in enumerate(stmts):
        out.append(pre + (i,))
        if s[0] == "if":
            out += flat_paths(s[2], pre + (i, 2))
            out += flat_paths(s[3], pre + (i, 3))
        elif s[0] == "block":
            out += flat_paths(s[1], pre + (i, 1))
        elif s[0] == "while":
            out += flat_paths(s[3], pre + (i, 3))
    return out


def drop_path(stmts, path):
    stmts = json.loads(json.dumps(stmts))
    cur = stmts
    for k in path[:-1]:
        cur = cur[k]
    del cur[path[-1]]
    return stmts


def variants(prog):
    """single-step reductions of a program"""
    out = []
    for path in flat_paths(prog["body"]):
        q = dict(prog)
        q["body"] = drop_path(prog["body"], path)
        out.append(q)
    # unwrap compound statements at the top level
    for i, s in enumerate(prog["body"]):
        inner = s[2] if s[0] == "if" else s[1] if s[0] == "block" else None
        if inner is not None:
            q = dict(prog)
            q["body"] = prog["body"][:i] + inner + prog["body"][i + 1:]
            out.append(q)
    if len(prog["calls"]) > 1:
        for i in range(len(prog["calls"])):
            q = dict(prog)
            q["calls"] = prog["calls"][:i] + prog["calls"][i + 1:]
            out.append(q)
    for i, c in enumerate(prog["calls"]):
        if c["as"] != "stmt":
            q = dict(prog)
            q["calls"] = [dict(x) for x in prog["calls"]]
            q["calls"][i]["as"] = "stmt"
            out.append(q)
        for j, a in enumerate(c["args"]):
            if a[0] == "add":
                for sub in (a[1], a[2]):
                    q = dict(prog)
                    q["calls"] = [dict(x, args=list(x["args"])) for x in prog["calls"]]
                    q["calls"][i]["args"][j] = sub
                    out.append(q)
    if prog["ctx"] != "top":
        out.append(dict(prog, ctx="top"))
    if prog["leak_probe"]:
        out.append(dict(prog, leak_probe=None))
    if len(prog["decls"]) > 1:
        used = set()
        for c in prog["calls"]:
            for a in c["args"]:
                used |= names_of_arg(a)
        for n in list(prog["decls"]):
            if n not in used:
                q = dict(prog)
                q["decls"] = {k: v for k, v in prog["decls"].items() if k != n}
                out.append(q)
    # replace sub-expressions by literals
    def simp_expr(e):
        if e[0] == "add":
            yield e[1]
            yield e[2]
        if e[0] == "mcall":
            yield e[2]
            yield ["mcall", e[1], ["int", 1]]
        if e[0] == "let":
            yield e[2]
            yield ["let", e[1], ["int", 1], e[3]]
            yield ["let", e[1], e[2], ["var", e[1]]]
        if e[0] != "int":
            yield ["int", 1]

    def walk(stmts, pre):
        for i, s in enumerate(stmts):
            for slot in ({"decl": [3], "set": [2], "print": [1], "result": [1], "if": [1], "clos": [2]}.get(s[0], [])):
                for e2 in simp_expr(s[slot]):
                    yield pre + (i, slot), e2
            if s[0] == "if":
                yield from walk(s[2], pre + (i, 2))
                yield from walk(s[3], pre + (i, 3))
            elif s[0] == "block":
                yield from walk(s[1], pre + (i, 1))
            elif s[0] == "while":
                yield from walk(s[3], pre + (i, 3))
    for path, e2 in walk(prog["body"], ()):
        b = json.loads(json.dumps(prog["body"]))
        cur = b
        for k in path[:-1]:
            cur = cur[k]
        cur[path[-1]] = e2
        out.append(dict(prog, body=b))
    return out


def rename_macro_local(prog, old, new):
    def ex(e):
        if e[0] in ("var", "call") and e[1] == old:
            return [e[0], new]
        if e[0] == "add":
            return ["add", ex(e[1]), ex(e[2])]
        if e[0] == "let":
            return ["let", new if e[1] == old else e[1], ex(e[2]), ex(e[3])]
        if e[0] == "mcall":
            return ["mcall", e[1], ex(e[2])]
        return e

    def st(stmts):
        out = []
        for s in stmts:
            s = list(s)
            if s[0] == "decl":
                s[2] = new if s[2] == old else s[2]
                s[3] = ex(s[3])
            elif s[0] == "set":
                s[1] = new if s[1] == old else s[1]
                s[2] = ex(s[2])
            elif s[0] in ("print", "result"):
                s[1] = ex(s[1])
            elif s[0] == "if":
                s[1], s[2], s[3] = ex(s[1]), st(s[2]), st(s[3])
            elif s[0] == "block":
                s[1] = st(s[1])
            elif s[0] == "while":
                s[1] = new if s[1] == old else s[1]
                s[3] = st(s[3])
            elif s[0] == "clos":
                s[1] = new if s[1] == old else s[1]
                s[2] = ex(s[2])
            out.append(s)
        return out
    return dict(prog, body=st(prog["body"]), leak_probe=(new if prog["leak_probe"] == old else prog["leak_probe"]))


def shrink(prog, kind, budget=40, wall=45.0):
    """greedy batched shrinking; keeps the failure kind"""
    import time
    uid = [0]
    cur = prog
    t0 = time.time()
    for _ in range(budget):
        if time.time() - t0 > wall:
            break
        cands = variants(cur)
        # also try removing a name collision: if the failure survives, the collision was not needed
        for n in sorted(analyse(cur)["macro_locals"]):
            if n in CALLER_NAMES:
                cands.append(rename_macro_local(cur, n, "u" + n))
        if not cands:
            break
        cands = cands[:60]
        for c in cands:
            uid[0] += 1
            c["uid"] = f"{prog['uid']}s{uid[0]}"
        recs = evaluate(cands)
        good = [r["prog"] for r in recs if any(k == kind for k, _ in r["fails"])]
        if not good:
            break
        cur = min(good, key=lambda p: len(json.dumps(p)))
    return cur


def canonical(prog):
    """fixed spelling of a minimised program so that a known finding can name it exactly"""
    q = json.loads(json.dumps(prog))
    q["uid"] = "K"

    def ex(e):
        if e[0] == "int":
            return ["int", 1]
        if e[0] == "add":
            return ["add", ex(e[1]), ex(e[2])]
        if e[0] == "let":
            return ["let", e[1], ex(e[2]), ex(e[3])]
        if e[0] == "mcall":
            return ["mcall", e[1], ex(e[2])]
        return e

    def st(stmts):
        for s in stmts:
            if s[0] == "decl":
                s[3] = ex(s[3])
            elif s[0] == "set":
                s[2] = ex(s[2])
            elif s[0] in ("print", "result"):
                s[1] = ex(s[1])
            elif s[0] == "if":
                s[1] = ex(s[1])
                st(s[2])
                st(s[3])
            elif s[0] == "block":
                st(s[1])
            elif s[0] == "while":
                st(s[3])
            elif s[0] == "clos":
                s[2] = ex(s[2])
    st(q["body"])
    q["decls"] = {k: 50 for k in q["decls"]}
    return q


def shape_of(prog):
    info = analyse(prog)
    if info["shadow_init"]:
        return "declaration-reads-outer-variable-of-the-same-name"
    if info["capture"] and info["has_unhyg"]:
        return "unhygienic-splice-captured-by-macro-local"
    if info["free"]:
        return "free-hygienic-read"
    if prog["leak_probe"]:
        return "leak-probe"
    return "plain"


def report(ctx, rec):
    kind, detail = rec["fails"][0]
    # corpus programs (uid K…) are already minimal
    small = rec["prog"] if str(rec["prog"].get("uid", "")).startswith("K") else shrink(rec["prog"], kind)
    can = canonical(small)
    r2 = evaluate([can])[0]
    if not any(k == kind for k, _ in r2["fails"]):
        r2 = evaluate([small])[0]
    if not r2["fails"]:
        r2 = rec
    kind2, detail2 = next(((k, d) for k, d in r2["fails"] if k == kind), r2["fails"][0])
    inp = {"program": r2["src"], "shape": shape_of(r2["prog"]), "prog": r2["prog"]}
    if kind2 != "hygiene-accepts" and r2.get("paste"):
        inp["pasted_expansion"] = r2["paste"]
    return ctx.violation(kind2, inp, detail2)


def run(ctx):
    ctx.rule = ("(1) push/add/resolve/pop sequences over 3-6 names with macro-boundary, conditional and isolated environments, "
                "run on a real Checker and on the Lean model; (2) macro programs whose quoted bodies declare/assign/read "
                "locals named like the call site's (blocks, loops, closures, unhygienic splices, 4 call contexts); "
                "distinct = distinct line/program; non-trivial = at least one query / the macro binds a caller name")
    ctx.prove("ElkVerif.Props.C31")
    if ctx.replay:
        inp = json.load(open(ctx.replay))["input"]
        if "line" in inp:
            vlib.correspond(ctx, [inp["line"]], oracle=line_oracle, minimise=line_minimise, label="local environments")
            return
        progs = [inp["prog"]]
        lines = []
    else:
        lines = vlib.corpus_lines("C31") + [gen_line(ctx.rng) for _ in range(ctx.n(3000, 120000))]
        progs = corpus_progs() + [MacroGen(ctx.rng, f"{ctx.seed}x{i}").program() for i in range(ctx.n(36, 1200))]
    if lines:
        vlib.correspond(ctx, lines, oracle=line_oracle, minimise=line_minimise, label="local environments")
    ok = True
    reported = 0
    B = 96
    for off in range(0, len(progs), B):
        for rec in evaluate(progs[off:off + B]):
            info = rec["info"]
            collide = bool(info["macro_locals"] & set(rec["prog"]["decls"]))
            ctx.case(rec["src"], nontrivial=collide,
                     sample={"program": rec["src"][:700], "observed": list(rec["obs"])})
            ctx.stat("ctx:" + rec["prog"]["ctx"])
            ctx.stat("verdict:" + rec["obs"][0])
            ctx.stat("shape:" + shape_of(rec["prog"]))
            if info["has_unhyg"]:
                ctx.stat("with-unhygienic-splice")
            if collide:
                ctx.stat("macro-local-collides-with-caller-name")
            if rec["fails"] and reported < 4:
                reported += 1
                if report(ctx, rec):
                    ok = False
                else:
                    reported -= 1
            elif rec["fails"]:
                ok = False
    ctx.obligation(f"macro call = hand-pasted printed expansion with renamed macro locals on {len(progs)} generated programs",
                   ok, "correspondence")


def corpus_progs():
    import os
    d = os.path.join(vlib.ROOT, "corpus", "C31")
    out = []
    if os.path.isdir(d):
        for f in sorted(os.listdir(d)):
            if f.endswith(".json"):
                out += [json.loads(l) for l in open(os.path.join(d, f)) if l.strip() and not l.startswith("#")]
    return out
