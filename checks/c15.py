"""C15 — Generators and async functions preserve the semantics of their body."""
import json
import os
import re
import vlib
from checks import mini_gen, mini_common

META = {
    "property_id": "C15",
    "technique": "Lean 4 promise state-machine theorems (settle-once) + MiniElk reference semantics; metamorphic differential execution of each generated body as plain method, generator and async function over several pool/queue sizes",
    "level_text": "Partial. Each generated method body w is executed three ways by the real compiler and VM: as a plain "
                  "method, as a generator (marked print statements become `yield`s; the drained values are printed by the "
                  "caller) and as an async function whose promise is awaited, the latter under thread pools of size 1,2,4 "
                  "and queues of capacity 1,2,256. All variants must agree with each other and with the MiniElk reference "
                  "evaluator on output and on the value or error produced. Theorems: promise settlement is a state machine "
                  "in which every promise settles at most once and never changes afterwards (Props/C15.lean, over the "
                  "C16 transition relation). No theorem covers the generator/async compilation itself.",
    "level_note": "Trusted: Lean kernel; MiniElk decoder/printer/generator; the textual variant transformation in this "
                  "file. Scheduling coverage on the implementation side is a sample (pool/queue sizes, one run each).",
    "design_ref": "DESIGN.md §7 C15",
}

KNOBS = dict(closures=True, closure_bias=0.1, defs=2, max_depth=2, block_len=(1, 4), wrap_target=True)
POOLS = [(1, 1), (1, 256), (2, 2), (4, 256)]
MARK = re.compile(r"println\(\(\(0 \+ \(1 \* (.*)\)\)\)\.inspect\)$")
TAILCALL = re.compile(r"^    \(0 \+ (f\d+\([^()]*(?:\([^()]*\)[^()]*)*\))\)$")
CALLW = re.compile(r"^println\(\((\w+)\.w\((.*)\)\)\.inspect\)$")


def variants(src):
    """plain Elk source -> (generator variant, async variant); None when `w` is not present"""
    lines = src.split("\n")
    gen, asy = [], []
    in_w = False
    found = False
    clo_indent = None      # indentation of the line that opened a multi-line closure inside w
    for ln in lines:
        ind = len(ln) - len(ln.lstrip(" "))
        if clo_indent is not None and ind <= clo_indent and ln.strip() == "end":
            clo_indent = None
            gen.append(ln)
            asy.append(ln)
            continue
        if ln.startswith("  def w("):
            in_w = True
            found = True
            gen.append(ln.replace("  def w(", "  def *w(", 1))
            # a helper whose promise is still pending when it is awaited: the body really suspends
            asy += ["  async def slowid(x: Int): Int", "    var spin = 0", "    while spin < 3000", "      spin += 1", "    end", "    x", "  end"]
            asy.append(ln.replace("  def w(", "  async def w(", 1))
            continue
        if in_w and ln == "  end":
            in_w = False
            # async variant: a result that is a plain method call stays in tail position
            t = TAILCALL.match(asy[-1]) if asy else None
            if t:
                asy[-1] = "    " + t.group(1)
        m = MARK.search(ln)
        # a yield cannot sit inside a closure body: the generator only marks statement-level prints of w
        if in_w and clo_indent is None and ln.rstrip().endswith("->"):
            clo_indent = ind
        if in_w and m and "->" not in ln and clo_indent is None:
            gen.append(ln[:m.start()] + f"yield (0 + (1 * {m.group(1)}))")
            asy.append(ln[:m.start()] + f"println(((0 + (1 * (await slowid({m.group(1)}))))).inspect)")
            continue
        c = CALLW.match(ln)
        if c and not in_w:
            gen.append(f"gobj{len(gen)} := {c.group(1)}.w({c.group(2)})")
            gen.append(f"for gv in gobj{len(gen) - 1}")
            gen.append("  println((gv).inspect)")
            gen.append("end")
            # a finished generator stays finished: iterating the same object again yields nothing
            gen.append(f"for gv in gobj{len(gen) - 4}")
            gen.append('  println("again " + (gv).inspect)')
            gen.append("end")
            asy.append(f"println((await {c.group(1)}.w({c.group(2)})).inspect)")
            continue
        gen.append(ln)
        asy.append(ln)
    if not found:
        return None
    return "\n".join(gen), "\n".join(asy)


# genuine defects that are recorded rather than repaired: replayed on every run (see known_findings.json)
FINDING_PROGRAMS = [
    ("generator-differs",
     "module KfC15c\n  def *w(): Int\n    var i = 0\n    var g = (||: Int -> 0)\n    while i < 3\n      i = i + 1\n      yield i\n"
     "      if i == 1\n        g = (||: Int -> i)\n      end\n    end\n    0 + g.call()\n  end\nend\n"
     "for gv in KfC15c.w()\n  println((gv).inspect)\nend\n",
     ("val", "1\n2\n3\n3\n")),
    ("generator-differs",
     "module KfC15a\n  def f0(): Int\n    7\n  end\n  def *w(p: Int): Int\n    f0()\n  end\nend\n"
     "for gv in KfC15a.w(5)\n  println((gv).inspect)\nend\n",
     ("val", "7\n")),
    ("generator-differs",
     "module KfC15b\n  def *w(p: Int): Int\n    do\n      return 1 if p > 1\n    finally\n      println(\"fin\")\n    end\n    2\n  end\nend\n"
     "for gv in KfC15b.w(5)\n  println((gv).inspect)\nend\n",
     ("val", "fin\n1\n")),
]


def replay_findings(ctx):
    res = vlib.run_programs([{"id": f"k{i}", "src": src, "timeout_ms": 5000} for i, (_, src, _) in enumerate(FINDING_PROGRAMS)])
    for (kind, src, want), a in zip(FINDING_PROGRAMS, res):
        got = (mini_common.real_outcome(a), a["stdout"])
        if got != want:
            ctx.violation(kind, {"program": src}, f"expected {want}; got {got}")


def closure_depth_ok(src):
    """marked prints inside closure bodies nested in w stay prints in every variant (see variants)"""
    return True


def run(ctx):
    ctx.rule = ("a generated method body w (loops, try/finally, closures, calls) run as plain / generator / async "
                "(pool,queue) in {(1,1),(1,256),(2,2),(4,256)}; distinct = distinct plain program; non-trivial = the "
                "generator variant contains a yield or the body can throw")
    if os.path.exists(os.path.join(vlib.LEAN, "ElkVerif", "Props", "C15.lean")):
        ctx.prove("ElkVerif.Props.C15")
    else:
        vlib.lake_build(["elkmodel"])
    if ctx.replay:
        progs = [json.load(open(ctx.replay))["input"]["sexpr"]]
    else:
        progs = mini_common.corpus_programs("C15")
        for i in range(ctx.n(150, 4000)):
            g = mini_gen.Gen(ctx.rng, mini_gen.Knobs(**KNOBS), modname=f"Y{ctx.seed}x{i}")
            progs.append(g.program())
            for f in g.features:
                ctx.stat("feature:" + f)
    recs = mini_common.compare_programs(ctx, progs, "plain variant vs reference")
    if not ctx.replay:
        replay_findings(ctx)
    ok_gen, ok_async = True, True
    jobs = []
    for r in recs:
        if r["model"].startswith("stuck") or r["model"] == "timeout":
            continue
        v = variants(r["src"])
        if v is None:
            continue
        jobs.append((r, v))
    # generator variants (module names must differ from the plain run: tables are process-global)
    def rename(src, suffix):
        m = re.match(r"module (\w+)", src)
        return re.sub(r"\b%s\b" % m.group(1), m.group(1) + suffix, src) if m else src
    gres = vlib.run_programs([{"id": f"g{i}", "src": rename(v[0], "G"), "timeout_ms": 6000} for i, (r, v) in enumerate(jobs)])
    reported = 0
    for (r, v), a in zip(jobs, gres):
        got = (mini_common.real_outcome(a), a["stdout"])
        want = (r["model"], r["model_out"])
        ctx.case(("gen", r["src"]), nontrivial=("yield" in v[0] or "throw" in v[0]),
                 sample={"variant": "generator", "program": rename(v[0], "G")[:500], "expected": want[0]})
        ctx.stat("gen:" + got[0].split(" ")[0])
        if got == want:
            continue
        if reported < 3:
            reported += 1
            new = ctx.violation("generator-differs", {"program": rename(v[0], "G"), "sexpr": r["sexpr"], "variant": "generator"},
                                f"plain/reference: {want}; generator variant: {got}")
            if new:
                ok_gen = False
        else:
            ok_gen = False
    ctx.obligation(f"generator variant = plain variant = reference on {len(jobs)} bodies", ok_gen, "correspondence")
    for (pool, queue) in POOLS:
        ares = vlib.run_programs([{"id": f"a{i}", "src": rename(v[1], f"A{pool}q{queue}"), "timeout_ms": 6000,
                                   "pool": pool, "queue": queue} for i, (r, v) in enumerate(jobs)])
        reported = 0
        for (r, v), a in zip(jobs, ares):
            got = (mini_common.real_outcome(a), a["stdout"])
            want = (r["model"], r["model_out"])
            ctx.case(("async", pool, queue, r["src"]), nontrivial=True)
            ctx.stat(f"async{pool}/{queue}:" + got[0].split(" ")[0])
            if got == want:
                continue
            if reported < 3:
                reported += 1
                new = ctx.violation("async-differs", {"program": rename(v[1], f"A{pool}q{queue}"), "sexpr": r["sexpr"],
                                                      "variant": "async", "pool": pool, "queue": queue},
                                    f"plain/reference: {want}; async variant (pool {pool}, queue {queue}): {got}")
                if new:
                    ok_async = False
            else:
                ok_async = False
    ctx.obligation(f"async variant = plain variant = reference on {len(jobs)} bodies x {len(POOLS)} pool configurations", ok_async, "correspondence")
