"""C18 — Equality, hashing and ordering are mutually consistent."""
import json
import math
import struct
from fractions import Fraction

import vlib

META = {
    "property_id": "C18",
    "technique": "Lean 4 proof over a model of the numeric comparison/equality/hash dispatch tables (exact F64 decoding, "
                 "denotation in Q) + differential correspondence + model-free algebraic-law search on the implementation",
    "level_text": "Kernel-checked: every ordering/equality operator of the model agrees with an exact rational denotation "
                  "(lt_iff_val, le_iff_val, cmp_iff_val, laxeq_iff_val and the order-theoretic corollaries), == is "
                  "symmetric over all kind pairs, a == b implies equal hash byte streams (xxhash uninterpreted). The model "
                  "is tied to value/*.go and vm/value.go by differential execution over boundary pairs/triples of all "
                  "numeric kinds and by checking Hash(v) = xxhash64(model bytes). Partial: strings/chars/symbols/"
                  "collections/dates by structural model + correspondence.",
    "level_note": "Trusted: Lean kernel; the hand-written model (64-bit build only: Int64/UInt64/Float64 inline); xxhash as an "
                  "uninterpreted function of the byte stream; Go float64/float32 comparison and int->float conversion are "
                  "IEEE round-to-nearest-even (exercised bit-for-bit by the correspondence); harness.",
    "design_ref": "DESIGN.md §7 C18",
}

# ---------------------------------------------------------------- values

KS = [7, 8, 15, 16, 24, 31, 32, 52, 53, 54, 62, 63, 64, 65, 127, 128]
INT_RANGES = {
    "si": (-2 ** 63, 2 ** 63 - 1), "i64": (-2 ** 63, 2 ** 63 - 1), "i32": (-2 ** 31, 2 ** 31 - 1),
    "i16": (-2 ** 15, 2 ** 15 - 1), "i8": (-128, 127), "u64": (0, 2 ** 64 - 1), "u32": (0, 2 ** 32 - 1),
    "u16": (0, 2 ** 16 - 1), "u8": (0, 255), "ui": (0, 2 ** 64 - 1),
}
NUM_KINDS = ["si", "bi", "f", "bf", "f64", "f32", "i64", "i32", "i16", "i8", "u64", "u32", "u16", "u8", "ui"]
ORDER_KINDS = ["si", "bi", "f", "bf"]     # kinds that compare across kinds with < <= > >= <=>


def f64_bits(x):
    return struct.unpack("<Q", struct.pack("<d", x))[0]


def bits_f64(b):
    return struct.unpack("<d", struct.pack("<Q", b))[0]


def f32_bits(x):
    return struct.unpack("<I", struct.pack("<f", x))[0]


def bits_f32(b):
    return struct.unpack("<f", struct.pack("<I", b))[0]


def to_f32(x):
    """round a python float / int to float32 (round-to-nearest-even), overflow -> inf"""
    try:
        return bits_f32(f32_bits(float(x)))
    except OverflowError:
        return math.inf if x > 0 else -math.inf


def int_to_f64(i):
    try:
        return float(i)          # correctly rounded (nearest-even)
    except OverflowError:
        return math.inf if i > 0 else -math.inf


def int_to_f32(i):
    """single rounding int -> float32"""
    if i == 0:
        return 0.0
    s, a = (-1 if i < 0 else 1), abs(i)
    n = a.bit_length()
    if n > 24:
        sh = n - 24
        q, r = a >> sh, a & ((1 << sh) - 1)
        half = 1 << (sh - 1)
        if r > half or (r == half and (q & 1)):
            q += 1
        a = q << sh
    try:
        return to_f32(s * float(a)) if a < 2 ** 128 else s * math.inf
    except OverflowError:
        return s * math.inf


def bf_atom(prec, frac_or_special, neg_zero=False):
    """BigFloat operand with canonical (odd) mantissa; mantissa must fit prec bits"""
    if frac_or_special == "nan":
        return "bf:nan"
    if frac_or_special == "+inf":
        return "bf:+inf"
    if frac_or_special == "-inf":
        return "bf:-inf"
    q = Fraction(frac_or_special)
    if q == 0:
        return f"bf:{prec}:{'-' if neg_zero else '+'}:0:0"
    sign = "-" if q < 0 else "+"
    q = abs(q)
    # q = m * 2^e with m odd; denominator must be a power of two
    d = q.denominator
    assert d & (d - 1) == 0
    m, e = q.numerator, -(d.bit_length() - 1)
    while m % 2 == 0:
        m //= 2
        e += 1
    prec = max(prec, m.bit_length())
    return f"bf:{prec}:{sign}:{m}:{e}"


def atom_value(a):
    """exact value of an operand: Fraction | 'nan' | '+inf' | '-inf' | None (not a number)"""
    if ":" not in a:
        return None
    k, body = a.split(":", 1)
    if k in INT_RANGES or k == "bi":
        return Fraction(int(body))
    if k in ("f", "f64", "f32"):
        x = bits_f64(int(body, 16)) if k != "f32" else bits_f32(int(body, 16))
        if math.isnan(x):
            return "nan"
        if math.isinf(x):
            return "+inf" if x > 0 else "-inf"
        return Fraction(x)
    if k == "bf":
        if body in ("nan", "+inf", "-inf"):
            return body
        prec, sign, m, e = body.split(":")
        v = Fraction(int(m)) * (Fraction(2) ** int(e))
        return -v if sign == "-" else v
    return None


def kind_of(a):
    if a.startswith("x:"):
        return a.split("|", 1)[1].split(" ", 1)[0]
    return a.split(":", 1)[0] if ":" in a else a


def is_num(a):
    return kind_of(a) in NUM_KINDS


def boundary_int(rng):
    r = rng.random()
    if r < 0.1:
        return rng.choice([0, 1, -1, 2, -2, 3, 10, -10, 100, 255, 256])
    k = rng.choice(KS)
    base = 2 ** k
    if r < 0.8:
        v = base + rng.choice([-2, -1, 0, 1, 2, 3])
    elif r < 0.9:
        v = base + rng.choice([1, -1]) * 2 ** rng.randint(0, max(0, k - 1)) + rng.choice([-1, 0, 1])
    else:
        v = rng.getrandbits(k + 1)
    return -v if rng.random() < 0.35 else v


def float_neighbours(rng, x):
    if math.isnan(x) or math.isinf(x):
        return x
    r = rng.random()
    if r < 0.5:
        return x
    if r < 0.75:
        return math.nextafter(x, math.inf)
    return math.nextafter(x, -math.inf)


SPECIAL_FLOATS = [0.0, -0.0, math.inf, -math.inf, math.nan, 5e-324, -5e-324, 2.2250738585072014e-308,
                  2.225073858507201e-308, 1.7976931348623157e308, -1.7976931348623157e308, 0.5, 1.5, -1.5, 0.1, 2.5,
                  1e300, 3.4028234663852886e38, 3.4028235677973366e38, 1.401298464324817e-45, 16777216.0, 16777217.0]


def render(rng, v, kind):
    """operand of `kind` whose value is v (Fraction) or the nearest the kind offers; None when impossible"""
    if kind in INT_RANGES:
        if v.denominator != 1:
            v = Fraction(int(v))
        lo, hi = INT_RANGES[kind]
        i = int(v)
        if not lo <= i <= hi:
            return None
        return f"{kind}:{i}"
    if kind == "bi":
        i = int(v)
        if -2 ** 63 <= i < 2 ** 63:
            return None     # normalised Ints only (representation invariants are C06's)
        return f"bi:{i}"
    if kind in ("f", "f64"):
        try:
            x = v.numerator / v.denominator
        except OverflowError:
            x = math.inf if v > 0 else -math.inf
        x = float_neighbours(rng, x)
        return f"{kind}:{f64_bits(x):016x}"
    if kind == "f32":
        try:
            x = to_f32(v.numerator / v.denominator)
        except OverflowError:
            x = math.inf if v > 0 else -math.inf
        if rng.random() < 0.4 and not math.isinf(x):
            b = f32_bits(x)
            b2 = b + rng.choice([-1, 1])
            if 0 <= b2 < 2 ** 32 and not math.isnan(bits_f32(b2)):
                x = bits_f32(b2)
        return f"f32:{f32_bits(x):08x}"
    if kind == "bf":
        d = v.denominator
        if d & (d - 1):
            v = Fraction(v.numerator // v.denominator)
        return bf_atom(rng.choice([53, 53, 64, 100, 200]), v)
    raise ValueError(kind)


def special(rng, kind):
    if kind in ("f", "f64"):
        return f"{kind}:{f64_bits(rng.choice(SPECIAL_FLOATS)):016x}"
    if kind == "f32":
        return f"f32:{f32_bits(to_f32(rng.choice(SPECIAL_FLOATS))):08x}"
    if kind == "bf":
        c = rng.choice(["nan", "+inf", "-inf", "z", "-z", "frac", "tiny"])
        if c == "z":
            return bf_atom(rng.choice([53, 64, 100]), 0)
        if c == "-z":
            return bf_atom(rng.choice([53, 64, 100]), 0, neg_zero=True)
        if c == "frac":
            return bf_atom(rng.choice([53, 64, 100]), Fraction(rng.choice([1, 3, 5, -1, -3]), 2 ** rng.randint(1, 70)))
        if c == "tiny":
            return bf_atom(53, Fraction(1, 2 ** rng.choice([1074, 1075, 149, 150, 2000])))
        return bf_atom(53, c)
    return None


def gen_num_group(rng, n, kinds=None):
    """n operands around one base value, kinds drawn from `kinds` (default: all numeric kinds)"""
    kinds = kinds or NUM_KINDS
    base = boundary_int(rng)
    out = []
    tries = 0
    while len(out) < n and tries < 200:
        tries += 1
        kind = rng.choice(kinds)
        if rng.random() < 0.12:
            a = special(rng, kind)
        else:
            r = rng.random()
            if r < 0.55:
                v = Fraction(base)
            elif r < 0.85:
                v = Fraction(base + rng.choice([-2, -1, 1, 2]))
            elif r < 0.93:
                v = Fraction(base) + Fraction(rng.choice([1, -1, 3]), rng.choice([2, 4, 1024]))
            else:
                v = Fraction(boundary_int(rng))
            a = render(rng, v, kind)
        if a is not None:
            out.append(a)
    return out


# ---------------------------------------------------------------- oracle (model-free)

def parse_rel(ans, n):
    """-> (matrix of 8-char codes, hash codes, hasheq dict, after list) or None"""
    if not ans.startswith("ok "):
        return None
    parts = ans[3:].split(" | ")
    if len(parts) != 3:
        return None
    codes = parts[0].split(" ")
    if len(codes) != n * n:
        return None
    M = [[codes[i * n + j] for j in range(n)] for i in range(n)]
    h = parts[1].split(" ")
    hc = h[0]
    heq = {}
    k = 1
    for i in range(n):
        for j in range(i + 1, n):
            heq[(i, j)] = heq[(j, i)] = h[k] == "y"
            k += 1
    return M, hc, heq, parts[2].split(" ")


CMP, LT, LE, GT, GE, LAX, EQ, SEQ = range(8)
NAMES = ["<=>", "<", "<=", ">", ">=", "=~", "==", "==="]


def law_failures(ops, ans):
    """All law violations visible in one `rel` answer. Each is (law, text)."""
    n = len(ops)
    p = parse_rel(ans, n)
    if p is None:
        return [("answer", f"unexpected answer {ans!r}")]
    M, hc, heq, after = p
    out = []
    vals = [atom_value(o) for o in ops]
    nan = [v == "nan" for v in vals]
    num = [is_num(o) for o in ops]

    def show(i):
        return ops[i] if not ops[i].startswith("x:") else ops[i].split("|", 1)[1]

    for i in range(n):
        if after[i] != "same":
            out.append(("mutation", f"operand {show(i)} changed by a comparison: {after[i]}"))
        for j in range(n):
            if "P" in M[i][j] or "?" in M[i][j]:
                out.append(("panic", f"{show(i)} vs {show(j)}: codes {M[i][j]} (P = Go panic)"))
    for i in range(n):
        # reflexivity
        if not nan[i] and M[i][i][EQ] != "t":
            out.append(("eq-refl", f"{show(i)} == itself gives {M[i][i][EQ]}"))
        for j in range(n):
            if i == j:
                continue
            a, b = M[i][j], M[j][i]
            # == symmetric; == implies equal hash; == implies =~ ; === implies ==
            if i < j and a[EQ] != b[EQ]:
                out.append(("eq-symm", f"{show(i)} == {show(j)} is {a[EQ]} but the converse is {b[EQ]}"))
            if a[EQ] == "t" and not heq[(i, j)] and not (nan[i] or nan[j]):
                out.append(("eq-hash", f"{show(i)} == {show(j)} but their hashes differ (hash codes {hc})"))
            if a[SEQ] == "t" and a[EQ] != "t" and not (nan[i] or nan[j]):
                out.append(("seq-eq", f"{show(i)} === {show(j)} but == gives {a[EQ]}"))
            if nan[i] or nan[j]:
                continue
            ordered = num[i] and num[j] or kind_of(ops[i]) in ("s", "c") and kind_of(ops[j]) in ("s", "c")
            if not ordered:
                continue
            if a[EQ] == "t" and a[LAX] != "t":
                out.append(("eq-lax", f"{show(i)} == {show(j)} but =~ gives {a[LAX]}"))
            if i < j and a[LAX] != b[LAX]:
                out.append(("lax-symm", f"{show(i)} =~ {show(j)} is {a[LAX]} but the converse is {b[LAX]}"))
            # the five ordering operators are defined on the same pairs, in both directions
            defd = [c in "<=>n" if k == CMP else c in "tf" for k, c in enumerate(a[:5])]
            if any(defd) and not all(defd):
                out.append(("acceptance", f"{show(i)} vs {show(j)}: ordering operators partly defined: {a[:5]}"))
            if i < j and all(defd) != all(c in "<=>n" if k == CMP else c in "tf" for k, c in enumerate(b[:5])):
                out.append(("acceptance-symm", f"{show(i)} vs {show(j)}: {a[:5]} but converse {b[:5]}"))
            if not all(defd):
                continue
            c = a[CMP]
            if c == "n":
                out.append(("cmp-nil", f"{show(i)} <=> {show(j)} is nil for non-NaN operands"))
                continue
            want = {LT: c == "<", LE: c in "<=", GT: c == ">", GE: c in ">=", LAX: c == "="}
            for k, w in want.items():
                if a[k] in "tf" and (a[k] == "t") != w:
                    out.append(("agree", f"{show(i)} <=> {show(j)} is '{c}' but {NAMES[k]} gives {a[k]}"))
            if b[CMP] in "<=>" and i < j:
                conv = {"<": ">", ">": "<", "=": "="}[c]
                if b[CMP] != conv:
                    out.append(("converse", f"{show(i)} <=> {show(j)} is '{c}' but the converse is '{b[CMP]}'"))
    # transitivity over triples
    if n == 3:
        import itertools
        for i, j, k in itertools.permutations(range(3)):
            if nan[i] or nan[j] or nan[k]:
                continue
            ab, bc, ac = M[i][j], M[j][k], M[i][k]
            for (x, y, z, nm) in [(LT, LT, LT, "< <"), (LE, LE, LE, "<= <="), (LAX, LAX, LAX, "=~ =~"),
                                  (LT, LAX, LT, "< =~"), (LAX, LT, LT, "=~ <"), (LT, LE, LT, "< <="),
                                  (EQ, EQ, EQ, "== ==")]:
                if ab[x] == "t" and bc[y] == "t" and ac[z] == "f":
                    out.append(("trans", f"{show(i)} {NAMES[x]} {show(j)} and {show(j)} {NAMES[y]} {show(k)} "
                                         f"but not {show(i)} {NAMES[z]} {show(k)}"))
    return out


def oracle(line, ans):
    f = line.split("\t")
    if f[1] == "rel":
        fails = law_failures(f[2:], ans)
        if fails:
            return "; ".join(f"[{l}] {t}" for l, t in fails[:3])
        return None
    if f[1] == "hashis":
        # model-free part: nothing (the byte recipe is the model's); `ok f` disagrees with the model's `ok t`
        return None
    return None


def run(ctx):
    ctx.rule = "todo"
    raise NotImplementedError
