"""C18 — Equality, hashing and ordering are mutually consistent."""
import json
import math
import struct
from fractions import Fraction

import vlib

META = {
    "property_id": "C18",
    "technique": "Lean 4 proof over a model of the numeric comparison/equality/hash dispatch tables (exact F64 decoding, "
                 "denotation in Q) + differential correspondence + model-free algebraic-law search on the implementation",
    "level_text": "Kernel-checked: every ordering/equality operator of the model agrees with an exact rational denotation "
                  "(lt_iff_val, le_iff_val, cmp_iff_val, laxeq_iff_val and the order-theoretic corollaries), == is "
                  "symmetric over all kind pairs, a == b implies equal hash byte streams (xxhash uninterpreted). The model "
                  "is tied to value/*.go and vm/value.go by differential execution over boundary pairs/triples of all "
                  "numeric kinds and by checking Hash(v) = xxhash64(model bytes). Partial: strings/chars/symbols/"
                  "collections/dates by structural model + correspondence.",
    "level_note": "Trusted: Lean kernel; the hand-written model (64-bit build only: Int64/UInt64/Float64 inline); xxhash as an "
                  "uninterpreted function of the byte stream; Go float64/float32 comparison and int->float conversion are "
                  "IEEE round-to-nearest-even (exercised bit-for-bit by the correspondence); harness.",
    "design_ref": "DESIGN.md §7 C18",
}

# ---------------------------------------------------------------- values

KS = [7, 8, 15, 16, 24, 31, 32, 52, 53, 54, 62, 63, 64, 65, 127, 128]
INT_RANGES = {
    "si": (-2 ** 63, 2 ** 63 - 1), "i64": (-2 ** 63, 2 ** 63 - 1), "i32": (-2 ** 31, 2 ** 31 - 1),
    "i16": (-2 ** 15, 2 ** 15 - 1), "i8": (-128, 127), "u64": (0, 2 ** 64 - 1), "u32": (0, 2 ** 32 - 1),
    "u16": (0, 2 ** 16 - 1), "u8": (0, 255), "ui": (0, 2 ** 64 - 1),
}
NUM_KINDS = ["si", "bi", "f", "bf", "f64", "f32", "i64", "i32", "i16", "i8", "u64", "u32", "u16", "u8", "ui"]
ORDER_KINDS = ["si", "bi", "f", "bf"]     # kinds that compare across kinds with < <= > >= <=>


def f64_bits(x):
    return struct.unpack("<Q", struct.pack("<d", x))[0]


def bits_f64(b):
    return struct.unpack("<d", struct.pack("<Q", b))[0]


def f32_bits(x):
    return struct.unpack("<I", struct.pack("<f", x))[0]


def bits_f32(b):
    return struct.unpack("<f", struct.pack("<I", b))[0]


def to_f32(x):
    """round a python float / int to float32 (round-to-nearest-even), overflow -> inf"""
    try:
        return bits_f32(f32_bits(float(x)))
    except OverflowError:
        return math.inf if x > 0 else -math.inf


def int_to_f64(i):
    try:
        return float(i)          # correctly rounded (nearest-even)
    except OverflowError:
        return math.inf if i > 0 else -math.inf


def int_to_f32(i):
    """single rounding int -> float32"""
    if i == 0:
        return 0.0
    s, a = (-1 if i < 0 else 1), abs(i)
    n = a.bit_length()
    if n > 24:
        sh = n - 24
        q, r = a >> sh, a & ((1 << sh) - 1)
        half = 1 << (sh - 1)
        if r > half or (r == half and (q & 1)):
            q += 1
        a = q << sh
    try:
        return to_f32(s * float(a)) if a < 2 ** 128 else s * math.inf
    except OverflowError:
        return s * math.inf


def bf_atom(prec, frac_or_special, neg_zero=False):
    """BigFloat operand with canonical (odd) mantissa; mantissa must fit prec bits"""
    if frac_or_special == "nan":
        return "bf:nan"
    if frac_or_special == "+inf":
        return "bf:+inf"
    if frac_or_special == "-inf":
        return "bf:-inf"
    q = Fraction(frac_or_special)
    if q == 0:
        return f"bf:{prec}:{'-' if neg_zero else '+'}:0:0"
    sign = "-" if q < 0 else "+"
    q = abs(q)
    # q = m * 2^e with m odd; denominator must be a power of two
    d = q.denominator
    assert d & (d - 1) == 0
    m, e = q.numerator, -(d.bit_length() - 1)
    while m % 2 == 0:
        m //= 2
        e += 1
    prec = max(prec, m.bit_length())
    return f"bf:{prec}:{sign}:{m}:{e}"


def atom_value(a):
    """exact value of an operand: Fraction | 'nan' | '+inf' | '-inf' | None (not a number)"""
    if ":" not in a:
        return None
    k, body = a.split(":", 1)
    if k in INT_RANGES or k == "bi":
        return Fraction(int(body))
    if k in ("f", "f64", "f32"):
        x = bits_f64(int(body, 16)) if k != "f32" else bits_f32(int(body, 16))
        if math.isnan(x):
            return "nan"
        if math.isinf(x):
            return "+inf" if x > 0 else "-inf"
        return Fraction(x)
    if k == "bf":
        if body in ("nan", "+inf", "-inf"):
            return body
        prec, sign, m, e = body.split(":")
        v = Fraction(int(m)) * (Fraction(2) ** int(e))
        return -v if sign == "-" else v
    return None


def kind_of(a):
    if a.startswith("x:"):
        return a.split("|", 1)[1].split(" ", 1)[0]
    return a.split(":", 1)[0] if ":" in a else a


def is_num(a):
    return kind_of(a) in NUM_KINDS


def boundary_int(rng):
    r = rng.random()
    if r < 0.16:
        return rng.choice([0, 1, -1, 2, -2, 3, 10, -10, 100, 255, 256])
    k = rng.choice(KS)
    base = 2 ** k
    if r < 0.8:
        v = base + rng.choice([-2, -1, 0, 1, 2, 3])
    elif r < 0.9:
        v = base + rng.choice([1, -1]) * 2 ** rng.randint(0, max(0, k - 1)) + rng.choice([-1, 0, 1])
    else:
        v = rng.getrandbits(k + 1)
    return -v if rng.random() < 0.35 else v


def float_neighbours(rng, x):
    if math.isnan(x) or math.isinf(x):
        return x
    r = rng.random()
    if r < 0.5:
        return x
    if r < 0.75:
        return math.nextafter(x, math.inf)
    return math.nextafter(x, -math.inf)


SPECIAL_FLOATS = [0.0, -0.0, math.inf, -math.inf, math.nan, 5e-324, -5e-324, 2.2250738585072014e-308,
                  2.225073858507201e-308, 1.7976931348623157e308, -1.7976931348623157e308, 0.5, 1.5, -1.5, 0.1, 2.5,
                  1e300, 3.4028234663852886e38, 3.4028235677973366e38, 1.401298464324817e-45, 16777216.0, 16777217.0]


def render(rng, v, kind):
    """operand of `kind` whose value is v (Fraction) or the nearest the kind offers; None when impossible"""
    if kind in INT_RANGES:
        if v.denominator != 1:
            v = Fraction(int(v))
        lo, hi = INT_RANGES[kind]
        i = int(v)
        if not lo <= i <= hi:
            return None
        return f"{kind}:{i}"
    if kind == "bi":
        i = int(v)
        if -2 ** 63 <= i < 2 ** 63:
            return None     # normalised Ints only (representation invariants are C06's)
        return f"bi:{i}"
    if kind in ("f", "f64"):
        try:
            x = v.numerator / v.denominator
        except OverflowError:
            x = math.inf if v > 0 else -math.inf
        x = float_neighbours(rng, x)
        if x == 0.0 and rng.random() < 0.5:
            x = -x                      # both zeros
        return f"{kind}:{f64_bits(x):016x}"
    if kind == "f32":
        try:
            x = to_f32(v.numerator / v.denominator)
        except OverflowError:
            x = math.inf if v > 0 else -math.inf
        if rng.random() < 0.4 and not math.isinf(x):
            b = f32_bits(x)
            b2 = b + rng.choice([-1, 1])
            if 0 <= b2 < 2 ** 32 and not math.isnan(bits_f32(b2)):
                x = bits_f32(b2)
        if x == 0.0 and rng.random() < 0.5:
            x = -x
        return f"f32:{f32_bits(x):08x}"
    if kind == "bf":
        d = v.denominator
        if d & (d - 1):
            v = Fraction(v.numerator // v.denominator)
        return bf_atom(rng.choice([53, 53, 64, 100, 200]), v, neg_zero=rng.random() < 0.5)
    raise ValueError(kind)


def special(rng, kind):
    if kind in ("f", "f64"):
        return f"{kind}:{f64_bits(rng.choice(SPECIAL_FLOATS)):016x}"
    if kind == "f32":
        return f"f32:{f32_bits(to_f32(rng.choice(SPECIAL_FLOATS))):08x}"
    if kind == "bf":
        c = rng.choice(["nan", "+inf", "-inf", "z", "-z", "frac", "tiny"])
        if c == "z":
            return bf_atom(rng.choice([53, 64, 100]), 0)
        if c == "-z":
            return bf_atom(rng.choice([53, 64, 100]), 0, neg_zero=True)
        if c == "frac":
            return bf_atom(rng.choice([53, 64, 100]), Fraction(rng.choice([1, 3, 5, -1, -3]), 2 ** rng.randint(1, 70)))
        if c == "tiny":
            return bf_atom(53, Fraction(1, 2 ** rng.choice([1074, 1075, 149, 150, 2000])))
        return bf_atom(53, c)
    return None


def gen_num_group(rng, n, kinds=None):
    """n operands around one base value, kinds drawn from `kinds` (default: all numeric kinds)"""
    kinds = kinds or NUM_KINDS
    base = boundary_int(rng)
    out = []
    tries = 0
    while len(out) < n and tries < 200:
        tries += 1
        kind = rng.choice(kinds)
        if rng.random() < 0.12:
            a = special(rng, kind)
        else:
            r = rng.random()
            if r < 0.55:
                v = Fraction(base)
            elif r < 0.85:
                v = Fraction(base + rng.choice([-2, -1, 1, 2]))
            elif r < 0.90:
                v = Fraction(base) + Fraction(rng.choice([1, -1, 3]), rng.choice([2, 4, 1024]))
            elif r < 0.95:
                # wrap-around aliases: values that coincide after a conversion to a narrower/other-signed integer
                v = Fraction(base + rng.choice([1, -1]) * 2 ** rng.choice([8, 16, 32, 64, 64, 64]))
            else:
                v = Fraction(boundary_int(rng))
            a = render(rng, v, kind)
        if a is not None:
            out.append(a)
    return out


# ---------------------------------------------------------------- oracle (model-free)

def parse_rel(ans, n):
    """-> (matrix of 8-char codes, hash codes, hasheq dict, after list) or None"""
    if not ans.startswith("ok "):
        return None
    parts = ans[3:].split(" | ")
    if len(parts) != 3:
        return None
    codes = parts[0].split(" ")
    if len(codes) != n * n:
        return None
    M = [[codes[i * n + j] for j in range(n)] for i in range(n)]
    h = parts[1].split(" ")
    hc = h[0]
    heq = {}
    k = 1
    for i in range(n):
        for j in range(i + 1, n):
            heq[(i, j)] = heq[(j, i)] = h[k] == "y"
            k += 1
    return M, hc, heq, parts[2].split(" ")


CMP, LT, LE, GT, GE, LAX, EQ, SEQ = range(8)
NAMES = ["<=>", "<", "<=", ">", ">=", "=~", "==", "==="]


def law_failures(ops, ans):
    """All law violations visible in one `rel` answer. Each is (law, text)."""
    n = len(ops)
    p = parse_rel(ans, n)
    if p is None:
        return [("answer", f"unexpected answer {ans!r}", tuple(range(n)))]
    M, hc, heq, after = p
    out = []
    vals = [atom_value(o) for o in ops]
    nan = [v == "nan" for v in vals]
    num = [is_num(o) for o in ops]

    def show(i):
        return ops[i] if not ops[i].startswith("x:") else ops[i].split("|", 1)[1]

    for i in range(n):
        if after[i] != "same":
            out.append(("mutation", f"operand {show(i)} changed by a comparison: {after[i]}", (i,)))
        for j in range(n):
            if "P" in M[i][j] or "?" in M[i][j]:
                out.append(("panic", f"{show(i)} vs {show(j)}: codes {M[i][j]} (P = Go panic)", (i, j)))
    for i in range(n):
        # reflexivity
        if not nan[i] and M[i][i][EQ] != "t":
            out.append(("eq-refl", f"{show(i)} == itself gives {M[i][i][EQ]}", (i,)))
        for j in range(n):
            if i == j:
                continue
            a, b = M[i][j], M[j][i]
            # == symmetric; == implies equal hash; == implies =~ ; === implies ==
            if i < j and a[EQ] != b[EQ]:
                out.append(("eq-symm", f"{show(i)} == {show(j)} is {a[EQ]} but the converse is {b[EQ]}", (i, j)))
            if a[EQ] == "t" and not heq[(i, j)] and not (nan[i] or nan[j]):
                out.append(("eq-hash", f"{show(i)} == {show(j)} but their hashes differ (hash codes {hc})", (i, j)))
            if a[SEQ] == "t" and a[EQ] != "t" and not (nan[i] or nan[j]):
                out.append(("seq-eq", f"{show(i)} === {show(j)} but == gives {a[EQ]}", (i, j)))
            if nan[i] or nan[j]:
                continue
            ordered = num[i] and num[j] or kind_of(ops[i]) in ("s", "c") and kind_of(ops[j]) in ("s", "c")
            if not ordered:
                continue
            if a[EQ] == "t" and a[LAX] != "t":
                out.append(("eq-lax", f"{show(i)} == {show(j)} but =~ gives {a[LAX]}", (i, j)))
            if i < j and a[LAX] != b[LAX]:
                out.append(("lax-symm", f"{show(i)} =~ {show(j)} is {a[LAX]} but the converse is {b[LAX]}", (i, j)))
            # the five ordering operators are defined on the same pairs, in both directions
            defd = [c in "<=>n" if k == CMP else c in "tf" for k, c in enumerate(a[:5])]
            if any(defd) and not all(defd):
                out.append(("acceptance", f"{show(i)} vs {show(j)}: ordering operators partly defined: {a[:5]}", (i, j)))
            if i < j and all(defd) != all(c in "<=>n" if k == CMP else c in "tf" for k, c in enumerate(b[:5])):
                out.append(("acceptance-symm", f"{show(i)} vs {show(j)}: {a[:5]} but converse {b[:5]}", (i, j)))
            if not all(defd):
                continue
            c = a[CMP]
            if c == "n":
                out.append(("cmp-nil", f"{show(i)} <=> {show(j)} is nil for non-NaN operands", (i, j)))
                continue
            want = {LT: c == "<", LE: c in "<=", GT: c == ">", GE: c in ">=", LAX: c == "="}
            for k, w in want.items():
                if a[k] in "tf" and (a[k] == "t") != w:
                    out.append(("agree", f"{show(i)} <=> {show(j)} is '{c}' but {NAMES[k]} gives {a[k]}", (i, j)))
            if b[CMP] in "<=>" and i < j:
                conv = {"<": ">", ">": "<", "=": "="}[c]
                if b[CMP] != conv:
                    out.append(("converse", f"{show(i)} <=> {show(j)} is '{c}' but the converse is '{b[CMP]}'", (i, j)))
    # transitivity over triples
    if n == 3:
        import itertools
        for i, j, k in itertools.permutations(range(3)):
            if nan[i] or nan[j] or nan[k]:
                continue
            ab, bc, ac = M[i][j], M[j][k], M[i][k]
            for (x, y, z, nm) in [(LT, LT, LT, "< <"), (LE, LE, LE, "<= <="), (LAX, LAX, LAX, "=~ =~"),
                                  (LT, LAX, LT, "< =~"), (LAX, LT, LT, "=~ <"), (LT, LE, LT, "< <="),
                                  (EQ, EQ, EQ, "== ==")]:
                if ab[x] == "t" and bc[y] == "t" and ac[z] == "f":
                    out.append(("trans", f"{show(i)} {NAMES[x]} {show(j)} and {show(j)} {NAMES[y]} {show(k)} "
                                         f"but not {show(i)} {NAMES[z]} {show(k)}", (i, j, k)))
    return out


def oracle(line, ans):
    f = line.split("\t")
    if f[1] == "rel":
        fails = law_failures(f[2:], ans)
        if fails:
            return "; ".join(f"[{l}] {t}" for l, t, _ in fails[:3])
        return None
    if f[1] == "hashis":
        # model-free part: nothing (the byte recipe is the model's); `ok f` disagrees with the model's `ok t`
        return None
    return None


# ---------------------------------------------------------------- strings, chars, compound values

STRS = [b"", b"a", b"b", b"ab", b"a\x00", "é".encode(), b"\xff", "�".encode(), b"z", "€".encode(),
        "\U0001f600".encode(), b"A", b"aa", b"\xc3", b"~"]
CHARS = [97, 98, 0, 233, 8364, 128512, 65533, 122, 65, 126, 127, 128, 2047, 2048, 65535, 65536, 1114111]


def gen_text_group(rng, n):
    out = []
    for _ in range(n):
        r = rng.random()
        if r < 0.5:
            out.append("s:" + rng.choice(STRS).hex())
        elif r < 0.9:
            out.append("c:%d" % rng.choice(CHARS))
        elif r < 0.95:
            out.append("y:" + rng.choice([b"a", b"b", b"ab", b""]).hex())
        else:
            out.append(rng.choice(["nil", "true", "false", "si:97", "f:3ff0000000000000"]))
    # make equal representations likely: a one-char string next to its char
    if rng.random() < 0.5 and n >= 2:
        c = rng.choice(CHARS)
        out[0] = "c:%d" % c
        out[1] = "s:" + chr(c).encode("utf-8", "surrogatepass").hex()
    return out


KEY_ATOMS = ['1', '2', '-1', '0', '1.0', '2.5', '0.0', '-0.0', '1i8', '1u8', '1.0f32', '1.0f64', '1.0bf',
             '1.00000000000000000000bf', '9007199254740993', '9007199254740992.0', '2**64', '"a"', '"b"', '""', '"ab"',
             '`a`', '`b`', ':a', ':b', 'nil', 'true', 'false', '"\\xff"', '255u8', '1u16', '-1i64', '1.5f32']
RANGE_ENDS = [('1', '5'), ('1', '6'), ('2', '5'), ('1.0', '5.0'), ('"a"', '"c"'), ('1', '5.0'), ('0.0', '5'), ('-0.0', '5')]


def gen_src(rng, d=0):
    """Elk source of a value; map/set keys are atoms (compound keys hash by identity: a known finding)"""
    r = rng.random()
    if d >= 2 or r < 0.35:
        return rng.choice(KEY_ATOMS)
    k = rng.choice(['list', 'tuple', 'map', 'rec', 'set', 'pair', 'crange', 'orange', 'lorange', 'rorange', 'ecrange',
                    'eorange', 'bcrange', 'borange', 'date'])
    n = rng.choice([0, 1, 2, 2, 3])
    if k == 'list':
        return '[' + ', '.join(gen_src(rng, d + 1) for _ in range(n)) + ']'
    if k == 'tuple':
        return '%[' + ', '.join(gen_src(rng, d + 1) for _ in range(n)) + ']'
    if k == 'set':
        return '^[' + ', '.join(rng.choice(KEY_ATOMS) for _ in range(n)) + ']'
    if k == 'map':
        return '{ ' + ', '.join(rng.choice(KEY_ATOMS) + ' => ' + gen_src(rng, d + 1) for _ in range(n)) + ' }' if n else '{}'
    if k == 'rec':
        return '%{ ' + ', '.join(rng.choice(KEY_ATOMS) + ' => ' + gen_src(rng, d + 1) for _ in range(n)) + ' }' if n else '%{}'
    if k == 'pair':
        return 'Pair(' + gen_src(rng, d + 1) + ', ' + gen_src(rng, d + 1) + ')'
    if k == 'date':
        return 'Date(%d, %d, %d)' % (rng.choice([2020, 2021, -5, 0, 4000000]), rng.choice([1, 2, 12]), rng.choice([1, 28, 31]))
    a, b = rng.choice(RANGE_ENDS)
    return {'crange': f'({a}...{b})', 'orange': f'({a}<.<{b})', 'lorange': f'({a}<..{b})', 'rorange': f'({a}..<{b})',
            'ecrange': f'({a}...)', 'eorange': f'({a}<..)', 'bcrange': f'(...{b})', 'borange': f'(..<{b})'}[k]


MINIMAL_SRC = {"list": "[]", "tuple": "%[]", "set": "^[]", "map": "{}", "rec": "%{}", "pair": "Pair(nil, nil)",
               "crange": "(1...2)", "orange": "(1<.<2)", "lorange": "(1<..2)", "rorange": "(1..<2)", "ecrange": "(1...)",
               "eorange": "(1<..)", "bcrange": "(...2)", "borange": "(..<2)", "date": "Date(1, 1, 1)"}


def describe(srcs):
    """structure of each Elk source as the implementation evaluates it (impl-only pre-pass)"""
    ans = vlib.run_impl(["num\tdescribe\t" + s.encode().hex() for s in srcs])
    return {s: a[3:] for s, a in zip(srcs, ans) if a.startswith("ok ")}


def xop(src, structure):
    return "x:" + src.encode().hex() + "|" + structure


def gen_compound_lines(rng, n):
    srcs = set()
    while len(srcs) < max(8, n // 2):
        srcs.add(gen_src(rng))
    srcs = sorted(srcs) + sorted(MINIMAL_SRC.values())
    desc = describe(srcs)
    ok = sorted(desc.items())
    by_head = {}
    for it in ok:
        by_head.setdefault(it[1].split(" ")[0].split(":")[0], []).append(it)
    lines = []
    for i in range(n):
        a = rng.choice(ok)
        r = rng.random()
        if r < 0.35:
            b = a
        elif r < 0.75:
            b = rng.choice(by_head[a[1].split(" ")[0].split(":")[0]])
        else:
            b = rng.choice(ok)
        ops = [a, b]
        if i % 2:
            ops.append(rng.choice([a, b, rng.choice(ok)]))
        lines.append("num\trel\t" + "\t".join(xop(*x) for x in ops))
    return lines, len(srcs) - len(ok)


# ---------------------------------------------------------------- minimiser

def _int_candidates(v):
    c = [0, 1, -1, 2 ** 53, 2 ** 53 + 1, -(2 ** 53) - 1, 2 ** 63, 2 ** 63 - 1, -(2 ** 63), 2 ** 64, 2 ** 64 - 1, 2 ** 24 + 1]
    c += [v // 2, v - 1 if v > 0 else v + 1]
    return sorted(set(c), key=abs)


def shrink_candidates(op):
    """simpler operands of the same kind, simplest first"""
    if op.startswith("x:"):
        head = kind_of(op)
        src = MINIMAL_SRC.get(head)
        if src is None:
            return []
        d = describe([src])
        return [xop(src, d[src])] if src in d and xop(src, d[src]) != op else []
    k = kind_of(op)
    body = op.split(":", 1)[1] if ":" in op else ""
    out = []
    if k in INT_RANGES or k == "bi":
        v = int(body)
        for c in _int_candidates(v):
            if abs(c) < abs(v):
                if k == "bi" and -2 ** 63 <= c < 2 ** 63:
                    continue
                if k in INT_RANGES and not INT_RANGES[k][0] <= c <= INT_RANGES[k][1]:
                    continue
                out.append(f"{k}:{c}")
    elif k in ("f", "f64"):
        x = bits_f64(int(body, 16))
        for c in [0.0, 1.0, 2.0 ** 53, 2.0 ** 63, 2.0 ** 64, float(int(x)) if math.isfinite(x) else 0.0]:
            if f64_bits(c) != int(body, 16) and (not math.isfinite(x) or abs(c) <= abs(x)):
                out.append(f"{k}:{f64_bits(c):016x}")
    elif k == "f32":
        x = bits_f32(int(body, 16))
        for c in [0.0, 1.0, 2.0 ** 24, 2.0 ** 63]:
            if f32_bits(c) != int(body, 16) and (not math.isfinite(x) or abs(c) <= abs(x)):
                out.append(f"f32:{f32_bits(c):08x}")
    elif k == "bf" and body.count(":") == 3:
        prec, sign, m, e = body.split(":")
        v = atom_value(op)
        for c in [Fraction(0), Fraction(1), Fraction(2 ** 53), Fraction(2 ** 63)]:
            if abs(c) < abs(v):
                out.append(bf_atom(53, c))
        if int(prec) != 53 and int(m).bit_length() <= 53:
            out.append(f"bf:53:{sign}:{m}:{e}")
    elif k == "s" and body:
        out += ["s:", "s:61"]
    elif k == "c" and body != "97":
        out.append("c:97")
    return [o for o in out if o != op]


def first_failure(line, ans):
    """(law, text, involved operand indices) of the first law failure on this line, or None"""
    f = line.split("\t")
    if f[1] != "rel":
        return None
    fails = law_failures(f[2:], ans)
    return fails[0] if fails else None


def minimise(line, still, involved=None, budget=40):
    f = line.split("\t")
    if f[1] != "rel":
        return line
    ops = f[2:]
    mk = lambda o: "num\trel\t" + "\t".join(o)
    # the operands the failure mentions
    if involved is not None and len(set(involved)) < len(ops):
        cand = [ops[i] for i in sorted(set(involved))]
        if still(mk(cand)):
            ops = cand
    # fewer operands
    changed = True
    while changed and len(ops) > 1:
        changed = False
        for i in range(len(ops)):
            cand = ops[:i] + ops[i + 1:]
            if still(mk(cand)):
                ops, changed = cand, True
                break
    # simpler operands: first every operand of one head kind at once (a value against its equal), then one by one
    for k in sorted(set(kind_of(o) for o in ops)):
        group = [o for o in ops if kind_of(o) == k]
        if len(group) > 1:
            for c in shrink_candidates(group[0]):
                budget -= 1
                cand = [c if kind_of(x) == k else x for x in ops]
                if still(mk(cand)):
                    ops = cand
                    break
    for i in range(len(ops)):
        progress = True
        while progress and budget > 0:
            progress = False
            for c in shrink_candidates(ops[i]):
                budget -= 1
                cand = ops[:i] + [c] + ops[i + 1:]
                if still(mk(cand)):
                    ops, progress = cand, True
                    break
                if budget <= 0:
                    break
    return mk(ops)


def correspond(ctx, lines, label, max_report=12):
    """vlib.correspond with three differences: a law failure that is a listed known finding does not break the
    correspondence obligation; a model/implementation disagreement is always reported on its own; failures are
    reported once per (law, kinds of the operands involved) signature."""
    impl = vlib.run_impl(lines)
    model = vlib.run_model(lines)
    ok = True
    reported = 0
    res = []
    seen = set()

    def both(l2):
        return vlib.run_impl([l2])[0], vlib.run_model([l2])[0]

    for ln, a, b in zip(lines, impl, model):
        res.append((ln, a, b))
        ctx.case(keyfn(ln), sample={"line": ln, "impl": a, "model": b})
        ctx.stat("answer:" + a.split(" ", 1)[0])
        if b.startswith("bad-"):
            raise RuntimeError(f"model rejected line {ln!r}: {b}")
        ff = first_failure(ln, a)
        if a == b and ff is None:
            continue
        ops = ln.split("\t")[2:]
        ctx.stat("failing-lines")
        if ff is not None:
            law, text, idxs = ff
            sig = (law, tuple(sorted(kind_of(ops[i]) for i in set(idxs))))
            ctx.stat("law-failure:" + law)
            if sig not in seen:
                direct = {"kind": "property-fails", "input": {"line": ln}, "detail": oracle(ln, a), "no_input": False}
                if ctx.match_finding(direct) is not None:
                    seen.add(sig)       # already the canonical input of a listed finding
                    ctx.violation("property-fails", {"line": ln}, oracle(ln, a))
                elif reported >= max_report:
                    ok = False          # unreported failures exist: never pass silently
                else:
                    seen.add(sig)

                    def still(l2):
                        x, y = both(l2)
                        f2 = first_failure(l2, x)
                        return f2 is not None and f2[0] == law and not y.startswith("bad-")
                    try:
                        line = minimise(ln, still, idxs)
                    except Exception:
                        line = ln
                    a2, b2 = both(line)
                    p2 = oracle(line, a2) or oracle(ln, a)
                    if ctx.violation("property-fails", {"line": line}, f"{p2}; impl={a2!r} model={b2!r}"):
                        ok = False
                        reported += 1
        if a != b:
            ok = False
            sig = ("disagree", tuple(sorted(set(kind_of(o) for o in ops))))
            if sig in seen or reported >= max_report:
                continue
            seen.add(sig)
            reported += 1

            def still2(l2):
                x, y = both(l2)
                return x != y and not y.startswith("bad-")
            try:
                line = minimise(ln, still2)
            except Exception:
                line = ln
            a2, b2 = both(line)
            if oracle(line, a2) is None:
                ctx.violation("model-impl-disagree", {"line": line, "correspondence": label},
                              f"impl={a2!r} model={b2!r}; the property oracle found no failure on this input",
                              no_input=True)
            else:
                ctx.violation("property-fails", {"line": line},
                              f"{oracle(line, a2)}; impl={a2!r} model={b2!r} (model and implementation disagree)")
    ctx.obligation(f"{label}: implementation = model on {len(lines)} generated lines", ok, "correspondence")
    return res


def keyfn(line):
    f = line.split("\t")
    return (f[1],) + tuple(f[2:])


def sweep_lines():
    """deterministic: every cell of the 15x15 dispatch tables with equal, adjacent and rounding-critical values"""
    out = []
    vals = [(Fraction(1), Fraction(1), Fraction(2)), (Fraction(0), Fraction(0), Fraction(-1)),
            (Fraction(2 ** 24 + 1), Fraction(2 ** 24), Fraction(2 ** 24 + 2)),
            (Fraction(2 ** 53 + 1), Fraction(2 ** 53), Fraction(2 ** 53 + 2)),
            (Fraction(2 ** 63), Fraction(2 ** 63 - 1), Fraction(2 ** 63 + 1)),
            (Fraction(-(2 ** 63)), Fraction(-(2 ** 63) - 1), Fraction(-(2 ** 63) + 1)),
            (Fraction(2 ** 64), Fraction(2 ** 64 - 1), Fraction(2 ** 64 + 1)), (Fraction(-1), Fraction(-1), Fraction(255))]

    class NoRng:                      # render() without neighbours / random precision
        def random(self):
            return 0.0

        def choice(self, xs):
            return xs[0]
    nr = NoRng()
    for k1 in NUM_KINDS:
        for k2 in NUM_KINDS:
            for (a, b, c) in vals:
                ops = [render(nr, a, k1), render(nr, b, k2), render(nr, c, k1)]
                ops = [o for o in ops if o is not None]
                if len(ops) >= 2:
                    out.append("num\trel\t" + "\t".join(ops))
    return sorted(set(out))


def run(ctx):
    ctx.rule = ("pairs/triples of values around one boundary integer (0, ±2^k±d for k in 7..128) rendered in randomly "
                "chosen numeric kinds (SmallInt/BigInt/Float/BigFloat/Float64/Float32/Int64..UInt8/UInt; float "
                "neighbours one ulp apart; ±0, ±inf, NaN, subnormals), String/Char groups, and compound values "
                "(lists, tuples, pairs, maps, records, sets, ranges, dates) evaluated from Elk source; "
                "distinct = distinct operand tuple; non-trivial = every line (each evaluates 8 relations on every "
                "ordered pair, the hash-equality pattern and operand integrity)")
    ctx.prove("ElkVerif.Props.C18")
    ctx.trusted += [
        "64-bit build: Int64/UInt64/Float64 are inline values; the reference-typed variants of a 32-bit build are not modelled",
        "Go primitives assumed exact on their domain: integer comparison, big.Int.Cmp, big.Float.Cmp after exact "
        "SetInt/SetInt64/SetUint64/SetFloat64, IEEE comparison of float64/float32, float64(float32), math.Trunc; "
        "each is exercised bit-for-bit by the correspondence run",
        "xxhash64 is an uninterpreted function of the byte stream (Hash(v) = xxhash64(model bytes) is checked per sampled value)",
        "symbol ids are in bijection with names (C26); object identity hashes (ObjectHash) never collide",
    ]
    ctx.assumptions += [
        "representation invariants of the operands (a BigInt does not fit a SmallInt, fixed-width values in range, "
        "chars are Unicode scalar values): the theorems are stated under `wf`",
    ]
    if ctx.replay:
        lines = [json.load(open(ctx.replay))["input"]["line"]]
        correspond(ctx, lines, "comparison/equality/hash tables")
        return
    rng = ctx.rng
    lines = vlib.corpus_lines("C18")
    lines += sweep_lines()
    n_num = ctx.n(8000, 400000)
    for i in range(n_num):
        ops = gen_num_group(rng, 3 if i % 2 else 2, ORDER_KINDS if i % 3 == 0 else None)
        lines.append("num\trel\t" + "\t".join(ops))
        for o in ops:
            ctx.stat("kind:" + kind_of(o))
    for i in range(ctx.n(1500, 40000)):
        lines.append("num\trel\t" + "\t".join(gen_text_group(rng, 3 if i % 2 else 2)))
    comp, undesc = gen_compound_lines(rng, ctx.n(500, 4000))
    ctx.stat("compound-sources-not-evaluable", undesc)
    lines += comp
    # hash recipe: Hash(v) must be xxhash64 of the model's byte stream
    atoms = sorted({o for l in lines for o in l.split("\t")[2:] if not o.startswith("x:") and not o.startswith("y:")})
    rng.shuffle(atoms)
    special_atoms = [a for a in atoms if atom_value(a) in (Fraction(0), "nan", "+inf", "-inf") or not is_num(a)]
    atoms = (special_atoms + [a for a in atoms if a not in set(special_atoms)])[:ctx.n(4000, 100000)]
    hb = vlib.run_model(["num\thashbytes\t" + a for a in atoms])
    for a, h in zip(atoms, hb):
        if h.startswith("ok ") and h != "ok identity":
            lines.append("num\thashis\t" + a + "\t" + h[3:])
    res = correspond(ctx, lines, "comparison/equality/hash tables")
    # distribution of what was exercised
    for ln, a, b in res:
        f = ln.split("\t")
        if f[1] != "rel" or not a.startswith("ok "):
            continue
        p = parse_rel(a, len(f) - 2)
        if p is None:
            continue
        for row in p[0]:
            for c in row:
                ctx.stat("cmp:" + c[0])
                ctx.stat("eq:" + c[6])
        for v in p[2].values():
            ctx.stat("hasheq:" + ("y" if v else "n"))
