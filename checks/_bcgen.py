"""Generated Elk programs for the bytecode checks (C29 structure, C33 abort checks).

gen_program(rng, i) -> (label, source): a module `G<i>` with a few methods built from random statement
trees over: loop / while / until / do-while / modifier loops / for-in / fornum (with labels, break, continue at
every position, break with value), closures capturing and assigning outer locals (incl. > 2 upvalues),
do / catch / finally (nested, with return / break / continue inside), switch with patterns, string and symbol
interpolation, safe navigation, generators (`def *g`), async methods, a small macro, `defer`.
Programs are only *compiled* by C29 (never run), so termination does not matter there.
"""

D16_CANON = (
    "module D16Canon\n"
    "  def boom: Int ! Error\n"
    "    throw Error(\"x\")\n"
    "  end\n"
    "  def f: Int\n"
    "    a := 10 + do\n"
    "      boom()\n"
    "    catch Error() as e\n"
    "      2\n"
    "    end\n"
    "    a\n"
    "  end\n"
    "end\n"
    "println(D16Canon.f.inspect)\n"
)

FINALLY_CANON = (
    "module FinCanon\n"
    "  def f(a: Int): Int\n"
    "    do\n"
    "      a + 1\n"
    "    catch Error() as e\n"
    "      2\n"
    "    finally\n"
    "      3\n"
    "    end\n"
    "  end\n"
    "end\n"
)


class G:
    def __init__(self, rng, idx):
        self.rng = rng
        self.idx = idx
        self.nvar = 0
        self.labels = []       # enclosing loop labels (None = unlabeled)
        self.in_loop = 0
        self.feat = set()
        self.no_closure = False   # the checker rejects closures inside generator bodies
        self.max_depth = rng.choice([1, 2, 2, 3])

    def var(self):
        self.nvar += 1
        return "v%d" % self.nvar

    def rw(self, scope):
        """assignable names (parameters are immutable values)"""
        return [x for x in scope if x.startswith("v")]

    def ind(self, lines, n=1):
        return [("  " * n) + l for l in lines]

    # expressions of type Int over the variables in scope
    def iexpr(self, scope, depth=0):
        r = self.rng.random()
        if depth > 1 or r < 0.45 or not scope:
            if scope and r < 0.25:
                return self.rng.choice(scope)
            return str(self.rng.choice([0, 1, 2, 3, 5, 7, 100, 255, 256, 70000]))
        if r < 0.6:
            left = self.rng.choice(scope) if scope and self.rng.random() < 0.7 else str(self.rng.choice([1, 2, 3, 255, 70000]))
            return "%s %s %s" % (left, self.rng.choice(["+", "-", "*"]), self.iexpr(scope, depth + 1))
        if r < 0.7:
            self.feat.add("if-expr")
            return "(if %s then %s else %s)" % (self.cond(scope), self.iexpr(scope, depth + 1), self.iexpr(scope, depth + 1))
        if r < 0.78:
            self.feat.add("do-catch-expr")
            return "(do; G%d.thrower(%s); catch Error() as e; %s; end)" % (self.idx, self.iexpr(scope, depth + 1), self.iexpr(scope, depth + 1))
        if r < 0.85:
            self.feat.add("call")
            return "G%d.helper(%s, %s)" % (self.idx, self.iexpr(scope, depth + 1), self.iexpr(scope, depth + 1))
        return "(%s)" % self.iexpr(scope, depth + 1)

    def cvar(self, scope):
        """an operand whose static type is Int (not a literal type), so that the checker accepts the comparison"""
        return self.rng.choice(scope) if scope else "G%d.helper(1, 2)" % self.idx

    def cond(self, scope):
        r = self.rng.random()
        def one():
            op = self.rng.choice(["<", "<=", ">", ">=", "==", "!="])
            left = self.cvar(scope)
            if op in ("==", "!=") and not left.startswith("G"):
                left = "G%d.helper(%s, 0)" % (self.idx, left)   # no literal narrowing of the variable in the branch
            return "%s %s %s" % (left, op, self.iexpr(scope, 2))
        c = one()
        if r > 0.85:
            c = "%s %s %s" % (c, self.rng.choice(["&&", "||"]), one())
        return c

    def subject(self, scope):
        return "G%d.helper(%s, 0)" % (self.idx, self.cvar(scope))

    def jump_stmt(self, scope):
        """break / continue at this position (only inside a loop)"""
        if not self.in_loop:
            return []
        lab = self.rng.choice(self.labels) if self.labels and self.rng.random() < 0.4 else None
        lab = "[%s]" % lab if lab else ""
        kind = self.rng.choice(["break", "continue", "continue", "break"])
        self.feat.add(kind + ("-labeled" if lab else ""))
        if self.rng.random() < 0.3:
            # `break v` / `continue v`: the operand is evaluated and dropped (or becomes the loop's value)
            self.feat.add(kind + "-value")
            lab = "%s %s" % (lab, self.iexpr(scope, 1))
        r = self.rng.random()
        if r < 0.5:
            return ["%s%s if %s" % (kind, lab, self.cond(scope))]
        if r < 0.7:
            return ["if %s" % self.cond(scope), "  %s%s" % (kind, lab), "end"]
        if r < 0.8:
            return ["if %s" % self.cond(scope), "  println(1)", "else", "  %s%s" % (kind, lab), "end"]
        return ["%s%s unless %s" % (kind, lab, self.cond(scope))]

    def stmts(self, scope, depth, n=None):
        out = []
        scope = list(scope)
        for _ in range(n if n is not None else self.rng.choice([1, 1, 2, 2, 3])):
            out += self.stmt(scope, depth)
        return out

    def loop(self, scope, depth):
        kind = self.rng.choice(["loop", "while", "until", "dowhile", "forin", "fornum", "modwhile", "forin-range", "forin-int"])
        self.feat.add("loop:" + kind)
        label = None
        if self.rng.random() < 0.3:
            label = "l%d" % (len(self.labels) + 1 + self.rng.randrange(100))
        prefix = "$%s: " % label if label else ""
        self.labels.append(label) if label else None
        self.in_loop += 1
        v = self.var()
        body_scope = scope + [v]
        pre = ["var %s: Int = %s" % (v, self.iexpr(scope, 2))]
        blocks = []
        bscope = list(body_scope)
        for _ in range(self.rng.choice([1, 1, 2, 2, 3])):
            blocks.append(self.stmt(bscope, depth + 1))
        blocks.insert(self.rng.randrange(len(blocks) + 1), self.jump_stmt(body_scope))
        if self.rng.random() < 0.5:
            blocks.append(self.jump_stmt(body_scope))
        inner = [l for b in blocks for l in b]
        step = ["%s += 1" % v]
        if kind == "loop":
            res = pre + [prefix + "loop"] + self.ind(step + ["break if %s > %d" % (v, self.rng.choice([3, 10, 300]))] + inner) + ["end"]
        elif kind == "while":
            res = pre + ["%swhile %s" % (prefix, self.cond(body_scope))] + self.ind(step + inner) + ["end"]
        elif kind == "until":
            res = pre + ["%suntil %s" % (prefix, self.cond(body_scope))] + self.ind(step + inner) + ["end"]
        elif kind == "dowhile":
            res = pre + [prefix + "do"] + self.ind(step + inner) + ["end while %s" % self.cond(body_scope)]
        elif kind == "modwhile":
            res = pre + ["%s += 1 %s %s" % (v, self.rng.choice(["while", "until"]), self.cond(body_scope))]
        elif kind == "forin":
            it = self.var()
            res = ["%sfor %s in [%s]" % (prefix, it, ", ".join(self.iexpr(scope, 2) for _ in range(self.rng.choice([1, 3]))))] \
                + self.ind(["var %s: Int = %s" % (v, it)] + inner) + ["end"]
        elif kind == "forin-range":
            it = self.var()
            res = ["%sfor %s in %s...%s" % (prefix, it, self.iexpr(scope, 2), self.iexpr(scope, 2))] \
                + self.ind(["var %s: Int = %s" % (v, it)] + inner) + ["end"]
        elif kind == "forin-int":
            it = self.var()
            res = ["%sfor %s in %d" % (prefix, it, self.rng.choice([0, 3, 300]))] + self.ind(["var %s: Int = %s" % (v, it)] + inner) + ["end"]
        else:
            it = self.var()
            res = ["%sfornum var %s: Int = 0; %s < %s; %s += 1" % (prefix, it, it, self.iexpr(scope, 2), it)] \
                + self.ind(["var %s: Int = %s" % (v, it)] + inner) + ["end"]
        self.in_loop -= 1
        if label:
            self.labels.pop()
        return res

    def stmt(self, scope, depth):
        r = self.rng.random()
        if depth >= self.max_depth:
            r = r * 0.3
        if r < 0.22:
            v = self.var()
            scope.append(v)
            return ["var %s: Int = %s" % (v, self.iexpr(scope[:-1]))]
        if r < 0.3 and self.rw(scope):
            return ["%s %s %s" % (self.rng.choice(self.rw(scope)), self.rng.choice(["=", "+=", "-="]), self.iexpr(scope))]
        if r < 0.36:
            self.feat.add("println")
            return ["println(%s)" % self.iexpr(scope)]
        if r < 0.5:
            return self.loop(scope, depth)
        if r < 0.6:
            self.feat.add("if")
            res = ["if %s" % self.cond(scope)] + self.ind(self.stmts(scope, depth + 1))
            if self.rng.random() < 0.5:
                res += ["else"] + self.ind(self.stmts(scope, depth + 1))
            return res + ["end"]
        if r < 0.75:
            return self.do_block(scope, depth)
        if r < 0.83 and not self.no_closure:
            return self.closure(scope, depth)
        if r < 0.88:
            self.feat.add("switch")
            res = ["switch %s" % self.subject(scope)]
            for k in range(self.rng.choice([1, 2, 3])):
                pat = self.rng.choice(["%d" % k, "%d || %d" % (k, k + 10), "> %d" % (k * 5), "%d...%d" % (k, k + 3)])
                res += ["case %s" % pat] + self.ind(self.stmts(scope, depth + 1, 1))
            if self.rng.random() < 0.6:
                res += ["else"] + self.ind(self.stmts(scope, depth + 1, 1))
            return res + ["end"]
        if r < 0.90:
            self.feat.add("switch-expr")
            v = self.var()
            scope.append(v)
            return ["var %s: Int = switch %s" % (v, self.subject(scope[:-1])), "case 0 then 1", "case 1 || 2 then %s" % self.iexpr(scope[:-1], 1),
                    "case n then n + 1", "else 5", "end"]
        if r < 0.92:
            self.feat.add("interp")
            v = self.var()
            scope_s = ", ".join("#{%s}" % x for x in scope[:3]) or "x"
            return ['s%s := "%s: %s"' % (v, v, scope_s), 'println(s%s)' % v]
        if r < 0.95 and self.in_loop:
            return self.jump_stmt(scope) or ["nil"]
        if r < 0.975:
            self.feat.add("return")
            return ["return %s if %s" % (self.iexpr(scope), self.cond(scope))]
        self.feat.add("list-ops")
        v = self.var()
        scope.append(v + "n")
        return ["%sl := [%s]" % (v, ", ".join(self.iexpr(scope[:-1], 2) for _ in range(3))), "%sl << %s" % (v, self.iexpr(scope[:-1], 2)),
                "var %sn: Int = %sl.length" % (v, v)]

    def do_block(self, scope, depth):
        res = ["do"] + self.ind(self.stmts(scope, depth + 1) + (["G%d.thrower(%s)" % (self.idx, self.iexpr(scope, 2))] if self.rng.random() < 0.6 else []))
        has = False
        if self.rng.random() < 0.7:
            has = True
            self.feat.add("catch")
            res += ["catch Error() as e"] + self.ind(self.stmts(scope, depth + 1, self.rng.choice([1, 2])))
            if self.rng.random() < 0.3:
                res += ["catch :foo"] + self.ind(self.stmts(scope, depth + 1, 1))
        if self.rng.random() < 0.5 or not has:
            self.feat.add("finally")
            res += ["finally"] + self.ind(self.stmts(scope, depth + 1, self.rng.choice([1, 2])))
        return res + ["end"]

    def closure(self, scope, depth):
        self.feat.add("closure")
        f = self.var()
        p = self.var()
        saved_loop, saved_labels = self.in_loop, self.labels
        self.in_loop, self.labels = 0, []
        body = self.stmts(scope + [p], depth + 1, self.rng.choice([1, 2]))
        # assign captured variables (SET_UPVALUE with growing indices)
        for x in self.rw(scope)[:self.rng.choice([0, 1, 3, 5])]:
            body.append("%s = %s + %s" % (x, x, p))
        body.append(self.iexpr(scope + [p], 1))
        self.in_loop, self.labels = saved_loop, saved_labels
        res = ["%s := |%s: Int|: Int ! Error ->" % (f, p)] + self.ind(body) + ["end"]
        v = self.var()
        scope.append(v)
        return res + ["var %s: Int = %s(%s)" % (v, f, self.iexpr(scope[:-1], 2))]


def gen_program(rng, i, want=None):
    g = G(rng, i)
    out = ["module G%d" % i,
           "  def helper(a: Int, b: Int): Int then a + b",
           "  def thrower(a: Int): Int ! Error",
           "    throw Error(\"t\") if a > 3",
           "    a",
           "  end"]
    for m in range(1):
        params = ["p%d" % k for k in range(rng.choice([0, 1, 2, 3]))]
        g.nvar = 0
        body = g.stmts(list(params), 0, rng.choice([1, 2, 2, 3]))
        body.append(g.iexpr(list(params), 1) if True else "0")
        out += ["  def m%d(%s): Int ! Error" % (m, ", ".join("%s: Int" % p for p in params))] + g.ind(body, 2) + ["  end"]
    r = rng.random() * 2.2   # about half of the programs carry one of the special method kinds
    if r < 0.25:
        g.feat.add("generator")
        g.nvar = 0
        g.no_closure = True
        body = g.stmts(["a"], 0, rng.choice([1, 2, 3]))
        g.no_closure = False
        out += ["  def *gen(a: Int): Int ! Error", "    yield a"] + g.ind(body, 2) + ["    yield a + 1", "    0", "  end"]
    elif r < 0.4:
        g.feat.add("async")
        g.nvar = 0
        body = g.stmts(["a"], 0, rng.choice([1, 2]))
        out += ["  async def am(a: Int): Int ! Error"] + g.ind(body, 2) + ["    a + 1", "  end",
                "  async def am2(a: Int): Int ! Error", "    b := await am(a)", "    b + (await am(b))", "  end"]
    elif r < 0.5:
        g.feat.add("defer")
        out += ["  def dm(a: Int): Int ! Error", "    defer println(\"d1\")"] + g.ind(g.stmts(["a"], 0, 2), 2) + \
               ["    defer println(\"d2\") if a > 1", "    a", "  end"]
    elif r < 0.58:
        g.feat.add("macro")
        out += ["  macro twice(e: ExpressionNode)", "    quote", "      !{e} + !{e}", "    end", "  end",
                "  def mm(a: Int): Int then a + twice!(%d)" % rng.choice([1, 7, 300])]
    elif r < 0.66:
        g.feat.add("select")
        out += ["  def sel(a: Int): Int", "    c1 := Channel::[Int](2)", "    c2 := Channel::[Int](2)", "    c1 << a",
                "    r := 0", "    select", "    case v := <<c1", "      r = 1", "    case c2 << a", "      r = 2", "    else", "      r = 3", "    end", "    r", "  end"]
    out.append("end")
    label = "G%d:%s" % (i, ",".join(sorted(g.feat))[:80])
    return label, "\n".join(out) + "\n"


# ---------------------------------------------------------------- operand-width boundary grid (deterministic)

def _decls(n, indent):
    return [indent + "var x%d: Int = %d" % (k, k) for k in range(n)]


def _feature(feat, mod, last, n):
    """(statements, expected value, expected extra stdout) — `last` is the name of the highest-index local so far"""
    lv = n - 1
    if feat == "catch":
        return (["var r: Int = do", "  %s.thrower(%s + 10)" % (mod, last), "catch Error() as e", "  %s + 7" % last, "end", "r"], lv + 7, "")
    if feat == "finally-jumps":
        st = ["var acc: Int = 0", "var i: Int = 0", "while i < 6", "  i += 1", "  do", "    continue if i == 2", "    break if i == 5",
              "    acc += i", "  finally", "    acc += 100", "  end", "end", "acc + %s" % last]
        return (st, 508 + lv, "")
    if feat == "finally-return":
        st = ["do", "  return %s + 5 if %s.later(0) > 1" % (last, mod), "finally", "  println(\"fin\")", "end", "0"]
        return (st, lv + 5, "fin\n")
    if feat == "labelled-break":
        st = ["var acc: Int = 0", "$outer: for a in 1...4", "  for b in 1...4", "    break[outer] if b > 2 && a > 1", "    acc += b", "  end",
              "end", "acc + %s" % last]
        return (st, 13 + lv, "")
    if feat == "later-call":
        return (["%s.later(%s)" % (mod, last)], lv + 100, "")
    if feat == "closure-high-local":
        st = ["f := |q: Int|: Int ->", "  %s = %s + q" % (last, last), "  %s * 2" % last, "end", "f(3)"]
        return (st, (lv + 3) * 2, "")
    raise ValueError(feat)


BOUNDARY_FEATURES = ["catch", "finally-jumps", "finally-return", "labelled-break", "later-call", "closure-high-local"]


def boundary_programs():
    """[(label, source, expected stdout)]: functions whose local count sits at the 8/16-bit operand boundary
    (top level, methods with 0 and 2 parameters, closures: predefined locals shift the boundary) x constructs whose
    offsets / indices are recorded before the prologue is inserted; constant pools and upvalue counts crossing 255;
    bodies longer than 255 and (if the compiler accepts them) 65 535 bytes."""
    out = []
    k = 0
    for n in (253, 254, 255, 256, 257):
        for ctxt in ("top", "method0", "method2", "closure"):
            for feat in BOUNDARY_FEATURES:
                k += 1
                mod = "BW%d" % k
                st, exp, extra = _feature(feat, mod, "x%d" % (n - 1), n)
                head = ["module " + mod, "  def thrower(a: Int): Int ! Error", "    throw Error(\"t\") if a > 3", "    a", "  end"]
                later = ["  def later(a: Int): Int then a + 100", "end"]
                if ctxt == "top":
                    if feat == "finally-return":
                        continue   # `return` at top level ends the program: covered by the other contexts
                    src = head + later + _decls(n, "") + st[:-1] + ["println((%s).inspect)" % st[-1]]
                elif ctxt.startswith("method"):
                    params = "p0: Int, p1: Int" if ctxt == "method2" else ""
                    args = "1, 2" if ctxt == "method2" else ""
                    src = head + ["  def m(%s): Int ! Error" % params] + _decls(n, "    ") + ["    " + l for l in st] + ["  end"] + later + \
                        ["do", "  println(%s.m(%s).inspect)" % (mod, args), "catch Error() as e", "  println(\"err\")", "end"]
                else:
                    src = head + later + ["g := ||: Int ! Error ->"] + _decls(n, "  ") + ["  " + l for l in st] + ["end",
                           "do", "  println(g().inspect)", "catch Error() as e", "  println(\"err\")", "end"]
                out.append(("boundary:locals=%d:%s:%s" % (n, ctxt, feat), "\n".join(src) + "\n", extra + "%d\n" % exp))
    # constant pool crossing 255 entries, with a call and a do/catch behind it
    for c in (250, 254, 255, 256, 260):
        k += 1
        mod = "BW%d" % k
        body = ["    var acc: Int = 0"] + ["    acc += %d" % (100000 + j) for j in range(c)] + \
               ["    var r: Int = do", "      %s.thrower(9)" % mod, "    catch Error() as e", "      %s.later(1)" % mod, "    end", "    acc + r"]
        # (not `acc += do … end`: a temporary under a do/catch is the known D16 leak)
        src = ["module " + mod, "  def thrower(a: Int): Int ! Error", "    throw Error(\"t\") if a > 3", "    a", "  end",
               "  def m: Int ! Error"] + body + ["  end", "  def later(a: Int): Int then a + 100", "end",
               "do", "  println(%s.m.inspect)" % mod, "catch Error() as e", "  println(\"err\")", "end"]
        exp = sum(100000 + j for j in range(c)) + 101
        out.append(("boundary:consts=%d" % c, "\n".join(src) + "\n", "%d\n" % exp))
    # upvalue index crossing 255
    for u in (254, 255, 256, 258):
        k += 1
        mod = "BW%d" % k
        src = ["module " + mod, "  def m: Int"] + _decls(u, "    ") + \
              ["    f := ||: Int ->", "      x%d = x%d + 1" % (u - 1, u - 1), "      " + " + ".join("x%d" % j for j in range(u)), "    end", "    f()", "  end", "end",
               "println(%s.m.inspect)" % mod]
        out.append(("boundary:upvalues=%d" % u, "\n".join(src) + "\n", "%d\n" % (sum(range(u)) + 1)))
    # long forward / backward jumps (jump operands are 16 bit: > 255 always works, > 65 535 must be rejected or correct)
    for stmts in (60, 12000):
        k += 1
        mod = "BW%d" % k
        src = ["module " + mod, "  def m(a: Int): Int", "    var acc: Int = 0", "    var i: Int = 0", "    while i < 2", "      i += 1",
               "      if a > 0"] + ["        acc += 3"] * stmts + ["      end", "    end", "    acc", "  end", "end", "println(%s.m(1).inspect)" % mod]
        out.append(("boundary:jump-over=%d-statements" % stmts, "\n".join(src) + "\n", "%d\n" % (2 * 3 * stmts)))
    return out
