"""C22 — Calendar arithmetic is exact, never wraps, and formatting round-trips."""
import datetime
import json
import re

import vlib
from checks import datelib

META = {
    "property_id": "C22",
    "technique": "Lean 4 proofs about a civil-calendar model (day count <-> date bijection, month-end clamping, "
                 "range check, format/parse round trip) + differential correspondence of the model with "
                 "value.Date/DateTime/DateSpan/TimeSpan/DateTimeSpan + an independent civil-date oracle",
    "level_text": "Kernel-checked: civil_roundtrip (both directions, all days / all valid dates, all integer years), "
                  "the day count follows the calendar's successor rule, add_days_exact, month_add_clamp_spec, "
                  "diff_add characterisation, range_checked, packed-field round trip, format/parse round trip of "
                  "the default formats, span to_string/parse round trip. The model mirrors value/date.go, "
                  "datetime.go, *_span.go, timescanner, durationscanner (directive subset) and is tied to them by "
                  "differential execution on boundary-biased inputs; Go's time package is modelled by the civil "
                  "functions in UTC.",
    "level_note": "Trusted: Lean kernel; hand-written model; harness; time.Date/Time.Add of the Go runtime are assumed "
                  "proleptic-Gregorian and exercised on every line. The model is UTC only (TZ pinned): fixed-offset zones "
                  "are covered by a model-free round-trip search (every whole-minute offset, %z and %:z), named zones/DST, "
                  "week-based and name directives, float span components are outside the model.",
    "design_ref": "DESIGN.md §7 C22",
}

MINY, MAXY = -(1 << 22), (1 << 22) - 1
NS_DAY = 86400 * 10**9
I32 = 1 << 31
I64 = 1 << 63


# ----------------------------------------------------------------- independent civil arithmetic (oracle)
# Hinnant's era formulas (a different formulation from the Lean model, which counts centuries / 4-year
# cycles / years), cross-checked against python's datetime for years 1..9999 at import time.

def is_leap(y):
    return y % 4 == 0 and (y % 100 != 0 or y % 400 == 0)


def dim(y, m):
    return [31, 29 if is_leap(y) else 28, 31, 30, 31, 30, 31, 31, 30, 31, 30, 31][m - 1]


def dfc(y, m, d):
    if 1 <= y <= 9999 and 1 <= m <= 12 and 1 <= d <= dim(y, m):
        return datetime.date(y, m, d).toordinal() - 719163
    y -= m <= 2
    era = y // 400
    yoe = y - era * 400
    doy = (153 * (m - 3 if m > 2 else m + 9) + 2) // 5 + d - 1
    doe = yoe * 365 + yoe // 4 - yoe // 100 + doy
    return era * 146097 + doe - 719468


def cfd(z):
    if 1 - 719163 <= z <= 3652059 - 719163:
        t = datetime.date.fromordinal(z + 719163)
        return t.year, t.month, t.day
    z += 719468
    era = z // 146097
    doe = z - era * 146097
    yoe = (doe - doe // 1460 + doe // 36524 - doe // 146096) // 365
    y = yoe + era * 400
    doy = doe - (365 * yoe + yoe // 4 - yoe // 100)
    mp = (5 * doy + 2) // 153
    d = doy - (153 * mp + 2) // 5 + 1
    m = mp + 3 if mp < 10 else mp - 9
    return y + (m <= 2), m, d


def _selftest():
    for y, m, d in [(1, 1, 1), (9999, 12, 31), (2000, 2, 29), (1900, 3, 1), (1970, 1, 1), (400, 2, 29)]:
        n = datetime.date(y, m, d).toordinal() - 719163
        yy = y - (m <= 2)
        era = yy // 400
        yoe = yy - era * 400
        doy = (153 * (m - 3 if m > 2 else m + 9) + 2) // 5 + d - 1
        assert era * 146097 + yoe * 365 + yoe // 4 - yoe // 100 + doy - 719468 == n
    assert cfd(dfc(-4194304, 1, 1)) == (-4194304, 1, 1) and cfd(dfc(0, 2, 29)) == (0, 2, 29)
    assert dfc(10000, 1, 1) == dfc(9999, 12, 31) + 1 and dfc(1, 1, 1) == dfc(0, 12, 31) + 1


_selftest()


def valid(y, m, d):
    return MINY <= y <= MAXY and 1 <= m <= 12 and 1 <= d <= dim(y, m)


def add_span(y, m, d, mo, da):
    """intended meaning of date + span: days first, then months with the day clamped to the month's end"""
    y1, m1, d1 = cfd(dfc(y, m, d) + da)
    tot = y1 * 12 + (m1 - 1) + mo
    y2, m2 = tot // 12, tot % 12 + 1
    return y2, m2, min(d1, dim(y2, m2))


def norm_dt(y, mo, d, h, mi, s, ns):
    yy = y + (mo - 1) // 12
    mm = (mo - 1) % 12 + 1
    return (dfc(yy, mm, 1) + d - 1) * NS_DAY + h * 3600 * 10**9 + mi * 60 * 10**9 + s * 10**9 + ns


def dt_fields(t):
    day, tod = divmod(t, NS_DAY)
    y, m, d = cfd(day)
    return [y, m, d, tod // (3600 * 10**9), tod // (60 * 10**9) % 60, tod // 10**9 % 60, tod % 10**9]


def unhex(s):
    return "" if s == "-" else bytes.fromhex(s).decode("utf-8", "replace")


def hx(s):
    return s.encode().hex() if s else "-"


FULL_INFO = re.compile(r"%[-_]?Y|%F")


def fmt_has_full_date(f):
    """formats whose output determines the date: year + (month + day | day of year), none repeated"""
    # unpadded or space-padded fields that touch the next field cannot be told apart when read back
    if re.search(r"%[-_][A-Za-z]%[-_]?[A-Za-z]|%e%", f):
        return False
    toks = re.findall(r"%[-_]?[A-Za-z%]", f)
    ys = [t for t in toks if t[-1] == "Y"]
    fs = [t for t in toks if t[-1] == "F"]
    ms = [t for t in toks if t[-1] == "m"]
    ds = [t for t in toks if t[-1] in "de"]
    js = [t for t in toks if t[-1] == "j"]
    other = [t for t in toks if t[-1] not in "YFmdej%nt"]
    if other:
        return False
    if len(fs) == 1 and not (ys or ms or ds or js):
        return True
    if len(ys) == 1 and not fs:
        return (len(ms) == 1 and len(ds) == 1 and not js) or (len(js) == 1 and not ms and not ds)
    return False


def zoff_oracle(f, ans):
    colon, off = int(f[2]), int(f[3])
    if abs(off) >= 86400:
        return None if ans.startswith("ok zone-err") else "a zone offset of %d s was accepted: %s" % (off, ans)
    if not ans.startswith("ok ") or " | " not in ans:
        return "formatting failed: " + ans
    hx_, back = ans[3:].split(" | ")
    text = bytes.fromhex(hx_).decode()
    a = abs(off)
    want = ("+" if off >= 0 else "-") + "%02d" % (a // 3600) + (":" if colon else "") + "%02d" % (a % 3600 // 60)
    if text != want:
        return "offset %d s printed %r, expected %r" % (off, text, want)
    if off % 60 == 0 and back != str(off):
        return "%r parses back as %s, the offset was %d" % (text, back, off)
    return None


def oracle(line, ans):
    if line.split("\t")[1] == "zoff":
        return zoff_oracle(line.split("\t"), ans)
    """model-free judgement of the implementation's answer; returns a string when the property fails"""
    f = line.split("\t")[1:]
    op = f[0]
    if ans.startswith(("panic", "fatal")):
        return "the operation crashed: " + ans[:80]
    try:
        if op == "mk":
            y, m, d = map(int, f[1:4])
            if not MINY <= y <= MAXY:
                want = "err Year"
            elif not 1 <= m <= 12:
                want = "err Month"
            elif not 1 <= d <= 31:
                want = "err Day"
            else:
                r = cfd(dfc(y, m, 1) + d - 1)
                want = "ok %d %d %d" % r if MINY <= r[0] <= MAXY else "err"
            if not ans.startswith(want):
                return f"Date({y},{m},{d}) answers {ans!r}, calendar says {want!r}"
        elif op in ("add", "sub"):
            y, m, d, mo, da = map(int, f[1:6])
            if not valid(y, m, d) or not (-I32 <= mo < I32 and -I32 <= da < I32):
                return None
            if op == "sub":
                mo, da = -mo, -da
            r = add_span(y, m, d, mo, da)
            if MINY <= r[0] <= MAXY:
                want = "ok %d %d %d" % r
                if ans != want:
                    return f"{y}-{m}-{d} {op} (months {f[4]}, days {f[5]}) answers {ans!r}, calendar says {want!r}"
            elif not ans.startswith("err"):
                return (f"{y}-{m}-{d} {op} (months {f[4]}, days {f[5]}) is year {r[0]}, outside the representable "
                        f"range, but answers {ans!r} instead of raising")
        elif op == "diffadd":
            y1, m1, d1, y2, m2, d2 = map(int, f[1:7])
            if not (valid(y1, m1, d1) and valid(y2, m2, d2)):
                return None
            got = ans.split(" | ")[-1]
            if got != f"{y1} {m1} {d1}":
                return f"d2 + (d1 - d2) with d1={y1}-{m1}-{d1}, d2={y2}-{m2}-{d2} gives {got!r} ({ans!r})"
        elif op in ("str", "rt"):
            y, m, d = map(int, f[1:4])
            if not valid(y, m, d):
                return None
            if op == "rt":
                fs = unhex(f[4])
                if not fmt_has_full_date(fs):
                    return None
            if not ans.startswith("ok "):
                return f"formatting {y}-{m}-{d} failed: {ans!r}"
            out, back = ans[3:].split(" | ")
            if back != f"{y} {m} {d}":
                return f"{y}-{m}-{d} formats as {unhex(out)!r} which parses back as {back!r}"
        elif op == "unit":
            n = int(f[2])
            if f[1] in ("days", "weeks", "months", "years", "centuries", "millenia"):
                k = {"days": (0, 1), "weeks": (0, 7), "months": (1, 0), "years": (12, 0), "centuries": (1200, 0),
                     "millenia": (12000, 0)}[f[1]]
                want = (n * k[0], n * k[1])
                if -I32 <= want[0] < I32 and -I32 <= want[1] < I32:
                    if ans != "ok %d %d" % want:
                        return f"{n}.{f[1]} answers {ans!r}, expected months/days {want}"
                elif not ans.startswith("err"):
                    return f"{n}.{f[1]} does not fit the span fields but answers {ans!r} instead of raising"
            else:
                k = {"hours": 3600 * 10**9, "minutes": 60 * 10**9, "seconds": 10**9, "milliseconds": 10**6,
                     "microseconds": 1000, "nanoseconds": 1}[f[1]]
                if -I64 <= n * k < I64:
                    if ans != "ok %d" % (n * k):
                        return f"{n}.{f[1]} answers {ans!r}, expected {n * k} ns"
                elif not ans.startswith("err"):
                    return f"{n}.{f[1]} overflows the nanosecond count but answers {ans!r} instead of raising"
        elif op in ("ds", "ts", "dts") and f[1] == "rt":
            if not ans.startswith("ok "):
                return f"span to_string failed: {ans!r}"
            parts = ans[3:].split(" | ")
            if op == "ds":
                orig = f"{int(f[2])} {int(f[3])}"
            elif op == "ts":
                orig = f"{int(f[2])}"
            else:
                orig = parts[0]
            if parts[-1] != orig:
                return f"span {orig!r} prints as {unhex(parts[-2])!r} which parses back as {parts[-1]!r}"
        elif op == "dts" and f[1] == "new":
            mo, da, ns = map(int, f[2:5])
            if not ans.startswith("ok "):
                return f"NewDateTimeSpan failed: {ans!r}"
            a, b, c = map(int, ans[3:].split())
            if abs(da) < I32 - 200000:
                if a != mo or b * NS_DAY + c != da * NS_DAY + ns:
                    return f"DateTime::Span({mo} months, {da} days, {ns} ns) normalises to {ans!r}: not the same duration"
                if abs(c) >= NS_DAY or (b > 0 and c < 0) or (b < 0 and c > 0):
                    return f"DateTime::Span({mo}, {da}, {ns}) normalises to {ans!r}: not normal"
        elif op == "dt":
            sub = f[1]
            n = list(map(int, f[2:]))
            if sub == "mk":
                want = "ok " + " ".join(map(str, dt_fields(norm_dt(*n))))
                if ans != want:
                    return f"time.Date{tuple(n)} answers {ans!r}, calendar says {want!r}"
            elif sub in ("addts", "subts"):
                t = norm_dt(*n[:7])
                if not -I64 < n[7] < I64:
                    return None
                want = "ok " + " ".join(map(str, dt_fields(t + (n[7] if sub == "addts" else -n[7]))))
                if ans != want:
                    return f"datetime {sub} {n[7]}ns answers {ans!r}, calendar says {want!r}"
            elif sub in ("addds", "subds"):
                t = norm_dt(*n[:7])
                mo, da = n[7], n[8]
                if not (-I32 < mo < I32 and -I32 < da < I32):
                    return None
                if sub == "subds":
                    mo, da = -mo, -da
                day, tod = divmod(t, NS_DAY)
                y, m, d = cfd(day)
                r = add_span(y, m, d, mo, da)
                want = "ok " + " ".join(map(str, list(r) + dt_fields(tod)[3:]))
                if ans != want:
                    return f"datetime {sub} (months {n[7]}, days {n[8]}) answers {ans!r}, calendar says {want!r}"
            elif sub == "diffadd":
                t1 = norm_dt(*n[:7])
                got = ans.split(" | ")[-1]
                want = " ".join(map(str, dt_fields(t1)))
                if got != want:
                    return f"t2 + (t1 - t2) gives {got!r}, t1 is {want!r} ({ans!r})"
            elif sub == "str":
                t = norm_dt(*n[:7])
                want = " ".join(map(str, dt_fields(t)))
                if not ans.startswith("ok "):
                    return f"DateTime#to_string failed: {ans!r}"
                out, back = ans[3:].split(" | ")
                if back != want:
                    return f"datetime {want!r} prints as {unhex(out)!r} which parses back as {back!r}"
            elif sub == "date":
                t = norm_dt(*n[:7])
                y, m, d = cfd(t // NS_DAY)
                if MINY <= y <= MAXY:
                    if ans != f"ok {y} {m} {d}":
                        return f"DateTime#date answers {ans!r}, calendar says {y} {m} {d}"
                elif not ans.startswith("err"):
                    return f"DateTime#date of year {y} (outside the Date range) answers {ans!r} instead of raising"
    except (ValueError, IndexError) as e:
        return f"unparseable answer {ans!r} ({e})"
    return None


# ----------------------------------------------------------------- generator

YEARS = [MINY, MINY + 1, MINY + 2, MAXY, MAXY - 1, MAXY - 2, 0, 1, -1, -5, -400, 400, 1600, 1900, 1970, 2000, 2023,
         2024, 2100, 9999, 10000, 99999, -9999, -10000, 292277, -292277, 1 << 21, -(1 << 21)]
SPAN_DAYS = [0, 1, -1, 2, -2, 27, 28, 29, 30, 31, -28, -30, -31, 59, 60, 365, 366, -365, -366, 1461, 36524, 146097,
             -146097, 106751, 106752, -106751, -106752, 106753, 213504, 1 << 20, I32 - 1, -I32, -I32 + 1, 3000000000 - (1 << 32)]
SPAN_MONTHS = [0, 1, -1, 2, -2, 11, 12, 13, -11, -12, -13, 23, 24, 25, 1200, -1200, 4800, 12 * MAXY, -12 * MAXY, I32 - 1,
               -I32, 100663296, -100663296]
FORMATS = ["%Y-%m-%d", "%F", "%-Y-%-m-%-d", "%_Y %_m %_d", "%Y%m%d", "%Y-%j", "%-Y.%-j", "%_Y/%_j", "%d.%m.%Y",
           "%m/%d/%Y", "%Y-%m-%e", "%C%y-%m-%d", "%D", "%Y-%m", "%y%m%d", "%%%Y%n%m%t%d", "date: %Y-%m-%d!",
           "%Y-%m-%dT", "%F %F", "%Y-%m-%d %H", "%Y %", "%Y-%q", "%-Y%-m%-d", "%_Y%_j"]


def gen_year(r):
    x = r.random()
    if x < 0.45:
        return r.choice(YEARS)
    if x < 0.75:
        return r.randint(1, 9999)
    if x < 0.85:
        return r.randint(-9999, 0)
    return r.randint(MINY, MAXY)


def gen_date(r, valid_only=True):
    y = gen_year(r)
    m = r.choice([1, 2, 2, 3, 12, r.randint(1, 12)])
    d = r.choice([1, 28, 29, 30, 31, r.randint(1, 31), dim(y, m), dim(y, m)])
    if valid_only:
        d = min(d, dim(y, m))
    return y, m, d


def gen_i32(r, pool):
    x = r.random()
    if x < 0.5:
        return r.choice(pool)
    if x < 0.85:
        return r.randint(-400, 400)
    if x < 0.95:
        return r.randint(-200000, 200000)
    return r.randint(-I32, I32 - 1)


def gen_tod(r):
    return r.choice([(0, 0, 0, 0), (23, 59, 59, 999999999), (12, 0, 0, 0), (0, 0, 0, 1), (1, 2, 3, 4),
                     (r.randint(0, 23), r.randint(0, 59), r.randint(0, 59), r.randint(0, 999999999))])


def gen_ns(r):
    x = r.random()
    if x < 0.4:
        return r.choice([0, 1, -1, 999, 1000, 10**6, 10**9, 60 * 10**9, 3600 * 10**9, NS_DAY, NS_DAY - 1, -NS_DAY,
                         -NS_DAY - 1, NS_DAY + 1, 25 * 3600 * 10**9, I64 - 1, -I64, -I64 + 1, 5400000000001,
                         -5400000000001, 3723004005006, -3723004005006])
    if x < 0.7:
        return r.randint(-2 * NS_DAY, 2 * NS_DAY)
    return r.randint(-I64, I64 - 1)


def gen_span_string(r, units):
    parts = []
    for _ in range(r.choice([1, 1, 2, 3, 4])):
        n = r.choice([0, 1, -1, 5, 12, 13, -14, 59, 60, 61, 999, 1000, 1001, 2147483647, -2147483648, 2147483648,
                      9223372036854775807, 99999999999999999999, r.randint(-100000, 100000)])
        s = str(n)
        if r.random() < 0.1 and len(s) > 2:
            s = s[:2] + "_" + s[2:]
        parts.append(s + r.choice(units))
    sep = r.choice([" ", " ", "", "  "])
    out = sep.join(parts)
    if r.random() < 0.15:   # malformed
        out = r.choice([out + "x", "-" + out, out.replace("h", "H"), out + " ", "1", "", "h", "--1s", "1 s", out[:-1]])
    return out


def gen(r, ctx=None):
    x = r.random()
    T = "date\t"
    if x < 0.04:
        y = gen_year(r) if r.random() < 0.8 else r.choice([MAXY + 1, MINY - 1, 1 << 40, -(1 << 40)])
        return T + "mk\t%d\t%d\t%d" % (y, r.choice([0, 1, 2, 6, 12, 13, -1]), r.choice([0, 1, 28, 29, 30, 31, 32, -1]))
    if x < 0.30:
        y, m, d = gen_date(r)
        return T + "%s\t%d\t%d\t%d\t%d\t%d" % (r.choice(["add", "add", "sub"]), y, m, d,
                                              r.choice([0, 0, gen_i32(r, SPAN_MONTHS)]), r.choice([0, gen_i32(r, SPAN_DAYS), gen_i32(r, SPAN_DAYS)]))
    if x < 0.42:
        a = gen_date(r)
        b = gen_date(r) if r.random() < 0.6 else (a[0] + r.choice([0, 0, 1, -1]), r.choice([a[1], 2, 3]), 1)
        b = (max(MINY, min(MAXY, b[0])), b[1], min(r.choice([b[2], 28, 31]), dim(max(MINY, min(MAXY, b[0])), b[1])))
        return T + "%s\t%d\t%d\t%d\t%d\t%d\t%d" % ((r.choice(["diffadd", "diffadd", "diff"]),) + a + b)
    if x < 0.50:
        return T + "str\t%d\t%d\t%d" % gen_date(r)
    if x < 0.62:
        return T + "rt\t%d\t%d\t%d\t%s" % (gen_date(r) + (hx(r.choice(FORMATS)),))
    if x < 0.68:
        # parse: a formatted date, possibly damaged
        y, m, d = gen_date(r, valid_only=r.random() < 0.7)
        if r.random() < 0.25:   # fields at and just outside their limits
            m = r.choice([0, 12, 13, 19, 99, m])
            d = r.choice([0, 31, 32, 39, 99, d])
        f = r.choice(FORMATS[:12])
        s = (f.replace("%F", "%Y-%m-%d").replace("%-Y", str(y)).replace("%_Y", "%4d" % y).replace("%Y", "%04d" % y)
             .replace("%-m", str(m)).replace("%_m", "%2d" % m).replace("%m", "%02d" % m)
             .replace("%-d", str(d)).replace("%_d", "%2d" % d).replace("%e", "%2d" % d).replace("%d", "%02d" % d)
             .replace("%-j", str(r.choice([0, 1, 59, 60, 365, 366, 367, 999, r.randint(0, 367)]))).replace("%_j", "%3d" % r.randint(1, 366)).replace("%j", "%03d" % r.choice([0, 1, 60, 365, 366, 367, r.randint(0, 366)]))
             .replace("%C", "%02d" % (abs(y) // 100 % 100)).replace("%y", "%02d" % (abs(y) % 100)))
        if r.random() < 0.25:
            s = r.choice([s[:-1], s + "0", s.replace("-", "/", 1), " " + s, s.replace("0", "", 1), ""])
        return T + "parse\t%s\t%s" % (hx(f), hx(s))
    if x < 0.72:
        n = r.choice([0, 1, -1, 7, 106751, 106752, I32 - 1, I32, -I32, -I32 - 1, 1 << 32, (1 << 32) + 1, 306783378, 306783379,
                      178956970, 178956971, 2562047, 2562048, I64 - 1, -I64, 9223372036, 9223372037, r.randint(-I64, I64 - 1),
                      r.randint(-I32, I32)])
        return T + "unit\t%s\t%d" % (r.choice(["days", "weeks", "months", "years", "centuries", "millenia", "hours",
                                                "minutes", "seconds", "milliseconds", "microseconds", "nanoseconds"]), n)
    if x < 0.76:
        return T + "ds\trt\t%d\t%d" % (gen_i32(r, SPAN_MONTHS), gen_i32(r, SPAN_DAYS))
    if x < 0.80:
        return T + "ts\trt\t%d" % gen_ns(r)
    if x < 0.84:
        return T + "dts\t%s\t%d\t%d\t%d" % (r.choice(["rt", "rt", "new"]), gen_i32(r, SPAN_MONTHS), gen_i32(r, SPAN_DAYS[:-6]), gen_ns(r))
    if x < 0.88:
        k = r.choice(["ds", "ts", "dts"])
        units = {"ds": ["Y", "M", "D", "D", "h"], "ts": ["h", "m", "s", "ms", "us", "µs", "ns", "D"],
                 "dts": ["Y", "M", "D", "h", "m", "s", "ms", "us", "ns"]}[k]
        return T + "%s\tparse\t%s" % (k, hx(gen_span_string(r, units)))
    # datetime
    y, m, d = gen_date(r, valid_only=r.random() < 0.8)
    tod = gen_tod(r)
    dt = "%d\t%d\t%d\t%d\t%d\t%d\t%d" % ((y, m, d) + tod)
    sub = r.choice(["mk", "addts", "subts", "addds", "addds", "subds", "diff", "diffadd", "diffadd", "str", "str", "date"])
    if sub == "mk":
        if r.random() < 0.5:
            dt = "%d\t%d\t%d\t%d\t%d\t%d\t%d" % (gen_year(r), r.randint(-30, 40), r.randint(-400, 400), r.randint(-50, 50),
                                                  r.randint(-100, 100), r.randint(-100, 100), r.randint(-2 * 10**9, 2 * 10**9))
        return T + "dt\tmk\t" + dt
    if sub == "date" and r.random() < 0.4:
        dt = "%d\t%d\t%d\t%d\t%d\t%d\t%d" % ((r.choice([MAXY + 1, MINY - 1, MAXY, MINY, 5000000, -5000000, 1 << 23, (1 << 23) + 2000]), m, d) + tod)
    if sub in ("addts", "subts"):
        return T + "dt\t%s\t%s\t%d" % (sub, dt, gen_ns(r))
    if sub in ("addds", "subds"):
        return T + "dt\t%s\t%s\t%d\t%d" % (sub, dt, r.choice([0, gen_i32(r, SPAN_MONTHS)]), r.choice([0, gen_i32(r, SPAN_DAYS)]))
    if sub in ("diff", "diffadd"):
        y2, m2, d2 = gen_date(r)
        return T + "dt\t%s\t%s\t%d\t%d\t%d\t%d\t%d\t%d\t%d" % ((sub, dt, y2, m2, d2) + gen_tod(r))
    return T + "dt\t%s\t%s" % (sub, dt)


# ----------------------------------------------------------------- minimiser

CANON = {
    "add": ["date\tadd\t4194303\t12\t31\t0\t1", "date\tadd\t-4194304\t1\t1\t0\t-1", "date\tadd\t4194303\t12\t1\t1\t0",
            "date\tadd\t2000\t1\t1\t0\t106752", "date\tadd\t2000\t1\t1\t0\t-106752"],
    "sub": ["date\tsub\t2023\t3\t31\t1\t0", "date\tsub\t-1\t3\t15\t0\t0", "date\tsub\t-4194304\t1\t1\t0\t1",
            "date\tsub\t4194303\t12\t31\t0\t-1", "date\tsub\t2000\t1\t1\t0\t106752"],
    "diffadd": ["date\tdiffadd\t2023\t3\t31\t2023\t2\t28", "date\tdiffadd\t2023\t1\t31\t2023\t2\t1",
                "date\tdiffadd\t2000\t1\t1\t-1\t1\t1"],
    "str": ["date\tstr\t-5\t3\t1", "date\tstr\t10000\t1\t1"],
    "rt": [],
    "unit": ["date\tunit\tdays\t2147483648", "date\tunit\tdays\t4294967296", "date\tunit\tmonths\t2147483648",
             "date\tunit\thours\t2562048"],
}
CANON_DT = {
    "addds": ["date\tdt\taddds\t2000\t1\t1\t0\t0\t0\t0\t0\t106752"],
    "subds": ["date\tdt\tsubds\t2023\t3\t31\t0\t0\t0\t0\t1\t0", "date\tdt\tsubds\t-1\t3\t15\t0\t0\t0\t0\t0\t0"],
    "diffadd": ["date\tdt\tdiffadd\t2023\t3\t31\t0\t0\t0\t0\t2023\t2\t28\t0\t0\t0\t0"],
    "str": ["date\tdt\tstr\t-5\t3\t1\t0\t0\t0\t0", "date\tdt\tstr\t10000\t1\t1\t0\t0\t0\t0"],
    "date": ["date\tdt\tdate\t4194304\t1\t1\t0\t0\t0\t0", "date\tdt\tdate\t-4194305\t12\t31\t0\t0\t0\t0"],
}


def shrink_int(v, targets=(0, 1, -1, 2000, 2023)):
    out = [t for t in targets if abs(t) < abs(v) or (t == 0 and v != 0)]
    if abs(v) > 1:
        out += [v // 2, v - (1 if v > 0 else -1)]
    return out


def minimise(line, still):
    f = line.split("\t")
    op = f[1]
    cands = CANON_DT.get(f[2], []) if op == "dt" else CANON.get(op, [])
    if op == "rt":
        cands = ["date\trt\t-5\t3\t1\t" + f[5], "date\trt\t10000\t1\t1\t" + f[5]]
    for c in cands:
        if c == line or still(c):
            return c
    # generic: shrink every integer field towards small values, greedily
    budget = 60
    improved = True
    while improved and budget > 0:
        improved = False
        for i in range(2, len(f)):
            if not re.fullmatch(r"-?\d+", f[i]):
                continue
            for nv in shrink_int(int(f[i])):
                g = f[:i] + [str(nv)] + f[i + 1:]
                budget -= 1
                if budget <= 0:
                    break
                if still("\t".join(g)):
                    f = g
                    improved = True
                    break
    return "\t".join(f)


def keyfn(line):
    return line


# ----------------------------------------------------------------- Elk source programs

def elk_int(v):
    return "(%d)" % v if v < 0 else str(v)


def elk_program(idx, line):
    """the same operation written in Elk (parser, checker, compiler, VM bindings of vm/date.go, vm/int.go)"""
    f = line.split("\t")[1:]
    op = f[0]
    hdr = "module C22P%d\nend\n" % idx
    show = 'println("#{r.year} #{r.month} #{r.day}")\n'
    if op in ("add", "sub"):
        y, m, d, mo, da = map(int, f[1:6])
        if not valid(y, m, d):
            return None
        sign = "+" if op == "add" else "-"
        return hdr + "r := Date(%d, %d, %d) %s (%s.months + %s.days)\n" % (y, m, d, sign, elk_int(mo), elk_int(da)) + show
    if op == "diffadd":
        y1, m1, d1, y2, m2, d2 = map(int, f[1:7])
        if not (valid(y1, m1, d1) and valid(y2, m2, d2)):
            return None
        return (hdr + "s := Date(%d, %d, %d) - Date(%d, %d, %d)\nr := Date(%d, %d, %d) + s\n"
                % (y1, m1, d1, y2, m2, d2, y2, m2, d2) + show)
    if op == "str":
        y, m, d = map(int, f[1:4])
        if not valid(y, m, d):
            return None
        return hdr + "r := try Date.parse(Date(%d, %d, %d).to_string)\n" % (y, m, d) + show
    return None


def elk_answer(a):
    if a["outcome"] == "value":
        return a["stdout"].strip()
    if a["outcome"] == "error":
        return {"Std::Date::InvalidYearError": "err Year", "Std::FormatError": "err Format"}.get(
            a.get("err_class", ""), "err " + a.get("err_class", ""))
    return a["outcome"] + " " + (a.get("panic") or "; ".join(d["msg"][:60] for d in a.get("diags", [])[:2]))[:120]


def run_elk(ctx, lines):
    reqs, used = [], []
    for i, ln in enumerate(lines):
        src = elk_program(i, ln)
        if src:
            reqs.append({"id": "e%d" % i, "src": src, "timeout_ms": 4000})
            used.append(ln)
    if not reqs:
        return
    model = vlib.run_model(used)
    answers = vlib.run_programs(reqs)
    ok = True
    reported = 0
    for ln, req, a, mans in zip(used, reqs, answers, model):
        got = elk_answer(a)
        want = mans.split(" | ")[-1]
        want = want[3:] if want.startswith("ok ") else want
        ctx.case(("elk", ln), sample={"program": req["src"], "impl": got, "model": want})
        ctx.stat("program:" + ln.split("\t")[1])
        # the value-level oracle judges the program's answer put back into the line's answer format
        f = ln.split("\t")[1]
        as_line = ("ok " + got if not got.startswith("err") else got) if f in ("add", "sub") else \
                  ("ok x | " + got if f == "diffadd" or not got.startswith("err") or f == "str" else got)
        if f == "str":
            as_line = "ok %s | %s" % (mans.split(" | ")[0][3:] if mans.startswith("ok ") else "-", got)
        pf = oracle(ln, as_line) if not got.startswith(("panic", "fatal", "rejected", "timeout")) else "the program failed: " + got
        if got == want and pf is None:
            continue
        inp = {"line": ln, "program": req["src"]}
        if pf is not None and got == want:
            v = {"kind": "property-fails", "input": inp, "detail": f"{pf}; program answers {got!r}, model {want!r}"}
            if ctx.match_finding(v) is not None:
                ctx.violation(v["kind"], v["input"], v["detail"])
                continue
        ok = False
        if reported >= 5:
            continue
        reported += 1
        if pf is not None:
            ctx.violation("property-fails", inp, f"{pf}; program answers {got!r}, model {want!r}")
        else:
            ctx.violation("model-impl-disagree", dict(inp, correspondence="Elk programs"),
                          f"program answers {got!r}, model {want!r}; the calendar oracle found nothing wrong", no_input=True)
    ctx.obligation(f"Elk programs: implementation = model on {len(reqs)} generated programs", ok, "correspondence")


# ----------------------------------------------------------------- fixed-offset zones (model-free round trip)

ZONE_MINUTES = [-1439, -720, -570, -210, -61, -60, -59, -31, -30, -29, -1, 0, 1, 29, 30, 31, 59, 60, 61, 330, 345, 525, 765, 840, 1439]
ZONE_FORMATS = ["%Y-%m-%d %H:%M:%S.%9N %:z", "%F %T %z", "%F %T.%9N %z", "%Y-%m-%dT%H:%M:%S%:z", "%:z %F %T", "%z|%F %T"]
# known finding C22-zone-offset-seconds: an offset that is not a whole number of minutes is printed truncated
ZONE_FINDING_LINES = ["date\tdtz\t2023\t12\t31\t23\t45\t0\t0\t-1830\t" + "%F %T %z".encode().hex()]


def gen_zone_line(r):
    y, m, d = gen_date(r)
    # years 1..9999: `%Y` outside that range does not parse back (known finding C22-year-format-parse, other stream)
    y = y if 1 <= y <= 9999 else r.choice([1, 4, 1582, 1970, 2000, 2024, 9999, r.randint(1, 9999)])
    d = min(d, dim(y, m))
    f = r.choice(ZONE_FORMATS)
    h, mi, sec, ns = gen_tod(r)
    if "%9N" not in f:
        ns = 0
    off = r.choice(ZONE_MINUTES) if r.random() < 0.7 else r.randint(-1439, 1439)
    if r.random() < 0.03:
        off = r.choice([1440, -1440, 2000])
    return "date\tdtz\t%d\t%d\t%d\t%d\t%d\t%d\t%d\t%d\t%s" % (y, m, d, h, mi, sec, ns, off * 60, f.encode().hex())


def zone_oracle(line, ans):
    """a DateTime in a fixed-offset zone: strftime output parsed with the same format is the same instant in the same zone;
    the printed offset is sign, two-digit hours, two-digit minutes of the offset"""
    f = line.split("\t")
    off = int(f[9])
    fmt = bytes.fromhex(f[10]).decode()
    if abs(off) >= 86400:
        return None if ans.startswith("ok zone-err") else "a zone offset of %d s was accepted: %s" % (off, ans)
    if not ans.startswith("ok "):
        return "formatting failed: " + ans
    parts = ans[3:].split(" | ")
    if len(parts) != 3:
        return "unreadable answer " + ans
    text = "" if parts[0] == "-" else bytes.fromhex(parts[0]).decode("utf8", "replace")
    a = off if off >= 0 else -off
    want = ("+" if off >= 0 else "-") + "%02d" % (a // 3600) + (":" if "%:z" in fmt else "") + "%02d" % (a % 3600 // 60)
    if want not in text:
        return "offset %d s printed as part of %r, expected %s" % (off, text, want)
    if parts[2].startswith("err"):
        return "%r (format %r) does not parse back: %s" % (text, fmt, parts[2])
    if parts[1] != parts[2]:
        return "%r parsed with %r gives [instant(UTC) offset] %s, the value was %s" % (text, fmt, parts[2], parts[1])
    return None


def run_zones(ctx):
    lines = [gen_zone_line(ctx.rng) for _ in range(ctx.n(1500, 40000))]
    # every whole-minute offset once (the sign/hour/minute arithmetic is per offset)
    for o in range(-1439, 1440, 1 if not ctx.quick else 7):
        lines.append("date\tdtz\t2023\t12\t31\t23\t45\t0\t0\t%d\t%s" % (o * 60, ctx.rng.choice(ZONE_FORMATS[:2]).replace("%9N", "%9N").encode().hex()))
    lines += ZONE_FINDING_LINES
    ans = vlib.run_impl(lines)
    ok, reported = True, 0
    for ln, a in zip(lines, ans):
        ctx.case(ln, sample={"line": ln, "impl": a})
        ctx.stat("op:dtz")
        why = zone_oracle(ln, a)
        if why is None:
            continue
        if reported >= 3:
            ok = False
            continue
        reported += 1
        if ctx.violation("property-fails", {"line": ln}, why + "; impl=" + a):
            ok = False
        else:
            reported -= 1
    ctx.obligation("fixed-offset zones: strftime/parse round trip and printed offset on %d datetimes" % len(lines), ok, "search")


def run(ctx):
    ctx.rule = ("operation lines over value.Date/DateTime/spans: boundary-biased dates (year range ends, year 0, negative "
                "years, leap days, month ends), spans around int32/int64-nanosecond limits, format strings from a "
                "directive pool plus damaged inputs; distinct = distinct line; every line is non-trivial")
    ctx.assumptions += [
        "go-time-is-proleptic-gregorian: time.Date/Year/Month/Day/Add of the Go runtime in UTC compute the proleptic "
        "Gregorian calendar (modelled by Elk.Civil; exercised by every correspondence line, judged by the python oracle)",
        "TZ=UTC: local-time zones and DST transitions are outside the model",
    ]
    ctx.prove("ElkVerif.Props.C22")
    if ctx.replay:
        lines = [json.load(open(ctx.replay))["input"]["line"]]
        if lines[0].startswith("date\tdtz\t"):
            a = vlib.run_impl(lines)[0]
            why = zone_oracle(lines[0], a)
            if why is not None:
                ctx.violation("property-fails", {"line": lines[0]}, why + "; impl=" + a)
            return
    else:
        run_zones(ctx)
        n = ctx.n(6000, 250000)
        lines = vlib.corpus_lines("C22") + [gen(ctx.rng) for _ in range(n)]
        # `%z` / `%:z` of every whole-minute offset (quick: every 7th + boundary pool) and some with seconds, out of range
        offs = set(m * 60 for m in ZONE_MINUTES) | set(range(-1439 * 60, 1440 * 60, 60 * (7 if ctx.quick else 1)))
        offs |= {-1830, 1, -1, 59, -59, 86399, -86399, 86400, -86400, 90000}
        for o in sorted(offs):
            lines.append("date\tzoff\t%d\t%d" % (ctx.rng.randint(0, 1), o))
        # civil functions against Go's time package over a stride of the whole year range
        step = ctx.n(20011, 199)
        for y in range(MINY, MAXY + 1, step):
            m = ctx.rng.randint(1, 12)
            lines.append("date\tdt\tmk\t%d\t%d\t%d\t0\t0\t0\t0" % (y, m, ctx.rng.choice([1, 28, dim(y, m)])))
            if y % 3 == 0:
                lines.append("date\tadd\t%d\t%d\t1\t0\t%d" % (y, m, ctx.rng.choice([365, 366, -365, 146097, 36524, 1461])))
    # lines the model does not cover (directive outside the subset, clock-dependent parse) are dropped, counted
    pre = vlib.run_model(lines)
    keep = []
    for ln, b in zip(lines, pre):
        if b == "unsupported" or b == "ok now" or b.endswith("| now") or b.startswith("bad-"):
            ctx.stat("dropped:" + ("unmodelled" if b == "unsupported" else "clock" if "now" in b else b))
            if ctx.replay:
                keep.append(ln)
            continue
        keep.append(ln)
        ff = ln.split("\t")
        ctx.stat("op:" + ff[1] + (":" + ff[2] if ff[1] in ("dt", "ds", "ts", "dts") else ""))
    datelib.correspond(ctx, keep, oracle=oracle, minimise=minimise, label="date domain", keyfn=keyfn)
    # the same operations through Elk source
    cand = [l for l in keep if l.split("\t")[1] in ("add", "sub", "diffadd", "str")]
    if ctx.replay and not cand:
        return
    if not ctx.replay:
        ctx.rng.shuffle(cand)
    run_elk(ctx, cand[:ctx.n(300, 4000)])
