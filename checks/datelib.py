"""Helpers shared by checks/c22.py and checks/c23.py (local to these two checks).

`correspond` is vlib.correspond with one difference: a failing line that is a *listed known finding*
does not break the correspondence obligation (vlib.correspond marks the obligation failed for every
failing line, so that a tree with an open finding can never exit 0 — see docs/C22.md "requests").
Every failing line is classified: first against known_findings.json as it is (the findings of these
two properties are keyed by operation class + the oracle's message, so they match unminimised
lines), only the others are minimised and reported.
"""
import vlib


def correspond(ctx, lines, oracle=None, minimise=None, label="correspondence", keyfn=None, max_report=5):
    impl = vlib.run_impl(lines)
    model = vlib.run_model(lines)
    ok = True
    reported = 0
    unlisted = 0
    res = []
    for ln, a, b in zip(lines, impl, model):
        res.append((ln, a, b))
        ctx.case(keyfn(ln) if keyfn else ln, sample={"line": ln, "impl": a, "model": b})
        ctx.stat("answer:" + a.split(" ", 1)[0])
        if b.startswith("bad-"):
            raise RuntimeError(f"model rejected line {ln!r}: {b}")
        prop_fail = oracle(ln, a) if oracle else None
        if a == b and prop_fail is None:
            continue
        if prop_fail is not None:
            v = {"kind": "property-fails", "input": {"line": ln}, "detail": f"{prop_fail}; impl={a!r} model={b!r}"}
            f = ctx.match_finding(v)
            if f is not None and a == b:
                # the model mirrors the defect and the finding is listed: known, not a broken tie
                ctx.violation(v["kind"], v["input"], v["detail"])
                ctx.stat("known:" + f["id"])
                continue
        ok = False
        unlisted += 1
        if reported >= max_report:
            continue
        reported += 1
        line = ln
        if minimise:
            def still(l2):
                x = vlib.run_impl([l2])[0]
                y = vlib.run_model([l2])[0]
                pf = oracle(l2, x) if oracle else None
                return (x != y) == (a != b) and (pf is None) == (prop_fail is None) and not y.startswith("bad-")
            try:
                line = minimise(ln, still)
            except Exception:
                line = ln
            a2, b2 = vlib.run_impl([line])[0], vlib.run_model([line])[0]
            pf2 = oracle(line, a2) if oracle else None
        else:
            a2, b2, pf2 = a, b, prop_fail
        if pf2 is not None:
            v = {"kind": "property-fails", "input": {"line": line}, "detail": f"{pf2}; impl={a2!r} model={b2!r}"}
            if ctx.match_finding(v) is not None and a2 != b2:
                # same class as a listed finding, but the code no longer behaves like the model of today's
                # (defective) code on this input: a different failure, reported with its input
                ctx.violation("property-fails-differently", {"line": line},
                              f"{pf2}; and the implementation deviates from the model of the listed defect: "
                              f"impl={a2!r} model={b2!r}")
            elif not ctx.violation(v["kind"], v["input"], v["detail"]):
                unlisted -= 1
        else:
            ctx.violation("model-impl-disagree", {"line": line, "correspondence": label},
                          f"impl={a2!r} model={b2!r}; the property oracle found no failure on this input",
                          no_input=True)
    ctx.obligation(f"{label}: implementation = model on {len(lines)} generated lines"
                   + (f" ({unlisted} unlisted failing lines)" if unlisted else ""), unlisted == 0, "correspondence")
    return res
