"""C09 — The native Go backend behaves like the bytecode VM."""
import json
import os
import re
import shutil
import subprocess
import vlib
from checks import mini_gen, mini_common

META = {
    "property_id": "C09",
    "technique": "three-way differential execution (Go backend binary vs bytecode VM vs Lean MiniElk reference evaluator) of generated programs; Lean theorems only about the reference (determinism by construction) and the Int helpers",
    "level_text": "Partial, weak. No model of compiler/go_compiler.go exists; no theorem quantifies over programs for the "
                  "Go backend. Each generated MiniElk program the backend accepts is translated by the real "
                  "CheckSourceNative, gofmt-ed, built with `go build -tags native` and run; stdout, exit status and the "
                  "uncaught-error report must equal those of the bytecode VM and the Lean reference evaluator's trace "
                  "and outcome. A program the backend accepted whose Go does not build is itself a violation.",
    "level_note": "Trusted: go build, the MiniElk decoder/printer/generator, this harness. The subset is decided by "
                  "probing (accepted by CheckSourceNative and builds), not by a list.",
    "design_ref": "DESIGN.md §7 C09",
}

KNOBS = dict(closures=False, defs=2, max_depth=2, block_len=(1, 4), exceptions=False, labels=False, print_types=['int', 'int', 'str'],
             assign_expr=False, early_return=False, nilable=False)
FRAME = re.compile(r"^\s*\d+: (.*?):(\d+), in `(.*)`")


# genuine backend defects recorded as known findings, replayed on every run
FINDING_PROGRAMS = [
    "var v1 = 5\nprintln(((v1 > 10) && (v1 <= 0)).inspect)\n",
    "module KfC09b\n  def f(a: Int): Int\n    10 / a\n  end\nend\nprintln(KfC09b.f(0).inspect)\n",
]


def expr_grid_programs(seed):
    """Deterministic arithmetic-expression grid (MiniElk s-expressions): every combination of the five Int
    operators in three nesting shapes over five operands, a few hundred printed lines per program.
    Expressions that would divide by zero are left out (evaluated here with truncating semantics)."""
    import itertools
    ops = ["add", "sub", "mul", "div", "mod"]
    vals = {"a": 17 + seed % 3, "b": 5, "c": 3, "d": -11, "e": 4}

    def ev(t):
        if isinstance(t, str):
            return vals[t]
        op, x, y = t
        x, y = ev(x), ev(y)
        if x is None or y is None:
            return None
        if op == "add":
            return x + y
        if op == "sub":
            return x - y
        if op == "mul":
            return x * y
        if y == 0:
            return None
        q = abs(x) // abs(y) * (1 if (x >= 0) == (y >= 0) else -1)
        return q if op == "div" else x - q * y

    def sx(t):
        return f"(var {t})" if isinstance(t, str) else f"(bin {t[0]} {sx(t[1])} {sx(t[2])})"
    exprs = []
    for o1, o2, o3, o4 in itertools.product(ops, repeat=4):
        exprs.append((o3, (o2, (o1, "a", "b"), "c"), (o4, "d", "e")))
    for o1, o2, o3 in itertools.product(ops, repeat=3):
        exprs.append((o1, "a", (o2, "b", (o3, "c", "d"))))
        exprs.append((o1, (o2, "a", "b"), (o3, "c", "d")))
    exprs = [t for t in exprs if ev(t) is not None]
    decls = " ".join(f"(decl {k} _ (int {v}))" for k, v in vals.items())
    progs = []
    for i in range(0, len(exprs), 300):
        body = " ".join(f"(print {sx(t)})" for t in exprs[i:i + 300])
        progs.append(f"(prog G{seed}x{i} (defs) (main {decls} {body}))")
    return progs


# fixed Elk sources outside MiniElk, compared VM vs native like the finding replays: short-circuit operators whose left
# operand has a statically falsy / truthy type and a side effect (the backend has shortcuts keyed on the static type)
RAW_PROGRAMS = [
    "module SCn\n  def note(s: String): nil\n    println(\"> \" + s)\n    nil\n  end\n  def yes(s: String): true\n    println(\"+ \" + s)\n    true\n  end\n"
    "  def no(s: String): false\n    println(\"- \" + s)\n    false\n  end\n  def num(s: String, n: Int): Int?\n    println(\"# \" + s)\n    return nil if n < 0\n    n\n  end\nend\n"
    "x := SCn.note(\"first\") || 1\nprintln(x.inspect)\ny := SCn.yes(\"second\") && 2\nprintln(y.inspect)\n"
    "SCn.note(\"third\") || SCn.note(\"fourth\")\nw := SCn.no(\"fifth\") || 3\nprintln(w.inspect)\nz := SCn.note(\"sixth\") ?? 6\nprintln(z.inspect)\n"
    "SCn.yes(\"seventh\") || SCn.note(\"not evaluated\")\nSCn.no(\"eighth\") && SCn.note(\"not evaluated\")\n"
    "if SCn.note(\"ninth\") || SCn.yes(\"tenth\")\n  println(\"then\")\nend\nunless SCn.yes(\"eleventh\") && SCn.no(\"twelfth\")\n  println(\"unless\")\nend\n"
    "v := SCn.num(\"a\", -1) ?? SCn.num(\"b\", 4) ?? 9\nprintln(v.inspect)\nu := SCn.num(\"c\", 2) || 7\nprintln(u.inspect)\n",
]


def native_translate(srcs):
    return vlib.run_programs([{"id": f"n{i}", "src": s, "name": f"/tmp/n{i}.elk"} for i, s in enumerate(srcs)], sub="native")


def build_batch(ctx, gos):
    """gos: list of (idx, go source). Returns (binary path or None, {idx: compile error})."""
    d = os.path.join(ctx.scratch, "batch")
    shutil.rmtree(d, ignore_errors=True)
    os.makedirs(d)
    open(os.path.join(d, "go.mod"), "w").write(
        "module batch\n\ngo 1.25.0\n\nrequire github.com/elk-language/elk v0.0.0\n\n"
        f"replace github.com/elk-language/elk => {vlib.REPO}\n")
    shutil.copy(os.path.join(vlib.REPO, "go.sum"), os.path.join(d, "go.sum"))
    env = vlib.go_env()
    bad = {}
    for idx, g in gos:
        pd = os.path.join(d, f"p{idx}")
        os.makedirs(pd)
        g = g.replace("package main\n", f"package p{idx}\n", 1).replace("\nfunc main() {", "\nfunc Main() {", 1)
        open(os.path.join(pd, "prog.go"), "w").write(g)
    # compile each package on its own first: an accepted program that does not build is a violation
    good = []
    rc, log = vlib.sh(["go", "build", "-tags", "native", "./..."], cwd=d, env=env, timeout=1500)
    if rc != 0:
        for idx, _ in gos:
            rc1, log1 = vlib.sh(["go", "build", "-tags", "native", f"./p{idx}"], cwd=d, env=env, timeout=600)
            if rc1 != 0:
                bad[idx] = log1[-600:]
            else:
                good.append(idx)
    else:
        good = [idx for idx, _ in gos]
    if not good:
        return None, bad
    main = ["package main", "", "import (", '\t"os"']
    main += [f'\tp{idx} "batch/p{idx}"' for idx in good]
    main += [")", "", "func main() {", "\tswitch os.Args[1] {"]
    for idx in good:
        main += [f'\tcase "p{idx}":', f"\t\tp{idx}.Main()"]
    main += ["\t}", "}"]
    open(os.path.join(d, "main.go"), "w").write("\n".join(main) + "\n")
    for idx in bad:
        shutil.rmtree(os.path.join(d, f"p{idx}"))
    with vlib.Lock("gobatch"):
        rc, log = vlib.sh(["go", "build", "-tags", "native", "-o", "batchbin", "."], cwd=d, env=env, timeout=1500)
    if rc != 0:
        raise RuntimeError("batch link failed: " + log[-800:])
    return os.path.join(d, "batchbin"), bad


def run_native(binary, idx):
    env = vlib.go_env()
    env["NO_COLOR"] = "1"
    try:
        p = subprocess.run([binary, f"p{idx}"], stdout=subprocess.PIPE, stderr=subprocess.PIPE, text=True,
                           errors="replace", timeout=20, env=env)
        return p.returncode, p.stdout, p.stderr
    except subprocess.TimeoutExpired:
        return -9, "", "timeout"


def strip_ansi(s):
    return re.sub(r"\x1b\[[0-9;]*m", "", s)


def report_of_native(rc, err):
    err = strip_ansi(err)
    frames = [(m.group(3), int(m.group(2))) for m in (FRAME.match(l) for l in err.splitlines()) if m]
    msg = ""
    for l in err.splitlines():
        if l.startswith("Error! Uncaught"):
            msg = l.strip()
    return {"status": "fail" if rc != 0 else "ok", "error": msg, "frames": frames}


def report_of_vm(a):
    if a["outcome"] == "value":
        return {"status": "ok", "error": "", "frames": []}
    if a["outcome"] == "error":
        cls, m = a.get("err_class"), a.get("err_msg", "")
        if cls in ("Std::String", "Std::Int"):
            msg = f"Error! Uncaught thrown value: {m}"
        else:
            msg = f"Error! Uncaught error {cls}: {m}"
        return {"status": "fail", "error": msg, "frames": [(f["fn"], f["line"]) for f in a.get("trace") or []]}
    return {"status": a["outcome"], "error": a.get("panic") or "", "frames": []}


def run(ctx):
    ctx.rule = ("MiniElk programs (methods, locals, loops with labels, throw/catch/finally, short-circuit) accepted by the Go "
                "backend; distinct = distinct program; non-trivial = the reference prints something or ends in an error")
    ok_l, log = vlib.lake_build(["elkmodel"])
    ctx.obligation("lake build elkmodel (MiniElk reference evaluator)", ok_l, "build", "; ".join(vlib.lean_errors(log)))
    ctx.checker_cmd = "cd lean && lake build elkmodel   # no property theorem: see level_text"
    raw_replay = None
    if ctx.replay:
        inp = json.load(open(ctx.replay))["input"]
        if inp.get("sexpr"):
            sexprs = [inp["sexpr"]]
        else:
            sexprs, raw_replay = [], [inp["program"]]
    else:
        sexprs = mini_common.corpus_programs("C09") + expr_grid_programs(ctx.seed)
        for i in range(ctx.n(20, 1500)):
            g = mini_gen.Gen(ctx.rng, mini_gen.Knobs(**KNOBS), modname=f"B{ctx.seed}x{i}")
            sexprs.append(g.program())
    recs = mini_common.compare_programs(ctx, sexprs, "bytecode VM vs reference")
    srcs = [r["src"] for r in recs]
    trans = native_translate(srcs)
    vm_ans = vlib.run_programs([{"id": f"v{i}", "src": s, "name": f"/tmp/n{i}.elk"} for i, s in enumerate(srcs)])
    ok = True
    accepted = [(i, t["go"]) for i, t in enumerate(trans) if t.get("ok")]
    for i, t in enumerate(trans):
        ctx.stat("backend:" + ("accepted" if t.get("ok") else "panic" if t.get("panic") else "fmt-error" if t.get("fmt_error") else "rejected"))
        # a backend that panics or emits unformattable Go has not *accepted* the program: outside the
        # property's premise; counted in the distribution (backend:panic / backend:fmt-error) only
    CH = 25
    for c in range(0, len(accepted), CH):
        chunk = accepted[c:c + CH]
        binary, bad = build_batch(ctx, chunk)
        for idx, why in bad.items():
            if ctx.violation("generated-go-does-not-build", {"program": srcs[idx], "sexpr": sexprs[idx]}, why):
                ok = False
        for idx, _ in chunk:
            if idx in bad or binary is None:
                continue
            rc, out, err = run_native(binary, idx)
            nat = report_of_native(rc, err)
            vm = report_of_vm(vm_ans[idx])
            r = recs[idx]
            ctx.case(srcs[idx], nontrivial=bool(r["model_out"]) or r["model"] != "val",
                     sample={"program": srcs[idx][:400], "native": nat, "vm": vm})
            same = (out == vm_ans[idx]["stdout"] and nat["status"] == vm["status"] and nat["error"] == vm["error"])
            if same and nat["frames"] != vm["frames"]:
                # known finding C09-native-trace-frames (replayed separately): method frames are missing
                ctx.stat("trace-frames-differ")
            if same:
                continue
            if ctx.violation("native-differs", {"program": srcs[idx], "sexpr": sexprs[idx]},
                             f"VM: stdout={vm_ans[idx]['stdout']!r} {vm}; native: stdout={out!r} {nat} stderr-tail={strip_ansi(err)[-200:]!r}; "
                             f"reference: {r['model']} {r['model_out']!r}"):
                ok = False
    if not ctx.replay or raw_replay:
        fsrcs = raw_replay or (FINDING_PROGRAMS + RAW_PROGRAMS)
        ftrans = vlib.run_programs([{"id": f"k{i}", "src": s_, "name": f"/tmp/k{i}.elk"} for i, s_ in enumerate(fsrcs)], sub="native")
        fvm = vlib.run_programs([{"id": f"k{i}", "src": s_, "name": f"/tmp/k{i}.elk"} for i, s_ in enumerate(fsrcs)])
        facc = [(1000 + i, t["go"]) for i, t in enumerate(ftrans) if t.get("ok")]
        binary, bad = build_batch(ctx, facc) if facc else (None, {})
        for i, src in enumerate(fsrcs):
            idx = 1000 + i
            if idx in bad:
                ctx.violation("generated-go-does-not-build", {"program": src}, bad[idx][-300:])
                continue
            if not ftrans[i].get("ok") or binary is None:
                continue
            rc, out, err = run_native(binary, idx)
            nat, vm = report_of_native(rc, err), report_of_vm(fvm[i])
            if not (out == fvm[i]["stdout"] and nat == vm):
                ctx.violation("native-differs", {"program": src}, f"VM: stdout={fvm[i]['stdout']!r} {vm}; native: stdout={out!r} {nat}")
    ctx.obligation(f"Go backend = bytecode VM on {len(accepted)} accepted programs ({len(sexprs)} generated)", ok, "correspondence")
