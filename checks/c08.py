"""C08 — Results do not depend on which evaluation path the compiler chose."""
import json
import math
import os

import vlib
from checks import c08_gen
from checks import c18

META = {
    "property_id": "C08",
    "technique": "Lean 4 proof that the typed handler selected from the static type, the generic dispatch and constant "
                 "folding call the same receiver method on the same operand (for an arbitrary method semantics), over "
                 "probe tables regenerated from the real compiler/VM + metamorphic search over five program variants",
    "level_text": "Kernel-checked for every receiver-method semantics and every Int/Float left operand: "
                  "typed_eq_generic/selected_eq_generic (typed opcode = generic dispatch, under a decidable condition on "
                  "the probed opcode-selection and handler-accessor tables, re-proved by decide each run), "
                  "fold_eq_generic, emit_float_roundtrip. Std methods called by name and statically bound calls are "
                  "covered by the metamorphic search only (partial).",
    "level_note": "Trusted: Lean kernel; hand-written mirror of the typed handlers (tied by the `handlers` probe and the "
                  "metamorphic runs); static types describe runtime values (C02); receiver methods are a parameter, their "
                  "arithmetic is C06/C07's. Known finding: `==` with a Float-typed left operand emits EQUAL_INT.",
    "design_ref": "DESIGN.md §7 C08",
}

OPS = ["+", "-", "*", "/", "**", "%", "<<", ">>", "<<<", ">>>", "&", "&~", "|", "^",
       "=~", "!~", "==", "!=", "===", "!==", ">", ">=", "<", "<=", "<=>"]
ARITH = ["+", "-", "*", "/", "**", "%"]
CMPS = ["=~", "!~", "==", "!=", "===", "!==", ">", ">=", "<", "<=", "<=>"]
BITS = ["<<", ">>", "&", "&~", "|", "^"]

INT_LITS = ["0", "1", "-1", "2", "3", "-7", "10", "63", "64", "255", "9007199254740993", "-9007199254740993",
            "9223372036854775807", "-9223372036854775807", "9223372036854775808", "18446744073709551616",
            "-18446744073709551617", "4611686018427387904", "3037000500", "4294967296", "2147483648", "-2147483649",
            "170141183460469231731687303715884105728"]
FLOAT_LITS = ["0.0", "1.0", "-1.0", "2.0", "2.5", "-3.5", "1.25", "0.1", "9007199254740992.0", "9007199254740994.0",
              "-9007199254740992.0", "1e300", "-1e300", "1e-300", "5e-324", "9223372036854775808.0", "18446744073709551616.0",
              "0.5", "3.0", "-0.5", "1e308", "4.0", "100.0"]
SPECIAL_FLOATS = ["Float::INF", "-Float::INF", "Float::NAN", "-(0.0)"]
KINDS = {
    "Int": INT_LITS,
    "Float": FLOAT_LITS,
    "BigFloat": ["0.0bf", "1.0bf", "2.5bf", "-3.5bf", "1.25bf", "0.1bf", "9007199254740993.0bf", "1e40bf", "3.0bf"],
    "Float64": ["0.0f64", "1.0f64", "2.5f64", "-3.5f64", "1e300f64", "3.0f64"],
    "Float32": ["0.0f32", "1.0f32", "2.5f32", "-3.5f32", "1e30f32", "3.0f32", "16777216.0f32"],
    "Int64": ["0i64", "1i64", "-1i64", "3i64", "9223372036854775807i64", "-9223372036854775807i64", "64i64", "63i64"],
    "Int32": ["0i32", "1i32", "-1i32", "3i32", "2147483647i32", "-2147483647i32", "31i32", "32i32"],
    "Int16": ["0i16", "1i16", "-1i16", "3i16", "32767i16", "-32767i16", "16i16"],
    "Int8": ["0i8", "1i8", "-1i8", "3i8", "127i8", "-127i8", "7i8", "8i8"],
    "UInt64": ["0u64", "1u64", "3u64", "18446744073709551615u64", "9223372036854775808u64", "64u64"],
    "UInt32": ["0u32", "1u32", "3u32", "4294967295u32", "32u32"],
    "UInt16": ["0u16", "1u16", "3u16", "65535u16", "16u16"],
    "UInt8": ["0u8", "1u8", "3u8", "255u8", "8u8", "7u8"],
    "String": ['""', '"a"', '"b"', '"ab"', '"3"'],
    "Char": ["`a`", "`b`", "`z`"],
}
NUMERIC = ["Int", "Float", "BigFloat"]


def gen_case(rng):
    """(op, TA, LA, TB, LB): mostly combinations the checker accepts"""
    r = rng.random()
    if r < 0.55:
        ta = rng.choice(["Int", "Float"])
        tb = rng.choice(NUMERIC if rng.random() < 0.85 else list(KINDS))
        op = rng.choice(ARITH + CMPS if ta == "Float" or rng.random() < 0.75 else BITS)
        if op in BITS:
            tb = rng.choice(["Int", "Int", "Int8", "UInt8", "Int64"])
    elif r < 0.7:
        ta = "BigFloat"
        tb = rng.choice(NUMERIC)
        op = rng.choice(ARITH + CMPS)
    elif r < 0.9:
        ta = rng.choice(["Float64", "Float32", "Int64", "Int32", "Int16", "Int8", "UInt64", "UInt32", "UInt16", "UInt8"])
        tb = ta if rng.random() < 0.8 else rng.choice(list(KINDS))
        op = rng.choice(OPS if not ta.startswith("F") else ARITH + CMPS)
        if op in ("<<", ">>", "<<<", ">>>"):
            tb = rng.choice(["Int", "Int8", "UInt8", ta])
    else:
        ta = rng.choice(["String", "Char"])
        tb = rng.choice(["String", "Char", "Int"])
        op = rng.choice(["+", "*", "==", "!=", "=~", "<", "<=", ">", ">=", "<=>", "==="])
        if op == "*":
            tb = "Int"
    if rng.random() < 0.08:
        ta = rng.choice(["Int", "Float", "BigFloat", "Int64", "Int8", "UInt8", "Float64"])
        op = rng.choice(["u-", "u+", "u~"] if not ta.startswith(("F", "B")) else ["u-", "u+"])
        tb = "Int"
    la = rng.choice(KINDS[ta])
    lb = rng.choice(KINDS[tb])
    if ta == "Float" and rng.random() < 0.1:
        la = rng.choice(SPECIAL_FLOATS)
    if tb == "Float" and rng.random() < 0.1:
        lb = rng.choice(SPECIAL_FLOATS)
    if op == "**":
        # sized-integer `**` multiplies in a loop of `exponent` iterations and BigFloat `**` is slow: small exponents only
        lb = rng.choice(["0", "1", "2", "3", "10", "-1", "-2", "64"]) if tb == "Int" else rng.choice(KINDS[tb][:3])
    if op in ("<<", ">>", "<<<", ">>>") and tb == "Int":
        lb = rng.choice(["0", "1", "3", "63", "64", "65", "-1", "-3", "127"])
    if op == "*" and ta in ("String", "Char"):
        lb = rng.choice(["0", "1", "3"])
    return op, ta, la, tb, lb


def sweep_cases():
    """deterministic: every operator on an Int pair and a Float pair whose results tell the operators apart,
    and the comparisons on equal operands — every typed handler runs on every check"""
    out = []
    for op in OPS:
        out.append((op, "Int", "-7", "Int", "3"))
        if op not in ("<<", ">>", "<<<", ">>>", "&", "&~", "|", "^"):
            out.append((op, "Float", "-3.5", "Float", "-1.25"))
            out.append((op, "Float", "-3.5", "Int", "3"))
            out.append((op, "Int", "-7", "Float", "2.5"))
    for op in CMPS:
        out.append((op, "Int", "3", "Int", "3"))
        out.append((op, "Float", "2.5", "Float", "2.5"))
        out.append((op, "Int", "9223372036854775808", "Int", "9223372036854775807"))
    for op in ("u-", "u+", "u~"):
        out.append((op, "Int", "-7", "Int", "3"))
        out.append((op, "Int", "9223372036854775808", "Int", "3"))
    for op in ("u-", "u+"):
        out.append((op, "Float", "0.0", "Int", "3"))
        out.append((op, "Float", "-3.5", "Int", "3"))
    return [c for c in out if not KNOWN_CRASH(c[0], c[1])]


# ---------------------------------------------------------------- deterministic boundary grid (batched programs)

GRID_INT = ["0", "1", "-1", "2", "-2", "(-9223372036854775807 - 1)", "9223372036854775807", "-9223372036854775807",
            "2147483648", "-2147483648", "4294967296", "-4294967296", "9007199254740992", "-9007199254740992",
            "9007199254740993", "9223372036854775808", "-9223372036854775809", "18446744073709551616", "3", "-7"]
GRID_INT_R = ["0", "1", "-1", "2", "3", "4", "8", "-2", "(-9223372036854775807 - 1)", "9223372036854775807", "2147483648", "-4294967296",
              "9007199254740993", "9223372036854775808", "-9223372036854775809"]
GRID_FLOAT = ["0.0", "-0.0", "1.0", "-1.0", "5e-324", "1.7976931348623157e308", "-1.7976931348623157e308", "Float::INF",
              "-Float::INF", "Float::NAN", "9007199254740992.0", "9007199254740994.0", "9007199254740991.0", "0.5", "2.5"]
GRID_FLOAT_R = ["0.0", "-0.0", "1.0", "-1.0", "2.5", "Float::INF", "Float::NAN", "9007199254740992.0"]
GRID_SHIFT_R = ["0", "1", "3", "31", "63", "-1", "-3"]
GRID_POW_R = {"Int": ["0", "1", "2", "3"], "Float": ["0.0", "1.0", "2.0", "0.5", "-1.0"]}


def hexlist(xs):
    return ";".join(x.encode().hex() for x in xs)


def grid_lines():
    """every binary operator on the boundary sets of Int and Float (all four type combinations the checker admits)
    and the unary operators: one line = one (operator, type pair) batch of len(LA)*len(LB) operand pairs"""
    out = []
    for op in OPS:
        if op in ("<<<", ">>>"):
            continue                      # not defined on Int/Float
        for ta, las in (("Int", GRID_INT), ("Float", GRID_FLOAT)):
            for tb, lbs in (("Int", GRID_INT_R), ("Float", GRID_FLOAT_R)):
                if op in BITS and (ta, tb) != ("Int", "Int"):
                    continue
                if KNOWN_CRASH(op, ta):
                    continue
                if op in ("<<", ">>"):
                    lbs = GRID_SHIFT_R    # 1 << 64 panics on every path (D5, C06)
                if op == "**":
                    lbs = GRID_POW_R[tb]
                if op in ("/", "%") and tb == "Int":
                    lbs = [x for x in lbs if x != "0"]    # ZeroDivisionError aborts a batch: run separately below
                out.append("\t".join(["path", "grid", op, ta, tb, hexlist(las), hexlist(lbs)]))
    for u in ("u-", "u+", "u~"):
        out.append("\t".join(["path", "grid", u, "Int", "Int", hexlist(GRID_INT), hexlist(["0"])]))
        if u != "u~":
            out.append("\t".join(["path", "grid", u, "Float", "Int", hexlist(GRID_FLOAT), hexlist(["0"])]))
    return out


def grid_cases_zero_div():
    return [(op, "Int", la, "Int", "0") for op in ("/", "%") for la in ("(-9223372036854775807 - 1)", "0", "7")] + \
           [(op, "Float", "2.5", "Int", "0") for op in ("/", "%")]


def grid_pairs(line):
    f = line.split("\t")
    las = [bytes.fromhex(h).decode() for h in f[5].split(";")]
    lbs = [bytes.fromhex(h).decode() for h in f[6].split(";")]
    if f[2].startswith("u") and len(f[2]) == 2:
        lbs = ["0"]
    return f[2], f[3], f[4], [(a, b) for a in las for b in lbs]


def grid_oracle(line, ans):
    """-> (None | failure text, list of (la, lb) pairs to re-run one by one)"""
    op, ta, tb, pairs = grid_pairs(line)
    unary = op.startswith("u") and len(op) == 2
    if not ans.startswith("ok n="):
        return f"[crash] grid {op} {ta} {tb}: {ans[:100]}", pairs
    parts = dict(p.split("=", 1) for p in ans[3:].split(" "))
    n = int(parts["n"])
    segs = [x for x in parts.get("segs", "").split(",") if x and x != "-"]

    def elems(r, k):
        if not r.startswith("list_"):
            return None
        e = r.split("_")[2:]
        return e if len(e) == k else None
    lit = elems(parts["lit"], n)
    rest = elems(parts["rest"], n * len(segs))
    if parts["rest"] == "rejected":
        return None, []                   # no variable form is admitted: nothing to compare the folded form with
    if lit is None or rest is None:
        # an error/panic aborted a whole batch (or only one program was rejected): decide pair by pair
        return None, pairs
    for i, (la, lb) in enumerate(pairs):
        seen = {canon_result(lit[i]): ["lit"]}
        for si, sname in enumerate(segs):
            seen.setdefault(canon_result(rest[si * n + i]), []).append(sname)
        if len(seen) > 1:
            prog = f"{op[1:]}({la})" if unary else f"var a: {ta} = {la}; var b: {tb} = {lb}; a {op} b"
            return ("[paths-differ] " + prog + " : " +
                    " vs ".join(f"{'/'.join(v)} -> {r}" for r, v in sorted(seen.items()))), [(la, lb)]
    return None, []


KNOWN_CRASH = lambda op, ta: op == "==" and ta == "Float"   # EQUAL_INT on a Float: kills the worker (known finding)


def mk_line(op, ta, la, tb, lb, desc):
    return "\t".join(["path", "run", op, ta, desc[la], la.encode().hex(), tb, desc[lb], lb.encode().hex()])


def parse_ans(ans):
    """-> dict variant -> (opcodes, result) or None"""
    if not ans.startswith("ok "):
        return None
    out = {}
    for part in ans[3:].split(" "):
        if "=" not in part:
            return None
        k, v = part.split("=", 1)
        if ";" not in v:
            return None
        o, r = v.split(";", 1)
        out[k] = (o, r)
    return out


def canon_result(r):
    # every NaN is the same result; BigFloat precision is not part of the value
    if r.startswith("f:"):
        x = c18.bits_f64(int(r[2:], 16))
        if math.isnan(x):
            return "f:nan"
    if r.startswith("bf:") and r.count(":") == 4:
        p = r.split(":")
        return ":".join([p[0], "*"] + p[2:])
    return r


def oracle(line, ans):
    """metamorphic, model-free: every variant the checker accepts gives the same value or error"""
    if ans.startswith("fatal") or ans.startswith("panic"):
        return f"[crash] the worker died or panicked: {ans[:120]}"
    p = parse_ans(ans)
    if p is None:
        return f"[answer] unexpected answer {ans[:120]!r}"
    seen = {}
    for k, (o, r) in p.items():
        if r == "rejected":
            continue
        if r == "unencodable":
            continue
        seen.setdefault(canon_result(r), []).append(f"{k}({o})")
    if len(seen) > 1:
        return "[paths-differ] " + " vs ".join(f"{'/'.join(v)} -> {r}" for r, v in sorted(seen.items()))
    return None


def fields_match(impl, model):
    """model fields may be `?` (not predicted)"""
    a, b = parse_ans(impl), parse_ans(model)
    if a is None or b is None:
        return impl == model
    for k, (o, r) in b.items():
        if k not in a:
            return False
        io, ir = a[k]
        if ir == "rejected":
            continue
        if o != "?" and o != io:
            return False
        if r != "?" and canon_result(r) != canon_result(ir):
            return False
    return True


def minimise(line, still, desc_fn):
    """try simpler literals (0/1/2.5 of the same type), one operand at a time"""
    f = line.split("\t")
    op, ta, tb = f[2], f[3], f[6]
    la, lb = bytes.fromhex(f[5]).decode(), bytes.fromhex(f[8]).decode()
    simple = lambda t: KINDS.get(t, [])[:4]
    cur = (la, lb)
    for which in (0, 1):
        for c in simple(ta if which == 0 else tb):
            cand = (c, cur[1]) if which == 0 else (cur[0], c)
            if cand == cur:
                continue
            d = desc_fn([cand[0], cand[1]])
            if cand[0] not in d or cand[1] not in d:
                continue
            l2 = mk_line(op, ta, cand[0], tb, cand[1], d)
            if still(l2):
                cur = cand
                break
    d = desc_fn(list(cur))
    return mk_line(op, ta, cur[0], tb, cur[1], d)


def run(ctx):
    ctx.rule = ("(operator, left literal with static type, right literal with static type) over Int/Float/BigFloat/sized "
                "numerics/String/Char with boundary values; each case is compiled in five variants (literal expression, "
                "typed variables, union-typed variables, statically bound call, dynamically dispatched call; the grid adds "
                "typed variable x literal and literal x typed variable); plus a "
                "deterministic boundary grid: every binary/unary operator x boundary sets of Int (0, +-1, +-2, Min/MaxInt64, "
                "+-2^31, +-2^32, +-2^53, 2^63, -2^63-1, 2^64) and Float (+-0, +-1, tiny/huge, +-inf, NaN, 2^53+-) in all four "
                "type combinations, batched per program, variants compared element-wise; "
                "distinct = distinct (op, types, literals); non-trivial = at least two variants accepted by the checker")
    # probe tables: regenerated from the real compiler/VM on every run
    try:
        ch = c08_gen.regenerate()
        ctx.obligation("probe opselect/handlers regenerated ElkVerif/Gen/{OpSelect,Handlers}.lean", True, "probe",
                       "changed" if any(ch) else "unchanged")
    except Exception as e:
        ctx.obligation("probe opselect/handlers", False, "probe", str(e)[-300:])
    ctx.prove("ElkVerif.Props.C08")
    ctx.trusted += [
        "static types describe runtime values (C02): a variable of static type Int holds a SmallInt or *BigInt, of type Float a Float",
        "the receiver methods (SmallInt.AddVal, Float.SubtractVal, ...) are a parameter of the theorems; that a method called "
        "by name equals the operator is checked by the metamorphic search only",
        "handlerOf (the typed handlers of vm/thread.go) is hand-written; its accessors are compared with the `handlers` "
        "probe by decide and exercised by the typed/union program variants",
    ]
    describe = c18.describe
    if ctx.replay:
        lines = [json.load(open(ctx.replay))["input"]["line"]]
    else:
        rng = ctx.rng
        cases = []
        seen = set()
        n = ctx.n(80, 3500)
        tries = 0
        while len(cases) < n and tries < n * 20:
            tries += 1
            c = gen_case(rng)
            if c in seen or KNOWN_CRASH(c[0], c[1]):
                continue
            seen.add(c)
            cases.append(c)
        cases = sweep_cases() + grid_cases_zero_div() + cases
        lits = sorted({c[2] for c in cases} | {c[4] for c in cases})
        desc = describe(lits)
        lines = vlib.corpus_lines("C08")
        for c in cases:
            if c[2] in desc and c[4] in desc:
                lines.append(mk_line(*c, desc))
                ctx.stat("op:" + c[0])
                ctx.stat("left:" + c[1])
    if not ctx.replay:
        glines = grid_lines()
        gans = []
        for i in range(0, len(glines), 40):
            gans += vlib.run_impl(glines[i:i + 40], timeout=900)
        extra = []
        for gl, ga in zip(glines, gans):
            op, ta, tb, pairs = grid_pairs(gl)
            ctx.stat("grid-batches")
            ctx.stat("grid-pairs", len(pairs))
            ctx.evaluations += len(pairs)
            fail, redo = grid_oracle(gl, ga)
            if fail is not None or redo:
                ctx.stat("grid-batches-rerun-pairwise")
                if op.startswith("u") and len(op) == 2:
                    extra += [(op, ta, la, "Int", "0") for la, _ in redo[:60]]
                else:
                    extra += [(op, ta, la, tb, lb) for la, lb in redo[:60]]
        if extra:
            d2 = describe(sorted({c[2] for c in extra} | {c[4] for c in extra}))
            lines += [mk_line(*c, d2) for c in extra if c[2] in d2 and c[4] in d2]
    # a fresh worker per chunk: every compiled program leaves definitions in the process-global environment
    impl = []
    for i in range(0, len(lines), 250):
        impl += vlib.run_impl(lines[i:i + 250], timeout=1200)
    model = vlib.run_model(lines)
    ok = True
    reported = 0
    seen_sig = set()
    for ln, a, b in zip(lines, impl, model):
        f = ln.split("\t")
        p = parse_ans(a)
        accepted = sum(1 for v in (p or {}).values() if v[1] != "rejected")
        ctx.case((f[2], f[3], f[5], f[6], f[8]), nontrivial=accepted >= 2, sample={"line": ln, "impl": a, "model": b})
        ctx.stat("accepted-variants:%d" % accepted)
        if p:
            for k, (o, r) in p.items():
                if r != "rejected":
                    ctx.stat(f"{k}:" + ("CONST" if o == "CONST" else "call" if o.startswith("CALL") else
                                        "typed" if o.endswith(("_INT", "_FLOAT", "_I", "_F")) else "generic"))
        if b.startswith("bad-"):
            raise RuntimeError(f"model rejected line {ln!r}: {b}")
        pf = oracle(ln, a)
        agree = fields_match(a, b) if not a.startswith(("fatal", "panic")) else False
        if pf is None and agree:
            continue
        ctx.stat("failing-lines")
        sig = ((pf or "").split("]")[0], f[2], f[3], f[6], agree)
        if sig in seen_sig:
            continue
        seen_sig.add(sig)

        def both(l2):
            return vlib.run_impl([l2])[0], vlib.run_model([l2])[0]
        line = ln
        if pf is not None:
            direct = {"kind": "property-fails", "input": {"line": ln}, "detail": pf, "no_input": False}
            if ctx.match_finding(direct) is None and reported < 8 and not a.startswith("fatal"):
                law = pf.split("]")[0]

                def still(l2):
                    x, _ = both(l2)
                    p2 = oracle(l2, x)
                    return p2 is not None and p2.split("]")[0] == law
                try:
                    line = minimise(ln, still, describe)
                except Exception:
                    line = ln
            a2, b2 = both(line) if line != ln else (a, b)
            if ctx.violation("property-fails", {"line": line, "program": human(line)},
                             f"{oracle(line, a2) or pf}; impl={a2!r} model={b2!r}"):
                ok = False
                reported += 1
        elif not agree:
            ok = False
            reported += 1
            ctx.violation("model-impl-disagree", {"line": ln, "program": human(ln), "correspondence": "opcode selection / predicted results"},
                          f"impl={a!r} model={b!r}; all accepted variants agree with each other", no_input=True)
    ctx.obligation(f"opcode selection and predicted results: implementation = model on {len(lines)} cases", ok,
                   "correspondence")


def human(line):
    f = line.split("\t")
    try:
        return f"var a: {f[3]} = {bytes.fromhex(f[5]).decode()}; var b: {f[6]} = {bytes.fromhex(f[8]).decode()}; a {f[2]} b"
    except Exception:
        return line
