"""C32 — Uncaught errors report the active call chain with correct lines."""
import vlib

META = {
    "property_id": "C32",
    "technique": "Lean 4 refinement proof (RLE line table -> per-byte list) + differential correspondence with bytecode.LineInfoList",
    "level_text": "Kernel-checked refinement of the run-length line table to the per-byte line list for every emit-time "
                  "edit script (lineinfo_refines, getLine_flat); model tied to bytecode/line_info.go by differential "
                  "execution of generated edit scripts; program-level stack traces compared with the generator's known "
                  "call chain. Partial: the VM's frame walk is compared per program, not proved.",
    "level_note": "Trusted: Lean kernel; hand-written model of LineInfoList (+ prepLocals/removeBytes edits); harness. "
                  "Stack-trace construction in vm/thread.go is exercised by generated call chains only.",
    "design_ref": "DESIGN.md §7 C32",
}


def gen_script(rng, emit_only):
    n = rng.choice([0, 1, 2, 3, 5, 8, 13, 30])
    edits = []
    lines = [rng.randint(1, 6) for _ in range(3)] + [rng.choice([1, 2, 100000, 0, -1])]
    total = 0
    for _ in range(n):
        r = rng.random()
        if r < 0.45:
            b = rng.choice([1, 1, 2, 3, 4, 5]) if emit_only or rng.random() < 0.9 else rng.choice([0, -1])
            edits.append(f"a {rng.choice(lines)} {b}")
            total += b
        elif r < 0.6:
            edits.append(f"l {rng.choice([0, 1, 2, 4])}")
        elif r < 0.8:
            edits.append("r")
        elif emit_only:
            edits.append(f"a {rng.choice(lines)} 1")
        elif r < 0.87:
            edits.append(f"R {rng.choice([0, 1, 2, 3, 7])}")
        elif r < 0.94:
            edits.append(f"p {rng.choice([2, 3])}")
        else:
            edits.append(f"x {rng.randint(0, max(1, total))} {rng.choice([1, 2, 3])}")
    qs = sorted(set([0, 1, total, total + 1, -1] + [rng.randint(0, max(1, total + 2)) for _ in range(4)]))
    return "li\trun\t" + ";".join(edits) + "\t" + ";".join(map(str, qs))


def oracle(line, ans):
    """Model-free: a python per-byte list for the emit-time edits; GetLineNumber must read it."""
    f = line.split("\t")
    bs = []
    for e in filter(None, f[2].split(";")):
        p = e.split(" ")
        if p[0] == "a" and int(p[2]) >= 0:
            bs += [int(p[1])] * int(p[2])
        elif p[0] == "l" and int(p[1]) >= 0:
            if not bs:
                return None if ans == "panic" else "AddBytesToLastLine on empty table did not fail"
            bs += [bs[-1]] * int(p[1])
        elif p[0] == "r":
            if not bs:
                return None if ans == "panic" else "RemoveByte on empty table did not fail"
            bs.pop()
        else:
            return None  # outside the emit-time fragment: no model-free oracle
        if any(int(x) < 1 for x in p[2:3]) and p[0] == "a":
            return None
    if not ans.startswith("ok "):
        return f"unexpected answer {ans!r} for an emit-time script"
    got = ans.split(" | ", 1)[1]
    qs = [int(q) for q in filter(None, f[3].split(";"))]
    want = ",".join(str(bs[q] if 0 <= q < len(bs) else (-1 if q >= 0 or not bs else bs[0])) for q in qs)
    if got != want:
        return f"GetLineNumber answers {got} but the per-byte lines are {want}"
    return None


def minimise(line, still):
    f = line.split("\t")
    edits = [e for e in f[2].split(";") if e]
    qs = [q for q in f[3].split(";") if q]
    mk = lambda es, q: "li\trun\t" + ";".join(es) + "\t" + ";".join(q)
    edits = vlib.ddmin(edits, lambda es: still(mk(es, qs))) if len(edits) > 1 else edits
    qs = vlib.ddmin(qs, lambda q: still(mk(edits, q))) if len(qs) > 1 else qs
    return mk(edits, qs)


# ---------------------------------------------------------------- program level: stack traces

def gen_chain(rng, mod):
    """A call chain main -> m1 -> ... -> mk whose last link throws; the generator lays out the
    source, so it knows every frame's line. Returns (source, expected frames [(fn, line, tco)])."""
    n = rng.randint(1, 7)
    lines = [f"module {mod}"]
    frames = []          # expected, outermost first (after the file frame)
    kinds = [rng.choice(["plain", "plain", "tail", "closure", "async", "async_late", "multiline", "listlit"]) for _ in range(n)]
    kinds[-1] = "throw"
    pending_tco = 0
    for i, k in enumerate(kinds):
        name = f"m{i}"
        nxt = f"m{i + 1}(x)"
        hdr = f"  async def {name}(x: Int): Int" if (i > 0 and kinds[i - 1] in ("async", "async_late")) else f"  def {name}(x: Int): Int"
        lines.append(hdr)
        for _ in range(rng.randint(0, 2)):
            lines.append(rng.choice(["    # filler", "    var pad%d = x + %d" % (len(lines), rng.randint(1, 9)), ""]))
        if k == "throw":
            r = rng.random()
            if r < 0.35:
                lines.append('    throw unchecked "boom" if x > 0')
                frames.append((f"{mod}::{name}", len(lines), pending_tco))
            elif r < 0.6:
                lines.append("    var q = 10 / (x - 1)")
                frames.append((f"{mod}::{name}", len(lines), pending_tco))
            elif r < 0.8:
                # the failing one-byte instruction (DIVIDE) belongs to an expression that starts on this line and whose
                # last operand is computed on the next one: the frame reports the line of the operation, not of the operand
                lines.append("    var q = 10 /")
                frames.append((f"{mod}::{name}", len(lines), pending_tco))
                lines.append("      (x - 1)")
            else:
                lines.append("    var q = 10 +")
                lines.append("      7 %")
                frames.append((f"{mod}::{name}", len(lines), pending_tco))
                lines.append("      (x - 1)")
            pending_tco = 0
            lines.append("    x")
        elif k == "plain":
            lines.append(f"    {rng.randint(1, 5)} + {nxt}")
            frames.append((f"{mod}::{name}", len(lines), pending_tco))
            pending_tco = 0
        elif k == "async":
            lines.append(f"    1 + await {nxt}")
            frames.append((f"{mod}::{name}", len(lines), pending_tco))
            pending_tco = 0
        elif k == "multiline":
            # the call sits on a continuation line of a multi-line expression
            lines.append(f"    {rng.randint(1, 5)} +")
            lines.append(f"      {nxt} +")
            frames.append((f"{mod}::{name}", len(lines), pending_tco))
            pending_tco = 0
            lines.append("      2")
        elif k == "listlit":
            lines.append("    var lst = [")
            lines.append("      1,")
            lines.append(f"      {nxt},")
            frames.append((f"{mod}::{name}", len(lines), pending_tco))
            pending_tco = 0
            lines.append("      3")
            lines.append("    ]")
            lines.append("    lst[1]")
        elif k == "async_late":
            # the promise is already settled (rejected) when it is awaited: the fast path of AWAIT
            lines.append(f"    var pr = {nxt}")
            lines.append("    var spin = 0")
            lines.append("    while spin < 20000")
            lines.append("      spin += 1")
            lines.append("    end")
            lines.append("    1 + await pr")
            frames.append((f"{mod}::{name}", len(lines), pending_tco))
            pending_tco = 0
        elif k == "tail":
            lines.append(f"    {nxt}")
            pending_tco += 1      # the frame is reused by the callee
        elif k == "closure":
            lines.append("    var f = |y: Int|: Int ->")
            lines.append(f"      {rng.randint(1, 5)} + m{i + 1}(y)")
            inner = len(lines)
            lines.append("    end")
            lines.append("    2 + f.call(x)")
            frames.append((f"{mod}::{name}", len(lines), pending_tco))
            frames.append(("<closure>", inner, 0))
            pending_tco = 0
        lines.append("  end")
    lines.append("end")
    for _ in range(rng.randint(0, 3)):
        lines.append("# top filler")
    if rng.random() < 0.3:
        lines.append("println(")
        lines.append(f"  {mod}.m0(1).inspect")
        top_line = len(lines)
        lines.append(")")
    else:
        lines.append(f"println({mod}.m0(1).inspect)")
        top_line = len(lines)
    return "\n".join(lines) + "\n", top_line, frames


GEN_FINDING = ("module KfC32\n  def a(x: Int): Int\n    var s = 0\n    for v in g(x)\n      s += v\n    end\n    s\n  end\n"
               "  def *g(x: Int): Int\n    yield 1\n    1 + c(x)\n  end\n  def c(x: Int): Int\n    throw unchecked \"boom\" if x > 0\n    x\n  end\nend\n"
               "println(KfC32.a(1).inspect)\n",
               18, [("KfC32::a", 4, 0), ("KfC32::g", 11, 0), ("KfC32::c", 14, 0)])


def trace_check(ctx):
    n = ctx.n(150, 5000)
    cases = [gen_chain(ctx.rng, f"S{ctx.seed}x{i}") for i in range(n)] + [GEN_FINDING]
    res = vlib.run_programs([{"id": f"t{i}", "src": c[0], "name": f"/tmp/t{i}.elk", "timeout_ms": 6000} for i, c in enumerate(cases)])
    ok = True
    reported = 0
    for i, ((src, top, frames), a) in enumerate(zip(cases, res)):
        want = [(f"/tmp/t{i}.elk", top, 0)] + frames
        got = [(f["fn"], f["line"], f["tco"]) for f in (a.get("trace") or [])]
        ctx.case(("trace", src), nontrivial=len(frames) >= 2,
                 sample={"program": src[:500], "expected_frames": want})
        ctx.stat("trace:outcome:" + a["outcome"])
        ctx.stat("trace:chain-length:%d" % len(frames))
        if a["outcome"] == "error" and got == want:
            continue
        if reported >= 3:
            ok = False
            continue
        reported += 1
        new = ctx.violation("trace-differs", {"program": src},
                            f"outcome {a['outcome']} {a.get('err_class')} {a.get('panic')}; expected frames {want}; printed frames {got}")
        if new:
            ok = False
        else:
            reported -= 1
    ctx.obligation(f"stack traces of {len(cases)} generated call chains list exactly the active frames with their lines", ok, "correspondence")


def run(ctx):
    ctx.rule = ("edit scripts over LineInfoList (add/addLast/removeByte/removeBytes/prepLocals/removeBytes@offset) "
                "with GetLineNumber queries; distinct = distinct script; non-trivial = at least one edit")
    ctx.prove("ElkVerif.Props.C32")
    if ctx.replay:
        import json
        inp = json.load(open(ctx.replay))["input"]
        if "program" in inp:
            a = vlib.run_programs([{"id": "r", "src": inp["program"]}])[0]
            print("replayed program; outcome", a["outcome"], "frames", a.get("trace"))
            return
        lines = [inp["line"]]
    else:
        n = ctx.n(3000, 100000)
        lines = vlib.corpus_lines("C32") + [gen_script(ctx.rng, i % 2 == 0) for i in range(n)]
    vlib.correspond(ctx, lines, oracle=oracle, minimise=minimise, label="LineInfoList")
    if not ctx.replay:
        trace_check(ctx)
