"""C32 — Uncaught errors report the active call chain with correct lines."""
import vlib

META = {
    "property_id": "C32",
    "technique": "Lean 4 refinement proof (RLE line table -> per-byte list) + differential correspondence with bytecode.LineInfoList",
    "level_text": "Kernel-checked refinement of the run-length line table to the per-byte line list for every emit-time "
                  "edit script (lineinfo_refines, getLine_flat); model tied to bytecode/line_info.go by differential "
                  "execution of generated edit scripts; program-level stack traces compared with the generator's known "
                  "call chain. Partial: the VM's frame walk is compared per program, not proved.",
    "level_note": "Trusted: Lean kernel; hand-written model of LineInfoList (+ prepLocals/removeBytes edits); harness. "
                  "Stack-trace construction in vm/thread.go is exercised by generated call chains only.",
    "design_ref": "DESIGN.md §7 C32",
}


def gen_script(rng, emit_only):
    n = rng.choice([0, 1, 2, 3, 5, 8, 13, 30])
    edits = []
    lines = [rng.randint(1, 6) for _ in range(3)] + [rng.choice([1, 2, 100000, 0, -1])]
    total = 0
    for _ in range(n):
        r = rng.random()
        if r < 0.45:
            b = rng.choice([1, 1, 2, 3, 4, 5]) if emit_only or rng.random() < 0.9 else rng.choice([0, -1])
            edits.append(f"a {rng.choice(lines)} {b}")
            total += b
        elif r < 0.6:
            edits.append(f"l {rng.choice([0, 1, 2, 4])}")
        elif r < 0.8:
            edits.append("r")
        elif emit_only:
            edits.append(f"a {rng.choice(lines)} 1")
        elif r < 0.87:
            edits.append(f"R {rng.choice([0, 1, 2, 3, 7])}")
        elif r < 0.94:
            edits.append(f"p {rng.choice([2, 3])}")
        else:
            edits.append(f"x {rng.randint(0, max(1, total))} {rng.choice([1, 2, 3])}")
    qs = sorted(set([0, 1, total, total + 1, -1] + [rng.randint(0, max(1, total + 2)) for _ in range(4)]))
    return "li\trun\t" + ";".join(edits) + "\t" + ";".join(map(str, qs))


def oracle(line, ans):
    """Model-free: a python per-byte list for the emit-time edits; GetLineNumber must read it."""
    f = line.split("\t")
    bs = []
    for e in filter(None, f[2].split(";")):
        p = e.split(" ")
        if p[0] == "a" and int(p[2]) >= 0:
            bs += [int(p[1])] * int(p[2])
        elif p[0] == "l" and int(p[1]) >= 0:
            if not bs:
                return None if ans == "panic" else "AddBytesToLastLine on empty table did not fail"
            bs += [bs[-1]] * int(p[1])
        elif p[0] == "r":
            if not bs:
                return None if ans == "panic" else "RemoveByte on empty table did not fail"
            bs.pop()
        else:
            return None  # outside the emit-time fragment: no model-free oracle
        if any(int(x) < 1 for x in p[2:3]) and p[0] == "a":
            return None
    if not ans.startswith("ok "):
        return f"unexpected answer {ans!r} for an emit-time script"
    got = ans.split(" | ", 1)[1]
    qs = [int(q) for q in filter(None, f[3].split(";"))]
    want = ",".join(str(bs[q] if 0 <= q < len(bs) else (-1 if q >= 0 or not bs else bs[0])) for q in qs)
    if got != want:
        return f"GetLineNumber answers {got} but the per-byte lines are {want}"
    return None


def minimise(line, still):
    f = line.split("\t")
    edits = [e for e in f[2].split(";") if e]
    qs = [q for q in f[3].split(";") if q]
    mk = lambda es, q: "li\trun\t" + ";".join(es) + "\t" + ";".join(q)
    edits = vlib.ddmin(edits, lambda es: still(mk(es, qs))) if len(edits) > 1 else edits
    qs = vlib.ddmin(qs, lambda q: still(mk(edits, q))) if len(qs) > 1 else qs
    return mk(edits, qs)


def run(ctx):
    ctx.rule = ("edit scripts over LineInfoList (add/addLast/removeByte/removeBytes/prepLocals/removeBytes@offset) "
                "with GetLineNumber queries; distinct = distinct script; non-trivial = at least one edit")
    ctx.prove("ElkVerif.Props.C32")
    if ctx.replay:
        import json
        lines = [json.load(open(ctx.replay))["input"]["line"]]
    else:
        n = ctx.n(3000, 100000)
        lines = vlib.corpus_lines("C32") + [gen_script(ctx.rng, i % 2 == 0) for i in range(n)]
    vlib.correspond(ctx, lines, oracle=oracle, minimise=minimise, label="LineInfoList")
