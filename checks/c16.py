"""C16 — Awaiting never loses a wake-up or deadlocks the runtime."""
import concurrent.futures
import json
import re

import vlib

META = {
    "property_id": "C16",
    "technique": "Lean 4 invariant proofs over a transition system of the await/resolve/thread-pool micro-steps "
                 "(all N, Q, all interleavings) + validation of hook-recorded implementation traces against the "
                 "executable step function + seeded-yield stress runs of generated async programs per pool/queue configuration",
    "level_text": "Kernel-checked for the model, for every pool size, queue capacity and reachable state: every task is at "
                  "exactly one location with multiplicity one (resume_exactly_once), a settled promise keeps no continuation "
                  "and a suspended task is never nowhere (no_lost_wakeup, suspended_task_located, await_result_ready), "
                  "deadlock freedom when at most Q tasks are created (deadlock_free_partial); the unconditional statement "
                  "is refuted by a kernel-checked witness (deadlock_witness, N=1, Q=1). Partial: the model is tied to the "
                  "Go code by replaying H2 event logs of generated programs through stepB, not by proof.",
    "level_note": "Trusted: Lean kernel; the hand-written model of vm/promise.go, vm/thread_pool.go and the AWAIT case; "
                  "Go's sync.Mutex, sync.WaitGroup and buffered channels implement the atomic steps; the H2 hooks record "
                  "each event no earlier than the operation that enables it. Queue FIFO order is abstracted (any queued "
                  "task may be received). Termination of task bodies is assumed by the property and not modelled.",
    "design_ref": "DESIGN.md §7 C16",
}

QUICK_CONFIGS = [(1, 1), (1, 2), (2, 1), (2, 3), (4, 2), (4, 256)]
ALL_CONFIGS = [(n, q) for n in (1, 2, 4) for q in (1, 2, 3, 256)]
TIMEOUT_MS = 1800

# ----------------------------------------------------------------------------- programs
# A program is a DAG of async functions f0..fk-1 (fi only starts fj with j > i, so every body is
# finite) plus root calls made by the main thread. Statement forms of a body (acc starts as x):
#   ["s", j, k]   v := fj(acc + k)             start a task
#   ["a", i]      acc += await <i-th started>  (may be awaited several times, or never)
#   ["w", i, k]   v := wt(<i-th started>, acc + k)   start a task that awaits a promise it was handed: several
#                 tasks then wait on one promise (continuation lists with more than one entry)
#   ["t"]         await timeout(1.millisecond) external promise settled by a timer goroutine
#   ["n", k]      acc += k
# flag throws: the body ends with `if acc % 3 == 0 then throw :boom`; awaits of throwing
# functions catch :boom and add -7.


def gen_program(rng, size):
    nf = rng.choice([1, 2, 2, 3, 3, 4]) if size > 1 else rng.choice([1, 2])
    funcs = []
    throws = [rng.random() < 0.2 for _ in range(nf)]
    for i in range(nf):
        body = []
        spawned = []
        kinds = []
        nst = rng.randint(0, 2 + size)
        for _ in range(nst):
            r = rng.random()
            if r < 0.4 and i + 1 < nf:
                j = rng.randint(i + 1, nf - 1)
                body.append(["s", j, rng.randint(0, 3)])
                spawned.append(len(spawned))
                kinds.append(j)
            elif r < 0.58 and any(k == "w" or not throws[k] for k in kinds):
                cand = [x for x, k in enumerate(kinds) if k == "w" or not throws[k]]
                body.append(["w", rng.choice(cand), rng.randint(0, 3)])
                spawned.append(len(spawned))
                kinds.append("w")
            elif r < 0.8 and spawned:
                body.append(["a", rng.choice(spawned)])
            elif r < 0.87:
                body.append(["t"])
            else:
                body.append(["n", rng.randint(1, 5)])
        # most started tasks are awaited at least once
        for k in spawned:
            if not any(s[0] == "a" and s[1] == k for s in body) and rng.random() < 0.8:
                body.append(["a", k])
        funcs.append({"body": body, "throws": throws[i]})
    roots = [[rng.randint(0, min(1, nf - 1)), rng.randint(0, 4)] for _ in range(rng.choice([1, 1, 2, 3]))]
    return {"funcs": funcs, "roots": roots}


def normalise(prog):
    """drop statements that refer to a started task that is gone (after shrinking) or that would hand a
    possibly rejected promise to a waiter"""
    funcs = prog["funcs"]
    for f in funcs:
        kinds, body = [], []
        for st in f["body"]:
            if st[0] == "s":
                if st[1] >= len(funcs):
                    continue
                kinds.append(st[1])
            elif st[0] == "w":
                if st[1] >= len(kinds) or (kinds[st[1]] != "w" and funcs[kinds[st[1]]]["throws"]):
                    continue
                kinds.append("w")
            elif st[0] == "a" and st[1] >= len(kinds):
                continue
            body.append(st)
        f["body"] = body
    return prog


def evaluate(prog):
    """reference results: (stdout, number of tasks created)"""
    count = [0]
    memo = {}

    def run(i, x):
        count[0] += 1
        f = prog["funcs"][i]
        acc = x
        started = []
        for s in f["body"]:
            if s[0] == "s":
                started.append(run(s[1], acc + s[2]))
            elif s[0] == "w":
                count[0] += 1
                started.append(acc + s[2] + started[s[1]])
            elif s[0] == "a":
                r = started[s[1]]
                acc += r if r is not None else -7
            elif s[0] == "n":
                acc += s[1]
        if f["throws"] and acc % 3 == 0:
            return None
        return acc

    out = []
    for (i, x) in prog["roots"]:
        r = run(i, x)
        out.append(str(r) if r is not None else "boom")
    return "".join(o + "\n" for o in out), count[0]


def render(prog, name):
    L = ["module " + name]
    funcs = prog["funcs"]
    if any(st[0] == "w" for f in funcs for st in f["body"]):
        L += ["  async def wt(p: Promise[Int], x: Int): Int", "    var acc = x", "    acc += await p", "    acc", "  end"]
    for i, f in enumerate(funcs):
        L.append("  async def f%d(x: Int): Int%s" % (i, " ! :boom" if f["throws"] else ""))
        L.append("    var acc = x")
        sp = []
        for s in f["body"]:
            if s[0] == "s":
                L.append("    v%d := f%d(acc + %d)" % (len(sp), s[1], s[2]))
                sp.append(s[1])
            elif s[0] == "w":
                L.append("    v%d := wt(v%d, acc + %d)" % (len(sp), s[1], s[2]))
                sp.append("w")
            elif s[0] == "a":
                if sp[s[1]] != "w" and funcs[sp[s[1]]]["throws"]:
                    L += ["    acc += do", "      await v%d" % s[1], "    catch :boom", "      -7", "    end"]
                else:
                    L.append("    acc += await v%d" % s[1])
            elif s[0] == "t":
                L.append("    await timeout(1.millisecond)")
            elif s[0] == "n":
                L.append("    acc += %d" % s[1])
        if f["throws"]:
            L.append("    if acc % 3 == 0 then throw :boom")
        L.append("    acc")
        L.append("  end")
    L.append("end")
    for k, (i, x) in enumerate(prog["roots"]):
        L.append("r%d := %s.f%d(%d)" % (k, name, i, x))
    for k, (i, x) in enumerate(prog["roots"]):
        if funcs[i]["throws"]:
            L += ["println(do", "  (await r%d).inspect" % k, "catch :boom", '  "boom"', "end)"]
        else:
            L.append("println((await r%d).inspect)" % k)
    return "\n".join(L) + "\n"


# ----------------------------------------------------------------------------- running

def prun(reqs, n, q):
    """one worker process per configuration; a timed-out program ends the worker (its pool is stuck)"""
    env = vlib.go_env()
    env.setdefault("GOMEMLIMIT", "4GiB")
    env["ELK_DEFAULT_THREAD_POOL_SIZE"] = str(n)
    env["ELK_DEFAULT_THREAD_POOL_QUEUE_SIZE"] = str(q)
    answers = []
    rest = [json.dumps(r) for r in reqs]
    guard = 0
    while rest:
        out, died, err = vlib._run_lines([vlib.ELKH, "prun"], rest, 60 + 6 * len(rest), env)
        got = []
        for o in out[:len(rest)]:
            try:
                got.append(json.loads(o))
            except ValueError:
                break
        answers += got
        k = len(got)
        if k >= len(rest):
            break
        if got and got[-1].get("outcome") == "timeout":
            rest = rest[k:]
            continue
        # the worker died on request k: run it alone (twice at most) before calling it fatal
        alone = None
        for _ in range(2):
            o1, d1, e1 = vlib._run_lines([vlib.ELKH, "prun"], [rest[k]], 90, env)
            if len(o1) >= 1:
                try:
                    alone = json.loads(o1[0])
                    break
                except ValueError:
                    pass
            err = e1 or err
        if alone is None:
            rid = json.loads(rest[k]).get("id")
            alone = {"id": rid, "outcome": "fatal", "stdout": "", "panic": vlib.classify_fatal(err),
                     "pool": n, "queue": q, "hang": False, "events": "", "nev": 0}
        answers.append(alone)
        rest = rest[k + 1:]
        guard += 1
        if guard > 50:
            raise RuntimeError("prun worker keeps dying: " + err[-300:])
    return answers


# ----------------------------------------------------------------------------- model-free oracle on the raw log

def parse_events(s):
    return [e.split(" ") for e in s.split(";") if e]


def log_oracle(events, terminated, hung=False):
    """The property itself, read off the implementation's event log (no Lean model involved):
    one publish per promise; the promise mutex alternates lock/unlock by one goroutine; a continuation
    is only registered on an unpublished promise (else the wake-up is lost); every registration is
    answered by exactly one re-enqueue and one dequeue; a task never runs on two workers at once."""
    pubs, holder, regs, enqcs, deqs, running = {}, {}, {}, {}, {}, {}
    settled_done = set()   # promises whose settler has left Resolve/Reject
    cur = {}   # actor -> task it is running
    for i, e in enumerate(events):
        k, a = e[0], e[1]
        x = e[2] if len(e) > 2 else None
        if k == "deq":
            if x in running:
                return "task %s dequeued by worker %s while worker %s is still running it (event %d)" % (x, a, running[x], i)
            running[x] = a
            cur[a] = x
            deqs[x] = deqs.get(x, 0) + 1
        elif k in ("awl", "resl"):
            if x in holder:
                return "mutex of promise %s acquired by %s while held by %s (event %d)" % (x, a, holder[x], i)
            holder[x] = a
        elif k in ("awr", "unl", "resu"):
            if k == "resu":
                settled_done.add(x)
            if holder.get(x) != a:
                return "mutex of promise %s released by %s but held by %s (event %d)" % (x, a, holder.get(x), i)
            del holder[x]
            if k == "unl" and a in cur:
                running.pop(cur.pop(a), None)
            if k == "resu" and cur.get(a) == x:
                running.pop(cur.pop(a), None)
        elif k == "pub":
            pubs[x] = pubs.get(x, 0) + 1
            if pubs[x] > 1:
                return "promise %s published twice (event %d)" % (x, i)
        elif k == "reg":
            t = cur.get(a)
            if pubs.get(x):
                return "LOST WAKE-UP: task %s registered on promise %s after it was published (event %d)" % (t, x, i)
            regs[(x, t)] = regs.get((x, t), 0) + 1
        elif k == "enqc":
            t = e[3]
            enqcs[(x, t)] = enqcs.get((x, t), 0) + 1
            if enqcs[(x, t)] > regs.get((x, t), 0):
                return "task %s re-enqueued by promise %s more often than it registered (event %d)" % (t, x, i)
    if hung and not terminated:
        # nothing moves any more: a continuation registered on a promise whose settler has finished its
        # enqueue loop and left must have been re-enqueued (a settler still inside the loop is D9, not this)
        for (p, t), n in regs.items():
            if p in settled_done and enqcs.get((p, t), 0) != n:
                return "LOST WAKE-UP: task %s registered %d time(s) on promise %s, which was settled and released, " \
                       "but was re-enqueued %d time(s); the task is never resumed" % (t, n, p, enqcs.get((p, t), 0))
    if terminated:
        for (p, t), n in regs.items():
            if pubs.get(p) and enqcs.get((p, t), 0) != n:
                return "task %s registered %d time(s) on settled promise %s but was re-enqueued %d time(s)" % (
                    t, n, p, enqcs.get((p, t), 0))
        for t, n in deqs.items():
            done = sum(v for (p, tt), v in regs.items() if tt == t and pubs.get(p))
            total = sum(v for (p, tt), v in regs.items() if tt == t)
            if not (1 + done <= n <= 1 + total):
                return "task %s was dequeued %d time(s) but suspended %d time(s), %d of them on promises settled since" % (
                    t, n, total, done)
    return None


def classify_hang(model_ans, n, q):
    """reads the final model state of a hung run (printed by the Lean replayer)"""
    m = re.search(r"queue=(\d+) tasks=(\d+) finished=(\d+) waiting=(\d+) lost=(\d+) busy=(\S*)", model_ans)
    if not m:
        return "hang-unclassified", model_ans[:200]
    queue, lost = int(m.group(1)), int(m.group(5))
    busy = dict(re.findall(r"(\d+):(\w+(?:\([^)]*\))?(?:@\w+)?)", m.group(6)))
    workers = [busy.get(str(w), "idle") for w in range(n)]
    if lost:
        return "hang-lost-wakeup", model_ans[:300]
    def is_sending(st):
        return st.startswith("add(") or (st.startswith("resEnq(") and not st.endswith(",0)"))
    senders = [a for a, st in busy.items() if is_sending(st)]          # pool workers and other goroutines
    # a worker waiting for a promise mutex counts only if the holder is itself blocked in a send
    blocked = [w for w in workers
               if is_sending(w) or (w.startswith(("awLock(", "resLock(")) and w.rsplit("@", 1)[-1] in senders)]
    if queue >= q and senders and len(blocked) == n:
        return ("deadlock-full-queue",
                "every pool worker blocked in a send on the full task queue (or waiting for a promise mutex held by "
                "one that is): " + ",".join(workers) + " queue=%d/%d" % (queue, q))
    return "hang-unclassified", model_ans[:300]


# ----------------------------------------------------------------------------- the check

def safe_models(lines):
    """elkmodel on the trace lines, in chunks; a chunk that does not come back in time is answered
    `rej why=budget` (inconclusive) line by line rather than failing the whole check"""
    out = []
    for i in range(0, len(lines), 25):
        chunk = lines[i:i + 25]
        try:
            out += vlib.run_model(chunk, timeout=240)
        except RuntimeError:
            for l in chunk:
                try:
                    out += vlib.run_model([l], timeout=60)
                except RuntimeError:
                    out.append("rej why=budget (replayer timed out)")
    return out


def run_config(args):
    n, q, reqs = args
    return n, q, prun(reqs, n, q)


def judge(ctx, n, q, req, ans, model_ans, stats):
    """returns (kind, detail) of a failure or None"""
    prog, want, ntasks = req["_prog"], req["_want"], req["_ntasks"]
    outcome = ans.get("outcome")
    events = parse_events(ans.get("events", ""))
    terminated = outcome in ("value", "error") and bool(ans.get("quiet"))
    if outcome in ("value", "error") and not ans.get("quiet"):
        ctx.stat("not-quiet-at-stop")
    inp = {"pool": n, "queue": q, "seed": req["seed"], "tasks": ntasks, "program": req["src"], "ir": prog}
    ctx.stat("outcome:" + str(outcome))
    ctx.stat("cfg:%dx%d:%s" % (n, q, outcome))
    # the log is final when the run hung, or when it ended and the harness then waited in vain (600 ms)
    # for the tasks nobody awaited
    final = (outcome == "timeout" and bool(ans.get("hang"))) or (outcome in ("value", "error") and not ans.get("quiet"))
    pf = log_oracle(events, terminated, hung=final)
    if pf:
        return "property-fails", inp, pf + "; outcome=" + str(outcome), False
    if outcome in ("panic", "fatal"):
        return "crash", inp, "outcome=%s %s" % (outcome, ans.get("panic", "")), False
    if outcome == "rejected":
        raise RuntimeError("generated program rejected: %s\n%s" % (ans.get("diags"), req["src"]))
    if model_ans.startswith("rej why=budget"):
        ctx.stat("replay-inconclusive")     # search budget exhausted: neither validated nor rejected
        return None
    if not model_ans.startswith("ok "):
        inp = dict(inp, events=ans.get("events", ""))
        return ("trace-rejected", inp,
                "the recorded event log is not a behaviour of the model: " + model_ans[:400] +
                "; the log oracle found no property failure on this run", True)
    stats["validated"] += 1
    if outcome == "timeout":
        if not ans.get("hang"):
            ctx.stat("slow-timeouts")
            return None
        mv = re.search(r"movable=(\d+)", model_ans)
        if mv and int(mv.group(1)) > 0:
            # the log stood still for 300 ms, but in the state it describes some goroutine can take its next
            # step: a starved process on a loaded machine, not a hang of the protocol
            ctx.stat("stalled-but-movable")
            if req.get("timeout_ms", 0) < 6000:
                stats.setdefault("stalled", []).append((n, q, req))
                return None
            return ("hang-stalled", inp, "no record for 300 ms, twice, the second time with a 6 s budget, although the "
                    "model state allows a step: " + model_ans[:300], False)
        kind, detail = classify_hang(model_ans, n, q)
        if ntasks <= q:
            kind = "hang-within-capacity"
            detail = "only %d task(s) for a queue of %d, yet the run hangs: %s" % (ntasks, q, detail)
        return kind, inp, detail, False
    if outcome in ("value", "error") and ans.get("stdout") != want:
        return ("wrong-result", inp, "stdout %r, expected %r (result=%r ms=%s records=%s quiet=%s)" % (
            ans.get("stdout"), want, ans.get("result"), ans.get("ms"), ans.get("nev"), ans.get("quiet")), False)
    m = re.search(r"queue=(\d+) .*lost=(\d+) busy=(\S*)", model_ans)
    if terminated and m and (int(m.group(1)) != 0 or int(m.group(2)) != 0 or m.group(3)):
        return "residue", inp, "terminated run leaves queue/lost continuations: " + model_ans[:300], False
    return None


def minimise(ctx, n, q, req, kind):
    """delta-debug the statement lists while the same failure kind reproduces (3 seeds per candidate)"""
    prog = json.loads(json.dumps(req["_prog"]))
    budget = [14]

    def still(p):
        if budget[0] <= 0:
            return False
        budget[0] -= 1
        p = normalise(json.loads(json.dumps(p)))
        want, nt = evaluate(p)
        rs = [mkreq("min%d" % s, p, s) for s in (req["seed"], req["seed"] + 1, 0)]
        answers = prun(rs, n, q)
        lines = ["pr\ttrace\t%d\t%d\t%s" % (a["pool"], a["queue"], a.get("events", "")) for a in answers]
        models = vlib.run_model(lines) if lines else []
        for r, a, m in zip(rs, answers, models):
            j = judge(ctx, n, q, r, a, m, {"validated": 0})
            if j and j[0] == kind:
                return True
        return False

    for fi in range(len(prog["funcs"])):
        body = prog["funcs"][fi]["body"]
        if len(body) > 1:
            def t(sub, fi=fi):
                p2 = json.loads(json.dumps(prog))
                p2["funcs"][fi]["body"] = sub
                return still(p2)
            prog["funcs"][fi]["body"] = vlib.ddmin(body, t)
    if len(prog["roots"]) > 1:
        def t2(sub):
            p2 = json.loads(json.dumps(prog))
            p2["roots"] = sub
            return still(p2)
        prog["roots"] = vlib.ddmin(prog["roots"], t2)
    return normalise(prog)


_counter = [0]


def mkreq(rid, prog, seed):
    _counter[0] += 1
    name = "C16p%d" % _counter[0]
    want, nt = evaluate(prog)
    return {"id": rid, "src": render(prog, name), "timeout_ms": TIMEOUT_MS, "seed": seed,
            "_prog": prog, "_want": want, "_ntasks": nt}


PROBE_IR = {"funcs": [{"body": [["s", 1, 1], ["a", 0], ["a", 0]], "throws": False},
                      {"body": [["t"], ["n", 2]], "throws": False}], "roots": [[0, 1]]}


def probe_steps(ctx):
    """Probe of the micro-step order (tie P): one canonical execution — pool 1, queue 256, no yields — of a
    task that awaits an unsettled promise (suspend path), is resumed, and awaits it again (ready path).
    The per-goroutine sequences of record kinds are written to lean/ElkVerif/Gen/AwaitSteps.lean; the
    theorem `C16.awaitSteps_ok` (by `decide`) compares them with the model's constants."""
    import os
    seqs = None
    for attempt in range(3):
        req = mkreq("probe", PROBE_IR, 0)
        req["timeout_ms"] = 8000
        a = prun([req], 1, 256)[0]
        if a.get("outcome") != "value" or not a.get("quiet"):
            continue
        ev = parse_events(a.get("events", ""))
        actors = []
        for e in ev:
            if e[1] not in actors:
                actors.append(e[1])
        per = {x: [e[0] for e in ev if e[1] == x] for x in actors}
        worker = per.get("0", [])
        others = sorted((v for k, v in per.items() if k != "0"), key=lambda v: (v[:1] != ["add"], v))
        seqs = (worker, others)
        break
    if seqs is None:
        ctx.obligation("probe of the await micro-step order ran", False, "probe", "the canonical program did not finish")
        return
    worker, others = seqs
    main = others[0] if others else []
    settler = others[1] if len(others) > 1 else []
    q = lambda l: "[" + ", ".join('"%s"' % x for x in l) + "]"
    txt = ("-- GENERATED by checks/c16.py probe_steps from one canonical execution of the real runtime (hook H2);\n"
           "-- regenerated on every run, rewritten only when it differs.\n"
           "namespace Elk.Gen\n"
           "def awaitWorker : List String := %s\n"
           "def awaitMain : List String := %s\n"
           "def awaitSettler : List String := %s\n"
           "end Elk.Gen\n") % (q(worker), q(main), q(settler))
    changed = vlib.write_if_changed(os.path.join(vlib.LEAN, "ElkVerif", "Gen", "AwaitSteps.lean"), txt)
    ctx.extra["probe_awaitsteps_changed"] = bool(changed)


def corpus_programs():
    out = []
    for l in vlib.corpus_lines("C16"):
        out.append(json.loads(l))
    return out


def run(ctx):
    ctx.rule = ("generated async programs (DAG of async functions: start task / await started task, possibly twice or "
                "never / await timeout / throw) run under pool×queue configurations with seeded yield points; "
                "distinct = distinct (program, configuration, seed); non-trivial = at least one await of a started task")
    ok, log = vlib.build_harness()
    if not ok:
        ctx.obligation("harness build", False, "build", log[-500:])
        ctx.prove("ElkVerif.Props.C16")
        return
    probe_steps(ctx)
    ctx.prove("ElkVerif.Props.C16")
    stats = {"validated": 0}
    if ctx.replay:
        rp = json.load(open(ctx.replay))["input"]
        configs = [(rp["pool"], rp["queue"])]
        progs = [(rp["ir"], [rp["seed"], rp["seed"] + 1, rp["seed"] + 2, 0])]
        if rp.get("events"):
            # a rejected log: first re-validate exactly the stored log, then re-run the program
            m = vlib.run_model(["pr\ttrace\t%d\t%d\t%s" % (rp["pool"], rp["queue"], rp["events"])])[0]
            ctx.case(("stored-log", rp["events"]), sample={"stored_log": m[:200]})
            if not m.startswith("ok "):
                ctx.violation("trace-rejected", rp, "the stored event log is not a behaviour of the model: " + m[:400],
                              no_input=True)
    else:
        configs = QUICK_CONFIGS if ctx.quick else ALL_CONFIGS
        progs = None
    jobs = []
    for (n, q) in configs:
        reqs = []
        if progs is not None:
            for ir, seeds in progs:
                for s in seeds:
                    reqs.append(mkreq("replay-%d" % s, ir, s))
        else:
            for k, ir in enumerate(corpus_programs()):
                reqs.append(mkreq("corpus%d" % k, ir, ctx.rng.randint(1, 1 << 30)))
            count = ctx.n(10, 180)
            for k in range(count):
                # small programs for small queues so that part of the runs lies within capacity
                size = 1 if (q <= 3 and k % 2 == 0) else ctx.rng.choice([2, 3, 4])
                ir = normalise(gen_program(ctx.rng, size))
                seed = 0 if k % 5 == 4 else ctx.rng.randint(1, 1 << 30)
                reqs.append(mkreq("g%d" % k, ir, seed))
        jobs.append((n, q, reqs))
    results = []
    with concurrent.futures.ThreadPoolExecutor(max_workers=4) as ex:
        for n, q, answers in ex.map(run_config, [(n, q, reqs) for (n, q, reqs) in jobs]):
            results.append((n, q, answers))
    corr_ok = True
    reported = {}
    for (n, q, reqs), (_, _, answers) in zip(jobs, results):
        lines = ["pr\ttrace\t%d\t%d\t%s" % (a.get("pool", n), a.get("queue", q), a.get("events", "")) for a in answers]
        models = safe_models(lines) if lines else []
        for req, ans, mod in zip(reqs, answers, models):
            if ans.get("pool", n) != n or ans.get("queue", q) != q:
                raise RuntimeError("worker ran with pool/queue %s/%s instead of %d/%d" % (ans.get("pool"), ans.get("queue"), n, q))
            nontrivial = any(s[0] == "a" for f in req["_prog"]["funcs"] for s in f["body"])
            ctx.case((req["src"].split("\n", 1)[1], n, q, req["seed"]), nontrivial,
                     sample={"pool": n, "queue": q, "seed": req["seed"], "outcome": ans.get("outcome"),
                             "events": ans.get("nev"), "model": mod[:120]})
            ctx.stat("within-capacity" if req["_ntasks"] <= q else "beyond-capacity")
            j = judge(ctx, n, q, req, ans, mod, stats)
            if not j:
                continue
            kind, inp, detail, no_input = j
            if kind in ("crash", "wrong-result", "residue") and not ctx.replay:
                # confirm on a fresh worker (a dying worker under load must not become an alarm)
                confirmed = True
                for _ in range(2):      # twice in a row, each on a fresh worker process
                    again = prun([req], n, q)
                    mod2 = vlib.run_model(["pr\ttrace\t%d\t%d\t%s" % (n, q, again[0].get("events", ""))])[0]
                    j2 = judge(ctx, n, q, req, again[0], mod2, {"validated": 0})
                    if not j2 or j2[0] != kind:
                        confirmed = False
                        break
                    detail = j2[2]
                if not confirmed:
                    ctx.stat("unconfirmed:" + kind)
                    samples = ctx.extra.setdefault("unconfirmed_samples", [])
                    if len(samples) < 6:
                        samples.append({"kind": kind, "pool": n, "queue": q, "id": req["id"], "detail": j[2][:300],
                                        "outcome": ans.get("outcome"), "err_class": ans.get("err_class"),
                                        "err_msg": (ans.get("err_msg") or "")[:200], "panic": (ans.get("panic") or "")[:200]})
                    continue
            key = (kind, n, q)
            if reported.get(key, 0) >= 1 or sum(1 for k in reported if k[0] == kind) >= 3:
                ctx.stat("more:" + kind)
                continue
            reported[key] = 1
            known = ctx.match_finding({"kind": kind, "input": inp, "detail": detail, "no_input": no_input}) is not None
            if kind not in ("trace-rejected",) and not ctx.replay and not known:
                try:
                    small = minimise(ctx, n, q, req, kind)
                    r2 = mkreq("min", small, req["seed"])
                    inp = {"pool": n, "queue": q, "seed": req["seed"], "tasks": r2["_ntasks"], "program": r2["src"], "ir": small}
                except Exception as e:  # shrinking is best effort
                    ctx.stat("minimise-failed")
            for drop in ("_prog",):
                inp.pop(drop, None)
            new = ctx.violation(kind, inp, detail, no_input=no_input)
            if new and kind in ("trace-rejected", "property-fails"):
                corr_ok = False
    # runs that stood still in a state where the model can move: once more, alone, with a long budget
    for (n, q, req) in stats.get("stalled", [])[:5]:
        r2 = dict(req, timeout_ms=6000, id=req["id"] + "-again")
        a2 = prun([r2], n, q)[0]
        m2 = vlib.run_model(["pr\ttrace\t%d\t%d\t%s" % (n, q, a2.get("events", ""))])[0]
        j = judge(ctx, n, q, r2, a2, m2, stats)
        if j:
            ctx.violation(j[0], j[1], j[2], no_input=j[3])
    ctx.extra["traces_validated_against_impl"] = stats["validated"]
    ctx.extra["configurations"] = ["%dx%d" % c for c in configs]
    ctx.obligation("trace validation: every recorded H2 event log is a run of stepB (%d logs, %d configurations)"
                   % (stats["validated"], len(configs)), corr_ok and stats["validated"] > 0, "correspondence")
    ctx.assumptions += [
        "Go sync.Mutex / sync.WaitGroup / buffered channel semantics (atomic steps of the model)",
        "H2 hook placement: lock events recorded after Lock(), unlock events before Unlock(), enqueue after the send, dequeue after the receive",
        "task bodies terminate (the property's premise); external promises are settled by exactly one goroutine",
    ]
