"""C07 — Fixed-width integers wrap modulo 2^n; floats follow IEEE-754."""
import json
import math
import os
import struct
import subprocess

import vlib

META = {
    "property_id": "C07",
    "technique": "Lean 4 proofs over BitVec w (generic in width and signedness) + checker-admission table probed from the "
                 "real type checker and re-proved by decide + differential correspondence (exhaustive for 8-bit types in "
                 "the thorough tier) + Python modular-arithmetic / IEEE oracle",
    "level_text": "Kernel-checked for every width: + - * wrap modulo 2^w, / truncates and % takes the dividend's sign "
                  "(zero divisor raises), ** is the wrapped power, the four shift helpers of value/strict_numeric.go equal "
                  "shift-left / arithmetic / logical shift-right with saturating counts for every right-operand kind, and no "
                  "operand kind the checker admits (table probed from the real checker on every run) can raise the "
                  "bitshift TypeError. Floats: the VM passes the operands in order to the IEEE primitive (proved); "
                  "the primitives themselves (Go float64/float32 + - * /, math.Mod) are compared bit-for-bit with "
                  "Lean's defined IEEE-754 model operations and with Python on generated operands.",
    "level_note": "Trusted: Lean kernel; hand-written model; Go's sized-integer operators are modelled by BitVec operations "
                  "(validated exhaustively on 8-bit types, sampled on wider ones); IEEE arithmetic of Go's float types is "
                  "tested, not proved; math.Pow is compared on exactly representable cases only. The 32-bit-platform "
                  "branch (boxed Int64/UInt64/Float64) is not modelled.",
    "design_ref": "DESIGN.md §7 C07",
}

LKINDS = {"i8": (8, True), "i16": (16, True), "i32": (32, True), "i64": (64, True),
          "u8": (8, False), "u16": (16, False), "u32": (32, False), "u64": (64, False), "u": (64, False)}
RKINDS = {"s": (64, True), "i64": (64, True), "i32": (32, True), "i16": (16, True), "i8": (8, True),
          "u64": (64, False), "u32": (32, False), "u16": (16, False), "u8": (8, False), "u": (64, False)}
AOPS = ["add", "sub", "mul", "div", "mod", "pow", "and", "or", "xor", "andnot", "cmp", "gt", "ge", "lt", "le", "eq"]
SHOPS = ["shl", "shr", "lshl", "lshr"]
ELK_TYPE = {"i8": "Int8", "i16": "Int16", "i32": "Int32", "i64": "Int64", "u8": "UInt8", "u16": "UInt16",
            "u32": "UInt32", "u64": "UInt64", "u": "UInt"}
ELK_RTYPE = dict(ELK_TYPE, s="Int", b="Int")
LEAN_L = {"Int8": ".i8", "Int16": ".i16", "Int32": ".i32", "Int64": ".i64", "UInt8": ".u8", "UInt16": ".u16",
          "UInt32": ".u32", "UInt64": ".u64", "UInt": ".uint"}
LEAN_R = {"Int": ".int", "Int64": ".int64", "Int32": ".int32", "Int16": ".int16", "Int8": ".int8",
          "UInt64": ".uint64", "UInt32": ".uint32", "UInt16": ".uint16", "UInt8": ".uint8", "UInt": ".uint",
          "Float": ".float", "String": ".string"}
LEAN_OP = {"<<": ".shl", ">>": ".shr", "<<<": ".lshl", ">>>": ".lshr"}


def rng_of(kind):
    w, s = (LKINDS.get(kind) or RKINDS[kind])
    return (-(1 << (w - 1)), (1 << (w - 1)) - 1) if s else (0, (1 << w) - 1)


def wrap(v, w, signed):
    v &= (1 << w) - 1
    if signed and v >= 1 << (w - 1):
        v -= 1 << w
    return v


def boundary_vals(kind, rng):
    lo, hi = rng_of(kind)
    w = (LKINDS.get(kind) or RKINDS[kind])[0]
    c = [lo, lo + 1, hi, hi - 1, 0, 1, 2, 3, 5, 7, -1, -2, -3, 1 << (w - 2), (1 << (w - 2)) - 1, -(1 << (w - 2)),
         0x55 * ((1 << w) // 255) if w >= 8 else 5]
    c += [1 << k for k in range(w)] + [(1 << k) - 1 for k in range(w)]
    c = [v for v in c if lo <= v <= hi]
    r = rng.random()
    if r < 0.6:
        return rng.choice(c)
    if r < 0.8:
        return rng.randint(max(lo, -20), min(hi, 20))
    return rng.randint(lo, hi)


def gen_count(rng, rk):
    """(kind, value) of a shift count"""
    if rk == "b":
        return rng.choice([1 << 63, 1 << 64, -(1 << 63) - 1, -(1 << 64), (1 << 64) + 3, 5, -5, 0, 63, 64, -64, 1 << 62])
    lo, hi = rng_of(rk)
    c = [0, 1, 2, 3, 4, 5, 6, 7, 8, 9, 15, 16, 17, 31, 32, 33, 63, 64, 65, 127, 128, 200, hi, hi - 1]
    c += [-v for v in c] + [lo, lo + 1]
    c = [v for v in c if lo <= v <= hi]
    return rng.choice(c) if rng.random() < 0.85 else rng.randint(lo, hi)


def gen_sint(rng):
    L = rng.choice(list(LKINDS))
    a = boundary_vals(L, rng)
    r = rng.random()
    if r < 0.06:
        return "sint\t%s\t%s\t%d\t-" % (L, rng.choice(["neg", "not"]), a)
    if r < 0.5:
        op = rng.choice(SHOPS)
        rk = rng.choice(list(RKINDS) + ["b", "b"] + (["o"] if rng.random() < 0.15 else []))
        if rk == "o":
            return "sint\t%s\t%s\t%d\to:0" % (L, op, a)
        return "sint\t%s\t%s\t%d\t%s:%d" % (L, op, a, rk, gen_count(rng, rk))
    op = rng.choice(AOPS)
    if rng.random() < 0.04:
        rk = rng.choice([k for k in list(RKINDS) + ["b", "o"] if k != L])
        v = 0 if rk == "o" else (5 if rk == "b" else boundary_vals(rk, rng))
        return "sint\t%s\t%s\t%d\t%s:%d" % (L, op, a, rk, v)
    b = boundary_vals(L, rng)
    if op == "pow":
        lo, hi = rng_of(L)
        b = rng.choice([0, 1, 2, 3, 7, 8, 9, 31, 32, 33, 63, 64, 65, 100, 127, 255, 1000, -1, lo])
        b = min(max(b, lo), hi)
        if LKINDS[L][0] == 8 and rng.random() < 0.3:
            b = rng.randint(lo, hi)
    elif op in ("div", "mod") and rng.random() < 0.1:
        b = 0
    elif rng.random() < 0.1:
        b = a
    return "sint\t%s\t%s\t%d\t%s:%d" % (L, op, a, L, b)


def tdiv(x, y):
    q = abs(x) // abs(y)
    return q if (x < 0) == (y < 0) else -q


def sint_expected(L, op, a, rk, rv):
    """'ok …' / 'err …' answer the property demands, or None when it says nothing."""
    w, signed = LKINDS[L]
    mask = (1 << w) - 1
    if op == "neg":
        return "ok %d" % wrap(-a, w, signed)
    if op == "not":
        return "ok %d" % wrap(~a, w, signed)
    if op in SHOPS:
        if rk == "o":
            return None            # not admitted by the checker: the property does not speak
        n = rv
        left = n if op in ("shl", "lshl") else -n
        if left >= 0:
            return "ok %d" % (0 if left >= w else wrap(a << left, w, signed))
        right = -left
        logical = (not signed) or op in ("lshl", "lshr")
        if logical:
            return "ok %d" % (0 if right >= w else wrap((a & mask) >> right, w, signed))
        return "ok %d" % (a >> min(right, w))
    if rk != L:
        return None                # the checker admits only the left operand's own type here
    b = rv
    if op == "add":
        return "ok %d" % wrap(a + b, w, signed)
    if op == "sub":
        return "ok %d" % wrap(a - b, w, signed)
    if op == "mul":
        return "ok %d" % wrap(a * b, w, signed)
    if op == "div":
        return "err ZeroDivision" if b == 0 else "ok %d" % wrap(tdiv(a, b), w, signed)
    if op == "mod":
        return "err ZeroDivision" if b == 0 else "ok %d" % wrap(a - tdiv(a, b) * b, w, signed)
    if op == "pow":
        if b < 0:
            return None
        return "ok %d" % wrap(pow(a, b, 1 << w), w, signed)
    if op == "and":
        return "ok %d" % wrap(a & b, w, signed)
    if op == "or":
        return "ok %d" % wrap(a | b, w, signed)
    if op == "xor":
        return "ok %d" % wrap(a ^ b, w, signed)
    if op == "andnot":
        return "ok %d" % wrap(a & ~b, w, signed)
    if op == "cmp":
        return "ok %d" % ((a > b) - (a < b))
    return "ok " + {"gt": a > b, "ge": a >= b, "lt": a < b, "le": a <= b, "eq": a == b}[op].__repr__().lower()


# ------------------------------------------------------------------ floats

def f64_bits(x):
    return struct.unpack("<Q", struct.pack("<d", x))[0]


def f64_of(bits):
    return struct.unpack("<d", struct.pack("<Q", bits))[0]


def f32_of(bits):
    return struct.unpack("<f", struct.pack("<I", bits))[0]


def to_f32(x):
    """round a double to binary32 (returned as a double), overflow to infinity"""
    if x != x or math.isinf(x):
        return x
    try:
        return struct.unpack("<f", struct.pack("<f", x))[0]
    except OverflowError:
        return math.copysign(math.inf, x)


def f32_bits(x):
    return struct.unpack("<I", struct.pack("<f", x))[0]


def ieee_div(a, b):
    if a != a or b != b:
        return math.nan
    if b == 0:
        if a == 0:
            return math.nan
        return math.copysign(math.inf, a) * math.copysign(1.0, b)
    return a / b


def ieee_mod(a, b):
    if a != a or b != b or math.isinf(a) or b == 0:
        return math.nan
    if math.isinf(b):
        return a
    return math.fmod(a, b)


def ieee_mul(a, b):
    return a * b


def flt_expected(F, op, abits, b):
    """expected answer string by an independent computation (python floats = IEEE binary64), or None"""
    if F == "f32":
        x = f32_of(abits)
    else:
        x = f64_of(abits)
    if b == "-":
        y = None
    else:
        k, v = b.split(":")
        if k == "f":
            y = f32_of(int(v, 16)) if F == "f32" else f64_of(int(v, 16))
        else:
            try:
                y = float(int(v))
            except OverflowError:
                y = math.inf if int(v) > 0 else -math.inf
    try:
        if op == "neg":
            r = -x
        elif op == "add":
            r = x + y
        elif op == "sub":
            r = x - y
        elif op == "mul":
            r = ieee_mul(x, y)
        elif op == "div":
            r = ieee_div(x, y)
        elif op == "mod":
            r = ieee_mod(x, y)
        elif op == "pow":
            r = math.pow(x, y)
        else:
            return None
    except (OverflowError, ValueError, ZeroDivisionError):
        return None
    if F == "f32":
        r = to_f32(r)
        return "ok nan" if r != r else "ok %08x" % f32_bits(r)
    return "ok nan" if r != r else "ok %016x" % f64_bits(r)


F64_SPECIAL = [0x0000000000000000, 0x8000000000000000, 0x7ff0000000000000, 0xfff0000000000000, 0x7ff8000000000000,
               0x7ff0000000000001, 0xfff8000000000000, 0x3ff0000000000000, 0xbff0000000000000, 0x4000000000000000,
               0x3fe0000000000000, 0x0000000000000001, 0x000fffffffffffff, 0x0010000000000000, 0x7fefffffffffffff,
               0x4340000000000000, 0x4340000000000001, 0x433fffffffffffff, 0x3cb0000000000000, 0x400921fb54442d18,
               0x4008000000000000, 0x4024000000000000, 0x3fb999999999999a, 0x3fd5555555555555, 0xc01c000000000000,
               0x43e0000000000000, 0xc3e0000000000000, 0x7fe0000000000000, 0x0008000000000000]
F32_SPECIAL = [0x00000000, 0x80000000, 0x7f800000, 0xff800000, 0x7fc00000, 0x7f800001, 0x3f800000, 0xbf800000,
               0x40000000, 0x3f000000, 0x00000001, 0x007fffff, 0x00800000, 0x7f7fffff, 0x4b800000, 0x4b800001,
               0x4b7fffff, 0x34000000, 0x40490fdb, 0x40400000, 0x41200000, 0x3dcccccd, 0x3eaaaaab, 0xc0e00000,
               0x5f000000, 0xdf000000, 0x7f000000]


def gen_fbits(rng, F):
    if F == "f32":
        r = rng.random()
        if r < 0.45:
            return rng.choice(F32_SPECIAL)
        if r < 0.7:
            return f32_bits(to_f32(float(rng.randint(-50, 50)) / rng.choice([1, 2, 4, 3])))
        if r < 0.85:
            return (rng.getrandbits(1) << 31) | (rng.choice([0, 1, 2, 126, 127, 128, 150, 253, 254, 255]) << 23) | rng.getrandbits(23)
        return rng.getrandbits(32)
    r = rng.random()
    if r < 0.45:
        return rng.choice(F64_SPECIAL)
    if r < 0.7:
        return f64_bits(float(rng.randint(-50, 50)) / rng.choice([1, 2, 4, 3]))
    if r < 0.85:
        return (rng.getrandbits(1) << 63) | (rng.choice([0, 1, 2, 1022, 1023, 1024, 1075, 2045, 2046, 2047]) << 52) | rng.getrandbits(52)
    return rng.getrandbits(64)


def gen_flt(rng):
    F = rng.choice(["f", "f64", "f32"])
    digits = 8 if F == "f32" else 16
    a = gen_fbits(rng, F)
    r = rng.random()
    if r < 0.05:
        return "flt\t%s\tneg\t%0*x\t-" % (F, digits, a)
    if r < 0.17:
        # pow: exactly representable cases and special values only (math.Pow is not correctly rounded)
        base = rng.choice([0.0, -0.0, 1.0, -1.0, 2.0, -2.0, 0.5, 3.0, 10.0, -3.0, math.inf, -math.inf, math.nan, 4.0, 0.25])
        ex = rng.choice([0.0, -0.0, 1.0, 2.0, 3.0, -1.0, -2.0, 0.5, math.inf, -math.inf, math.nan, 10.0]) \
            if base in (0.0, 1.0, -1.0, 2.0, -2.0, 0.5, 4.0, 0.25) or base != base or math.isinf(base) \
            else rng.choice([0.0, 1.0, 2.0, 3.0])
        if ex == 0.5 and base not in (4.0, 0.25, 0.0, 1.0, math.inf):
            ex = 2.0
        if F == "f32":
            return "flt\tf32\tpow\t%08x\tf:%08x" % (f32_bits(base), f32_bits(ex))
        return "flt\t%s\tpow\t%016x\tf:%016x" % (F, f64_bits(base), f64_bits(ex))
    op = rng.choice(["add", "sub", "mul", "div", "mod"])
    if F == "f" and rng.random() < 0.25:
        z = rng.choice([0, 1, -1, 3, 7, (1 << 53) + 1, (1 << 53) - 1, -(1 << 53) - 1, (1 << 63) - 1, -(1 << 63), (1 << 62) + 1,
                        rng.randint(-100, 100), rng.randint(-(1 << 63), (1 << 63) - 1)])
        if rng.random() < 0.3:
            z = rng.choice([1 << 63, (1 << 64) + 1, -(1 << 64) - 1, 10 ** 30, (1 << 100) + (1 << 47), (1 << 100) + (1 << 47) + 1,
                            3 * (1 << 1022), 1 << 1024, -(1 << 1030), rng.randint(-(1 << 200), 1 << 200)])
        return "flt\tf\t%s\t%016x\t%s:%d" % (op, a, "s" if -(1 << 63) <= z < (1 << 63) else "b", z)
    b = gen_fbits(rng, F)
    if rng.random() < 0.08:
        b = a
    return "flt\t%s\t%s\t%0*x\tf:%0*x" % (F, op, digits, a, digits, b)


# ------------------------------------------------------------------ oracle / minimiser

def oracle(line, ans):
    f = line.split("\t")
    if f[0] == "sint":
        _, L, op, a, r = f
        rk, rv = (r.split(":") + [None])[:2] if r != "-" else (None, None)
        exp = sint_expected(L, op, int(a), rk, int(rv) if rv is not None else None)
        if exp is None:
            return None
        if ans == exp:
            return None
        return "%s %s %s %s must be %s (two's complement modulo 2^%d), the implementation answers %r" % (
            ELK_TYPE[L], a, op, r, exp[3:] if exp.startswith("ok ") else exp, LKINDS[L][0], ans)
    if f[0] == "flt":
        _, F, op, a, b = f
        exp = flt_expected(F, op, int(a, 16), b)
        if exp is None or ans == exp:
            return None
        return "IEEE-754 %s: %s %s %s must be %s, the implementation answers %r" % (F, a, op, b, exp[3:], ans)
    return None


def minimise(line, still):
    f = line.split("\t")
    if f[0] != "sint":
        return line
    cur = f[:]
    for idx in (3, 4):
        if cur[idx] == "-":
            continue
        if idx == 4:
            k, v = cur[4].split(":")
            v = int(v)
        else:
            k, v = None, int(cur[3])
        cands = sorted({0, 1, -1, 2, -2, 7, 8, -8, 63, 64, -64, v // 2, -(-v // 2), v - 1, v + 1}, key=abs)
        for c in cands:
            if abs(c) >= abs(v):
                continue
            lo, hi = rng_of(cur[1]) if idx == 3 else (rng_of(k) if k in RKINDS or k in LKINDS else (-(1 << 70), 1 << 70))
            if not lo <= c <= hi:
                continue
            t = cur[:]
            t[idx] = str(c) if idx == 3 else "%s:%d" % (k, c)
            if still("\t".join(t)):
                cur = t
                v = c
    return "\t".join(cur)


# ------------------------------------------------------------------ probe -> Gen/ShiftAdmitted.lean

GEN_PATH = os.path.join(vlib.LEAN, "ElkVerif", "Gen", "ShiftAdmitted.lean")


def probe_admitted(ctx):
    p = subprocess.run([vlib.ELKH, "probe", "shiftadmitted"], env=vlib.go_env(), stdout=subprocess.PIPE,
                       stderr=subprocess.PIPE, text=True, timeout=600)
    if p.returncode != 0:
        ctx.obligation("probe shiftadmitted (real checker on every (operator, left type, right type))", False, "probe",
                       p.stderr[-500:])
        return None
    doc = json.loads(p.stdout)
    rows = ["  (%s, %s, %s)" % (LEAN_OP[o], LEAN_L[l], LEAN_R[r]) for o, l, r in doc["admitted"]]
    src = ("-- GENERATED by checks/c07.py from `elkh probe shiftadmitted` (the real type checker asked about\n"
           "-- `a OP b` for every shift operator, sized left type and candidate right type) — do not edit\n"
           "import ElkVerif.Model.Strict\nnamespace Elk.Gen.ShiftAdmitted\nopen Elk.Strict\n\n"
           "def admittedList : List (ShOp × LKind × RTy) := [\n" + ",\n".join(rows) + "\n]\n\n"
           "end Elk.Gen.ShiftAdmitted\n")
    changed = vlib.write_if_changed(GEN_PATH, src)
    ctx.stat("probe:admitted-triples", len(rows))
    ctx.extra["shift_admitted_table_changed"] = changed
    ctx.obligation("probe shiftadmitted (real checker on every (operator, left type, right type))", True, "probe",
                   "%d of %d triples admitted" % (len(rows), len(doc["ops"]) * len(doc["left"]) * len(doc["right"])))
    return doc


def leading_int(s):
    """`84u8` -> `84`: sized integers print with their literal suffix"""
    i = 1 if s.startswith("-") else 0
    while i < len(s) and s[i].isdigit():
        i += 1
    return s[:i]


def admitted_program_lines(ctx, doc, n):
    """Elk programs for admitted (op, L, R) triples: the accepted operand must not raise a type error."""
    rk_of = {"Int": ["s", "b"], "Int64": ["i64"], "Int32": ["i32"], "Int16": ["i16"], "Int8": ["i8"],
             "UInt64": ["u64"], "UInt32": ["u32"], "UInt16": ["u16"], "UInt8": ["u8"], "UInt": ["u"]}
    lk_of = {v: k for k, v in ELK_TYPE.items()}
    sfx = {"i8": "i8", "i16": "i16", "i32": "i32", "i64": "i64", "u8": "u8", "u16": "u16", "u32": "u32", "u64": "u64",
           "u": "u", "s": "", "b": ""}
    sh = {"<<": "shl", ">>": "shr", "<<<": "lshl", ">>>": "lshr"}
    cases = []
    triples = [t for t in doc["admitted"] if t[2] in rk_of]
    for i in range(n):
        o, l, r = ctx.rng.choice(triples)
        L = lk_of[l]
        rk = ctx.rng.choice(rk_of[r])
        a = boundary_vals(L, ctx.rng)
        c = gen_count(ctx.rng, rk)
        if rk == "b" and -(1 << 63) <= c < (1 << 63):
            rk = "s"

        def lit(v, k):
            s = "%d%s" % (abs(v), sfx[k])
            return s if v >= 0 else "(-%s)" % s
        src = ("module S%d\n  def run(a: %s, b: %s)\n    println(\"#{a %s b}\")\n  end\nend\nS%d.run(%s, %s)\n"
               % (i, l, r, o, i, lit(a, L), lit(c, rk)))
        cases.append((L, sh[o], a, rk, c, src))
    answers = vlib.run_programs([{"id": "c07p%d" % i, "src": c[5], "timeout_ms": 10000} for i, c in enumerate(cases)])
    ok = True
    rep = 0
    for (L, op, a, rk, c, src), ans in zip(cases, answers):
        exp = sint_expected(L, op, a, rk, c)
        ctx.stat("prog-outcome:" + str(ans.get("outcome")))
        if ans.get("rejected"):
            ctx.stat("prog-rejected")
            continue
        ctx.case(("prog", L, op, a, rk, c))
        got = leading_int((ans.get("stdout") or "").strip())
        good = ans.get("outcome") == "value" and exp is not None and "ok " + got == exp
        if good:
            continue
        ok = False
        if rep < 5:
            rep += 1
            what = ("%s raised %s: %s" % (ans.get("outcome"), ans.get("err_class"), ans.get("err_msg") or ans.get("panic"))
                    if ans.get("outcome") != "value" else "printed %r" % got)
            ctx.violation("property-fails", {"program": src, "expect": exp},
                          "type-checked program with an admitted shift operand must print %s; it %s" % (exp, what))
    ctx.obligation("Elk programs with admitted shift operands agree with modular arithmetic on %d programs" % n, ok,
                   "correspondence")


def grid_lines():
    """deterministic: every type x every operator on the identity/boundary grid; every shift x every right-operand kind
    on the boundary counts of that kind"""
    out = []
    for L, (w, signed) in LKINDS.items():
        lo, hi = rng_of(L)
        vals = sorted({v for v in (lo, lo + 1, -2, -1, 0, 1, 2, 3, hi - 1, hi) if lo <= v <= hi})
        for op in AOPS:
            for a in vals:
                for b in ([0, 1, 2, 3, 7, 8, hi] if op == "pow" and w > 8 else vals):
                    if op == "pow" and w > 8 and b == hi:
                        continue
                    out.append("sint\t%s\t%s\t%d\t%s:%d" % (L, op, a, L, b))
        for a in vals:
            out.append("sint\t%s\tneg\t%d\t-" % (L, a))
            out.append("sint\t%s\tnot\t%d\t-" % (L, a))
        svals = sorted({v for v in (lo, -1, 1, hi, 0x55 * ((1 << w) // 255) % (hi + 1)) if lo <= v <= hi})
        for op in SHOPS:
            for rk in list(RKINDS) + ["b"]:
                if rk == "b":
                    counts = [1 << 63, -(1 << 63) - 1, 1 << 64, -(1 << 64)]
                else:
                    rlo, rhi = rng_of(rk)
                    counts = sorted({c for c in (0, 1, -1, w - 1, w, w + 1, -(w - 1), -w, -(w + 1), rlo, rlo + 1, rhi)
                                     if rlo <= c <= rhi})
                for a in svals:
                    for c in counts:
                        out.append("sint\t%s\t%s\t%d\t%s:%d" % (L, op, a, rk, c))
    return out


def sweep8():
    """exhaustive 8-bit sweep (thorough tier): all operand pairs x all same-type operators, all values x all shift
    kinds x counts -9..9, 63, 64, 65, min, max"""
    out = []
    for L in ("i8", "u8"):
        lo, hi = rng_of(L)
        for op in AOPS:
            for a in range(lo, hi + 1):
                for b in range(lo, hi + 1):
                    out.append("sint\t%s\t%s\t%d\t%s:%d" % (L, op, a, L, b))
        for op in SHOPS:
            for rk in list(RKINDS) + ["b"]:
                if rk == "b":
                    counts = [1 << 63, -(1 << 63) - 1, 1 << 64, -(1 << 64)]
                else:
                    rlo, rhi = rng_of(rk)
                    counts = [c for c in list(range(-9, 10)) + [63, 64, 65, -63, -64, -65, rlo, rlo + 1, rhi] if rlo <= c <= rhi]
                for a in range(lo, hi + 1):
                    for c in counts:
                        out.append("sint\t%s\t%s\t%d\t%s:%d" % (L, op, a, rk, c))
    return out


def replay_program(ctx, inp):
    ans = vlib.run_programs([{"id": "c07replay", "src": inp["program"], "timeout_ms": 10000}])[0]
    got = leading_int((ans.get("stdout") or "").strip())
    if not (ans.get("outcome") == "value" and "ok " + got == inp["expect"]):
        ctx.violation("property-fails", inp, "replayed: outcome %s %s %s, printed %r" % (
            ans.get("outcome"), ans.get("err_class"), ans.get("err_msg"), got))
    ctx.case(("prog", inp["program"]))


def run(ctx):
    ctx.rule = ("sint: (left type, operator, left value, right kind:value) with boundary-biased values and shift counts "
                "(0, ±1 … ±9, 15/16/17, 31/32/33, 63/64/65, 127/128, type min/max, counts beyond 2^63 as BigInt); "
                "flt: (float type, operator, IEEE bit patterns) over special values, boundary exponents and random bits; "
                "distinct = distinct line; non-trivial = every line (each executes one operator)")
    doc = probe_admitted(ctx)
    ctx.prove("ElkVerif.Props.C07")
    if ctx.replay:
        inp = json.load(open(ctx.replay))["input"]
        if "program" in inp:
            replay_program(ctx, inp)
            return
        lines = [inp["line"]]
    else:
        n = ctx.n(14000, 250000)
        lines = vlib.corpus_lines("C07") + grid_lines()
        lines += [gen_sint(ctx.rng) for _ in range(n)]
        lines += [gen_flt(ctx.rng) for _ in range(n // 2)]
        if not ctx.quick:
            lines += sweep8()
    for ln in lines:
        f = ln.split("\t")
        ctx.stat("dom:" + f[0])
        ctx.stat("op:" + f[2])
        ctx.stat("left:" + f[1])
        if f[0] == "sint" and f[4] != "-":
            ctx.stat("rkind:" + f[4].split(":")[0])
    vlib.correspond(ctx, lines, oracle=oracle, minimise=minimise,
                    label="sized-integer operators and shift helpers, float operators")
    if not ctx.replay and doc is not None:
        admitted_program_lines(ctx, doc, ctx.n(250, 3000))
