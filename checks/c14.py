"""C14 — Structured control flow follows its reference semantics."""
import json
import vlib
from checks import mini_gen, mini_common

META = {
    "property_id": "C14",
    "technique": "Lean 4 reference semantics (MiniElk) with kernel-checked finally/catch/short-circuit theorems + differential execution of generated control-flow nestings against the real compiler and VM",
    "level_text": "Partial. The MiniElk evaluator (lean/ElkVerif/Model/Mini) is the reference interpreter of the property; "
                  "theorems (finally_once, catch_none/catch_hit/catch_skip, and/or/nilco short-circuit, label and loop "
                  "laws) hold for every program, state and fuel of the reference. The real compiler+VM are tied to it per "
                  "generated program (loops, labelled break/continue, return, throw/catch/finally at every nesting level, "
                  "a trace statement between constructs); no theorem quantifies over the real compiler.",
    "level_note": "Trusted: Lean kernel; MiniElk syntax decoder and pretty-printer (Driver/Dom/Mini.lean, unverified); the "
                  "python program generator; elkh run. `defer` is not in the fragment yet. Known finding: finally skipped "
                  "when a catch body exits abruptly (the generator avoids the shape, a corpus program replays it).",
    "design_ref": "DESIGN.md §6, §7 C14",
}

KNOBS = dict(closures=False, defs=2, max_depth=3, block_len=(1, 4))


# genuine defects recorded rather than repaired (known_findings.json), replayed on every run
FINDING_PROGRAMS = [
    ("host-crash", "module KfC14d\n  def f(a: Int): Int\n    defer println(\"d\")\n    a + 1\n  end\nend\nprintln(KfC14d.f(1).inspect)\n",
     ("val", "d\n2\n")),
]


def replay_findings(ctx):
    res = vlib.run_programs([{"id": f"k{i}", "src": src, "timeout_ms": 5000} for i, (_, src, _) in enumerate(FINDING_PROGRAMS)])
    for (kind, src, want), a in zip(FINDING_PROGRAMS, res):
        got = (mini_common.real_outcome(a), a["stdout"])
        if got != want:
            ctx.violation(kind, {"program": src}, f"expected {want}; got {got}")


def programs(ctx, n, knobs=None, prefix="Q"):
    out = []
    for i in range(n):
        g = mini_gen.Gen(ctx.rng, mini_gen.Knobs(**(knobs or KNOBS)), modname=f"{prefix}{ctx.seed}x{i}")
        p = g.program()
        for f in g.features:
            ctx.stat("feature:" + f)
        out.append(p)
    return out


def run(ctx):
    ctx.rule = ("type-directed MiniElk programs (nested loops, labelled break/continue, return, throw/catch with "
                "patterns, finally, short-circuit operators); distinct = distinct program text; non-trivial = the "
                "reference prints at least one line")
    ctx.prove("ElkVerif.Props.C14")
    if ctx.replay:
        progs = [json.load(open(ctx.replay))["input"]["sexpr"]]
    else:
        progs = mini_common.corpus_programs("C14") + programs(ctx, ctx.n(400, 12000))
    recs = mini_common.compare_programs(ctx, progs, "control-flow programs")
    if not ctx.replay:
        replay_findings(ctx)
    for r in recs:
        ctx.case(r["src"], nontrivial=bool(r["model_out"]),
                 sample={"program": r["src"][:600], "reference": r["model"], "stdout": r["model_out"][:200]})
