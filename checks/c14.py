"""C14 — Structured control flow follows its reference semantics."""
import json
import vlib
from checks import mini_gen, mini_common

META = {
    "property_id": "C14",
    "technique": "Lean 4 reference semantics (MiniElk) with kernel-checked finally/catch/short-circuit theorems + differential execution of generated control-flow nestings against the real compiler and VM",
    "level_text": "Partial. The MiniElk evaluator (lean/ElkVerif/Model/Mini) is the reference interpreter of the property; "
                  "theorems (finally_once, catch_none/catch_hit/catch_skip, and/or/nilco short-circuit, label and loop "
                  "laws) hold for every program, state and fuel of the reference. The real compiler+VM are tied to it per "
                  "generated program (loops, labelled break/continue, return, throw/catch/finally at every nesting level, "
                  "a trace statement between constructs); no theorem quantifies over the real compiler.",
    "level_note": "Trusted: Lean kernel; MiniElk syntax decoder and pretty-printer (Driver/Dom/Mini.lean, unverified); the "
                  "python program generator; elkh run. `defer` is not in the fragment yet. Known finding: finally skipped "
                  "when a catch body exits abruptly (the generator avoids the shape, a corpus program replays it).",
    "design_ref": "DESIGN.md §6, §7 C14",
}

KNOBS = dict(closures=False, defs=2, max_depth=3, block_len=(1, 4))


# genuine defects recorded rather than repaired (known_findings.json), replayed on every run
FINDING_PROGRAMS = [
    ("host-crash", "module KfC14d\n  def f(a: Int): Int\n    defer println(\"d\")\n    a + 1\n  end\nend\nprintln(KfC14d.f(1).inspect)\n",
     ("val", "d\n2\n")),
]


def replay_findings(ctx):
    res = vlib.run_programs([{"id": f"k{i}", "src": src, "timeout_ms": 5000} for i, (_, src, _) in enumerate(FINDING_PROGRAMS)])
    for (kind, src, want), a in zip(FINDING_PROGRAMS, res):
        got = (mini_common.real_outcome(a), a["stdout"])
        if got != want:
            ctx.violation(kind, {"program": src}, f"expected {want}; got {got}")


def programs(ctx, n, knobs=None, prefix="Q"):
    out = []
    for i in range(n):
        g = mini_gen.Gen(ctx.rng, mini_gen.Knobs(**(knobs or KNOBS)), modname=f"{prefix}{ctx.seed}x{i}")
        p = g.program()
        for f in g.features:
            ctx.stat("feature:" + f)
        out.append(p)
    return out

# ----------------------------------------------------------------- condition forms x comparison operators (boundary grid)

CMP = {"<": lambda a, b: a < b, "<=": lambda a, b: a <= b, ">": lambda a, b: a > b, ">=": lambda a, b: a >= b,
       "==": lambda a, b: a == b, "!=": lambda a, b: a != b}


def grid_programs(seed):
    """every conditional / loop form with a condition that is directly a comparison of two Int (and Float) locals, at
    a < b, a == b, a > b. The compiler fuses comparison and jump for these; the expected output follows from the
    meaning of the form (Python), not from the implementation. One program per (operand type, relation)."""
    out = []
    for ty, vals in (("Int", [(2, 5), (4, 4), (7, 3)]), ("Float", [(2.5, 5.0), (4.0, 4.0), (7.5, 3.0)])):
        for k, (a, b) in enumerate(vals):
            mod = "CG%s%s%d" % (seed, ty[0], k)
            L = ["module %s" % mod, "  def run(a: %s, b: %s): nil" % (ty, ty)]
            want = []
            n = 0
            for op, f in CMP.items():
                if ty == "Float" and op in ("==", "!="):
                    continue          # known finding C08-float-eq-emits-equal-int: `==` on Float-typed locals kills the VM
                c = f(a, b)
                cond = "a %s b" % op
                n += 1
                # if / unless with else
                L += ["    if %s" % cond, '      println("%d i+")' % n, "    else", '      println("%d i-")' % n, "    end"]
                want.append("%d i%s" % (n, "+" if c else "-"))
                L += ["    unless %s" % cond, '      println("%d u+")' % n, "    else", '      println("%d u-")' % n, "    end"]
                want.append("%d u%s" % (n, "-" if c else "+"))
                # modifiers
                L += ['    println("%d mi") if %s' % (n, cond), '    println("%d mu") unless %s' % (n, cond)]
                want += (["%d mi" % n] if c else []) + ([] if c else ["%d mu" % n])
                # while / until: at most one iteration (the body breaks the condition by leaving through `break`)
                L += ["    while %s" % cond, '      println("%d w")' % n, "      break", "    end"]
                want += ["%d w" % n] if c else []
                L += ["    until %s" % cond, '      println("%d t")' % n, "      break", "    end"]
                want += [] if c else ["%d t" % n]
                # do … while / do … until: the body runs once, then the condition decides about a second round
                L += ["    var k%d = 0" % n, "    do", "      k%d += 1" % n, '      println("%d dw")' % n, "      break if k%d > 1" % n,
                      "    end while %s" % cond]
                want += ["%d dw" % n] * (2 if c else 1)
                L += ["    var j%d = 0" % n, "    do", "      j%d += 1" % n, '      println("%d du")' % n, "      break if j%d > 1" % n,
                      "    end until %s" % cond]
                want += ["%d du" % n] * (1 if c else 2)
                # the value of the comparison itself and its negation
                L += ['    println("%d v " + (%s).inspect + " " + (!(%s)).inspect)' % (n, cond, cond)]
                want.append("%d v %s %s" % (n, "true" if c else "false", "false" if c else "true"))
            L += ["    nil", "  end", "end", "%s.run(%s, %s)" % (mod, a, b)]
            out.append(("\n".join(L) + "\n", "\n".join(want) + "\n", "%s a=%s b=%s" % (ty, a, b)))
    return out


def run_grid(ctx):
    progs = grid_programs(ctx.seed)
    res = vlib.run_programs([{"id": "cg%d" % i, "src": src, "timeout_ms": 8000} for i, (src, _, _) in enumerate(progs)])
    ok = True
    for (src, want, what), a in zip(progs, res):
        ctx.case(("grid", what), sample={"grid": what, "outcome": a["outcome"]})
        ctx.stat("grid:" + a["outcome"])
        if a["outcome"] == "value" and a["stdout"] == want:
            continue
        got = a["stdout"].splitlines()
        exp = want.splitlines()
        diff = next((("line %d: expected %r, got %r" % (i + 1, e, g)) for i, (e, g) in enumerate(zip(exp, got + [None] * len(exp))) if e != g),
                    "output has %d lines, expected %d" % (len(got), len(exp)))
        if ctx.violation("output-differs", {"program": src, "grid": what},
                         "condition forms x comparison operators (%s): outcome %s %s; %s (labels: i=if u=unless mi/mu=modifier if/unless "
                         "w=while t=until dw/du=do-while/do-until v=value; number = operator in < <= > >= == !=)"
                         % (what, a["outcome"], (a.get("panic") or "")[:80], diff)):
            ok = False
    ctx.obligation("every conditional and loop form x every comparison operator at a<b, a==b, a>b (Int and Float): %d programs "
                   "print what the forms mean" % len(progs), ok, "search")


def run(ctx):
    ctx.rule = ("type-directed MiniElk programs (nested loops, labelled break/continue, return, throw/catch with "
                "patterns, finally, short-circuit operators); distinct = distinct program text; non-trivial = the "
                "reference prints at least one line")
    ctx.prove("ElkVerif.Props.C14")
    if ctx.replay:
        inp = json.load(open(ctx.replay))["input"]
        if "grid" in inp:
            run_grid(ctx)
            return
        progs = [inp["sexpr"]]
    else:
        progs = mini_common.corpus_programs("C14") + programs(ctx, ctx.n(400, 12000))
    recs = mini_common.compare_programs(ctx, progs, "control-flow programs")
    if not ctx.replay:
        replay_findings(ctx)
        run_grid(ctx)
    for r in recs:
        ctx.case(r["src"], nontrivial=bool(r["model_out"]),
                 sample={"program": r["src"][:600], "reference": r["model"], "stdout": r["model_out"][:200]})
