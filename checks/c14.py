"""C14 — Structured control flow follows its reference semantics."""
import json
import vlib
from checks import mini_gen, mini_common

META = {
    "property_id": "C14",
    "technique": "Lean 4 reference semantics (MiniElk) with kernel-checked finally/catch/short-circuit theorems + differential execution of generated control-flow nestings against the real compiler and VM",
    "level_text": "Partial. The MiniElk evaluator (lean/ElkVerif/Model/Mini) is the reference interpreter of the property; "
                  "theorems (finally_once, catch_none/catch_hit/catch_skip, and/or/nilco short-circuit, label and loop "
                  "laws) hold for every program, state and fuel of the reference. The real compiler+VM are tied to it per "
                  "generated program (loops, labelled break/continue, return, throw/catch/finally at every nesting level, "
                  "a trace statement between constructs); no theorem quantifies over the real compiler.",
    "level_note": "Trusted: Lean kernel; MiniElk syntax decoder and pretty-printer (Driver/Dom/Mini.lean, unverified); the "
                  "python program generator; elkh run. `defer` is not in the fragment yet. Known finding: finally skipped "
                  "when a catch body exits abruptly (the generator avoids the shape, a corpus program replays it).",
    "design_ref": "DESIGN.md §6, §7 C14",
}

KNOBS = dict(closures=False, defs=2, max_depth=3, block_len=(1, 4))


def programs(ctx, n, knobs=None, prefix="Q"):
    out = []
    for i in range(n):
        g = mini_gen.Gen(ctx.rng, mini_gen.Knobs(**(knobs or KNOBS)), modname=f"{prefix}{ctx.seed}x{i}")
        p = g.program()
        for f in g.features:
            ctx.stat("feature:" + f)
        out.append(p)
    return out


def run(ctx):
    ctx.rule = ("type-directed MiniElk programs (nested loops, labelled break/continue, return, throw/catch with "
                "patterns, finally, short-circuit operators); distinct = distinct program text; non-trivial = the "
                "reference prints at least one line")
    ctx.prove("ElkVerif.Props.C14")
    if ctx.replay:
        progs = [json.load(open(ctx.replay))["input"]["sexpr"]]
    else:
        progs = mini_common.corpus_programs("C14") + programs(ctx, ctx.n(400, 12000))
    recs = mini_common.compare_programs(ctx, progs, "control-flow programs")
    for r in recs:
        ctx.case(r["src"], nontrivial=bool(r["model_out"]),
                 sample={"program": r["src"][:600], "reference": r["model"], "stdout": r["model_out"][:200]})
