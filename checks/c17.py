"""C17 — Hash maps, hash records and hash sets behave as finite maps and sets."""
import json
import re

import vlib

META = {
    "property_id": "C17",
    "technique": "Lean 4 invariant + refinement proof (open-addressing table with tombstones -> finite map, for all histories, "
                 "all hash functions) + differential correspondence with vm.HashMapOfValue*/HashSetOfValue*/HashRecord* "
                 "reproducing the slot layout from the real key hashes",
    "level_text": "Kernel-checked: the table invariant (counters, unique keys, probe-chain reachability) is preserved by "
                  "set/delete/setCapacity/copy for every operation sequence, every hash function and capacity, and lookups, "
                  "length and iteration refine an association list. Model tied to the Go code by differential execution of "
                  "generated histories (keys chosen to collide modulo the small capacities, deleted slots, resizes) comparing "
                  "the full slot layout and counters after every operation; a Python dict/set oracle judges the implementation.",
    "level_note": "Trusted: Lean kernel; hand-written model of the table functions; `vm.Hash`/`vm.Equal` are parameters (their "
                  "consistency is C18); Go-map backed native variants are compared with the abstract map only; harness unverified.",
    "design_ref": "DESIGN.md §7 C17",
}

# ---------------------------------------------------------------- key pool (real hashes and == classes from the harness)

POOL_SPECS = (
    [f"i{n}" for n in range(0, 48)] + [f"i{n}" for n in (-1, -2, 127, 128, 255, 256, 2 ** 31, 2 ** 62, -2 ** 63)]
    + [f"l{n}" for n in range(0, 12)] + [f"u{n}" for n in range(0, 6)]
    + [f"s{t}" for t in ("", "a", "b", "ab", "abc", "key", "k1", "k2", "k3", "k4", "k5", "k6", "k7", "k8", "k9", "x", "y", "z",
                         "elk", "foo", "bar", "baz", "1", "2")]
    + ["c97", "c98", "c0", "c8364"]
    + ["f3ff0000000000000", "f4000000000000000", "f0000000000000000", "f8000000000000000", "f3fe0000000000000", "f7ff0000000000000"]
    # (NaN is left out: it is not == to itself, so it is not a key of a finite map keyed by ==)
    + ["n", "t", "F"] + [f"y{t}" for t in ("a", "b", "foo", "elk_sym_1", "elk_sym_2")]
)


class Pool:
    def __init__(self):
        ans = vlib.run_impl(["hmq\tclasses\t" + "\t".join(POOL_SPECS)])[0]
        if not ans.startswith("ok "):
            raise RuntimeError("key pool query failed: " + ans)
        self.keys = []     # (class id, hash, spec)
        for spec, tok in zip(POOL_SPECS, ans[3:].split(" ")):
            h, c = tok.split(":")
            self.keys.append((int(c), int(h), spec))
        self.strings = [k for k in self.keys if k[2].startswith("s")]
        self.stable = [k for k in self.keys if not k[2].startswith("y")]

    def tok(self, k):
        return f"{k[0]}/{k[1]}/{k[2]}"

    def colliding(self, rng, pool, n):
        """n keys from pool biased to share residues modulo the small capacities"""
        m = rng.choice([5, 5, 8, 10, 12, 16, 18, 5 * 8])
        r = rng.randrange(m)
        same = [k for k in pool if k[1] % m == r]
        near = [k for k in pool if k[1] % m in ((r + 1) % m, (r + m - 1) % m)]
        out = []
        for _ in range(n):
            x = rng.random()
            if x < 0.55 and same:
                out.append(rng.choice(same))
            elif x < 0.75 and near:
                out.append(rng.choice(near))
            else:
                out.append(rng.choice(pool))
        # full-hash collisions between different keys (SmallInt n / Int64 n, Char 'a' / "a", …)
        if rng.random() < 0.3:
            byhash = {}
            for k in pool:
                byhash.setdefault(k[1], []).append(k)
            twins = [v for v in byhash.values() if len({k[0] for k in v}) > 1]
            if twins:
                out += rng.choice(twins)[:2]
        return out


# ---------------------------------------------------------------- generator

def gen_line(rng, pool, ctx=None, stable_only=False):
    r = rng.random()
    if r < 0.45:
        kind, impls, layout = "map", ["m", "m", "r"], True
    elif r < 0.7:
        kind, impls, layout = "set", ["s"], True
    elif r < 0.82:
        kind, impls, layout = "map", ["nm", "nk", "nr"], False
    elif r < 0.88:
        kind, impls, layout = "set", ["ns"], False
    elif r < 0.95:
        kind, impls, layout = "map", ["m", "nm", "r", "nk"], False
    else:
        kind, impls, layout = "set", ["s", "ns"], False
    native = any(i.startswith("n") for i in impls)
    base = pool.strings if native else (pool.stable if stable_only else pool.keys)
    keys = pool.colliding(rng, base, rng.choice([3, 5, 8, 12]))
    nops = rng.choice([3, 6, 10, 16, 24, 40])
    ops = []
    impl_of = []
    approx = []   # approximate contents (set of class ids) to bias deletes/lookups towards present keys

    def create():
        impl = rng.choice(impls)
        ops.append(f"new:{impl} {rng.choice([0, 0, 1, 2, 5, 5, 8])}")
        impl_of.append(impl)
        approx.append(set())

    def pick(o, present=None):
        if present is None:
            present = rng.random() < 0.6
        cand = [k for k in keys if (k[0] in approx[o]) == present]
        return rng.choice(cand or keys)

    create()
    if rng.random() < 0.5:
        create()
    for _ in range(nops):
        o = rng.randrange(len(impl_of))
        impl = impl_of[o]
        of_value = impl in ("m", "r", "s")
        x = rng.random()
        if kind == "map":
            if x < 0.04 and len(impl_of) < 5:
                create()
            elif x < 0.40:
                k = pick(o, present=rng.random() < 0.3)
                ops.append(f"set {o} {pool.tok(k)} {rng.randint(0, 3)}")
                approx[o].add(k[0])
            elif x < 0.52:
                ops.append(f"get {o} {pool.tok(pick(o))}")
            elif x < 0.58:
                ops.append(f"has {o} {pool.tok(pick(o))}")
            elif x < 0.76 and impl in ("m", "r"):
                k = pick(o, present=rng.random() < 0.8)
                ops.append(f"del {o} {pool.tok(k)}")
                approx[o].discard(k[0])
            elif x < 0.79:
                ops.append(f"len {o}")
            elif x < 0.82 and impl in ("m", "r"):
                ops.append(f"grow {o} {rng.choice([0, 1, 3, 5])}")
            elif x < 0.84 and impl in ("m", "r"):
                n = len(approx[o])
                ops.append(f"setcap {o} {rng.choice([n, n + 1, 2 * n + 1, 5, max(n - 1, 0), 0])}")
            elif x < 0.87 and len(impl_of) < 5 and impl not in ("r", "nr"):
                # (HashRecord#Copy returns the record itself: records are immutable)
                ops.append(f"clone {o}")
                impl_of.append(impl)
                approx.append(set(approx[o]))
            elif x < 0.89 and len(impl_of) < 5 and impl in ("m", "r"):
                n = len(approx[o])
                ops.append(f"clonecap {o} {rng.choice([0, n, n + 3, 5])}")
                impl_of.append(impl)
                approx.append(set(approx[o]))
            elif x < 0.94 and len(impl_of) < 5:
                b = rng.randrange(len(impl_of))
                if impl == "nr" and impl_of[b] == "nr":
                    # the harness holds a NativeHashRecord behind a pointer, which ConcatVal's type switch (on the value
                    # type) does not recognise as the same native type: the harness cannot represent this call faithfully
                    continue
                ops.append(f"cat {o} {b}")
                # result type: same native type for two equal native maps, else HashMapOfValue / HashRecordOfValue
                if impl == impl_of[b] and impl in ("nm", "nk", "nr"):
                    impl_of.append(impl)
                elif impl in ("r", "nr"):
                    impl_of.append("r")
                else:
                    impl_of.append("m")
                approx.append(approx[o] | approx[b])
            elif x < 0.96 and impl in ("m", "r"):
                cand = [i for i, t in enumerate(impl_of) if t in ("m", "r")]
                b = rng.choice(cand)
                ops.append(f"copy {o} {b}")
                approx[o] |= approx[b]
            elif x < 0.98:
                # (a map is never == to a record, in either direction: oracle and model know the families)
                ops.append(f"eq {o} {rng.randrange(len(impl_of))}")
            elif x < 0.99:
                ops.append(f"items {o}")
            else:
                ops.append(f"iter {o}")
        else:
            if x < 0.04 and len(impl_of) < 5:
                create()
            elif x < 0.40:
                k = pick(o, present=rng.random() < 0.3)
                ops.append(f"add {o} {pool.tok(k)}")
                approx[o].add(k[0])
            elif x < 0.52:
                ops.append(f"con {o} {pool.tok(pick(o))}")
            elif x < 0.74:
                k = pick(o, present=rng.random() < 0.8)
                ops.append(f"rem {o} {pool.tok(k)}")
                approx[o].discard(k[0])
            elif x < 0.77:
                ops.append(f"len {o}")
            elif x < 0.80 and impl == "s":
                ops.append(f"grow {o} {rng.choice([0, 1, 3, 5])}")
            elif x < 0.82 and impl == "s":
                n = len(approx[o])
                ops.append(f"setcap {o} {rng.choice([n, n + 1, 2 * n + 1, 5, max(n - 1, 0)])}")
            elif x < 0.85 and len(impl_of) < 5:
                ops.append(f"clone {o}")
                impl_of.append(impl)
                approx.append(set(approx[o]))
            elif x < 0.87 and len(impl_of) < 5 and impl == "s":
                n = len(approx[o])
                ops.append(f"clonecap {o} {rng.choice([0, n, n + 3, 5])}")
                impl_of.append(impl)
                approx.append(set(approx[o]))
            elif x < 0.91 and len(impl_of) < 5:
                b = rng.randrange(len(impl_of))
                ops.append(f"union {o} {b}")
                impl_of.append(impl if impl == impl_of[b] else ("ns" if impl == "ns" else "s"))
                approx.append(approx[o] | approx[b])
            elif x < 0.94 and len(impl_of) < 5:
                b = rng.randrange(len(impl_of))
                ops.append(f"inter {o} {b}")
                impl_of.append(impl if impl == impl_of[b] else ("ns" if impl == "ns" else "s"))
                approx.append(approx[o] & approx[b])
            elif x < 0.95 and impl == "s":
                cand = [i for i, t in enumerate(impl_of) if t == "s"]
                b = rng.choice(cand)
                ops.append(f"copy {o} {b}")
                approx[o] |= approx[b]
            elif x < 0.97:
                ops.append(f"seq {o} {rng.randrange(len(impl_of))}")
            elif x < 0.985:
                ops.append(f"items {o}")
            else:
                ops.append(f"iter {o}")
    if ctx is not None:
        for op in ops:
            ctx.stat("op:" + op.split(" ")[0].split(":")[0])
        ctx.stat("line:" + kind + ("/layout" if layout else "/abstract"))
    return "hm\t%s\t%s" % ("l" if layout else "-", ";".join(ops))


# ---------------------------------------------------------------- model-free oracle (python dict / set)

def parse_dump(s):
    """`{k1=2,_,x}E1O2` or `{k1=2}E1` -> (entries list [(id, val)], n_empty, n_tomb, elements, occupied|None)"""
    m = re.match(r"^\{(.*)\}E(-?\d+)(?:O(-?\d+))?$", s)
    if not m:
        return None
    entries, empty, tomb = [], 0, 0
    body = m.group(1)
    if body != "":
        for t in body.split(","):
            if t == "_":
                empty += 1
            elif t == "x":
                tomb += 1
            else:
                k, _, v = t.partition("=")
                entries.append((k, v))
    return entries, empty, tomb, int(m.group(2)), (int(m.group(3)) if m.group(3) is not None else None)


def parse_answer(ans):
    if not ans.startswith("ok "):
        return None
    out = []
    body = ans[3:]
    if body == "":
        return out
    for part in body.split(" ; "):
        res, _, ch = part.partition("|")
        changes = {}
        if ch:
            for c in ch.split("&"):
                i, _, rest = c.partition("=")
                changes[int(i)] = rest
        out.append((res, changes))
    return out


def oracle(line, ans):
    f = line.split("\t")
    ops = [o for o in f[2].split(";") if o]
    got = parse_answer(ans)
    if got is None:
        return f"harness answered {ans[:100]!r}"
    if len(got) != len(ops):
        return f"{len(got)} answers for {len(ops)} operations"
    objs = []     # python dicts: key class id (as 'k<id>') -> value string
    impl = []     # implementation tag per object (a map is never == to a record: different classes)
    is_rec = lambda t: t in ("r", "nr")

    def K(tok):
        return "k" + tok.split("/")[0]

    for n, (op, (res, changes)) in enumerate(zip(ops, got)):
        p = op.split(" ")
        name = p[0].split(":")[0]
        a = p[1:]
        where = f"op #{n} `{op}`"
        target = None
        want = None
        if res == "panic":
            if name == "setcap" and int(a[1]) < len(objs[int(a[0])]):
                continue   # Go API called outside its precondition (capacity below the number of pairs)
            return f"{where}: Go panic"
        if res.startswith("err:"):
            return f"{where}: unexpected error {res}"
        if name == "new":
            objs.append({}); want = f"o:{len(objs) - 1}"
            impl.append(p[0].split(":")[1] if ":" in p[0] else "m")
        elif name in ("set",):
            target = int(a[0]); objs[target][K(a[1])] = a[2]; want = "-"
        elif name == "add":
            target = int(a[0]); k = K(a[1])
            want = "b:false" if k in objs[target] else "b:true"
            objs[target][k] = "0"
        elif name == "get":
            d = objs[int(a[0])]
            want = "v:" + d[K(a[1])] if K(a[1]) in d else "absent"
        elif name in ("has", "con"):
            want = "b:true" if K(a[1]) in objs[int(a[0])] else "b:false"
        elif name in ("del", "rem"):
            target = int(a[0]); k = K(a[1])
            want = "b:true" if k in objs[target] else "b:false"
            objs[target].pop(k, None)
        elif name == "len":
            want = "v:%d" % len(objs[int(a[0])])
        elif name in ("setcap", "grow"):
            target = int(a[0]); want = "-"
        elif name in ("clone", "clonecap"):
            objs.append(dict(objs[int(a[0])])); want = f"o:{len(objs) - 1}"
            impl.append(impl[int(a[0])])
        elif name in ("cat", "union"):
            d = dict(objs[int(a[0])]); d.update(objs[int(a[1])])
            objs.append(d); want = f"o:{len(objs) - 1}"
            ia, ib = impl[int(a[0])], impl[int(a[1])]
            # record + record is a record; a Go-map backed record + a map is a map (explicit case in ConcatVal)
            impl.append(ia if ia == ib else ("m" if (not is_rec(ia) or (ia == "nr" and not is_rec(ib))) else "r"))
        elif name == "inter":
            x, y = objs[int(a[0])], objs[int(a[1])]
            objs.append({k: "0" for k in x if k in y}); want = f"o:{len(objs) - 1}"
            impl.append(impl[int(a[0])])
        elif name == "copy":
            target = int(a[0]); objs[target].update(objs[int(a[1])]); want = "-"
        elif name == "eq":
            same_family = is_rec(impl[int(a[0])]) == is_rec(impl[int(a[1])])
            want = "b:true" if same_family and objs[int(a[0])] == objs[int(a[1])] else "b:false"
        elif name == "seq":
            want = "b:true" if set(objs[int(a[0])]) == set(objs[int(a[1])]) else "b:false"
        elif name in ("items", "iter"):
            d = objs[int(a[0])]
            items = [x for x in res[1:-1].split(",") if x]
            if sorted(items) != sorted(f"{k}={v}" for k, v in d.items()):
                return (f"{where}: iteration yields [{','.join(items)}], the finite map holds "
                        f"{{{','.join(sorted(f'{k}={v}' for k, v in d.items()))}}} (each live entry exactly once)")
            want = res
        else:
            return f"{where}: unknown operation"
        if res != want:
            return f"{where}: answered {res}, a finite map gives {want}"
        for i, dump in changes.items():
            pd = parse_dump(dump)
            if pd is None:
                return f"{where}: unreadable table dump {dump!r}"
            entries, empty, tomb, elements, occupied = pd
            if i >= len(objs):
                return f"{where}: unknown object #{i} changed"
            d = objs[i]
            keys = [k for k, _ in entries]
            if len(set(keys)) != len(keys):
                return f"{where}: table #{i} holds a key twice: {dump}"
            if dict(entries) != d:
                return (f"{where}: table #{i} holds {{{','.join(sorted(k + '=' + v for k, v in entries))}}}, the finite map is "
                        f"{{{','.join(sorted(k + '=' + v for k, v in d.items()))}}}"
                        + ("" if i == target or i == len(objs) - 1 else " (not the target of the operation)"))
            if elements != len(d):
                return f"{where}: table #{i} reports length {elements} but holds {len(d)} distinct keys"
            if occupied is not None and occupied != len(entries) + tomb:
                return f"{where}: table #{i} counts {occupied} occupied slots but has {len(entries)} live + {tomb} deleted"
    return None


def minimise(line, still):
    f = line.split("\t")
    ops = [o for o in f[2].split(";") if o]
    mk = lambda os_: "\t".join(f[:2] + [";".join(os_)])
    if len(ops) > 1:
        ops = vlib.ddmin(ops, lambda os_: still(mk(os_)))
    return mk(ops)


POOL = None


def extend(line, rng, count=600):
    """continuations of a history on which implementation and model differ: more insertions/removals/lookups over the
    same tables and keys, ending with a lookup of every key in every table (judged by the dict oracle alone)"""
    f = line.split("\t")
    ops = [o for o in f[2].split(";") if o]
    impl_of, keys = [], []
    for op in ops:
        p = op.split(" ")
        name = p[0].split(":")[0]
        if name == "new":
            impl_of.append(p[0].split(":")[1] if ":" in p[0] else "m")
        elif name in ("clone", "clonecap"):
            impl_of.append(impl_of[int(p[1])])
        elif name in ("cat", "union", "inter"):
            return []            # result families are decided in gen_line; keep the directed search to plain histories
        for t in p[1:]:
            if t.count("/") == 2 and t not in keys:
                keys.append(t)
    if not keys or not impl_of:
        return []
    line_keys = list(keys)
    is_set = any(o.split(" ")[0] in ("add", "rem", "con") for o in ops) or all(t in ("s", "ns") for t in impl_of)
    out = []
    for _ in range(count):
        more = []
        keys = list(line_keys)
        if POOL is not None:
            native = any(t.startswith("n") for t in impl_of)
            for k in POOL.colliding(rng, POOL.strings if native else POOL.stable, rng.choice([2, 4, 6])):
                if POOL.tok(k) not in keys:
                    keys.append(POOL.tok(k))
        for _ in range(rng.choice([4, 8, 16, 30])):
            o = rng.randrange(len(impl_of))
            k = rng.choice(keys)
            x = rng.random()
            if is_set:
                more.append((f"add {o} {k}" if x < 0.4 else f"rem {o} {k}" if x < 0.8 else f"con {o} {k}"))
            elif impl_of[o] in ("m", "r"):
                more.append((f"set {o} {k} {rng.randint(0, 3)}" if x < 0.4 else f"del {o} {k}" if x < 0.8 else f"get {o} {k}"))
            else:
                more.append((f"set {o} {k} {rng.randint(0, 3)}" if x < 0.6 else f"get {o} {k}"))
        for o in range(len(impl_of)):
            for k in keys:
                more.append(f"con {o} {k}" if is_set else f"get {o} {k}")
            more.append(f"len {o}")
        out.append("\t".join(f[:2] + [";".join(ops + more)]))
    return out


# ---------------------------------------------------------------- Elk source

def elk_val(spec):
    c, arg = spec[0], spec[1:]
    if c == "i":
        return arg if not arg.startswith("-") else f"({arg})"
    if c == "s":
        return '"' + arg + '"'
    if c == "n":
        return "nil"
    if c == "t":
        return "true"
    if c == "F":
        return "false"
    if c == "c":
        return None
    return None


def gen_elk_program(rng, pool, pid):
    """maps through Elk source: literals, []=, [], +, length, ==, contains_key, iteration; sets: <<, remove, |, &"""
    ks = [k for k in pool.colliding(rng, [k for k in pool.stable if elk_val(k[2]) is not None and k[2][0] in "is"], 6)]
    ks = [k for k in ks if k[2][0] == ks[0][2][0]] or ks[:1]      # one key type per program keeps the static types simple
    kt = "Int" if ks[0][2][0] == "i" else "String"
    body = []
    want = []
    if rng.random() < 0.6:
        # maps
        dicts = []

        def lit(d):
            return "{ " + ", ".join(f"{elk_val(k[2])} => {v}" for k, v in d) + " }" if d else None
        record = rng.random() < 0.3
        for _ in range(2):
            pairs = [(rng.choice(ks), rng.randint(0, 3)) for _ in range(rng.choice([1, 2, 3, 4]))]
            if record:
                body.append(f"m{len(dicts)} := %{lit(pairs)}")
            else:
                body.append(f"var m{len(dicts)}: HashMap[{kt}, Int] = {lit(pairs)}")
            d = {}
            for k, v in pairs:
                d[k[0]] = (k, v)
            dicts.append(d)
        for _ in range(rng.choice([3, 6, 10])):
            o = rng.randrange(len(dicts))
            x = rng.random()
            k = rng.choice(ks)
            if x < 0.3 and not record:
                v = rng.randint(0, 3)
                body.append(f"m{o}[{elk_val(k[2])}] = {v}")
                dicts[o][k[0]] = (k, v)
            elif x < 0.5:
                v = f"v{len(body)}"
                body.append(f"{v} := m{o}[{elk_val(k[2])}]\nif {v}\n  println(\"@\" + {v}.inspect)\nelse\n  println(\"@nil\")\nend")
                want.append(str(dicts[o][k[0]][1]) if k[0] in dicts[o] else "nil")
            elif x < 0.6:
                body.append(f"println(\"@\" + m{o}.contains_key({elk_val(k[2])}).inspect)")
                want.append("true" if k[0] in dicts[o] else "false")
            elif x < 0.75 and len(dicts) < 4:
                b = rng.randrange(len(dicts))
                body.append(f"m{len(dicts)} := m{o} + m{b}")
                d = dict(dicts[o]); d.update(dicts[b]); dicts.append(d)
            elif x < 0.85:
                b = rng.randrange(len(dicts))
                body.append(f"println(\"@\" + (m{o} == m{b}).inspect)")
                da = {c: v for c, (_, v) in dicts[o].items()}
                db = {c: v for c, (_, v) in dicts[b].items()}
                want.append("true" if da == db else "false")
            else:
                body.append(f"n{len(body)} := 0\nfor p in m{o}\n  n{len(body)} += 1\nend\nprintln(\"@\" + n{len(body)}.inspect)")
                want.append(str(len(dicts[o])))
            body.append(f"println(\"@\" + m{o}.length.inspect)")
            want.append(str(len(dicts[o])))
            if len(dicts) > 2:
                body.append(f"println(\"@\" + m{len(dicts) - 1}.length.inspect)")
                want.append(str(len(dicts[-1])))
    else:
        sets = []
        for _ in range(2):
            elems = [rng.choice(ks) for _ in range(rng.choice([1, 2, 3, 4]))]
            body.append(f"var s{len(sets)}: HashSet[{kt}] = ^[" + ", ".join(elk_val(k[2]) for k in elems) + "]")
            sets.append({k[0] for k in elems})
        for _ in range(rng.choice([4, 8, 14])):
            o = rng.randrange(len(sets))
            x = rng.random()
            k = rng.choice(ks)
            if x < 0.3:
                body.append(f"s{o} << {elk_val(k[2])}")
                sets[o].add(k[0])
            elif x < 0.55:
                body.append(f"println(\"@\" + s{o}.remove({elk_val(k[2])}).inspect)")
                want.append("true" if k[0] in sets[o] else "false")
                sets[o].discard(k[0])
            elif x < 0.7:
                body.append(f"println(\"@\" + s{o}.contains({elk_val(k[2])}).inspect)")
                want.append("true" if k[0] in sets[o] else "false")
            elif x < 0.78 and len(sets) < 4:
                b = rng.randrange(len(sets))
                body.append(f"var s{len(sets)}: HashSet[{kt}] = s{o} | s{b}")
                sets.append(sets[o] | sets[b])
            elif x < 0.86 and len(sets) < 4:
                # `s & t` is typed HashSet[never] by the checker for equal element types (HashSet[Val & V]), so the
                # result cannot be used from typed Elk source; intersection is exercised on the Go API (`inter`).
                # Here: the length of the intersection only.
                b = rng.randrange(len(sets))
                body.append(f"println(\"@\" + (s{o} & s{b}).length.inspect)")
                want.append(str(len(sets[o] & sets[b])))
            elif x < 0.93:
                b = rng.randrange(len(sets))
                body.append(f"println(\"@\" + (s{o} == s{b}).inspect)")
                want.append("true" if sets[o] == sets[b] else "false")
            else:
                body.append(f"n{len(body)} := 0\nfor p in s{o}\n  n{len(body)} += 1\nend\nprintln(\"@\" + n{len(body)}.inspect)")
                want.append(str(len(sets[o])))
            body.append(f"println(\"@\" + s{o}.length.inspect)")
            want.append(str(len(sets[o])))
            if len(sets) > 2:
                body.append(f"println(\"@\" + s{len(sets) - 1}.length.inspect)")
                want.append(str(len(sets[-1])))
    return "\n".join(body) + "\n", want


def run_elk_source(ctx, pool, count):
    progs = [gen_elk_program(ctx.rng, pool, i) for i in range(count)]
    answers = vlib.run_programs([{"id": f"c17-{i}", "src": src, "timeout_ms": 10000} for i, (src, _) in enumerate(progs)])
    ok = True
    reported = 0
    for (src, want), a in zip(progs, answers):
        ctx.case(("elk", src), sample=None)
        ctx.stat("elk-outcome:" + a.get("outcome", "?"))
        got = [re.sub(r"\s+", "", r) for r in a.get("stdout", "").split("@")[1:]]
        if a.get("outcome") == "value" and got == want:
            continue
        ok = False
        if reported < 1:
            reported += 1
            ctx.violation("property-fails", {"elk": src},
                          f"Elk program over hash maps/sets: outcome={a.get('outcome')} panic={a.get('panic', '')!r} "
                          f"err={a.get('err_class', '')} {a.get('err_msg', '')} diags={a.get('diags')} printed {got!r}; a finite map gives {want!r}")
    ctx.obligation(f"Elk source: {len(progs)} generated map/set programs print what finite maps give", ok, "correspondence")


def run(ctx):
    ctx.rule = ("histories of map/record/set operations (set/get/contains/delete/length/resize/clone/concat/copy/==/union/"
                "intersection/iteration) over up to 5 live tables; keys carry their real vm.Hash and are chosen to collide "
                "modulo the table capacities; after every operation the slot layout and counters of every changed table are "
                "compared; distinct = distinct history")
    ctx.prove("ElkVerif.Props.C17")
    pool = Pool()
    global POOL
    POOL = pool
    if ctx.replay:
        inp = json.load(open(ctx.replay))["input"]
        if "line" in inp:
            vlib.correspond(ctx, [inp["line"]], oracle=oracle, minimise=minimise, label="HashMap")
        else:
            b = vlib.run_programs([{"id": "r", "src": inp["elk"], "timeout_ms": 10000}])[0]
            print("replayed elk program:", b.get("outcome"), b.get("panic", ""), repr(b.get("stdout", "")))
            ctx.violation("property-fails", inp, "replayed program: " + repr(b.get("stdout", "")))
        return
    n = ctx.n(3000, 100000)
    lines = vlib.corpus_lines("C17") + [gen_line(ctx.rng, pool, ctx) for _ in range(n)]
    vlib.correspond(ctx, lines, oracle=oracle, minimise=minimise, label="HashMap", max_report=2, extend=extend)
    run_elk_source(ctx, pool, ctx.n(150, 3000))
