"""C30, exhaustiveness part: the checker's fully-captured types (`do … catch`) against the Lean
`covers` and against executions (helper module of checks/c30.py)."""
import concurrent.futures as cf

import vlib
from checks import c30 as P

# thrown types: unions of these atoms
# (no `Bool`: whether the Go normaliser folds `true | false` into `Bool` depends on how the union was assembled)
ATOMS = [('cls', 'Int'), ('cls', 'String'), ('cls', 'Float'), ('cls', 'Symbol'),
         ('lit', 'N'), ('lit', 'T'), ('lit', 'F'), ('lit', ('i', 1)), ('lit', ('i', 2)), ('lit', ('s', "a")),
         ('lit', ('y', "a")), ('lit', ('y', "b")), ('lit', ('f', 3))]

POOL = {"Int": [('i', -3), ('i', 0), ('i', 1), ('i', 2), ('i', 5), ('i', 7), ('i', 2 ** 64)],
        "String": [('s', ""), ('s', "a"), ('s', "ab"), ('s', "abc"), ('s', "aab"), ('s', "zz")],
        "Float": [('f', 0), ('f', 3), ('f', -1), ('f', 10)],
        "Symbol": [('y', "a"), ('y', "b"), ('y', "foo")],
        "Bool": ['T', 'F']}


def elk_ty(t):
    if t[0] == 'u':
        return elk_ty(t[1]) + " | " + elk_ty(t[2])
    if t[0] == 'cls':
        return t[1]
    if t[0] == 'lit':
        return P.elk_scalar(t[1])
    raise ValueError(t)


def atoms_of(t):
    return atoms_of(t[1]) + atoms_of(t[2]) if t[0] == 'u' else [t]


def values_of(t):
    out = []
    for a in atoms_of(t):
        out += [a[1]] if a[0] == 'lit' else POOL[a[1]]
    seen = []
    for v in out:
        if v not in seen:
            seen.append(v)
    return seen


def make_cov(env, cases, ty, cfg="1"):
    return "pat\tcov\t%s\t%s\t(%s)\t%s" % (cfg, P.sx_env(env), " ".join(map(P.sx_pat, cases)), P.sx_ty(ty))


def parse_cov(line):
    f = line.split("\t")
    assert f[0] == "pat" and f[1] == "cov", line
    return f[2], P.un_env(P.sx_parse(f[3])), [P.un_pat(x) for x in P.sx_parse(f[4])], P.un_ty(P.sx_parse(f[5]))


def catch_program(mod, env, cases, ty, values):
    L = ["module %s" % mod, "  def f(%s): String" % ", ".join(["v: " + elk_ty(ty)] + P.elk_env_params(env)),
         "    do", "      throw v"]
    for i, p in enumerate(cases):
        L.append("    catch " + P.elk_pat(p))
        L.append('      "c%d"' % i)
    L += ["    end", "  end", "end"]
    args = "".join(", " + P.elk_scalar(s) for s in env.values())
    for v in values:
        L.append('println("@@")')
        L.append("println(%s.f(%s%s))" % (mod, P.elk_value(v), args))
    return "\n".join(L) + "\n"


class CovGen(P.Gen):
    def capture(self, atom, depth):
        """a pattern aimed at the atom of the thrown type: often fully capturing, sometimes not"""
        r = self.rng
        c = r.random()
        if atom[0] == 'lit':
            s = atom[1]
            if c < 0.45:
                p = ('lit', s)
            elif c < 0.6:
                p = ('rel', 'eq', s)
            elif c < 0.7 and s != 'N':
                p = ('rel', 'ne', 'N')
            elif c < 0.8:
                p = ('obj', P.cls_of(s), None)
            elif c < 0.9 and s in ('T', 'F'):
                p = ('rel', 'ne', 'F' if s == 'T' else 'T')
            else:
                p = self.pat_for(s, 1)
        else:
            k = atom[1]
            v = r.choice(POOL[k])
            if c < 0.4:
                p = ('obj', k, None)
            elif c < 0.5:
                p = ('obj', 'Value', None)
            elif c < 0.6 and k == "String":
                p = ('obj', k, r.choice([('bind', self.fresh()), ('rel', 'ge', ('i', 0)), ('obj', 'Int', None),
                                         ('rel', 'gt', ('i', 1)), ('lit', ('i', 2))]))
            elif c < 0.65 and k == "Bool":
                p = ('or', ('lit', 'T'), ('lit', 'F'))
            elif c < 0.72:
                p = ('rel', 'ne', 'N')
            elif c < 0.78:
                p = 'must'
            elif c < 0.83 and k == "String":
                p = ('interp', "a", "s0")
            else:
                p = self.pat_for(v, 1)
        c = r.random()
        if depth > 0:
            if c < 0.12:
                return ('as', p, self.fresh())
            if c < 0.2:
                return ('opt', P.strip_binders(p))
            if c < 0.3:
                q = self.capture(atom, depth - 1)
                return ('and', p, q) if not (p != 'must' and p[0] == 'obj') else ('and', q, p) if not (q != 'must' and q[0] == 'obj') else p
        return p


def atom_covered(env, cases, atom):
    """model-free: every sample value of the atom is matched by some catch"""
    return all(P.py_select(env, cases, v) != "else" for v in values_of(atom))


def gen_cov(rng):
    g = CovGen(rng)
    pool = ATOMS + [('lit', 'N')] * 4 + [('lit', 'T'), ('lit', 'F')]
    atoms = []
    for a in rng.sample(pool, rng.choice([1, 1, 2, 2, 3])):
        if a not in atoms:
            atoms.append(a)
    ty = atoms[0]
    for a in atoms[1:]:
        ty = ('u', ty, a)
    cases = []
    for a in atoms:
        if rng.random() < 0.85:
            cases.append(g.capture(a, 2))
    if rng.random() < 0.25 or not cases:
        cases.append(g.capture(rng.choice(ATOMS), 1))
    if rng.random() < 0.3 and len(cases) > 1:
        i = rng.randrange(len(cases) - 1)
        cases[i:i + 2] = [('or', P.strip_binders(cases[i]), P.strip_binders(cases[i + 1]))]
    rng.shuffle(cases)
    if rng.random() < 0.45:
        # adversarial: add a member of the thrown type that the catches do NOT cover (some sample value of it
        # escapes every catch): the checker must demand a throw signature
        cands = [a for a in ATOMS if a not in atoms and not atom_covered(P.ENV, cases, a)]
        if cands:
            ty = ('u', ty, rng.choice(cands + [c for c in cands if c == ('lit', 'N')] * 3))
    return make_cov(P.ENV, cases, ty)


def run_many(reqs, workers=8):
    n = max(1, min(workers, len(reqs) // 20 + 1))
    chunks = [reqs[i::n] for i in range(n)]
    with cf.ThreadPoolExecutor(n) as ex:
        res = list(ex.map(vlib.run_programs, chunks))
    byid = {}
    for ch in res:
        for a in ch:
            byid[a.get("id")] = a
    return [byid.get(r["id"], {"id": r["id"], "outcome": "fatal", "diags": [], "stdout": "", "panic": "no answer"}) for r in reqs]


def elk_verdict(ans):
    """accepted | uncovered (the checker demands the throw be caught/declared) | other:<diag>"""
    fails = [d["msg"] for d in ans.get("diags", []) if d.get("sev", "").upper().startswith("FAIL")]
    if ans["outcome"] == "panic":
        return "panic:" + ans.get("panic", "")[:100]
    if ans["outcome"] in ("timeout", "fatal"):
        return "other:" + ans["outcome"]
    if not ans.get("rejected"):
        return "accepted"
    if all("must be caught" in m for m in fails) and fails:
        return "uncovered"
    return "other:" + "; ".join(fails)[:200]


def check_cov(ctx, lines):
    parsed = [parse_cov(l) for l in lines]
    model = vlib.run_model(lines)
    # 1. the checker's verdict
    reqs = [{"id": "C%d" % i, "src": catch_program("PC%d" % i, env, cases, ty, []), "mode": "check", "timeout_ms": 30000}
            for i, (cfg, env, cases, ty) in enumerate(parsed)]
    verdicts = [elk_verdict(a) for a in run_many(reqs)]
    # 2. run every accepted one on the sample values of the thrown type
    run_idx = [i for i, v in enumerate(verdicts) if v == "accepted"]
    reqs = [{"id": "D%d" % i, "src": catch_program("PD%d" % i, parsed[i][1], parsed[i][2], parsed[i][3], values_of(parsed[i][3])),
             "timeout_ms": 30000} for i in run_idx]
    runs = dict(zip(run_idx, run_many(reqs)))
    ok = True
    other = 0
    for i, (ln, (cfg, env, cases, ty), mo) in enumerate(zip(lines, parsed, model)):
        vd = verdicts[i]
        ctx.stat("cov-elk:" + vd.split(":")[0])
        ctx.stat("cov-model:" + mo)
        vals = values_of(ty)
        want = [P.py_select(env, cases, v) for v in vals]
        covered_by_oracle = all(w != "else" for w in want)
        ctx.case(ln, nontrivial=(vd == "accepted"), sample={"line": ln, "elk": catch_program("P", env, cases, ty, [])[:400],
                                                             "checker": vd, "covers": mo})
        if vd.startswith("other") or vd.startswith("panic"):
            other += 1
            if vd.startswith("panic"):
                if ctx.violation("checker-panics", {"line": ln, "program": catch_program("P", env, cases, ty, [])}, vd):
                    ok = False
            continue
        if vd == "accepted":
            a = runs[i]
            if a["outcome"] in ("timeout", "fatal", "rejected"):
                other += 1      # machine load, not a verdict
                continue
            chunks = a["stdout"].split("@@\n")[1:]
            got = [c.strip() for c in chunks]
            if got and got[-1] == "" and a["outcome"] != "value":
                got.pop()        # the call after the last marker did not return
            bad = None
            for j, v in enumerate(vals):
                w = "c" + want[j].split(" ")[0] if want[j] != "else" else "uncaught"
                g = got[j] if j < len(got) else ("uncaught %s %s" % (a["outcome"], a.get("err_msg", "") or a.get("panic", "")))[:120]
                if j >= len(got) + 1:
                    break
                if g != w:
                    bad = (v, g, w)
                    break
            if bad is not None:
                v, g, w = bad
                prog = catch_program("P", env, cases, ty, [v])
                if g.startswith("uncaught"):
                    det = ("the checker accepts the catches as covering `%s` (no throw signature needed) but the value %s is "
                           "not caught: %s" % (elk_ty(ty), P.sx_value(v), g))
                else:
                    det = "value %s: Elk ran `%s`, the reference matcher selects `%s`" % (P.sx_value(v), g, w)
                if ctx.violation("property-fails", {"line": ln, "value": P.sx_value(v), "program": prog}, det):
                    ok = False
                continue
        elk_cov = vd == "accepted"
        if mo != "ok " + ("true" if elk_cov else "false"):
            # the model of the captured types disagrees with the checker although no value escapes
            if ctx.violation("model-impl-disagree", {"line": ln, "correspondence": "captured types / covers",
                                                     "program": catch_program("P", env, cases, ty, [])},
                             "checker: %s, Lean covers: %s; no uncaught value among %d samples (oracle covered=%s)"
                             % (vd, mo, len(vals), covered_by_oracle), no_input=True):
                ok = False
    ctx.obligation(f"exhaustiveness: checker verdict = Lean covers, and no value of an accepted thrown type escapes, on {len(lines)} "
                   "generated catch lists", ok, "correspondence")
    lim = max(3, len(lines) // 8)
    ctx.obligation(f"exhaustiveness: at most {lim} of {len(lines)} generated catch lists rejected for another reason ({other})",
                   other <= lim, "generator")
